package main

import "golang.org/x/tools/go/ssa"

func init() {
	register("C04",
		"Static writer↔reader agreement rules for RecordIO: the v4 header is emitted and consumed as the same field sequence, with the writer's arguments (len(record), compressed length, record==nil) and the reader's results mapped to the same fields; the marker literal equals uvarint(marker constant); every caller of a header reader honours the nil flag when consuming the payload; compression table, factory switch and file-header range check agree; offset accounting of Write (returned offset, advance by written bytes on both paths); Seek folds current into largest and Close truncates lingering bytes; the SeekNext scan advances by one after a partial marker match. Decides these shapes; payload equality, compression round trips and buffer-boundary behaviour are not decided.",
		[]string{"encoding/binary uvarint is the wire encoding on both sides", "compressors are inverse pairs (not checked)"},
		func(r *Report) {
			ruleFormat(r)
			ruleNilFlag(r)
			ruleCompressionTable(r)
			ruleOffsetAccounting(r)
			ruleSizeIsAppendPosition(r)
			ruleStickyWriteError(r)
			ruleTruncateOnClose(r)
			ruleScanStep(r)
			ruleHeaderCrc(r)
			ruleExactLength(r)
			ruleReaderErrflow(r)
			ruleCompressor(r)
			rulePoolPutOnce(r)
			ruleWriteCount(r)
			ruleReaderOffsets(r)
			ruleSeekTrial(r)
			ruleBufferedOrder(r)
			ruleSkipBounded(r)
			ruleSkipReadSiblings(r)
			ruleDecompressedLength(r)
			ruleDirectIOAligned(r)
			ruleDirectIOWriterBuffer(r)
			ruleAllocBounded(r)
			ruleFitsWithoutSum(r)
			ruleHeaderSizesChecked(r)
		})
	register("C12",
		"Static rules that a cut or header-damaged file cannot yield invented data: the header CRC is the same polynomial on both sides, covers exactly the four parsed fields, is reset before and taken before the stored checksum is read, and a mismatch or a wrong marker returns the documented error with no success return around the comparison; every payload read is exact-length (io.ReadFull with tested error, or ReadAt with the count compared to the expected length selected by compressor presence); the file header's version and compression ranges equal the constant tables and both Open paths go through that check; no error is dropped in the reader call graph (E-ERRFLOW). Decides these shapes; the prefix property over truncation lengths and CRC strength are not decided.",
		[]string{"io.ReadFull returns an error unless the buffer was filled", "CRC-32C detects header damage (collisions out of scope)"},
		func(r *Report) {
			ruleHeaderCrc(r)
			ruleExactLength(r)
			ruleCompressionTable(r)
			ruleFormat(r)
			ruleReaderErrflow(r)
			ruleSkipBounded(r)
			ruleTornRecordIsNotEOF(r)
			ruleNilFlag(r)
			ruleHeaderSizesChecked(r)
			ruleLzwWholeStream(r, "lzw-whole-stream")
		})
	register("C20",
		"Static agreement between the published Kaitai schema / its generated Go reader and the native writer: the compression enum (values and names) equals the writer's constant table in the .ksy and in the generated constants; the record field sequence and the marker literal equal the writer's header; the file header is two little-endian u4; the generated payload-length function is evaluated abstractly for the four cases the writer produces (nil record in a compressed / uncompressed file, uncompressed, compressed) and must yield 0 / 0 / uncompressed / compressed length; the schema expression mentions the same inputs. Decides these shapes; record-by-record equality for all files is not decided.",
		[]string{"Kaitai vlq_base128_le = Go uvarint", "the generated Go file is what the schema compiles to (only enum and payload-length inputs are cross-checked)"},
		func(r *Report) {
			ruleKaitai(r)
			ruleTornRecordIsNotEOF(r)
			ruleHeaderSizesChecked(r)
			ruleFormat(r)
			ruleHeaderCrc(r)
			ruleBufferedOrder(r)
			ruleCompressionTable(r)
			ruleTruncateOnClose(r)
			ruleOffsetAccounting(r)
			ruleWriterErrflow(r)
			// (repeat: eos — what an older, longer file leaves behind the writer's last byte is decoded as records)
			ruleCreateTruncates(r)
		})
}

func ruleReaderErrflow(r *Report) {
	r.Rule("reader-errflow", 30, "in the RecordIO readers no error is dropped, overwritten unchecked, or followed by a success return (reviewed end-of-file classifications excepted)")
	ef := newErrflow(r, "reader-errflow")
	var roots []*ssa.Function
	for _, k := range []string{"recordio.FileReader.Open", "recordio.FileReader.ReadNext", "recordio.FileReader.SkipNext", "recordio.MMapReader.Open", "recordio.MMapReader.ReadNextAt", "recordio.MMapReader.SeekNext"} {
		if fn := r.NeedFunc("reader-errflow", k); fn != nil {
			roots = append(roots, fn)
		}
	}
	for _, fn := range moduleReach(r.P, roots) {
		pk := fnPkg(fn)
		if pk == nil || shortPkg(pk.Path()) != "recordio" {
			continue
		}
		ef.Check(fn)
	}
}

// the writer side: a file reported as written is the file on disk
func ruleWriterErrflow(r *Report) {
	if _, done := r.RuleText["write-count"]; !done {
		ruleWriteCount(r)
	}
	r.Rule("writer-errflow", 10, "in the RecordIO file writer (Open/Write/WriteSync/Seek/Close and the buffered writer) no error is dropped or turned into success")
	ef := newErrflow(r, "writer-errflow")
	for _, k := range []string{"recordio.FileWriter.Open", "recordio.FileWriter.Write", "recordio.FileWriter.WriteSync", "recordio.FileWriter.Seek", "recordio.FileWriter.Close",
		"recordio.Writer.Flush", "recordio.Writer.Write", "recordio.Writer.Seek", "recordio.Writer.Close", "recordio.writeRecordHeaderV4", "recordio.writeFileHeader"} {
		if fn := r.NeedFunc("writer-errflow", k); fn != nil {
			ef.Check(fn)
		}
	}
}
