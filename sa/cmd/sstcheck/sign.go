package main

// E-SIGN: comparator results are values touched only through comparisons with constants, so a function's
// reaction to "less / equal / greater" is a finite question: evaluate every `If (c op K)` for the
// representative results {-2,-1,0,1,2} and ask which sites stay reachable. Equivalent rewrites of a test
// (`c > 0` vs `c >= 1` vs `!(c <= 0)`) give the same answer; a changed boundary (`>` → `>=`) does not.

import (
	"go/token"

	"golang.org/x/tools/go/ssa"
)

var signReps = []int64{-2, -1, 0, 1, 2}

func evalCmp(op token.Token, a, b int64) (bool, bool) {
	switch op {
	case token.EQL:
		return a == b, true
	case token.NEQ:
		return a != b, true
	case token.LSS:
		return a < b, true
	case token.LEQ:
		return a <= b, true
	case token.GTR:
		return a > b, true
	case token.GEQ:
		return a >= b, true
	}
	return false, false
}

// branchOn: if block b ends in `If (c op K)` (or `K op c`) for the tracked value c, return the successor taken for value val.
func branchOn(b *ssa.BasicBlock, c ssa.Value, val int64) (*ssa.BasicBlock, bool) {
	if len(b.Instrs) == 0 {
		return nil, false
	}
	iff, ok := b.Instrs[len(b.Instrs)-1].(*ssa.If)
	if !ok {
		return nil, false
	}
	bo, ok := iff.Cond.(*ssa.BinOp)
	if !ok {
		return nil, false
	}
	var res, okc bool
	if bo.X == c {
		k, isK := constInt(bo.Y)
		if !isK {
			return nil, false
		}
		res, okc = evalCmp(bo.Op, val, k)
	} else if bo.Y == c {
		k, isK := constInt(bo.X)
		if !isK {
			return nil, false
		}
		res, okc = evalCmp(bo.Op, k, val)
	} else {
		return nil, false
	}
	if !okc {
		return nil, false
	}
	if res {
		return b.Succs[0], true
	}
	return b.Succs[1], true
}

// signReach: blocks reachable from `from` when comparator result c has value val (Ifs on c are decided, others explored both ways).
// extra removed edges are honoured.
func signReach(from *ssa.BasicBlock, c ssa.Value, val int64, removed map[Edge]bool) map[*ssa.BasicBlock]bool {
	seen := map[*ssa.BasicBlock]bool{from: true}
	st := []*ssa.BasicBlock{from}
	for len(st) > 0 {
		b := st[len(st)-1]
		st = st[:len(st)-1]
		succs := b.Succs
		if t, ok := branchOn(b, c, val); ok {
			succs = []*ssa.BasicBlock{t}
		}
		for _, s := range succs {
			if removed[Edge{b, s}] || seen[s] {
				continue
			}
			seen[s] = true
			st = append(st, s)
		}
	}
	return seen
}

// signProfile: for each representative value, is any of the target sites reachable from the comparator call?
// Returns a 5-letter string over {R,-} for values -2,-1,0,1,2.
func signProfile(cmp Site, targets []Site, removed map[Edge]bool) string {
	c, ok := cmp.Instr.(ssa.Value)
	if !ok {
		return "?????"
	}
	out := make([]byte, 0, 5)
	for _, v := range signReps {
		reach := signReach(cmp.Block, c, v, removed)
		hit := false
		for _, t := range targets {
			if t.Block == cmp.Block && t.Idx > cmp.Idx {
				hit = true
			} else if t.Block != cmp.Block && reach[t.Block] {
				hit = true
			}
		}
		if hit {
			out = append(out, 'R')
		} else {
			out = append(out, '-')
		}
	}
	return string(out)
}

// paramOrigin: v is parameter p, a load of a cell initialised only from p, or a FreeVar bound to such a cell.
func paramOrigin(v ssa.Value) *ssa.Parameter {
	seen := map[ssa.Value]bool{}
	for v != nil && !seen[v] {
		seen[v] = true
		switch x := v.(type) {
		case *ssa.Parameter:
			return x
		case *ssa.UnOp:
			if x.Op != token.MUL {
				return nil
			}
			cell := rootCell(x.X)
			al, ok := cell.(*ssa.Alloc)
			if !ok {
				return nil
			}
			var only ssa.Value
			n := 0
			for _, f := range closuresOf(al.Parent()) {
				eachInstr(f, func(s Site) {
					if st, ok := s.Instr.(*ssa.Store); ok && isCell(st.Addr) && rootCell(st.Addr) == ssa.Value(al) {
						n++
						only = st.Val
					}
				})
			}
			if n != 1 {
				return nil
			}
			v = only
		case *ssa.ChangeType:
			v = x.X
		default:
			return nil
		}
	}
	return nil
}
