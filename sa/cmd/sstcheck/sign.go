package main

// E-SIGN: comparator results are values touched only through comparisons with constants, so a function's
// reaction to "less / equal / greater" is a finite question: evaluate every `If (c op K)` for the
// representative results {-2,-1,0,1,2} and ask which sites stay reachable. Equivalent rewrites of a test
// (`c > 0` vs `c >= 1` vs `!(c <= 0)`) give the same answer; a changed boundary (`>` → `>=`) does not.

import (
	"go/token"

	"golang.org/x/tools/go/ssa"
)

var signReps = []int64{-2, -1, 0, 1, 2}

func evalCmp(op token.Token, a, b int64) (bool, bool) {
	switch op {
	case token.EQL:
		return a == b, true
	case token.NEQ:
		return a != b, true
	case token.LSS:
		return a < b, true
	case token.LEQ:
		return a <= b, true
	case token.GTR:
		return a > b, true
	case token.GEQ:
		return a >= b, true
	}
	return false, false
}

// branchOn: if block b ends in `If (c op K)` (or `K op c`) for the tracked value c, return the successor taken for value val.
func branchOn(b *ssa.BasicBlock, c ssa.Value, val int64) (*ssa.BasicBlock, bool) {
	if len(b.Instrs) == 0 {
		return nil, false
	}
	iff, ok := b.Instrs[len(b.Instrs)-1].(*ssa.If)
	if !ok {
		return nil, false
	}
	bo, ok := iff.Cond.(*ssa.BinOp)
	if !ok {
		return nil, false
	}
	var res, okc bool
	if bo.X == c {
		k, isK := constInt(bo.Y)
		if !isK {
			return nil, false
		}
		res, okc = evalCmp(bo.Op, val, k)
	} else if bo.Y == c {
		k, isK := constInt(bo.X)
		if !isK {
			return nil, false
		}
		res, okc = evalCmp(bo.Op, k, val)
	} else {
		return nil, false
	}
	if !okc {
		return nil, false
	}
	if res {
		return b.Succs[0], true
	}
	return b.Succs[1], true
}

// signReach: blocks reachable from `from` when comparator result c has value val (Ifs on c are decided, others explored both ways).
// extra removed edges are honoured.
func signReach(from *ssa.BasicBlock, c ssa.Value, val int64, removed map[Edge]bool) map[*ssa.BasicBlock]bool {
	seen := map[*ssa.BasicBlock]bool{from: true}
	st := []*ssa.BasicBlock{from}
	for len(st) > 0 {
		b := st[len(st)-1]
		st = st[:len(st)-1]
		succs := b.Succs
		if t, ok := branchOn(b, c, val); ok {
			succs = []*ssa.BasicBlock{t}
		}
		for _, s := range succs {
			if removed[Edge{b, s}] || seen[s] {
				continue
			}
			seen[s] = true
			st = append(st, s)
		}
	}
	return seen
}

// signProfile: for each representative value, is any of the target sites reachable from the comparator call?
// Returns a 5-letter string over {R,-} for values -2,-1,0,1,2.
func signProfile(cmp Site, targets []Site, removed map[Edge]bool) string {
	c, ok := cmp.Instr.(ssa.Value)
	if !ok {
		return "?????"
	}
	out := make([]byte, 0, 5)
	for _, v := range signReps {
		reach := signReach(cmp.Block, c, v, removed)
		hit := false
		for _, t := range targets {
			if t.Block == cmp.Block && t.Idx > cmp.Idx {
				hit = true
			} else if t.Block != cmp.Block && reach[t.Block] {
				hit = true
			}
		}
		if hit {
			out = append(out, 'R')
		} else {
			out = append(out, '-')
		}
	}
	return string(out)
}

// paramOrigin: v is parameter p, a load of a cell initialised only from p, or a FreeVar bound to such a cell.
func paramOrigin(v ssa.Value) *ssa.Parameter {
	seen := map[ssa.Value]bool{}
	for v != nil && !seen[v] {
		seen[v] = true
		switch x := v.(type) {
		case *ssa.Parameter:
			return x
		case *ssa.UnOp:
			if x.Op != token.MUL {
				return nil
			}
			cell := rootCell(x.X)
			al, ok := cell.(*ssa.Alloc)
			if !ok {
				return nil
			}
			var only ssa.Value
			n := 0
			for _, f := range closuresOf(al.Parent()) {
				eachInstr(f, func(s Site) {
					if st, ok := s.Instr.(*ssa.Store); ok && isCell(st.Addr) && rootCell(st.Addr) == ssa.Value(al) {
						n++
						only = st.Val
					}
				})
			}
			if n != 1 {
				return nil
			}
			v = only
		case *ssa.ChangeType:
			v = x.X
		default:
			return nil
		}
	}
	return nil
}

// contentOrigin: the parameter whose CONTENT v carries — like paramOrigin, but it also looks through copies
// (bytes.Clone, slices.Clone, append(<fresh empty slice>, x...)) and through cells that are re-assigned, as long as
// every assignment carries the content of the same parameter (`k = bytes.Clone(k)`).
func contentOrigin(v ssa.Value) *ssa.Parameter {
	return contentOriginRec(v, map[ssa.Value]bool{})
}

func contentOriginRec(v ssa.Value, seen map[ssa.Value]bool) *ssa.Parameter {
	if v == nil || seen[v] {
		return nil
	}
	seen[v] = true
	switch x := v.(type) {
	case *ssa.Parameter:
		return x
	case *ssa.ChangeType:
		return contentOriginRec(x.X, seen)
	case *ssa.Call:
		switch CalleeKey(x) {
		case "bytes.Clone", "slices.Clone":
			if len(x.Call.Args) == 1 {
				return contentOriginRec(x.Call.Args[0], seen)
			}
		case "builtin.append":
			if len(x.Call.Args) == 2 {
				if sl, ok := x.Call.Args[0].(*ssa.Slice); ok {
					if _, fresh := sl.X.(*ssa.Alloc); fresh {
						return contentOriginRec(x.Call.Args[1], seen)
					}
				}
				if c, ok := x.Call.Args[0].(*ssa.Const); ok && c.IsNil() {
					return contentOriginRec(x.Call.Args[1], seen)
				}
			}
		}
		return nil
	case *ssa.UnOp:
		if x.Op != token.MUL {
			return nil
		}
		cell := rootCell(x.X)
		al, ok := cell.(*ssa.Alloc)
		if !ok {
			return nil
		}
		var origin *ssa.Parameter
		okAll, n := true, 0
		for _, f := range closuresOf(al.Parent()) {
			eachInstr(f, func(s Site) {
				st, ok := s.Instr.(*ssa.Store)
				if !ok || !isCell(st.Addr) || rootCell(st.Addr) != ssa.Value(al) {
					return
				}
				n++
				sub := map[ssa.Value]bool{}
				for k := range seen {
					sub[k] = true
				}
				delete(sub, v) // a re-assignment may read the cell itself: k = clone(k)
				po := func() *ssa.Parameter {
					// reading the same cell inside the stored value resolves to the other stores
					if ld, isLd := stripClone(st.Val).(*ssa.UnOp); isLd && ld.Op == token.MUL && rootCell(ld.X) == ssa.Value(al) {
						return origin
					}
					return contentOriginRec(st.Val, sub)
				}()
				if po == nil {
					if ld, isLd := stripClone(st.Val).(*ssa.UnOp); isLd && ld.Op == token.MUL && rootCell(ld.X) == ssa.Value(al) {
						return // self-copy: decided by the other stores
					}
					okAll = false
					return
				}
				if origin != nil && origin != po {
					okAll = false
				}
				origin = po
			})
		}
		if n == 0 || !okAll {
			return nil
		}
		return origin
	}
	return nil
}

// stripClone removes copy calls around v.
func stripClone(v ssa.Value) ssa.Value {
	for {
		c, ok := v.(*ssa.Call)
		if !ok {
			return v
		}
		switch CalleeKey(c) {
		case "bytes.Clone", "slices.Clone":
			if len(c.Call.Args) == 1 {
				v = c.Call.Args[0]
				continue
			}
		case "builtin.append":
			// append(<fresh empty slice>, x...) is a copy of x
			if len(c.Call.Args) == 2 {
				if sl, ok := c.Call.Args[0].(*ssa.Slice); ok {
					if _, fresh := sl.X.(*ssa.Alloc); fresh {
						v = c.Call.Args[1]
						continue
					}
				}
				if k, ok := c.Call.Args[0].(*ssa.Const); ok && k.IsNil() {
					v = c.Call.Args[1]
					continue
				}
			}
		}
		return v
	}
}

// isCopyOf: v is (after look-through of cells) the result of a copying call.
func isCopy(v ssa.Value) bool {
	switch x := v.(type) {
	case *ssa.Call:
		switch CalleeKey(x) {
		case "bytes.Clone", "slices.Clone":
			return true
		case "builtin.append":
			if len(x.Call.Args) == 2 {
				if sl, ok := x.Call.Args[0].(*ssa.Slice); ok {
					_, fresh := sl.X.(*ssa.Alloc)
					return fresh
				}
			}
		}
	case *ssa.UnOp:
		if x.Op == token.MUL && isCell(x.X) {
			vals, unk := reachingStores(x)
			if unk || len(vals) == 0 {
				return false
			}
			for _, sv := range vals {
				if !isCopy(sv) {
					return false
				}
			}
			return true
		}
	}
	return false
}
