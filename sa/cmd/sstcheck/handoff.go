package main

import (
	"fmt"

	"golang.org/x/tools/go/ssa"
)

// R-handoff-identity / R-handoff-order (C01, C05): the store handed to the flusher is the old write store and becomes
// the read store; the new write store is fresh; the table is visible (addReader) before the flush reports success.
func ruleHandoff(r *Report) {
	p := r.P
	const ri = "handoff-identity"
	r.Rule(ri, 1, "in the rotation the memstore handed to the flusher, the new read store and the old write store are one value; the new write store is a fresh memstore")
	const rh = "handoff-order"
	r.Rule(rh, 3, "in executeFlush the new table is made visible (addReader) only after flush and reader construction succeeded, and every success return passes addReader or the empty-memstore guard")
	// semantic anchor: the function that stores a freshly allocated RWMemstore into DB.memStore (outside the constructor)
	var swap *ssa.Function
	var swapStore *ssa.Store
	for _, fn := range p.FuncsOfPkg("simpledb") {
		eachInstr(fn, func(s Site) {
			st, ok := s.Instr.(*ssa.Store)
			if !ok {
				return
			}
			if t, f, base, ok := fieldAddrName(st.Addr); ok && t == "simpledb.DB" && f == "memStore" {
				if _, constructed := base.(*ssa.Alloc); !constructed {
					swap, swapStore = fn, st
				}
			}
		})
	}
	if swap == nil {
		r.Missing(ri, ri+"/swap", "no function stores into DB.memStore after construction")
	} else {
		r.Saw(swap)
		key := ri + "/" + FuncKey(swap)
		al, ok := swapStore.Val.(*ssa.Alloc)
		if !ok {
			r.Unk(ri, key, swapStore.Pos(), "DB.memStore is not assigned a fresh RWMemstore literal")
		} else {
			var readV, writeV ssa.Value
			for _, rf := range *al.Referrers() {
				if fa, ok := rf.(*ssa.FieldAddr); ok {
					name := refField(al.Type(), fa.Field)
					for _, rr := range *fa.Referrers() {
						if st, ok := rr.(*ssa.Store); ok {
							if name == "readStore" {
								readV = st.Val
							} else if name == "writeStore" {
								writeV = st.Val
							}
						}
					}
				}
			}
			// old write store: load of db.memStore.writeStore
			isOldWrite := func(v ssa.Value) bool {
				// through a local cell (the variable is address-taken because &storeToFlush is returned)
				if u, ok := v.(*ssa.UnOp); ok && isCell(u.X) {
					vals, unk := reachingStores(u)
					if !unk && len(vals) == 1 {
						v = vals[0]
					}
				}
				t, f, _, ok := loadOfField(v)
				return ok && t == "simpledb.RWMemstore" && f == "writeStore"
			}
			fresh := false
			if c, ok := writeV.(*ssa.Call); ok && CalleeKey(c) == "memstore.NewMemStore" {
				fresh = true
			}
			// returned pointer points to the same variable whose value became the read store
			retSame := false
			for _, rs := range returnsOf(swap) {
				for _, op := range rs.Instr.(*ssa.Return).Results {
					if a, ok := op.(*ssa.Alloc); ok {
						// the cell's stored value is the old write store
						for _, rf := range *a.Referrers() {
							if st, ok := rf.(*ssa.Store); ok && st.Addr == ssa.Value(a) && isOldWrite(st.Val) {
								// and readStore is a load of that cell
								if u, ok := readV.(*ssa.UnOp); ok && u.X == ssa.Value(a) {
									retSame = true
								}
							}
						}
					}
				}
			}
			switch {
			case !fresh:
				r.Bad(ri, key, swapStore.Pos(), "the new write store is not a fresh memstore.NewMemStore()")
			case !retSame:
				r.Bad(ri, key, swapStore.Pos(), "the memstore handed to the flusher is not the same value as the new read store / old write store: writes become invisible until (or are lost when) the flush completes")
			default:
				r.OK(ri, key, swapStore.Pos(), "handed-off store = new readStore = old writeStore; writeStore fresh")
			}
		}
	}
	// order in executeFlush
	if fn := r.NeedFunc(rh, "simpledb.executeFlush"); fn != nil {
		o := &order{r, p}
		F := CallsIn(fn, Suffix("MemStoreI.FlushWithTombstones", "MemStoreI.Flush"))
		N := CallsIn(fn, Keys("sstables.NewSSTableReader"))
		A := CallsIn(fn, Keys("simpledb.SSTableManager.addReader"))
		o.OnlyAfterSuccess(rh, rh+"/simpledb.executeFlush/addReader-after-flush", fn, "the table flush", F, "addReader", A, nil)
		o.OnlyAfterSuccess(rh, rh+"/simpledb.executeFlush/addReader-after-reader", fn, "NewSSTableReader", N, "addReader", A, nil)
		// success returns: through addReader, or the Size()==0 guard
		var guards []Edge
		for _, b := range liveBlocks(fn) {
			if len(b.Instrs) == 0 {
				continue
			}
			iff, ok := b.Instrs[len(b.Instrs)-1].(*ssa.If)
			if !ok {
				continue
			}
			bo, ok := iff.Cond.(*ssa.BinOp)
			if !ok {
				continue
			}
			isSize := func(v ssa.Value) bool {
				c, ok := v.(*ssa.Call)
				return ok && Suffix("MemStoreI.Size")(CalleeKey(c))
			}
			z := func(v ssa.Value) bool { i, ok := constInt(v); return ok && i == 0 }
			if (isSize(bo.X) && z(bo.Y)) || (isSize(bo.Y) && z(bo.X)) {
				for _, su := range b.Succs {
					if endsInNilReturn(su) {
						guards = append(guards, Edge{b, su})
					}
				}
			}
		}
		removed := map[Edge]bool{}
		for _, g := range guards {
			removed[g] = true
		}
		for _, a := range A {
			for _, su := range a.Block.Succs {
				removed[Edge{a.Block, su}] = true
			}
		}
		key := rh + "/simpledb.executeFlush/success-implies-visible"
		bad := false
		for _, nr := range nilReturns(fn) {
			inA := false
			for _, a := range A {
				if a.Block == nr.Block && a.Idx < nr.Idx {
					inA = true
				}
			}
			if !inA && siteReachable(nr, removed) {
				bad = true
			}
		}
		if bad || len(A) == 0 {
			r.Bad(rh, key, fn.Pos(), "executeFlush can report success without having made the new table visible (and not because the memstore was empty): the next rotation drops the memstore from the read path")
		} else {
			r.OK(rh, key, fn.Pos(), fmt.Sprintf("success only via addReader or %d empty-memstore guard edge(s)", len(guards)))
		}
	}
}
