package main

// sstcheck — static checks of go-sstables against /verif/properties.jsonl.
// Usage: sstcheck -prop C11 -tier quick|thorough [-repo /repo] [-verif /verif] [-cha] [-noevidence]
// Exit 0: every obligation discharged or matched to a listed known finding, all rule minimums met.
// Exit 1: otherwise, with `VIOLATION property=<id> replay=<path>` lines.

import (
	"crypto/sha1"
	"encoding/json"
	"flag"
	"fmt"
	"go/types"
	"os"
	"path/filepath"
	"runtime/debug"
	"sort"
	"strconv"
	"strings"
	"time"
)

type propDef struct {
	id    string
	run   func(r *Report)
	expl  string
	assum []string
}

var props = map[string]*propDef{}

func register(id string, expl string, assum []string, run func(r *Report)) {
	props[id] = &propDef{id: id, run: run, expl: expl, assum: assum}
}

type knownFinding struct {
	Property  string `json:"property"`
	Rule      string `json:"rule"`
	Key       string `json:"key"`
	WhatFails string `json:"what_fails"`
	Status    string `json:"status"` // "known" | "fixed"
	Commit    string `json:"commit,omitempty"`
}

func loadKnown(verif string) []knownFinding {
	var out []knownFinding
	b, err := os.ReadFile(filepath.Join(verif, "KNOWN_FINDINGS.json"))
	if err != nil {
		return nil
	}
	if err := json.Unmarshal(b, &out); err != nil {
		fmt.Fprintf(os.Stderr, "KNOWN_FINDINGS.json unreadable: %v\n", err)
		os.Exit(2)
	}
	return out
}

var trustedBase = []string{
	"Go type checker (go/types) and golang.org/x/tools v0.29.0 go/packages, go/ssa, callgraph/cha+vta",
	"documented contracts of the standard library summarised in the checker tables (io.ReadFull / binary.ReadUvarint error sets, hash.Hash.Write never fails, os.RemoveAll / MkdirAll idempotent, sync.RWMutex)",
	"x/exp/mmap.ReaderAt.ReadAt read-only and safe for concurrent use; capnp bufferpool.Pool = sync.Pool buckets; steakknife/bloomfilter.Filter takes its own RWMutex (confirmed by reading the cached module source)",
}

func main() {
	prop := flag.String("prop", "", "property id (C01..C20)")
	tier := flag.String("tier", "quick", "quick|thorough")
	repo := flag.String("repo", "/repo", "repository working tree")
	verif := flag.String("verif", "/verif", "verif directory (evidence, replay, known findings)")
	useCHA := flag.Bool("cha", false, "use the CHA call graph instead of VTA (thorough cross-check)")
	dumpTypes := flag.Bool("dumptypes", false, "print the unexported named types of the module with their shape as JSON (the reference table for renamed types) and exit")
	dumpFields := flag.Bool("dumpfields", false, "print the field names of every named struct type of the module as JSON (the reference table for refField) and exit")
	dumpFuncs := flag.Bool("dumpfuncs", false, "print the declared module functions (key, signature, declaration order) as JSON (the reference table for renamed helpers) and exit")
	dumpParams := flag.Bool("dumpparams", false, "print the parameter names of every module function as JSON (the reference table for refName) and exit")
	noEv := flag.Bool("noevidence", false, "do not write evidence / replay files (used by the mutation self-test)")
	jsonOut := flag.String("json", "", "write the obligation list to this file")
	goarch := flag.String("goarch", "", "GOARCH override for the load")
	goos := flag.String("goos", "", "GOOS override for the load")
	flag.Parse()

	ids := []string{*prop}
	if *prop == "all" {
		ids = nil
		for id := range props {
			if strings.HasPrefix(id, "C") {
				ids = append(ids, id)
			}
		}
		sort.Strings(ids)
	} else if strings.Contains(*prop, ",") {
		ids = strings.Split(*prop, ",")
	}
	for _, id := range ids {
		if props[id] == nil {
			fmt.Fprintf(os.Stderr, "unknown property %q\n", id)
			os.Exit(2)
		}
	}
	seed := 0
	if s := os.Getenv("VERIF_SEED"); s != "" {
		seed, _ = strconv.Atoi(s)
	}
	abs, _ := filepath.Abs(*repo)
	var env []string
	if *goarch != "" {
		env = append(env, "GOARCH="+*goarch)
	}
	if *goos != "" {
		env = append(env, "GOOS="+*goos)
	}
	loadStart := time.Now()
	var p *Prog
	var loadErr error
	func() {
		defer func() {
			if x := recover(); x != nil {
				loadErr = fmt.Errorf("loader panicked: %v", x)
			}
		}()
		p, loadErr = Load(abs, env)
	}()
	if p != nil {
		p.useCHA = *useCHA
	}
	if *dumpTypes {
		if p == nil {
			fmt.Fprintln(os.Stderr, loadErr)
			os.Exit(2)
		}
		b, _ := json.MarshalIndent(p.declaredTypes(), "", " ")
		fmt.Println(string(b))
		cleanScratch()
		return
	}
	if *dumpFields {
		if p == nil {
			fmt.Fprintln(os.Stderr, loadErr)
			os.Exit(2)
		}
		out := map[string][]string{}
		for path, pk := range p.All {
			if path != modPath && !strings.HasPrefix(path, modPath+"/") || pk.Types == nil {
				continue
			}
			sc := pk.Types.Scope()
			for _, name := range sc.Names() {
				tn, ok := sc.Lookup(name).(*types.TypeName)
				if !ok {
					continue
				}
				st, ok := tn.Type().Underlying().(*types.Struct)
				if !ok {
					continue
				}
				var names []string
				for i := 0; i < st.NumFields(); i++ {
					names = append(names, st.Field(i).Name())
				}
				out[typeShort(tn.Type())] = names
			}
		}
		b, _ := json.MarshalIndent(out, "", " ")
		fmt.Println(string(b))
		cleanScratch()
		return
	}
	if *dumpFuncs {
		if p == nil {
			fmt.Fprintln(os.Stderr, loadErr)
			os.Exit(2)
		}
		b, _ := json.MarshalIndent(p.declaredFuncs(), "", " ")
		fmt.Println(string(b))
		cleanScratch()
		return
	}
	if *dumpParams {
		if p == nil {
			fmt.Fprintln(os.Stderr, loadErr)
			os.Exit(2)
		}
		out := map[string][]string{}
		for _, fn := range p.ModuleFuncs() {
			var names []string
			for _, pa := range fn.Params {
				names = append(names, pa.Name())
			}
			if len(names) > 0 {
				out[FuncKey(fn)] = names
			}
		}
		b, _ := json.MarshalIndent(out, "", " ")
		fmt.Println(string(b))
		cleanScratch()
		return
	}
	loadDur := time.Since(loadStart)
	exit := 0
	for _, id := range ids {
		// the debugging pseudo-properties (DBG, SENT, ACQ) never write evidence
		if runOne(props[id], p, loadErr, loadDur, *tier, *verif, *noEv || !strings.HasPrefix(id, "C"), *jsonOut, seed, len(ids) > 1) {
			exit = 1
		}
	}
	cleanScratch()
	os.Exit(exit)
}

// runOne runs one property on the loaded program; returns true when the property fails.
func runOne(pd *propDef, p *Prog, loadErr error, loadDur time.Duration, tier, verif string, noEv bool, jsonOut string, seed int, multi bool) bool {
	start := time.Now().Add(-loadDur)
	uniqCount = map[string]int{}
	ef0count = map[string]int{}
	rep := NewReport(pd.id, nil)
	func() {
		defer func() {
			if x := recover(); x != nil {
				rep.Missing("analyser", "analyser/panic", fmt.Sprintf("analyser panicked: %v\n%s", x, debug.Stack()))
			}
		}()
		if loadErr != nil {
			rep.Missing("load", "load/"+pd.id, loadErr.Error())
			return
		}
		rep.P = p
		if len(p.Forwarders) > 0 {
			rep.Note("loader collapsed %d pure forwarder(s) onto the body they were outlined into: %s", len(p.Forwarders), strings.Join(p.Forwarders, "; "))
		}
		if len(p.Inlined) > 0 {
			rep.Note("loader analysed a copy of the tree in which the calls of helpers that are new since the reference tree are inlined (positions refer to that copy): %s", strings.Join(p.Inlined, "; "))
			if p.Threaded > 0 {
				rep.Note("%d result merges of inlined helpers were split into their nil and non-nil paths", p.Threaded)
			}
		}
		if len(p.Renamed) > 0 {
			rep.Note("loader recognised %d renamed helper(s) by package, receiver and signature: %s", len(p.Renamed), strings.Join(p.Renamed, "; "))
		}
		pd.run(rep)
	}()

	// rule minimums: a rule that matches fewer instances than confirmed by hand fails (never vacuous)
	count := map[string]int{}
	for _, o := range rep.Obls {
		count[o.Rule]++
	}
	for rule, min := range rep.RuleMin {
		if count[rule] < min {
			rep.Missing(rule, rule+"/minimum", fmt.Sprintf("rule matched %d instance(s), fewer than the %d confirmed on the reference tree", count[rule], min))
		}
	}

	known := loadKnown(verif)
	sort.SliceStable(rep.Obls, func(i, j int) bool {
		if rep.Obls[i].Rule != rep.Obls[j].Rule {
			return rep.Obls[i].Rule < rep.Obls[j].Rule
		}
		return rep.Obls[i].Key < rep.Obls[j].Key
	})

	var failing []int
	var knownMatched []string
	discharged, undecided := 0, 0
	for i := range rep.Obls {
		o := &rep.Obls[i]
		switch o.Verdict {
		case Discharged:
			discharged++
			continue
		case Undecided, Unresolved:
			undecided++
		}
		matched := false
		if o.Verdict == Violated {
			for _, k := range known {
				if k.Status == "known" && k.Property == pd.id && k.Rule == o.Rule && k.Key == o.Key {
					matched = true
					o.Known = k.WhatFails
					knownMatched = append(knownMatched, k.WhatFails)
					fmt.Printf("KNOWN-FINDING: property=%s %s [%s %s]\n", pd.id, k.WhatFails, o.Rule, o.Key)
				}
			}
		}
		if !matched {
			failing = append(failing, i)
		}
	}

	// human-readable summary
	fmt.Printf("== %s tier=%s packages=%d functions=%d obligations=%d discharged=%d failing=%d known=%d (%.1fs)\n",
		pd.id, tier, progPkgs(rep.P), len(rep.Funcs), len(rep.Obls), discharged, len(failing), len(knownMatched), time.Since(start).Seconds())
	rules := make([]string, 0, len(rep.RuleText))
	for r := range rep.RuleText {
		rules = append(rules, r)
	}
	sort.Strings(rules)
	for _, r := range rules {
		fmt.Printf("   rule %-28s instances=%-3d (min %d)  %s\n", r, count[r], rep.RuleMin[r], rep.RuleText[r])
	}
	if os.Getenv("VERIF_VERBOSE") != "" {
		for _, o := range rep.Obls {
			fmt.Printf("   %-10s %s  %s  %s\n", o.Verdict, o.Key, o.Pos, o.Detail)
		}
	}
	for _, n := range rep.Notes {
		fmt.Printf("   note: %s\n", n)
	}

	if jsonOut != "" {
		b, _ := json.MarshalIndent(rep.Obls, "", " ")
		_ = os.WriteFile(jsonOut, b, 0644)
	}

	for _, i := range failing {
		o := rep.Obls[i]
		h := sha1.Sum([]byte(o.Rule + "|" + o.Key))
		name := fmt.Sprintf("%s-%s-%x.json", pd.id, sanitize(o.Rule), h[:4])
		path := filepath.Join(verif, "replay", name)
		if !noEv {
			_ = os.MkdirAll(filepath.Dir(path), 0755)
			b, _ := json.MarshalIndent(map[string]any{
				"property": pd.id, "rule": o.Rule, "rule_text": rep.RuleText[o.Rule], "key": o.Key,
				"verdict": o.Verdict, "pos": o.Pos, "detail": o.Detail, "tier": tier,
			}, "", " ")
			_ = os.WriteFile(path, b, 0644)
		}
		fmt.Printf("   %s %s at %s: %s\n", strings.ToUpper(string(o.Verdict)), o.Key, o.Pos, o.Detail)
		fmt.Printf("VIOLATION property=%s replay=%s\n", pd.id, path)
	}

	if !noEv {
		writeEvidence(verif, pd, rep, tier, seed, count, discharged, undecided, len(failing), knownMatched, time.Since(start).Seconds())
	}
	if multi {
		verdict := "ok"
		if len(failing) > 0 {
			verdict = "fail"
		}
		fmt.Printf("RESULT %s %s\n", pd.id, verdict)
	}
	return len(failing) > 0
}

func progPkgs(p *Prog) int {
	if p == nil {
		return 0
	}
	return p.NumPkgs
}

func sanitize(s string) string {
	return strings.Map(func(r rune) rune {
		if r >= 'a' && r <= 'z' || r >= 'A' && r <= 'Z' || r >= '0' && r <= '9' || r == '-' {
			return r
		}
		return '_'
	}, s)
}

func writeEvidence(verif string, pd *propDef, rep *Report, tier string, seed int, count map[string]int,
	discharged, undecided, failing int, knownMatched []string, wall float64) {
	rules := map[string]any{}
	for r, t := range rep.RuleText {
		rules[r] = map[string]any{"instances": count[r], "minimum": rep.RuleMin[r], "text": t}
	}
	var samples []any
	perRule := map[string]int{}
	for _, o := range rep.Obls {
		if perRule[o.Rule] < 4 || o.Verdict != Discharged {
			perRule[o.Rule]++
			samples = append(samples, o)
		}
	}
	funcs := make([]string, 0, len(rep.Funcs))
	for f := range rep.Funcs {
		funcs = append(funcs, f)
	}
	sort.Strings(funcs)
	extra := map[string]any{}
	if b, err := os.ReadFile(filepath.Join(verif, "evidence", ".selftest-"+pd.id+".json")); err == nil && tier == "thorough" {
		var st any
		if json.Unmarshal(b, &st) == nil {
			extra["selftest"] = st
		}
	}
	cov := map[string]any{
		"explanation":            pd.expl,
		"obligations":            len(rep.Obls),
		"discharged":             discharged,
		"undecided":              undecided,
		"violated_unlisted":      failing,
		"known_findings_matched": knownMatched,
		"functions_analysed":     len(funcs),
		"functions":              funcs,
		"call_sites":             rep.CallSites,
		"packages_loaded":        progPkgs(rep.P),
		"rules":                  rules,
		"samples":                samples,
		"notes":                  rep.Notes,
		"checker_cmd":            fmt.Sprintf("bin/check %s %s", pd.id, tier),
		"trusted_base":           trustedBase,
		"exhaustive":             false,
	}
	for k, v := range extra {
		cov[k] = v
	}
	ev := map[string]any{
		"property_id": pd.id,
		"tier":        tier,
		"seed":        seed,
		"level":       "other",
		"coverage":    cov,
		"assumptions": pd.assum,
		"wall_s":      wall,
		"violations":  failing,
	}
	b, _ := json.MarshalIndent(ev, "", " ")
	_ = os.MkdirAll(filepath.Join(verif, "evidence"), 0755)
	if err := os.WriteFile(filepath.Join(verif, "evidence", pd.id+".json"), b, 0644); err != nil {
		fmt.Fprintf(os.Stderr, "cannot write evidence: %v\n", err)
		os.Exit(2)
	}
}
