package main

import (
	"go/token"
	"go/types"
	"strings"

	"golang.org/x/tools/go/ssa"
)

// R-buffered-order: the vendored buffered writer forwards bytes in the order they were written.
// Two shape facts carry that: (1) Write hands p directly to the file only when nothing is buffered (b.n == 0), never
// while earlier bytes are still pending; (2) a flush in the middle of a Write happens only after the buffer was topped
// up from p — the aligned (DirectIO) flavour always writes the whole zero-padded buffer, so a flush of a partly
// filled buffer in the middle of the stream puts padding between records.
func ruleBufferedOrder(r *Report) {
	const rule = "buffered-order"
	r.Rule(rule, 5, "recordio.Writer.Write bypasses the buffer only when the buffer is empty and never in the block-aligned flavour, and tops the buffer up from the argument before every flush inside the write loop")
	fn := r.NeedFunc(rule, "recordio.Writer.Write")
	if fn == nil {
		return
	}
	isField := func(v ssa.Value, name string) bool {
		t, f, _, ok := loadOfField(v)
		return ok && t == "recordio.Writer" && f == name
	}
	// (1) bypass sites: invoke b.wr.Write(...)
	var bypass []Site
	eachInstr(fn, func(s Site) {
		c, ok := s.Instr.(*ssa.Call)
		if !ok || !c.Call.IsInvoke() || c.Call.Method.Name() != "Write" {
			return
		}
		if isField(c.Call.Value, "wr") {
			bypass = append(bypass, s)
		}
	})
	key := rule + "/recordio.Writer.Write/bypass-only-when-empty"
	if len(bypass) == 0 {
		r.OK(rule, key, fn.Pos(), "Write never bypasses the buffer")
	} else {
		// delete the exact "n == 0" edges; the bypass must become unreachable
		removed := map[Edge]bool{}
		for _, b := range liveBlocks(fn) {
			cnd, tS, fS, tE, fE, ok := effCond(b)
			if !ok {
				continue
			}
			bo, isB := cnd.(*ssa.BinOp)
			if !isB {
				continue
			}
			// every way of asking "is the buffer empty": n == 0, n != 0, n > 0, n <= 0 (a count is never negative), with
			// the operands in either order
			for _, v := range cmpViews(bo) {
				z, isZ := constInt(v.Y)
				if !isZ || z != 0 || !isField(v.X, "n") {
					continue
				}
				switch v.Op {
				case token.EQL, token.LEQ:
					if tE {
						removed[Edge{b, tS}] = true
					}
				case token.NEQ, token.GTR:
					if fE {
						removed[Edge{b, fS}] = true
					}
				}
			}
		}
		bad := false
		for _, s := range bypass {
			if siteReachable(s, removed) {
				bad = true
				r.Bad(rule, key, s.Pos(), "the direct write to the file is reachable while bytes are still buffered (not only through the b.n == 0 edge): a large payload overtakes its own record header and earlier records, the data file is permuted")
			}
		}
		if !bad {
			r.OK(rule, key, bypass[0].Pos(), "direct write only through the b.n == 0 edge")
		}
	}
	// (1a') the count Write returns is the sum over all rounds of its loop: the direct write sits in that loop (earlier
	// rounds top up and flush the buffer), so its count is added to what the rounds before it took, never returned or
	// stored in place of it
	{
		ckey := rule + "/recordio.Writer.Write/count-accumulates"
		inLoop := func(s Site) bool {
			for _, su := range s.Block.Succs {
				if reachFrom(su, nil)[s.Block] {
					return true
				}
			}
			for _, pr := range s.Block.Preds {
				if reachFrom(s.Block, nil)[pr] && pr != s.Block {
					return true
				}
			}
			return false
		}
		bad := ""
		for _, bp := range bypass {
			// reachable from a round that went through the buffer?
			behindRound := inLoop(bp)
			if !behindRound {
				for _, b := range liveBlocks(fn) {
					for _, su := range b.Succs {
						if dominates(su, b) && reachFrom(su, nil)[bp.Block] {
							behindRound = true
						}
					}
				}
			}
			if !behindRound {
				continue
			}
			var cnt ssa.Value
			if refs := bp.Instr.(ssa.Value).Referrers(); refs != nil {
				for _, rf := range *refs {
					if ex, ok := rf.(*ssa.Extract); ok && ex.Index == 0 {
						cnt = ex
					}
				}
			}
			if cnt == nil {
				continue
			}
			for _, rs := range returnsOf(fn) {
				ret := rs.Instr.(*ssa.Return)
				if len(ret.Results) == 0 {
					continue
				}
				v := ret.Results[0]
				cands := []ssa.Value{v}
				if u, isU := v.(*ssa.UnOp); isU && u.Op == token.MUL && isCell(u.X) {
					if svs, unk := reachingStores(u); !unk {
						cands = svs
					}
				}
				for _, cv := range cands {
					if cv == cnt {
						bad = r.P.Pos(rs.Pos())
					}
					if ph, isPhi := cv.(*ssa.Phi); isPhi {
						for _, e := range ph.Edges {
							if e == cnt {
								bad = r.P.Pos(rs.Pos())
							}
						}
					}
				}
			}
		}
		if len(bypass) == 0 {
			r.OK(rule, ckey, fn.Pos(), "Write never bypasses the buffer")
		} else if bad != "" {
			r.Bad(rule, ckey, bypass[0].Pos(), "the count of the direct write is returned ("+bad+") in place of the sum of all rounds: a record that is larger than the free buffer plus one buffer went partly through the buffer first, the caller is told a short count — FileWriter.Write fails with \"mismatch in written record len\" for records above twice the write buffer, and with write buffers smaller than a record header Size() and every later offset drift")
		} else {
			r.OK(rule, ckey, bypass[0].Pos(), "the direct write's count is added to the rounds before it")
		}
	}
	// (1b) and never in the block-aligned flavour: the file is opened with O_DIRECT there, which takes whole aligned
	// blocks only — the caller's slice is neither
	key = rule + "/recordio.Writer.Write/bypass-never-when-aligned"
	if len(bypass) == 0 {
		r.OK(rule, key, fn.Pos(), "Write never bypasses the buffer")
	} else {
		removed := map[Edge]bool{}
		for _, b := range liveBlocks(fn) {
			cnd, tS, fS, tE, fE, ok := effCond(b)
			if !ok || !isField(cnd, "alignFlush") {
				continue
			}
			_, _ = tS, tE
			if fE {
				removed[Edge{b, fS}] = true // the "not aligned" side
			}
		}
		bad := false
		for _, s := range bypass {
			if siteReachable(s, removed) {
				bad = true
			}
		}
		if bad {
			r.Bad(rule, key, bypass[0].Pos(), "the direct write of the caller's slice is reachable in the block-aligned (DirectIO) flavour: a record larger than the free buffer plus one buffer (10000 bytes with a 4 KiB buffer, 9 MiB with the default) is handed to the O_DIRECT descriptor unaligned, write(2) fails with EINVAL and the error sticks to the writer")
		} else {
			r.OK(rule, key, bypass[0].Pos(), "direct write only in the unaligned flavour")
		}
	}
	// (1c) progress: with the bypass closed for aligned writers, an iteration that copies nothing into an empty buffer
	// (a writer that was given no buffer at all) would spin for ever; the copy's count is tested and the loop left
	key = rule + "/recordio.Writer.Write/loop-makes-progress"
	{
		progress := false
		eachInstr(fn, func(s Site) {
			c, ok := s.Instr.(*ssa.Call)
			if !ok {
				return
			}
			bi, isB := c.Call.Value.(*ssa.Builtin)
			if !isB || bi.Name() != "copy" || !reachFrom(s.Block, nil)[s.Block] {
				return
			}
			// an If on (copy result == 0) or on len(b.buf) == 0 whose one side leaves the loop with a return
			for _, b := range liveBlocks(fn) {
				cnd, tS, fS, _, _, ok := effCond(b)
				if !ok {
					continue
				}
				dep := valueDependsOn(cnd, func(x ssa.Value) bool { return x == ssa.Value(c) }) ||
					valueDependsOn(cnd, func(x ssa.Value) bool {
						lc, isC := x.(*ssa.Call)
						if !isC {
							return false
						}
						lb, isLB := lc.Call.Value.(*ssa.Builtin)
						return isLB && lb.Name() == "len" && isField(lc.Call.Args[0], "buf")
					})
				if !dep {
					continue
				}
				for _, su := range []*ssa.BasicBlock{tS, fS} {
					if _, isRet := su.Instrs[len(su.Instrs)-1].(*ssa.Return); isRet {
						progress = true
					}
				}
			}
		})
		if progress {
			r.OK(rule, key, fn.Pos(), "an iteration that cannot copy anything leaves the loop with an error")
		} else {
			r.Bad(rule, key, fn.Pos(), "the write loop can spin for ever: a block-aligned writer without a buffer (DirectIO() with BufferSizeBytes(0)) takes neither the bypass nor copies anything, and Flush of an empty buffer succeeds — FileWriter.Open never returns (NewWriteAheadLog with such a writer factory hangs at 100% CPU)")
		}
	}
	// (2) every Flush inside the loop is dominated by a copy into b.buf[b.n:] and the matching b.n update, in its block chain
	key = rule + "/recordio.Writer.Write/top-up-before-flush"
	flushes := CallsIn(fn, Keys("recordio.Writer.Flush"))
	n := 0
	for _, fl := range flushes {
		if !reachFrom(fl.Block, nil)[fl.Block] {
			continue // not in the loop
		}
		n++
		okCopy, okUpd := false, false
		eachInstr(fn, func(s Site) {
			if !precedes(s, fl) || !reachFrom(s.Block, nil)[s.Block] {
				return
			}
			if c, ok := s.Instr.(*ssa.Call); ok {
				if bi, isB := c.Call.Value.(*ssa.Builtin); isB && bi.Name() == "copy" {
					if sl, isS := c.Call.Args[0].(*ssa.Slice); isS && isField(sl.X, "buf") && sl.Low != nil && isField(sl.Low, "n") {
						okCopy = true
					}
				}
			}
			if st, ok := s.Instr.(*ssa.Store); ok {
				if t, f, _, isF := fieldAddrName(st.Addr); isF && t == "recordio.Writer" && f == "n" {
					okUpd = true
				}
			}
		})
		if okCopy && okUpd {
			r.OK(rule, key, fl.Pos(), "copy(b.buf[b.n:], p); b.n += n precede the flush")
		} else {
			r.Bad(rule, key, fl.Pos(), "the buffer is flushed inside the write loop without being topped up from the argument first: with the aligned (DirectIO) writer every flush writes the whole zero-padded buffer, so padding lands between records and the offsets Write returned no longer match the file")
		}
	}
	if n == 0 {
		r.OK(rule, key, fn.Pos(), "no flush inside the write loop")
	}
}

// R-direct-io-aligned: a file opened with O_DIRECT takes reads and writes of whole, aligned blocks at aligned offsets
// only. The direct-I/O factory gives the ordinary buffered reader / writer such a file; every place where they touch the
// file with a caller's slice or at a computed record offset breaks on it (EINVAL), or, for the writer's seek-back, loses
// what is written afterwards. (Known findings: the factory is documented as experimental and a repair means an aligned
// reader flavour, block-wise skipping and read-modify-write for seeks — more than a small patch.)
func ruleDirectIOAligned(r *Report) {
	const rule = "direct-io-aligned"
	r.Rule(rule, 6, "what the direct-I/O factory hands out never reads into a caller's slice directly and never seeks the O_DIRECT file to an offset that is not block aligned (no alignment arithmetic on the offset): Reader.Read bypass, the SkipNext seeks, Writer.Seek")
	p := r.P
	aligned := func(v ssa.Value) bool {
		return valueDependsOn(v, func(x ssa.Value) bool {
			bo, ok := x.(*ssa.BinOp)
			return ok && (bo.Op == token.AND_NOT || bo.Op == token.REM || bo.Op == token.QUO || bo.Op == token.AND)
		})
	}
	// (1) the reader's large-read bypass
	if fn := r.NeedFunc(rule, "recordio.Reader.Read"); fn != nil {
		key := rule + "/recordio.Reader.Read/no-bypass"
		var bypass []Site
		eachInstr(fn, func(s Site) {
			c, ok := s.Instr.(*ssa.Call)
			if !ok || !c.Call.IsInvoke() || c.Call.Method.Name() != "Read" {
				return
			}
			if _, f, _, isF := loadOfField(c.Call.Value); !isF || f != "rd" {
				return
			}
			if len(c.Call.Args) == 1 && len(fn.Params) > 1 && paramOrigin(c.Call.Args[0]) == fn.Params[1] {
				bypass = append(bypass, s)
			}
		})
		guarded := false
		for _, b := range liveBlocks(fn) {
			if cnd, _, _, _, _, ok := effCond(b); ok {
				if _, f, _, isF := loadOfField(cnd); isF && strings.Contains(strings.ToLower(f), "align") {
					guarded = true
				}
			}
		}
		switch {
		case len(bypass) == 0 || guarded:
			r.OK(rule, key, fn.Pos(), "no unguarded direct read into the caller's slice")
		default:
			r.Bad(rule, key, bypass[0].Pos(), "Reader.Read reads a large request directly into the caller's slice; the reader of the direct-I/O factory is this very reader on an O_DIRECT file, so a record of about two reader buffers (16 KiB with a 4096-byte buffer) or a zero tail longer than the buffer fails with EINVAL on an intact file")
		}
	}
	// (2) seeks of the file to record offsets
	for _, k := range []string{"recordio.FileReader.SkipNext", "recordio.SkipNextV1", "recordio.SkipNextV2", "recordio.SkipNextV3"} {
		fn := r.NeedFunc(rule, k)
		if fn == nil {
			continue
		}
		key := rule + "/" + k + "/seek-aligned"
		seeks := CallsIn(fn, Keys("os.File.Seek"))
		if len(seeks) == 0 {
			r.OK(rule, key, fn.Pos(), "does not seek the file")
			continue
		}
		bad := false
		for _, s := range seeks {
			a := argsOf(s.Call())
			if len(a) > 0 && !aligned(a[0]) {
				bad = true
			}
		}
		if bad {
			r.Bad(rule, key, seeks[0].Pos(), "SkipNext seeks the file to the unaligned start of the next record and resets the buffered reader there: on an O_DIRECT file (ReaderIoFactory(DirectIOFactory{})) the next block read fails with EINVAL, with default buffers and however the file was written")
		} else {
			r.OK(rule, key, seeks[0].Pos(), "seek offset is rounded to a block boundary")
		}
	}
	if fn := r.NeedFunc(rule, "recordio.Writer.Seek"); fn != nil {
		key := rule + "/recordio.Writer.Seek/seek-aligned"
		var seeks []Site
		eachInstr(fn, func(s Site) {
			if c, ok := s.Instr.(*ssa.Call); ok && c.Call.IsInvoke() && c.Call.Method.Name() == "Seek" {
				seeks = append(seeks, s)
			}
		})
		bad := false
		for _, s := range seeks {
			if a := s.Call().Common().Args; len(a) > 0 && !aligned(a[0]) {
				bad = true
			}
		}
		guarded := false
		for _, b := range liveBlocks(fn) {
			if cnd, _, _, _, _, ok := effCond(b); ok {
				if _, f, _, isF := loadOfField(cnd); isF && f == "alignFlush" {
					guarded = true
				}
			}
		}
		if bad && !guarded {
			r.Bad(rule, key, seeks[0].Pos(), "Writer.Seek positions the O_DIRECT file at the unaligned record offset: after a seek-back (the rollback the sstable writer performs when an index append fails) the following write succeeds into the buffer, Close fails with EINVAL and the file still serves the rolled-back record")
		} else {
			r.OK(rule, key, fn.Pos(), "seek keeps block alignment or is refused for aligned writers")
		}
	}
	_ = p
}

// R-sticky-write-error (C17, C02, C07, C04): the vendored buffered writer remembers the first error of the underlying
// writer (b.err) and refuses everything after it. That is what keeps a WAL file from growing behind a torn record: a Put
// whose record was cut (EFBIG, ENOSPC in the middle of a large direct write) is rejected — and so is every later one, until
// the file is rotated. A write error that is only returned lets later records be acknowledged behind the torn one; recovery
// reads them as the torn record's payload and drops them.
func ruleStickyWriteError(r *Report) {
	const rule = "sticky-write-error"
	r.Rule(rule, 2, "every call of the underlying writer's Write in recordio.Writer stores its error into the writer's sticky err field (so that all later writes are refused)")
	p := r.P
	n := 0
	for _, fn := range p.FuncsOfPkg("recordio") {
		if fn.Signature.Recv() == nil || !strings.HasSuffix(typeShort(fn.Signature.Recv().Type()), "recordio.Writer") {
			continue
		}
		eachInstr(fn, func(s Site) {
			c, ok := s.Instr.(*ssa.Call)
			if !ok || !c.Call.IsInvoke() || c.Call.Method.Name() != "Write" {
				return
			}
			if t, f, _, isF := loadOfField(c.Call.Value); !isF || t != "recordio.Writer" || f != "wr" {
				return
			}
			n++
			r.Saw(fn)
			key := uniqKey(r, rule+"/"+FuncKey(fn))
			isErrOfCall := func(x ssa.Value) bool {
				ex, isE := x.(*ssa.Extract)
				return isE && ex.Tuple == ssa.Value(c) && ex.Index == 1
			}
			stored := false
			eachInstr(fn, func(t Site) {
				st, isS := t.Instr.(*ssa.Store)
				if !isS {
					return
				}
				if ty, f, _, isF := fieldAddrName(st.Addr); isF && ty == "recordio.Writer" && f == "err" && valueDependsOn(st.Val, isErrOfCall) {
					stored = true
				}
			})
			if stored {
				r.OK(rule, key, s.Pos(), "the error of the underlying write becomes the writer's sticky error")
			} else {
				r.Bad(rule, key, s.Pos(), "the error of the underlying write is returned but not remembered: after a large record was cut by EFBIG / ENOSPC (rejected correctly), later appends to the same file succeed behind the torn record and are acknowledged; recovery takes them for the torn record's payload and silently drops them")
			}
		})
	}
	if n == 0 {
		r.Missing(rule, rule+"/none", "no write to the underlying writer found in recordio.Writer")
	}
}

// R-direct-io-writer-buffer (C04): the block-aligned writer flushes its whole buffer, and a file opened with O_DIRECT
// takes whole blocks only. The size the factory allocates for it has to be brought to a multiple of the block size; a
// size that is passed on as it is makes every flush fail with EINVAL for 1000, 4097, 5000, 100000 …
func ruleDirectIOWriterBuffer(r *Report) {
	const rule = "direct-io-writer-buffer"
	r.Rule(rule, 1, "in DirectIOFactory.CreateNewWriter the size handed to directio.AlignedBlock is related to directio.BlockSize first (a remainder or a round-up by the block size on the size parameter) instead of being the parameter as it is")
	fn := r.NeedFunc(rule, "recordio.DirectIOFactory.CreateNewWriter")
	if fn == nil {
		return
	}
	key := rule + "/recordio.DirectIOFactory.CreateNewWriter"
	blocks := CallsIn(fn, Keys("github.com/ncw/directio.AlignedBlock"))
	if len(blocks) == 0 {
		r.Unk(rule, key, fn.Pos(), "no aligned block is allocated")
		return
	}
	var size *ssa.Parameter
	for _, pa := range fn.Params {
		if bt, ok := pa.Type().Underlying().(*types.Basic); ok && bt.Info()&types.IsInteger != 0 {
			size = pa
		}
	}
	bs, haveBS := pkgConst(r.P, "directio", "BlockSize")
	related := false
	arg := blocks[0].Call().Common().Args[0]
	relatesTo := func(g *ssa.Function, of ssa.Value) bool {
		found := false
		eachInstr(g, func(s Site) {
			bo, ok := s.Instr.(*ssa.BinOp)
			if !ok {
				return
			}
			switch bo.Op {
			case token.REM, token.QUO, token.AND, token.AND_NOT:
			default:
				return
			}
			k, isK := constInt(bo.Y)
			if !isK || (haveBS && k != int64(bs) && k != int64(bs)-1) || (!haveBS && k != 4096 && k != 4095) {
				return
			}
			if of != nil && valueDependsOn(bo.X, func(x ssa.Value) bool { return x == of }) {
				found = true
			}
		})
		return found
	}
	if size != nil {
		related = relatesTo(fn, size)
	}
	if !related && size != nil {
		// the arithmetic in a newly extracted helper: it is handed the size, and the allocated size is built from its result
		eachInstr(fn, func(s Site) {
			c, ok := s.Instr.(*ssa.Call)
			if !ok {
				return
			}
			g := c.Call.StaticCallee()
			if g == nil || !isFresh(g) || len(g.Blocks) == 0 || !valueDependsOn(arg, func(x ssa.Value) bool { return x == ssa.Value(c) }) {
				return
			}
			for i, a := range c.Call.Args {
				if i < len(g.Params) && valueDependsOn(a, func(x ssa.Value) bool { return x == ssa.Value(size) }) && relatesTo(g, g.Params[i]) {
					related = true
				}
			}
		})
	}
	if related && arg != ssa.Value(size) {
		r.OK(rule, key, blocks[0].Pos(), "the buffer size is rounded to the block size")
	} else {
		r.Bad(rule, key, blocks[0].Pos(), "the buffer of the direct-I/O writer is allocated with the size option as it is: NewFileWriter(Path, DirectIO(), BufferSizeBytes(1000 | 4097 | 5000 | 100000)) fails with EINVAL at the first flush — with 100000 all Writes return offsets and Close fails, leaving the file without any of them")
	}
}
