package main

import (
	"go/token"

	"golang.org/x/tools/go/ssa"
)

// R-buffered-order: the vendored buffered writer forwards bytes in the order they were written.
// Two shape facts carry that: (1) Write hands p directly to the file only when nothing is buffered (b.n == 0), never
// while earlier bytes are still pending; (2) a flush in the middle of a Write happens only after the buffer was topped
// up from p — the aligned (DirectIO) flavour always writes the whole zero-padded buffer, so a flush of a partly
// filled buffer in the middle of the stream puts padding between records.
func ruleBufferedOrder(r *Report) {
	const rule = "buffered-order"
	r.Rule(rule, 3, "recordio.Writer.Write bypasses the buffer only when the buffer is empty and never in the block-aligned flavour, and tops the buffer up from the argument before every flush inside the write loop")
	fn := r.NeedFunc(rule, "recordio.Writer.Write")
	if fn == nil {
		return
	}
	isField := func(v ssa.Value, name string) bool {
		t, f, _, ok := loadOfField(v)
		return ok && t == "recordio.Writer" && f == name
	}
	// (1) bypass sites: invoke b.wr.Write(...)
	var bypass []Site
	eachInstr(fn, func(s Site) {
		c, ok := s.Instr.(*ssa.Call)
		if !ok || !c.Call.IsInvoke() || c.Call.Method.Name() != "Write" {
			return
		}
		if isField(c.Call.Value, "wr") {
			bypass = append(bypass, s)
		}
	})
	key := rule + "/recordio.Writer.Write/bypass-only-when-empty"
	if len(bypass) == 0 {
		r.OK(rule, key, fn.Pos(), "Write never bypasses the buffer")
	} else {
		// delete the exact "n == 0" edges; the bypass must become unreachable
		removed := map[Edge]bool{}
		for _, b := range liveBlocks(fn) {
			cnd, tS, fS, tE, fE, ok := effCond(b)
			if !ok {
				continue
			}
			bo, isB := cnd.(*ssa.BinOp)
			if !isB || (bo.Op != token.EQL && bo.Op != token.NEQ) {
				continue
			}
			var other ssa.Value
			if z, isZ := constInt(bo.Y); isZ && z == 0 {
				other = bo.X
			} else if z, isZ := constInt(bo.X); isZ && z == 0 {
				other = bo.Y
			}
			if other == nil || !isField(other, "n") {
				continue
			}
			if bo.Op == token.EQL && tE {
				removed[Edge{b, tS}] = true
			}
			if bo.Op == token.NEQ && fE {
				removed[Edge{b, fS}] = true
			}
		}
		bad := false
		for _, s := range bypass {
			if siteReachable(s, removed) {
				bad = true
				r.Bad(rule, key, s.Pos(), "the direct write to the file is reachable while bytes are still buffered (not only through the b.n == 0 edge): a large payload overtakes its own record header and earlier records, the data file is permuted")
			}
		}
		if !bad {
			r.OK(rule, key, bypass[0].Pos(), "direct write only through the b.n == 0 edge")
		}
	}
	// (1b) and never in the block-aligned flavour: the file is opened with O_DIRECT there, which takes whole aligned
	// blocks only — the caller's slice is neither
	key = rule + "/recordio.Writer.Write/bypass-never-when-aligned"
	if len(bypass) == 0 {
		r.OK(rule, key, fn.Pos(), "Write never bypasses the buffer")
	} else {
		removed := map[Edge]bool{}
		for _, b := range liveBlocks(fn) {
			cnd, tS, fS, tE, fE, ok := effCond(b)
			if !ok || !isField(cnd, "alignFlush") {
				continue
			}
			_, _ = tS, tE
			if fE {
				removed[Edge{b, fS}] = true // the "not aligned" side
			}
		}
		bad := false
		for _, s := range bypass {
			if siteReachable(s, removed) {
				bad = true
			}
		}
		if bad {
			r.Bad(rule, key, bypass[0].Pos(), "the direct write of the caller's slice is reachable in the block-aligned (DirectIO) flavour: a record larger than the free buffer plus one buffer (10000 bytes with a 4 KiB buffer, 9 MiB with the default) is handed to the O_DIRECT descriptor unaligned, write(2) fails with EINVAL and the error sticks to the writer")
		} else {
			r.OK(rule, key, bypass[0].Pos(), "direct write only in the unaligned flavour")
		}
	}
	// (2) every Flush inside the loop is dominated by a copy into b.buf[b.n:] and the matching b.n update, in its block chain
	key = rule + "/recordio.Writer.Write/top-up-before-flush"
	flushes := CallsIn(fn, Keys("recordio.Writer.Flush"))
	n := 0
	for _, fl := range flushes {
		if !reachFrom(fl.Block, nil)[fl.Block] {
			continue // not in the loop
		}
		n++
		okCopy, okUpd := false, false
		eachInstr(fn, func(s Site) {
			if !precedes(s, fl) || !reachFrom(s.Block, nil)[s.Block] {
				return
			}
			if c, ok := s.Instr.(*ssa.Call); ok {
				if bi, isB := c.Call.Value.(*ssa.Builtin); isB && bi.Name() == "copy" {
					if sl, isS := c.Call.Args[0].(*ssa.Slice); isS && isField(sl.X, "buf") && sl.Low != nil && isField(sl.Low, "n") {
						okCopy = true
					}
				}
			}
			if st, ok := s.Instr.(*ssa.Store); ok {
				if t, f, _, isF := fieldAddrName(st.Addr); isF && t == "recordio.Writer" && f == "n" {
					okUpd = true
				}
			}
		})
		if okCopy && okUpd {
			r.OK(rule, key, fl.Pos(), "copy(b.buf[b.n:], p); b.n += n precede the flush")
		} else {
			r.Bad(rule, key, fl.Pos(), "the buffer is flushed inside the write loop without being topped up from the argument first: with the aligned (DirectIO) writer every flush writes the whole zero-padded buffer, so padding lands between records and the offsets Write returned no longer match the file")
		}
	}
	if n == 0 {
		r.OK(rule, key, fn.Pos(), "no flush inside the write loop")
	}
}
