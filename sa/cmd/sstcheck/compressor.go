package main

import (
	"fmt"
	"sort"
	"strings"

	"golang.org/x/tools/go/ssa"
)

// R-compressor (C04, C03): each compressor's four methods use one codec family with the same parameters, close the
// codec writer before taking the bytes, start from an emptied destination buffer, and the factory maps each
// compression constant to the compressor of that name.
func ruleCompressor(r *Report) {
	const rule = "compressor"
	r.Rule(rule, 10, "per compression type: compress and decompress use the same codec with the same constant parameters; the codec writer is closed successfully before the compressed bytes are taken; caller-supplied destination buffers are emptied (dst[:0]) before use; the factory maps each compression constant to the compressor of that name; no error is dropped")
	ruleLzwWholeStream(r, rule)
	p := r.P
	type codecUse struct {
		family string
		params string
	}
	byType := map[string]map[string][]codecUse{} // type → "compress"/"decompress" → uses
	for _, fn := range p.FuncsOfPkg("recordio/compressor") {
		if fn.Signature.Recv() == nil {
			continue
		}
		tn := typeShort(fn.Signature.Recv().Type())
		side := ""
		switch {
		case strings.HasPrefix(fnName(fn), "Compress"):
			side = "compress"
		case strings.HasPrefix(fnName(fn), "Decompress"):
			side = "decompress"
		default:
			continue
		}
		r.Saw(fn)
		for _, f := range moduleReach(p, []*ssa.Function{fn}) {
			eachInstr(f, func(s Site) {
				c, ok := s.Instr.(*ssa.Call)
				if !ok {
					return
				}
				k := CalleeKey(c)
				fam := ""
				switch {
				case strings.HasPrefix(k, "compress/lzw.New"):
					fam = "lzw"
				case strings.HasPrefix(k, "compress/gzip.New"):
					fam = "gzip"
				case strings.HasPrefix(k, "github.com/golang/snappy.Encode"), strings.HasPrefix(k, "github.com/golang/snappy.Decode"):
					fam = "snappy"
				case (strings.HasPrefix(k, "compress/") || strings.Contains(k, "snappy.")) && strings.Contains(k, ".New"):
					fam = k[:strings.LastIndex(k, ".")]
				}
				if fam == "" {
					return
				}
				var ps []string
				if fam == "lzw" {
					for _, a := range c.Call.Args[1:] {
						if cv, ok := a.(*ssa.Const); ok {
							ps = append(ps, cv.Value.ExactString())
						} else {
							ps = append(ps, "?")
						}
					}
				}
				if byType[tn] == nil {
					byType[tn] = map[string][]codecUse{}
				}
				byType[tn][side] = append(byType[tn][side], codecUse{fam, strings.Join(ps, ",")})
			})
		}
		// destination buffer emptied before use (only the WithBuf flavours have one)
		if strings.HasSuffix(fnName(fn), "WithBuf") {
			for _, s := range CallsIn(fn, Keys("bytes.NewBuffer")) {
				a := s.Call().Common().Args[0]
				po := paramOrigin(a)
				sl, isSl := a.(*ssa.Slice)
				if po != nil && refName(po) == "destinationBuffer" {
					r.Bad(rule, ef0uniq(rule+"/"+FuncKey(fn)+"/dst-emptied"), s.Pos(), "the caller's (pooled) destination buffer is used without being emptied: output is appended to stale content")
				} else if isSl {
					if pp := paramOrigin(sl.X); pp != nil && refName(pp) == "destinationBuffer" {
						hi, okH := constInt(sl.High)
						if sl.Low == nil && okH && hi == 0 {
							r.OK(rule, ef0uniq(rule+"/"+FuncKey(fn)+"/dst-emptied"), s.Pos(), "destinationBuffer[:0]")
						} else {
							r.Bad(rule, ef0uniq(rule+"/"+FuncKey(fn)+"/dst-emptied"), s.Pos(), "the destination buffer is resliced to something else than [:0]")
						}
					}
				}
			}
		}
	}
	var types []string
	for t := range byType {
		types = append(types, t)
	}
	sort.Strings(types)
	if len(types) == 0 {
		r.Missing(rule, rule+"/types", "no compressor type found")
	}
	for _, t := range types {
		key := rule + "/" + t + "/codec-pair"
		c, d := byType[t]["compress"], byType[t]["decompress"]
		ok := len(c) > 0 && len(d) > 0
		sig := ""
		for _, u := range append(append([]codecUse{}, c...), d...) {
			if sig == "" {
				sig = u.family + "(" + u.params + ")"
			} else if sig != u.family+"("+u.params+")" {
				ok = false
			}
		}
		if ok {
			r.OK(rule, key, 0, fmt.Sprintf("%d compress / %d decompress sites all use %s", len(c), len(d), sig))
		} else {
			r.Bad(rule, key, 0, fmt.Sprintf("compress side %v and decompress side %v do not use one codec with the same parameters: written records cannot be read back", c, d))
		}
	}
	// codec writer closed before the bytes are taken
	o := &order{r, p}
	for _, fn := range p.FuncsOfPkg("recordio/compressor") {
		cl := CallsIn(fn, func(k string) bool {
			return k == "compress/gzip.Writer.Close" || k == "compress/lzw.Writer.Close" || k == "io.Closer.Close" || k == "io.WriteCloser.Close"
		})
		if len(cl) == 0 {
			continue
		}
		bytesCalls := CallsIn(fn, Keys("bytes.Buffer.Bytes"))
		if len(bytesCalls) == 0 {
			continue
		}
		o.OnlyAfterSuccess(rule, rule+"/"+FuncKey(fn)+"/close-before-bytes", fn, "closing the codec writer", cl, "taking the compressed bytes", bytesCalls, nil)
	}
	// factory mapping
	if fn := r.NeedFunc(rule, "recordio.NewCompressorForType"); fn != nil {
		consts := compressionConsts(p)
		byVal := map[int64]string{}
		for n, v := range consts {
			byVal[v] = n
		}
		key := rule + "/recordio.NewCompressorForType/mapping"
		bad := ""
		n := 0
		for _, b := range liveBlocks(fn) {
			if len(b.Instrs) == 0 {
				continue
			}
			iff, ok := b.Instrs[len(b.Instrs)-1].(*ssa.If)
			if !ok {
				continue
			}
			bo, ok := iff.Cond.(*ssa.BinOp)
			if !ok || bo.X != ssa.Value(fn.Params[0]) {
				continue
			}
			k, ok := constInt(bo.Y)
			if !ok {
				continue
			}
			name := byVal[k]
			// the true edge returns an allocation of which type?
			t := b.Succs[0]
			ret, isR := t.Instrs[len(t.Instrs)-1].(*ssa.Return)
			if !isR {
				continue
			}
			n++
			v := stripIface(ret.Results[0])
			if name == "none" {
				if !isNilConst(ret.Results[0]) {
					bad = "code 0 (none) does not yield a nil compressor"
				}
				continue
			}
			al, isA := v.(*ssa.Alloc)
			if !isA || !strings.Contains(strings.ToLower(typeShort(al.Type())), name) {
				bad = fmt.Sprintf("code %d (%s) does not yield the %s compressor", k, name, name)
			}
		}
		if bad != "" || n < len(consts) {
			r.Bad(rule, key, fn.Pos(), "compression code → compressor mapping is wrong: "+bad)
		} else {
			r.OK(rule, key, fn.Pos(), fmt.Sprintf("%d codes map to the compressor of their name", n))
		}
	}
	ef := newErrflow(r, rule)
	for _, fn := range p.FuncsOfPkg("recordio/compressor") {
		ef.Check(fn)
	}
}
