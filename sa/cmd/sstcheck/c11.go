package main

import "golang.org/x/tools/go/ssa"

func init() {
	register("C11",
		"Static error-discipline analysis (E-ERRFLOW) over the merge / compaction / flush call-graph slice: for every call that can return a non-nil error, every CFG path is followed on SSA; the error must be tested, propagated (directly or wrapped), stored into state, or stop the process; a path on which it is non-nil must not end in a nil-error return. Plus must-pass-through rules (E-ORDER) that the compaction success flag and the installation of the result are unreachable from a failed merge. Decides the structural necessary condition 'no error value is dropped, overwritten unchecked or turned into success on these paths'; it does not inject faults, so it says nothing about failures that do not surface as error values.",
		[]string{
			"I/O failures surface as Go error values (not panics, not short counts without error)",
			"end-of-stream sentinels listed in the classification table are the only errors a loop may treat as normal termination",
			"interface calls are resolved with the VTA call graph; callees outside the module are assumed fallible unless listed in the infallible table",
		},
		runC11)
}

func c11Roots(p *Prog) []string {
	return []string{
		"sstables.SSTableMerger.Merge", "sstables.SSTableMerger.MergeCompact", "sstables.SSTableMerger.MergeCompactIterator",
		"sstables.MergeCompactionIterator.Next", "sstables.SSTableMergeIteratorContext.Next",
		"simpledb.executeCompaction", "simpledb.saveCompactionMetadata", "simpledb.SSTableManager.reflectCompactionResult",
		"simpledb.executeFlush", "simpledb.flushMemstoreContinuously", "simpledb.backgroundCompaction",
		"memstore.MemStore.Flush", "memstore.MemStore.FlushWithTombstones",
		"sstables.SSTableStreamWriter.Open", "sstables.SSTableStreamWriter.WriteNext", "sstables.SSTableStreamWriter.Close",
		"sstables.SSTableSimpleWriter.WriteSkipListMap",
		"sstables.SSTableFullScanIterator.Next", "sstables.SSTableIterator.Next",
		"recordio.FileWriter.Open", "recordio.FileWriter.Write", "recordio.FileWriter.WriteSync", "recordio.FileWriter.Close", "recordio.FileWriter.Seek",
	}
}

func runC11(r *Report) {
	p := r.P
	r.Rule("errflow", 60, "no error produced on the merge/compaction/flush call graph is dropped, overwritten unchecked, or followed by a nil-error return on a path where it is non-nil")
	var roots []*ssa.Function
	for _, k := range c11Roots(p) {
		if fn := r.NeedFunc("errflow", k); fn != nil {
			roots = append(roots, fn)
		}
	}
	ef := newErrflow(r, "errflow")
	scope := moduleReach(p, roots)
	for _, fn := range scope {
		ef.Check(fn)
		ef.CheckDeferPreserve(fn)
	}
	r.Note("errflow scope: %d module functions reachable from %d roots", len(scope), len(roots))
	c11FlagRules(r)
	ruleWriteCount(r)
	ruleInputsValidated(r)
	ruleSentinelForm(r, "pq", "sstables", "memstore", "simpledb", "skiplist")
	ruleSentinelProducible(r, "pq", "sstables", "memstore", "simpledb")
	rulePanicNotParked(r)
	ruleJoin(r)
	ruleErrorIsLooksAtTarget(r)
	ruleQueueFailureIsFinal(r, "queue-failure-is-final")
	ruleTornRecordIsNotEOF(r)
	// (the failure of the merged table's Close is reported before the flag says the compaction succeeded)
	ruleFlagAfterClose(r)
}
