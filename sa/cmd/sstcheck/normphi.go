package main

// The second way of inlining (inlinefresh.go: blockInline) leaves the helper's results in variables that every return of
// the former helper assigns before it leaves the body: `_iN_r0 = fmt.Errorf(…); break` on the failing paths, `_iN_r0 = nil;
// break` at the end, and behind the body `err := _iN_r0; if err != nil {…}`. In the flow graph the paths meet in a block
// with phi(errA, errB, nil) and part again at the test, which reads as if the path on which the flush failed could go on
// as the success path. Before the extraction the failing path returned on the spot. threadInlinedResults gives the graph
// that shape back: where a block holds nothing but phis of such result variables, the nil test of one of them and the If,
// and every incoming value of the tested phi is either the nil constant or known not to be nil (fmt.Errorf, errors.New, a
// boxed value, a value that a dominating test has found non-nil), the edges that bring nil go straight to the nil
// successor and the block goes on to the other one without a test. The same shape written by hand (`if … { err = fmt.Errorf(…)
// } else if … { err = g() …}; if err != nil {…}`) is treated alike: what is removed are paths that no execution takes.

import (
	"go/constant"
	"go/token"
	"go/types"
	"os"
	"reflect"
	"regexp"
	"strings"
	"unsafe"

	"golang.org/x/tools/go/ssa"
)

var inlinedResultName = regexp.MustCompile(`^_i[0-9]+_r[0-9]+$`)

// setInstrBlock sets the unexported block pointer of an instruction (the first field of the innermost embedded
// anInstruction).
func setInstrBlock(ins ssa.Instruction, b *ssa.BasicBlock) {
	v := reflect.ValueOf(ins).Elem()
	for v.Kind() == reflect.Struct {
		f := v.Field(0)
		if f.Kind() == reflect.Ptr && f.Type() == reflect.TypeOf(b) {
			*(**ssa.BasicBlock)(unsafe.Pointer(f.UnsafeAddr())) = b
			return
		}
		v = f
	}
}

func newJump(b *ssa.BasicBlock) *ssa.Jump {
	j := new(ssa.Jump)
	f := reflect.ValueOf(j).Elem().Field(0).Field(0)
	*(**ssa.BasicBlock)(unsafe.Pointer(f.UnsafeAddr())) = b
	return j
}

// knownNonNil: v is not nil when control is at the end of block pb.
func knownNonNil(v ssa.Value, pb *ssa.BasicBlock) bool {
	switch x := v.(type) {
	case *ssa.MakeInterface:
		return true
	case *ssa.Call:
		switch CalleeKey(x) {
		case "fmt.Errorf", "errors.New":
			return true
		}
	case *ssa.UnOp:
		// a sentinel: a package-level error variable that is set once, where it is declared
		if g, isG := x.X.(*ssa.Global); isG && x.Op == token.MUL && sentinelGlobal(g) {
			return true
		}
	}
	c := pb
	for step := 0; step < 16 && c != nil && len(c.Preds) == 1; step++ {
		d := c.Preds[0]
		if len(d.Instrs) > 0 {
			if iff, ok := d.Instrs[len(d.Instrs)-1].(*ssa.If); ok && len(d.Succs) == 2 && d.Succs[0] != d.Succs[1] {
				if bo, ok := iff.Cond.(*ssa.BinOp); ok && (bo.Op == token.NEQ || bo.Op == token.EQL) {
					var other ssa.Value
					if bo.X == v {
						other = bo.Y
					} else if bo.Y == v {
						other = bo.X
					}
					if other != nil && isNilConst(other) {
						if (bo.Op == token.NEQ && d.Succs[0] == c) || (bo.Op == token.EQL && d.Succs[1] == c) {
							return true
						}
					}
				}
			}
		}
		c = d
	}
	return false
}

// edgeDecides: pb itself ends in the nil test of v and goes to `to` on one side only; it returns +1 when that side is the
// non-nil one, -1 for the nil one, 0 otherwise.
func edgeDecides(v ssa.Value, pb, to *ssa.BasicBlock) int {
	if len(pb.Instrs) == 0 || len(pb.Succs) != 2 || pb.Succs[0] == pb.Succs[1] {
		return 0
	}
	iff, ok := pb.Instrs[len(pb.Instrs)-1].(*ssa.If)
	if !ok {
		return 0
	}
	bo, ok := iff.Cond.(*ssa.BinOp)
	if !ok || (bo.Op != token.NEQ && bo.Op != token.EQL) {
		return 0
	}
	if !((bo.X == v && isNilConst(bo.Y)) || (bo.Y == v && isNilConst(bo.X))) {
		return 0
	}
	onTrue := pb.Succs[0] == to
	if (bo.Op == token.NEQ) == onTrue {
		return 1
	}
	return -1
}

// knownNil: a dominating test on the way to the end of block pb (a chain of single predecessors) has found v nil.
func knownNil(v ssa.Value, pb *ssa.BasicBlock) bool {
	c := pb
	for step := 0; step < 16 && c != nil && len(c.Preds) == 1; step++ {
		d := c.Preds[0]
		if len(d.Instrs) > 0 {
			if iff, ok := d.Instrs[len(d.Instrs)-1].(*ssa.If); ok && len(d.Succs) == 2 && d.Succs[0] != d.Succs[1] {
				if bo, ok := iff.Cond.(*ssa.BinOp); ok && (bo.Op == token.NEQ || bo.Op == token.EQL) {
					var other ssa.Value
					if bo.X == v {
						other = bo.Y
					} else if bo.Y == v {
						other = bo.X
					}
					if other != nil && isNilConst(other) {
						if (bo.Op == token.NEQ && d.Succs[1] == c) || (bo.Op == token.EQL && d.Succs[0] == c) {
							return true
						}
					}
				}
			}
		}
		c = d
	}
	return false
}

func (p *Prog) threadInlinedResults() int {
	if os.Getenv("SSTCHECK_NOTHREAD") != "" {
		return 0
	}
	theProgFns = nil
	sentinelGlobalCache = map[*ssa.Global]bool{}
	for fn := range p.allFns {
		if fn.Blocks != nil {
			theProgFns = append(theProgFns, fn)
		}
	}
	total := 0
	for _, fn := range p.modFns {
		foldDecidedNilTests(fn)
		for changed := true; changed; {
			changed = false
			for _, b := range fn.Blocks {
				if threadResultBlock(fn, b) {
					changed = true
					total++
					delete(domCache, fn)
					break
				}
			}
		}
	}
	if want := os.Getenv("SSTCHECK_DUMPFN"); want != "" {
		for _, fn := range p.modFns {
			if FuncKey(fn) == want {
				fn.WriteTo(os.Stderr)
			}
		}
	}
	return total
}

func threadResultBlock(fn *ssa.Function, b *ssa.BasicBlock) bool {
	n := len(b.Instrs)
	if n < 3 || len(b.Succs) != 2 || len(b.Preds) < 2 || b.Succs[0] == b.Succs[1] {
		return false
	}
	iff, ok := b.Instrs[n-1].(*ssa.If)
	if !ok {
		return false
	}
	cmp, ok := b.Instrs[n-2].(*ssa.BinOp)
	if !ok || iff.Cond != ssa.Value(cmp) || (cmp.Op != token.NEQ && cmp.Op != token.EQL) {
		return false
	}
	if rr := cmp.Referrers(); rr == nil || len(*rr) != 1 {
		return false
	}
	// the block: phis, then (where the results are kept in variables that a closure shares, or in named results that a
	// defer sees) the variables' allocations, the stores of the phis into them and the load of the one that is tested
	var phis []*ssa.Phi
	var middle []ssa.Instruction
	for _, ins := range b.Instrs[:n-2] {
		if ph, isPhi := ins.(*ssa.Phi); isPhi && len(middle) == 0 {
			phis = append(phis, ph)
			continue
		}
		switch x := ins.(type) {
		case *ssa.Alloc, *ssa.Store:
		case *ssa.UnOp:
			if x.Op != token.MUL {
				return false
			}
			// used in this block only
			if rr := x.Referrers(); rr != nil {
				for _, u := range *rr {
					if u.Block() != b {
						return false
					}
				}
			}
		default:
			return false
		}
		middle = append(middle, ins)
	}
	operand := cmp.X
	if isNilConst(cmp.X) {
		operand = cmp.Y
	} else if !isNilConst(cmp.Y) {
		return false
	}
	var tested *ssa.Phi
	if ph, isPhi := operand.(*ssa.Phi); isPhi {
		tested = ph
	} else if ld, isLoad := operand.(*ssa.UnOp); isLoad && ld.Op == token.MUL && ld.Block() == b {
		// the load of a variable: what the last store in front of it put there
		var last *ssa.Store
		for _, ins := range middle {
			if ins == ssa.Instruction(ld) {
				break
			}
			if st, isS := ins.(*ssa.Store); isS && st.Addr == ld.X {
				last = st
			}
		}
		if last != nil {
			tested, _ = last.Val.(*ssa.Phi)
		}
	}
	if tested == nil || tested.Block() != b {
		return false
	}
	nonNilSucc, nilSucc := b.Succs[0], b.Succs[1]
	if cmp.Op == token.EQL {
		nonNilSucc, nilSucc = nilSucc, nonNilSucc
	}
	if nonNilSucc == b || nilSucc == b {
		return false
	}
	var nilPreds, keepPreds []int
	for i, e := range tested.Edges {
		d := edgeDecides(e, b.Preds[i], b)
		switch {
		case isNilConst(e), d < 0, d == 0 && knownNil(e, b.Preds[i]):
			nilPreds = append(nilPreds, i)
		case d > 0, d == 0 && knownNonNil(e, b.Preds[i]):
			keepPreds = append(keepPreds, i)
		default:
			return false
		}
	}
	if len(nilPreds) == 0 || len(keepPreds) == 0 {
		return false
	}
	if len(middle) > 0 {
		// the stores are repeated at the end of the one predecessor that brings nil: it must end in a plain jump
		for _, i := range nilPreds {
			np := b.Preds[i]
			if len(np.Succs) != 1 || len(np.Instrs) == 0 {
				return false
			}
			if _, isJ := np.Instrs[len(np.Instrs)-1].(*ssa.Jump); !isJ {
				return false
			}
		}
		for _, ins := range middle {
			if st, isS := ins.(*ssa.Store); isS {
				// what is stored and where is defined outside the middle (a phi of b, an allocation, a value from above)
				for _, v := range []ssa.Value{st.Addr, st.Val} {
					if vi, isI := v.(ssa.Instruction); isI && vi.Block() == b {
						if _, isPhi := v.(*ssa.Phi); !isPhi {
							if _, isAl := v.(*ssa.Alloc); !isAl {
								return false
							}
						}
					}
				}
			}
		}
	}
	for _, i := range nilPreds {
		if b.Preds[i] == b {
			return false
		}
		// a predecessor that reaches b on both of its edges is left alone
		cnt := 0
		for _, s := range b.Preds[i].Succs {
			if s == b {
				cnt++
			}
		}
		if cnt != 1 {
			return false
		}
	}
	// where the phis are used: on the non-nil side (they keep their meaning there) or on the nil side, where the value of
	// the single nil edge takes their place
	type use struct {
		ins ssa.Instruction
		ph  *ssa.Phi
	}
	var nilSideUses []use
	for _, ph := range phis {
		rr := ph.Referrers()
		if rr == nil {
			continue
		}
		for _, u := range *rr {
			if u == ssa.Instruction(cmp) {
				continue
			}
			if u.Block() == b {
				if _, isPhi := u.(*ssa.Phi); !isPhi {
					continue // a store of the middle
				}
			}
			var blocks []*ssa.BasicBlock
			if up, isPhi := u.(*ssa.Phi); isPhi {
				for ei, e := range up.Edges {
					if e == ssa.Value(ph) {
						blocks = append(blocks, up.Block().Preds[ei])
					}
				}
			} else {
				blocks = append(blocks, u.Block())
			}
			for _, ub := range blocks {
				switch {
				case len(nonNilSucc.Preds) == 1 && dominates(nonNilSucc, ub):
				case len(nilSucc.Preds) == 1 && dominates(nilSucc, ub) && len(nilPreds) == 1:
					nilSideUses = append(nilSideUses, use{u, ph})
				default:
					return false
				}
			}
		}
	}
	// the nil successor: b's place among its predecessors is taken by the predecessors that bring nil
	j := -1
	for x, tp := range nilSucc.Preds {
		if tp == b {
			if j >= 0 {
				return false
			}
			j = x
		}
	}
	if j < 0 {
		return false
	}
	edgeValue := func(v ssa.Value, i int) ssa.Value {
		for _, ph := range phis {
			if v == ssa.Value(ph) {
				return ph.Edges[i]
			}
		}
		return v
	}
	addRef := func(v ssa.Value, ins ssa.Instruction) {
		if rr := v.Referrers(); rr != nil {
			*rr = append(*rr, ins)
		}
	}
	dropRef := func(v ssa.Value, ins ssa.Instruction) {
		if rr := v.Referrers(); rr != nil {
			for x, r := range *rr {
				if r == ins {
					*rr = append((*rr)[:x:x], (*rr)[x+1:]...)
					return
				}
			}
		}
	}
	for _, u := range nilSideUses {
		repl := u.ph.Edges[nilPreds[0]]
		if up, isPhi := u.ins.(*ssa.Phi); isPhi {
			for ei, e := range up.Edges {
				if e == ssa.Value(u.ph) && dominates(nilSucc, up.Block().Preds[ei]) {
					up.Edges[ei] = repl
					addRef(repl, up)
				}
			}
			stillUsed := false
			for _, e := range up.Edges {
				if e == ssa.Value(u.ph) {
					stillUsed = true
				}
			}
			if !stillUsed {
				dropRef(u.ph, up)
			}
			continue
		}
		for _, op := range u.ins.Operands(nil) {
			if *op == ssa.Value(u.ph) {
				*op = repl
				addRef(repl, u.ins)
			}
		}
		dropRef(u.ph, u.ins)
	}
	if len(middle) > 0 {
		entry := fn.Blocks[0]
		var keepMid []ssa.Instruction
		for _, ins := range b.Instrs {
			if al, isAl := ins.(*ssa.Alloc); isAl && b != entry {
				setInstrBlock(al, entry)
				entry.Instrs = append([]ssa.Instruction{al}, entry.Instrs...)
				continue
			}
			keepMid = append(keepMid, ins)
		}
		b.Instrs = keepMid
		n = len(b.Instrs)
		for _, pi := range nilPreds {
			np := b.Preds[pi]
			var clones []ssa.Instruction
			for _, ins := range middle {
				st, isS := ins.(*ssa.Store)
				if !isS {
					continue
				}
				c := new(ssa.Store)
				c.Addr = edgeValue(st.Addr, pi)
				c.Val = edgeValue(st.Val, pi)
				setInstrBlock(c, np)
				addRef(c.Addr, c)
				addRef(c.Val, c)
				clones = append(clones, c)
			}
			last := np.Instrs[len(np.Instrs)-1]
			np.Instrs = append(append(np.Instrs[:len(np.Instrs)-1:len(np.Instrs)-1], clones...), last)
		}
	}
	var newPreds []*ssa.BasicBlock
	for x, tp := range nilSucc.Preds {
		if x == j {
			for _, i := range nilPreds {
				newPreds = append(newPreds, b.Preds[i])
			}
			continue
		}
		newPreds = append(newPreds, tp)
	}
	for _, ins := range nilSucc.Instrs {
		ph, isP := ins.(*ssa.Phi)
		if !isP {
			break
		}
		var ne []ssa.Value
		for x, e := range ph.Edges {
			if x == j {
				for _, i := range nilPreds {
					v := edgeValue(e, i)
					ne = append(ne, v)
					if v != e {
						addRef(v, ph)
					}
				}
				continue
			}
			ne = append(ne, e)
		}
		old := ph.Edges[j]
		ph.Edges = ne
		still := false
		for _, e := range ne {
			if e == old {
				still = true
			}
		}
		if !still {
			dropRef(old, ph)
		}
	}
	nilSucc.Preds = newPreds
	for _, i := range nilPreds {
		pred := b.Preds[i]
		for x, s := range pred.Succs {
			if s == b {
				pred.Succs[x] = nilSucc
			}
		}
	}
	// b keeps the other predecessors and goes on to the non-nil successor
	var kp []*ssa.BasicBlock
	for _, i := range keepPreds {
		kp = append(kp, b.Preds[i])
	}
	for _, ph := range phis {
		var ne []ssa.Value
		for _, i := range keepPreds {
			ne = append(ne, ph.Edges[i])
		}
		for _, i := range nilPreds {
			e := ph.Edges[i]
			kept := false
			for _, v := range ne {
				if v == e {
					kept = true
				}
			}
			if !kept {
				dropRef(e, ph)
			}
		}
		ph.Edges = ne
	}
	b.Preds = kp
	dropRef(operand, cmp)
	b.Instrs = append(b.Instrs[:n-2:n-2], newJump(b))
	b.Succs = []*ssa.BasicBlock{nonNilSucc}
	// a phi that is left with one edge is that value
	if len(kp) == 1 {
		var rest []ssa.Instruction
		for _, ins := range b.Instrs {
			ph, isP := ins.(*ssa.Phi)
			if !isP || len(ph.Edges) != 1 || ph.Edges[0] == ssa.Value(ph) {
				rest = append(rest, ins)
				continue
			}
			v := ph.Edges[0]
			if rr := ph.Referrers(); rr != nil {
				for _, u := range *rr {
					for _, op := range u.Operands(nil) {
						if *op == ssa.Value(ph) {
							*op = v
							addRef(v, u)
						}
					}
				}
				*rr = nil
			}
			dropRef(v, ph)
		}
		b.Instrs = rest
	}
	_ = constant.MakeBool
	return true
}

var sentinelGlobalCache = map[*ssa.Global]bool{}

// sentinelGlobal: g is an error variable that is never nil once its package is initialised — outside the module by the
// convention of the standard library's sentinels, inside the module when its only assignment is the errors.New /
// fmt.Errorf of its declaration.
func sentinelGlobal(g *ssa.Global) bool {
	if v, ok := sentinelGlobalCache[g]; ok {
		return v
	}
	res := false
	defer func() { sentinelGlobalCache[g] = res }()
	pt, ok := g.Type().(*types.Pointer)
	if !ok || !isErrorType(pt.Elem()) || g.Pkg == nil {
		return false
	}
	if !strings.HasPrefix(g.Pkg.Pkg.Path(), modPath) {
		res = true
		return res
	}
	if theProgFns == nil {
		return false
	}
	inits, others := 0, 0
	for _, fn := range theProgFns {
		if fn.Pkg != g.Pkg {
			continue
		}
		for _, b := range fn.Blocks {
			for _, ins := range b.Instrs {
				st, isS := ins.(*ssa.Store)
				if !isS || st.Addr != ssa.Value(g) {
					continue
				}
				c, isC := st.Val.(*ssa.Call)
				if isC && fn.Name() == "init" && (CalleeKey(c) == "errors.New" || CalleeKey(c) == "fmt.Errorf") {
					inits++
				} else {
					others++
				}
			}
		}
	}
	res = inits == 1 && others == 0
	return res
}

// theProgFns: every function with a body of the program being normalised (package initialisers included).
var theProgFns []*ssa.Function

// foldDecidedNilTests removes the edge a nil test cannot take because a dominating test of the same value (on a chain of
// single predecessors) has decided it already: `if err != nil { r = err; if r != nil {A} else {B} }` never reaches B. The
// block inliner writes such tests (every return of an error leaves on a "failed" and a "succeeded" way); by hand they are
// rare, and removing an edge that no execution takes changes no verdict that was right.
func foldDecidedNilTests(fn *ssa.Function) {
	folded := false
	for _, b := range fn.Blocks {
		n := len(b.Instrs)
		if n == 0 || len(b.Succs) != 2 || b.Succs[0] == b.Succs[1] {
			continue
		}
		iff, ok := b.Instrs[n-1].(*ssa.If)
		if !ok {
			continue
		}
		if val, isConst := constCondition(iff.Cond); isConst && inlinedConstant(iff.Cond) {
			// a condition that is a constant since a helper was inlined with a literal argument (`sync` in
			// appendRecord(record, true)): only the side the constant takes exists
			keep, drop := b.Succs[0], b.Succs[1]
			if !val {
				keep, drop = drop, keep
			}
			if removeEdge(b, drop) {
				b.Instrs = append(b.Instrs[:n-1:n-1], newJump(b))
				b.Succs = []*ssa.BasicBlock{keep}
				delete(domCache, fn)
				folded = true
			}
			continue
		}
		bo, ok := iff.Cond.(*ssa.BinOp)
		if !ok || (bo.Op != token.NEQ && bo.Op != token.EQL) {
			continue
		}
		var v ssa.Value
		if isNilConst(bo.Y) {
			v = bo.X
		} else if isNilConst(bo.X) {
			v = bo.Y
		}
		if v == nil {
			continue
		}
		if _, isIface := v.Type().Underlying().(*types.Interface); !isIface {
			continue
		}
		// decided on the way into b (b's own test is the one being folded)
		nonNil, isNil := false, false
		c := b
		for step := 0; step < 16 && c != nil && len(c.Preds) == 1; step++ {
			d := c.Preds[0]
			switch edgeDecides(v, d, c) {
			case 1:
				nonNil = true
			case -1:
				isNil = true
			}
			if nonNil || isNil {
				break
			}
			c = d
		}
		if !nonNil && !isNil && knownNonNil(v, nil) {
			nonNil = true // a boxed value, a fresh error, a sentinel
		}
		if nonNil == isNil {
			continue
		}
		takeTrue := (bo.Op == token.NEQ) == nonNil
		keep, drop := b.Succs[0], b.Succs[1]
		if !takeTrue {
			keep, drop = drop, keep
		}
		// drop loses b among its predecessors (one occurrence), its phis lose that edge
		j := -1
		for x, tp := range drop.Preds {
			if tp == b {
				j = x
				break
			}
		}
		if j < 0 {
			continue
		}
		for _, ins := range drop.Instrs {
			ph, isP := ins.(*ssa.Phi)
			if !isP {
				break
			}
			e := ph.Edges[j]
			ph.Edges = append(ph.Edges[:j:j], ph.Edges[j+1:]...)
			still := false
			for _, o := range ph.Edges {
				if o == e {
					still = true
				}
			}
			if !still {
				if rr := e.Referrers(); rr != nil {
					for x, r := range *rr {
						if r == ssa.Instruction(ph) {
							*rr = append((*rr)[:x:x], (*rr)[x+1:]...)
							break
						}
					}
				}
			}
		}
		drop.Preds = append(drop.Preds[:j:j], drop.Preds[j+1:]...)
		b.Instrs = append(b.Instrs[:n-1:n-1], newJump(b))
		b.Succs = []*ssa.BasicBlock{keep}
		delete(domCache, fn)
		folded = true
	}
	if folded {
		dropUnreachable(fn)
	}
}

// dropUnreachable takes the blocks that no path from the entry (or the recover block) reaches any more out of the
// predecessor lists and phis of the blocks they lead to; they stay in fn.Blocks, without edges.
func dropUnreachable(fn *ssa.Function) {
	if len(fn.Blocks) == 0 {
		return
	}
	seen := map[*ssa.BasicBlock]bool{}
	var st []*ssa.BasicBlock
	push := func(b *ssa.BasicBlock) {
		if b != nil && !seen[b] {
			seen[b] = true
			st = append(st, b)
		}
	}
	push(fn.Blocks[0])
	push(fn.Recover)
	for len(st) > 0 {
		b := st[len(st)-1]
		st = st[:len(st)-1]
		for _, s := range b.Succs {
			push(s)
		}
	}
	for _, u := range fn.Blocks {
		if seen[u] {
			continue
		}
		for _, t := range u.Succs {
			for {
				j := -1
				for x, tp := range t.Preds {
					if tp == u {
						j = x
						break
					}
				}
				if j < 0 {
					break
				}
				for _, ins := range t.Instrs {
					ph, isP := ins.(*ssa.Phi)
					if !isP {
						break
					}
					if j < len(ph.Edges) {
						e := ph.Edges[j]
						ph.Edges = append(ph.Edges[:j:j], ph.Edges[j+1:]...)
						still := false
						for _, o := range ph.Edges {
							if o == e {
								still = true
							}
						}
						if !still {
							if rr := e.Referrers(); rr != nil {
								for x, r := range *rr {
									if r == ssa.Instruction(ph) {
										*rr = append((*rr)[:x:x], (*rr)[x+1:]...)
										break
									}
								}
							}
						}
					}
				}
				t.Preds = append(t.Preds[:j:j], t.Preds[j+1:]...)
			}
		}
		u.Succs = nil
		u.Preds = nil
	}
}

// inlinedConstant: the constant condition comes from an inlined helper's parameter (the variables the block inliner
// introduces are named _iN_pM; their value reaches the condition as a constant). Constant conditions that are written
// in the tree itself (build-time switches) are left alone: rules may have been written against both sides.
func inlinedConstant(cond ssa.Value) bool {
	return loadingNormalised
}

// loadingNormalised: the tree being loaded is the scratch copy with the inlined helpers (set by Load).
var loadingNormalised bool

// removeEdge takes one occurrence of b out of drop's predecessors and the matching edge out of its phis.
func removeEdge(b, drop *ssa.BasicBlock) bool {
	j := -1
	for x, tp := range drop.Preds {
		if tp == b {
			j = x
			break
		}
	}
	if j < 0 {
		return false
	}
	for _, ins := range drop.Instrs {
		ph, isP := ins.(*ssa.Phi)
		if !isP {
			break
		}
		if j >= len(ph.Edges) {
			continue
		}
		e := ph.Edges[j]
		ph.Edges = append(ph.Edges[:j:j], ph.Edges[j+1:]...)
		still := false
		for _, o := range ph.Edges {
			if o == e {
				still = true
			}
		}
		if !still {
			if rr := e.Referrers(); rr != nil {
				for x, r := range *rr {
					if r == ssa.Instruction(ph) {
						*rr = append((*rr)[:x:x], (*rr)[x+1:]...)
						break
					}
				}
			}
		}
	}
	drop.Preds = append(drop.Preds[:j:j], drop.Preds[j+1:]...)
	return true
}
