package main

import (
	"golang.org/x/tools/go/ssa"
)

// R-get-precedence (C01): GetBytes consults the table layer and the memstore inside one critical section and the
// memstore answer overrides: a tombstone in the memstore yields not-found whatever the tables said; the error
// discipline of the read path forwards every error except the reviewed not-found sentinels.
func ruleGetPrecedence(r *Report) {
	const rule = "get-precedence"
	r.Rule(rule, 3, "GetBytes: memstore tombstone → ErrNotFound regardless of the table layer; memstore miss → the table layer's answer; table errors other than NotFound are returned; both layers are read in one critical section")
	p := r.P
	fn := r.NeedFunc(rule, "simpledb.DB.GetBytes")
	if fn == nil {
		return
	}
	// (1) the KeyTombstoned edge returns ErrNotFound
	mg := CallsIn(fn, Keys("simpledb.RWMemstore.Get"))
	tg := CallsIn(fn, Suffix("SSTableReaderI.Get"))
	if len(mg) != 1 || len(tg) != 1 {
		r.Bad(rule, rule+"/simpledb.DB.GetBytes/layers", fn.Pos(), "GetBytes does not read exactly one table-layer Get and one memstore Get")
		return
	}
	al := errAliases(mg[0])
	okTomb, okMiss := false, false
	for _, b := range liveBlocks(fn) {
		if v, g, isS, _, ok := sentinelTest(b); ok && al[v] {
			switch g {
			case "memstore.KeyTombstoned":
				if returnedSentinel(isS) == "simpledb.ErrNotFound" {
					okTomb = true
				}
			case "memstore.KeyNotFound":
				okMiss = true
			}
		}
	}
	if okTomb {
		r.OK(rule, rule+"/simpledb.DB.GetBytes/tombstone-wins", mg[0].Pos(), "memstore.KeyTombstoned → ErrNotFound")
	} else {
		r.Bad(rule, rule+"/simpledb.DB.GetBytes/tombstone-wins", mg[0].Pos(), "a tombstone in the memstore does not unconditionally yield ErrNotFound: a deleted key can read as the table layer's old value")
	}
	if okMiss {
		r.OK(rule, rule+"/simpledb.DB.GetBytes/miss-falls-through", mg[0].Pos(), "memstore.KeyNotFound is classified (falls back to the table layer's answer)")
	} else {
		r.Bad(rule, rule+"/simpledb.DB.GetBytes/miss-falls-through", mg[0].Pos(), "a memstore miss is not distinguished from other errors")
	}
	// (2) the memstore value is returned when present: the final success return yields the memstore Get's value
	key := rule + "/simpledb.DB.GetBytes/memstore-overrides"
	mv := func() ssa.Value {
		for _, rf := range *mg[0].Instr.(ssa.Value).Referrers() {
			if ex, ok := rf.(*ssa.Extract); ok && ex.Index == 0 {
				return ex
			}
		}
		return nil
	}()
	succ, _ := errorEdges(mg[0])
	okOv := false
	for _, e := range succ {
		// straight to a return of mv
		b := e.To
		for i := 0; i < 4 && b != nil; i++ {
			if ret, ok := b.Instrs[len(b.Instrs)-1].(*ssa.Return); ok {
				v := stripClone(ret.Results[0]) // the caller gets a copy of the memstore's value
				if v == mv {
					okOv = true
				}
				if u, ok := v.(*ssa.UnOp); ok && isCell(u.X) {
					vals, _ := reachingStores(u)
					for _, x := range vals {
						if stripClone(x) == mv {
							okOv = true
						}
					}
				}
				break
			}
			if len(b.Succs) == 1 {
				b = b.Succs[0]
			} else {
				break
			}
		}
	}
	if okOv {
		r.OK(rule, key, mg[0].Pos(), "memstore hit returns the memstore value")
	} else {
		r.Bad(rule, key, mg[0].Pos(), "a memstore hit does not return the memstore's value")
	}
	// (3) error discipline of the read path
	ef := newErrflow(r, rule)
	ef.extraClass = map[string]map[string]bool{
		"simpledb.DB.GetBytes":    {"sstables.NotFound": true, "memstore.KeyNotFound": true},
		"simpledb.RWMemstore.Get": {"memstore.KeyNotFound": true},
	}
	ef.Check(fn)
	if g := p.Func("simpledb.RWMemstore.Get"); g != nil {
		ef.Check(g)
	}
}
