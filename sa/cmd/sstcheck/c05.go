package main

func init() {
	register("C05",
		"Static lock-discipline analysis (E-LOCK) of package simpledb: a forward must-hold lock-set dataflow on SSA, made interprocedural by a fix point over module-internal call sites (closures and callbacks inherit the lock set of their call), decides for every access to the mutable DB / table-manager fields that the guarding lock is held in the required mode (exclusive for writes, mutating calls, element writes into the live reader list and closing of live readers; shared for reads), that the lock order database→manager is never inverted, that nothing reachable from the flusher takes the database lock, that the memstore hand-off is sent under the exclusive database lock over an unbuffered channel, and (C01's hand-off rules) that a memstore leaves the read path only after its table is visible. This is the discipline the linearization argument needs; linearizability of histories itself is not decided.",
		[]string{"sync.RWMutex semantics", "DB.rwLock and SSTableManager.databaseLock are one mutex (checked)", "three structural exemptions: constructors, the pre-concurrency phase of Open, the tail of Close after both joins"},
		func(r *Report) {
			ruleLocks(r)
			ruleDBIndexThreadSafe(r)
			ruleGuardedEscape(r)
			ruleEmptyIsAbsent(r)
			ruleValueOpaque(r)
			ruleHandoff(r)
			ruleSwapAfterRotate(r)
			ruleRWMemstore(r)
			ruleReaderRebuilt(r)
			ruleValueBuffersImmutable(r)
			ruleReducer(r)
			ruleSlotInList(r)
			ruleByteAPICopies(r)
			// (a Put applied to the store that the rotation has just handed to the flusher is acknowledged and unreadable)
			ruleApplyBeforeRotate(r)
		})
}
