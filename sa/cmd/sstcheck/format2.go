package main

import (
	"fmt"
	"go/token"
	"os"
	"path/filepath"
	"sort"
	"strconv"
	"strings"

	"golang.org/x/tools/go/ssa"
)

// ---------- R-exact-length (C12) ----------

func ruleExactLength(r *Report) {
	const rule = "exact-length"
	r.Rule(rule, 8, "every payload read is exact-length: io.ReadFull into a buffer of the expected size, or ReadAt followed by a comparison of the returned count with the expected size whose mismatch edge returns an error; the buffer size is the length selected by allocateRecordBuffer* (compressed length with a compressor, uncompressed otherwise)")
	p := r.P
	n := 0
	for _, fn := range p.FuncsOfPkg("recordio") {
		allocs := CallsIn(fn, Keys("recordio.allocateRecordBuffer", "recordio.allocateRecordBufferPooled"))
		if len(allocs) == 0 {
			continue
		}
		r.Saw(fn)
		for _, a := range allocs {
			var expVal, bufVal ssa.Value
			for _, rf := range *a.Instr.(ssa.Value).Referrers() {
				if ex, ok := rf.(*ssa.Extract); ok {
					if ex.Index == 0 {
						expVal = ex
					} else if ex.Index == 1 {
						bufVal = ex
					}
				}
			}
			key := ef0uniq(rule + "/" + FuncKey(fn))
			n++
			// provenance: the two lengths are the header reader's results, unmodified
			{
				args := a.Call().Common().Args
				un, co := args[len(args)-2], args[len(args)-1]
				fromHeader := func(v ssa.Value, idx int) bool {
					ex, ok := v.(*ssa.Extract)
					if !ok || ex.Index != idx {
						return false
					}
					c, ok := ex.Tuple.(*ssa.Call)
					return ok && strings.HasPrefix(CalleeKey(c), "recordio.readRecordHeaderV")
				}
				pk := ef0uniq(rule + "/" + FuncKey(fn) + "/length-provenance")
				if fromHeader(un, 0) && fromHeader(co, 1) {
					r.OK(rule, pk, a.Pos(), "buffer sized by the parsed header lengths")
				} else {
					r.Bad(rule, pk, a.Pos(), "the payload buffer is not sized by the header's lengths as parsed (e.g. clamped to the remaining file size): a cut file yields a shortened payload instead of an error")
				}
			}
			if bufVal == nil {
				r.Bad(rule, key, a.Pos(), "the allocated record buffer is not used")
				continue
			}
			// consumers of the buffer
			var reads []Site
			eachInstr(fn, func(s Site) {
				c, ok := s.Instr.(*ssa.Call)
				if !ok {
					return
				}
				k := CalleeKey(c)
				if k == "io.ReadFull" && c.Call.Args[1] == bufVal {
					reads = append(reads, s)
				}
				if strings.HasSuffix(k, "ReaderAt.ReadAt") && argsOf(c)[0] == bufVal {
					reads = append(reads, s)
				}
			})
			if len(reads) != 1 {
				r.Bad(rule, key, a.Pos(), fmt.Sprintf("the payload buffer is filled by %d reads (expected exactly one io.ReadFull / ReadAt)", len(reads)))
				continue
			}
			rd := reads[0]
			if CalleeKey(rd.Call()) == "io.ReadFull" {
				// ReadFull's contract gives exact length or an error; the error must be tested (success edge exists)
				succ, _ := errorEdges(rd)
				if len(succ) == 0 {
					r.Bad(rule, key, rd.Pos(), "the error of io.ReadFull is not tested: a short payload is returned as a record")
				} else {
					r.OK(rule, key, rd.Pos(), "io.ReadFull into the expected-size buffer, error tested")
				}
				continue
			}
			// ReadAt: count compared with expected
			var cnt ssa.Value
			for _, rf := range *rd.Instr.(ssa.Value).Referrers() {
				if ex, ok := rf.(*ssa.Extract); ok && ex.Index == 0 {
					cnt = ex
				}
			}
			ok := false
			for _, b := range liveBlocks(fn) {
				if len(b.Instrs) == 0 {
					continue
				}
				iff, isI := b.Instrs[len(b.Instrs)-1].(*ssa.If)
				if !isI {
					continue
				}
				bo, isB := iff.Cond.(*ssa.BinOp)
				if !isB || (bo.Op != token.NEQ && bo.Op != token.EQL) {
					continue
				}
				strip := func(v ssa.Value) ssa.Value {
					if cv, isC := v.(*ssa.Convert); isC {
						return cv.X
					}
					return v
				}
				x, y := strip(bo.X), strip(bo.Y)
				if !((x == cnt && y == expVal) || (y == cnt && x == expVal)) {
					continue
				}
				mis, eq := b.Succs[0], b.Succs[1]
				if bo.Op == token.EQL {
					mis, eq = eq, mis
				}
				removed := map[Edge]bool{{b, eq}: true}
				bypass := false
				for _, nr := range nilReturns(fn) {
					if precedes(rd, nr) || reachableFromSite(rd, nr) {
						if siteReachable(nr, removed) && dominates(b, nr.Block) {
							bypass = true
						}
					}
				}
				if endsInFailingReturn(mis) && !bypass {
					ok = true
				}
			}
			if ok {
				r.OK(rule, key, rd.Pos(), "ReadAt count compared with the expected length; mismatch → error")
			} else {
				r.Bad(rule, key, rd.Pos(), "the count returned by ReadAt is not compared with the expected payload length (or a mismatch does not fail): a cut file yields a shortened payload")
			}
		}
	}
	if n == 0 {
		r.Missing(rule, rule+"/sites", "no payload buffer allocation found")
	}
	// a record is handed out only behind the exact-length read (or as the nil record): no side path may return data
	for _, fn := range p.FuncsOfPkg("recordio") {
		allocs := CallsIn(fn, Keys("recordio.allocateRecordBuffer", "recordio.allocateRecordBufferPooled"))
		if len(allocs) == 0 {
			continue
		}
		key := ef0uniq(rule + "/" + FuncKey(fn) + "/data-only-behind-exact-read")
		removed := map[Edge]bool{}
		eachInstr(fn, func(s Site) {
			c, ok := s.Instr.(*ssa.Call)
			if !ok {
				return
			}
			k := CalleeKey(c)
			if k == "io.ReadFull" || strings.HasSuffix(k, "ReaderAt.ReadAt") {
				// only reads into the payload buffer count
				isPayload := false
				for _, a := range allocs {
					for _, rf := range *a.Instr.(ssa.Value).Referrers() {
						if ex, ok := rf.(*ssa.Extract); ok && ex.Index == 1 {
							for _, arg := range c.Call.Args {
								if arg == ssa.Value(ex) {
									isPayload = true
								}
							}
						}
					}
				}
				if isPayload {
					succ, _ := errorEdges(s)
					for _, e := range succ {
						removed[e] = true
					}
				}
			}
		})
		// nil-record edge: If on the header reader's nil flag
		for _, h := range CallsIn(fn, func(k string) bool { return strings.HasPrefix(k, "recordio.readRecordHeaderV") }) {
			for _, rf := range *h.Instr.(ssa.Value).Referrers() {
				if ex, ok := rf.(*ssa.Extract); ok && ex.Index == 2 {
					t, _ := condEdges(fn, func(c ssa.Value) bool { return c == ssa.Value(ex) })
					for _, e := range t {
						removed[e] = true
					}
				}
			}
		}
		bad := false
		for _, nr := range nilReturns(fn) {
			if siteReachable(nr, removed) {
				bad = true
			}
		}
		if bad {
			r.Bad(rule, key, fn.Pos(), "a record can be returned successfully without passing the exact-length payload read (e.g. copied out of the header look-ahead buffer): a cut file yields a shortened, zero-padded payload")
		} else {
			r.OK(rule, key, fn.Pos(), "data is returned only behind the exact-length read or as the nil record")
		}
	}
	// the length selection itself
	for _, k := range []string{"recordio.allocateRecordBuffer", "recordio.allocateRecordBufferPooled"} {
		fn := r.NeedFunc(rule, k)
		if fn == nil {
			continue
		}
		key := rule + "/" + k + "/length-selection"
		// returned length = the compressed parameter exactly where header.compressor != nil, the uncompressed one
		// otherwise — as a phi, as two returns, or through a helper of the package that does the same
		var un, co *ssa.Parameter
		for _, pa := range fn.Params {
			if refName(pa) == "payloadSizeUncompressed" {
				un = pa
			}
			if refName(pa) == "payloadSizeCompressed" {
				co = pa
			}
		}
		ok := un != nil && co != nil && selectsStoredLength(fn, un, co, 0)
		if ok {
			r.OK(rule, key, fn.Pos(), "expected length = compressed with compressor, uncompressed without")
		} else {
			r.Bad(rule, key, fn.Pos(), "the expected payload length is not 'compressed length iff a compressor is configured'")
		}
	}
}

// ---------- R-offset-accounting (C04) ----------

func ruleOffsetAccounting(r *Report) {
	const rule = "offset-accounting"
	r.Rule(rule, 3, "FileWriter.Write returns the offset before the record on both success paths and advances currentOffset by exactly the byte counts the writes on that path returned (header only for a nil record; header + payload otherwise)")
	fn := r.NeedFunc(rule, "recordio.FileWriter.Write")
	if fn == nil {
		return
	}
	isCur := isFieldLoad("recordio.FileWriter", "currentOffset")
	hdr := CallsIn(fn, Keys("recordio.writeRecordHeaderV4"))
	var pay []Site
	eachInstr(fn, func(s Site) {
		if c, ok := s.Instr.(*ssa.Call); ok && c.Call.IsInvoke() && c.Call.Method.Name() == "Write" && strings.HasSuffix(typeShort(c.Call.Value.Type()), "WriteSeekerCloserFlusher") {
			pay = append(pay, s)
		}
	})
	if len(hdr) != 1 || len(pay) != 1 {
		r.Bad(rule, rule+"/recordio.FileWriter.Write/writes", fn.Pos(), "expected one header write and one payload write")
		return
	}
	ext0 := func(s Site) ssa.Value {
		for _, rf := range *s.Instr.(ssa.Value).Referrers() {
			if ex, ok := rf.(*ssa.Extract); ok && ex.Index == 0 {
				return ex
			}
		}
		return nil
	}
	hN, pN := ext0(hdr[0]), ext0(pay[0])
	// prevOffset: a load of currentOffset that precedes the header write
	var prev ssa.Value
	eachInstr(fn, func(s Site) {
		if u, ok := s.Instr.(*ssa.UnOp); ok && isCur(u) && precedes(s, hdr[0]) {
			prev = u
		}
	})
	// success returns return prev
	key := rule + "/recordio.FileWriter.Write/returns-pre-offset"
	okRet := prev != nil
	for _, nr := range nilReturns(fn) {
		if nr.Instr.(*ssa.Return).Results[0] != prev {
			// through a spill cell
			if _, vals := classifyErrVal(nr.Instr.(*ssa.Return).Results[0], map[ssa.Value]bool{}); len(vals) != 1 || vals[0] != prev {
				okRet = false
			}
		}
	}
	if okRet {
		r.OK(rule, key, fn.Pos(), "both success paths return the offset read before the header write")
	} else {
		r.Bad(rule, key, fn.Pos(), "a success path returns something else than the offset before the record: random access reads land inside or after the record")
	}
	// stores to currentOffset: sum of atoms
	atoms := func(v ssa.Value) []ssa.Value {
		var out []ssa.Value
		var walk func(v ssa.Value)
		walk = func(v ssa.Value) {
			if bo, ok := v.(*ssa.BinOp); ok && bo.Op == token.ADD {
				walk(bo.X)
				walk(bo.Y)
				return
			}
			if cv, ok := v.(*ssa.Convert); ok {
				walk(cv.X)
				return
			}
			out = append(out, v)
		}
		walk(v)
		return out
	}
	same := func(a []ssa.Value, b ...ssa.Value) bool {
		if len(a) != len(b) {
			return false
		}
		used := make([]bool, len(b))
		for _, x := range a {
			f := false
			for i, y := range b {
				if !used[i] && x == y {
					used[i], f = true, true
					break
				}
			}
			if !f {
				return false
			}
		}
		return true
	}
	nStores := 0
	eachInstr(fn, func(s Site) {
		st, ok := s.Instr.(*ssa.Store)
		if !ok {
			return
		}
		if t, f, _, ok := fieldAddrName(st.Addr); !ok || t != "recordio.FileWriter" || f != "currentOffset" {
			return
		}
		nStores++
		key := ef0uniq(rule + "/recordio.FileWriter.Write/advance")
		at := atoms(st.Val)
		// `currentOffset += n` reads the field again: that is the offset before the record as long as no store to the
		// field can have happened before that read
		for i, a := range at {
			u, isU := a.(*ssa.UnOp)
			if !isU || !isCur(u) || a == prev {
				continue
			}
			var at0 *Site
			eachInstr(fn, func(x Site) {
				if x.Instr == ssa.Instruction(u) {
					xx := x
					at0 = &xx
				}
			})
			clean := at0 != nil
			eachInstr(fn, func(x Site) {
				st2, isS := x.Instr.(*ssa.Store)
				if !isS || !clean {
					return
				}
				if t, f, _, ok := fieldAddrName(st2.Addr); ok && t == "recordio.FileWriter" && f == "currentOffset" && reachableFromSite(x, *at0) {
					clean = false
				}
			})
			if clean {
				at[i] = prev
			}
		}
		afterPayload := precedes(pay[0], s)
		switch {
		case afterPayload && same(at, prev, hN, pN):
			r.OK(rule, key, st.Pos(), "currentOffset = pre + header bytes + payload bytes")
		case !afterPayload && same(at, prev, hN):
			r.OK(rule, key, st.Pos(), "currentOffset = pre + header bytes (nil record)")
		default:
			r.Bad(rule, key, st.Pos(), "currentOffset is not advanced by exactly the bytes written on this path")
		}
	})
	if nStores < 2 {
		r.Bad(rule, rule+"/recordio.FileWriter.Write/advance-sites", fn.Pos(), "expected an offset update on the nil-record path and on the payload path")
	}
}

// ---------- R-scan-step (C04) ----------

func ruleScanStep(r *Report) {
	const rule = "scan-step"
	r.Rule(rule, 1, "SeekNext's marker scan advances by exactly one byte after a partial marker match; it may jump past a whole matched marker only after a failed trial read")
	fn := r.NeedFunc(rule, "recordio.MMapReader.SeekNext")
	if fn == nil {
		return
	}
	key := rule + "/recordio.MMapReader.SeekNext"
	// the full-match test: If (ix - i) < len(marker)
	var iPhi *ssa.Phi
	var fullMatch *ssa.BasicBlock
	for _, b := range liveBlocks(fn) {
		if len(b.Instrs) == 0 {
			continue
		}
		for _, v := range ifCmpForms(b) {
			sub, isS := v.X.(*ssa.BinOp)
			if v.Op != token.LSS || !isS || sub.Op != token.SUB {
				continue
			}
			if c, ok := v.Y.(*ssa.Call); ok {
				if bi, ok := c.Call.Value.(*ssa.Builtin); ok && bi.Name() == "len" && globalLoad(c.Call.Args[0]) == "recordio.MagicNumberSeparatorLongBytes" {
					if ph, ok := sub.Y.(*ssa.Phi); ok {
						iPhi = ph
						fullMatch = v.F
					}
				}
			}
		}
	}
	if iPhi == nil {
		r.Unk(rule, key, fn.Pos(), "the marker scan loop was not recognised (no `ix - i < len(marker)` test)")
		return
	}
	bad := ""
	for idx, e := range iPhi.Edges {
		pred := iPhi.Block().Preds[idx]
		if k, ok := constInt(e); ok && k == 0 {
			continue
		}
		if bo, ok := e.(*ssa.BinOp); ok && bo.Op == token.ADD {
			if k, ok := constInt(bo.Y); ok && k == 1 && bo.X == ssa.Value(iPhi) {
				continue
			}
		}
		// any other step must come from the full-match region (after a failed trial read)
		if fullMatch != nil && (pred == fullMatch || dominates(fullMatch, pred)) {
			continue
		}
		bad = fmt.Sprintf("edge from block %d assigns %s", pred.Index, e.Name())
	}
	if bad != "" {
		r.Bad(rule, key, iPhi.Pos(), "after a partial marker match the scan index does not advance by exactly one ("+bad+"): a payload byte equal to the marker's first byte hides the record that follows")
	} else {
		r.OK(rule, key, iPhi.Pos(), "scan index steps: 0, i+1, or past a fully matched marker after a failed trial")
	}
}

// ---------- Kaitai (C20) ----------

type ksyNode struct {
	key      string
	val      string
	indent   int
	children []*ksyNode
}

// parseKsy: indentation-based reader for the subset of YAML used by the schema (maps, `- ` list items, scalars).
func parseKsy(text string) *ksyNode {
	root := &ksyNode{indent: -1}
	stack := []*ksyNode{root}
	for _, raw := range strings.Split(text, "\n") {
		line := strings.TrimRight(raw, " \r")
		if strings.TrimSpace(line) == "" || strings.HasPrefix(strings.TrimSpace(line), "#") {
			continue
		}
		ind := len(line) - len(strings.TrimLeft(line, " "))
		body := strings.TrimSpace(line)
		if strings.HasPrefix(body, "- ") {
			body = strings.TrimSpace(body[2:])
			item := &ksyNode{key: "-", indent: ind}
			for len(stack) > 1 && stack[len(stack)-1].indent >= ind {
				stack = stack[:len(stack)-1]
			}
			par := stack[len(stack)-1]
			par.children = append(par.children, item)
			stack = append(stack, item)
			ind += 2
		}
		k, v, found := strings.Cut(body, ":")
		if !found {
			continue // continuation of a block scalar (doc text)
		}
		n := &ksyNode{key: strings.TrimSpace(k), val: strings.TrimSpace(v), indent: ind}
		for len(stack) > 1 && stack[len(stack)-1].indent >= ind {
			stack = stack[:len(stack)-1]
		}
		par := stack[len(stack)-1]
		par.children = append(par.children, n)
		stack = append(stack, n)
	}
	return root
}

func (n *ksyNode) get(path ...string) *ksyNode {
	cur := n
	for _, p := range path {
		var nx *ksyNode
		for _, c := range cur.children {
			if c.key == p {
				nx = c
			}
		}
		if nx == nil {
			return nil
		}
		cur = nx
	}
	return cur
}

func ruleKaitai(r *Report) {
	p := r.P
	const rt = "kaitai-table"
	r.Rule(rt, 3, "the compression enum of the published schema and of the generated reader list exactly the writer's codes with the same names")
	const rf = "kaitai-format"
	r.Rule(rf, 3, "the schema's and the generated reader's record field sequence equals the writer's header sequence followed by the payload; the marker contents equal the uvarint encoding of the marker constant; the file header is two little-endian u4")
	const rp = "kaitai-paylen"
	r.Rule(rp, 3, "the generated payload-length expression yields 0 for nil records, the uncompressed length for uncompressed files and the compressed length for compressed files (abstract evaluation over the three cases the writer produces)")

	consts := compressionConsts(p)
	// --- schema text
	b, err := os.ReadFile(filepath.Join(p.RepoDir, "kaitai", "recordio_v4.ksy"))
	if err != nil {
		r.Missing(rt, rt+"/ksy", "kaitai/recordio_v4.ksy not readable: "+err.Error())
		return
	}
	root := parseKsy(string(b))
	en := root.get("enums", "compression")
	key := rt + "/kaitai/recordio_v4.ksy/enums.compression"
	if en == nil {
		r.Bad(rt, key, 0, "schema has no compression enum")
	} else {
		got := map[string]int64{}
		for _, c := range en.children {
			if v, err := strconv.ParseInt(c.key, 0, 64); err == nil {
				got[strings.ToLower(c.val)] = v
			}
		}
		if d := diffTable(consts, got); d == "" {
			r.OK(rt, key, 0, fmt.Sprintf("schema enum = writer table %v", got))
		} else {
			r.Bad(rt, key, 0, "schema enum differs from the writer's compression table: "+d)
		}
	}
	// --- generated constants
	key = rt + "/gokaitai.RecordioV4_Compression"
	gk := p.All[modPath+"/kaitai/gokaitai"]
	if gk == nil {
		r.Missing(rt, key, "package kaitai/gokaitai not loaded")
	} else {
		got := map[string]int64{}
		sc := gk.Types.Scope()
		for _, n := range sc.Names() {
			if strings.HasPrefix(n, "RecordioV4_Compression__") {
				if c, ok := sc.Lookup(n).(interface {
					Val() interface{ String() string }
				}); ok {
					_ = c
				}
			}
		}
		for _, n := range sc.Names() {
			if !strings.HasPrefix(n, "RecordioV4_Compression__") {
				continue
			}
			if v, ok := pkgConst(p, "kaitai/gokaitai", n); ok {
				got[strings.ToLower(strings.TrimPrefix(n, "RecordioV4_Compression__"))] = int64(v)
			}
		}
		if d := diffTable(consts, got); d == "" {
			r.OK(rt, key, 0, fmt.Sprintf("generated enum = writer table %v", got))
		} else {
			r.Bad(rt, key, 0, "generated enum differs from the writer's compression table: "+d)
		}
	}
	// every code the writer can emit is known: the writer accepts exactly the constant table (compression-table rule)
	key = rt + "/writer-emits-only-table"
	if fn := p.Func("recordio.FileWriter.Open"); fn != nil && len(CallsIn(fn, Keys("recordio.NewCompressorForType"))) > 0 {
		r.OK(rt, key, fn.Pos(), "the writer validates its compression type through NewCompressorForType before any record is written")
	} else {
		r.Bad(rt, key, 0, "the writer does not validate its compression type against the table")
	}

	// --- field sequence
	mv, _ := pkgConst(p, "recordio", "MagicNumberSeparatorLong")
	wantMagic := uvarintBytes(mv)
	rec := root.get("types", "record", "seq")
	key = rf + "/kaitai/recordio_v4.ksy/types.record.seq"
	if rec == nil {
		r.Bad(rf, key, 0, "schema has no record sequence")
	} else {
		var kinds []string
		magicOK := false
		for _, it := range rec.children {
			ty := ""
			if t := it.get("type"); t != nil {
				ty = t.val
			}
			switch {
			case it.get("contents") != nil:
				kinds = append(kinds, "uvarint")
				lit := strings.Trim(it.get("contents").val, "[] ")
				var bs []byte
				for _, x := range strings.Split(lit, ",") {
					if v, err := strconv.ParseUint(strings.TrimSpace(x), 0, 8); err == nil {
						bs = append(bs, byte(v))
					}
				}
				magicOK = string(bs) == string(wantMagic)
			case ty == "u1":
				kinds = append(kinds, "byte")
			case ty == "vlq_base128_le":
				kinds = append(kinds, "uvarint")
			case it.get("size") != nil:
				kinds = append(kinds, "payload("+it.get("size").val+")")
			default:
				kinds = append(kinds, "?"+ty)
			}
		}
		got := "[" + strings.Join(kinds, ",") + "]"
		if got == "[uvarint,byte,uvarint,uvarint,uvarint,payload(len_payload)]" && magicOK {
			r.OK(rf, key, 0, got)
		} else {
			r.Bad(rf, key, 0, fmt.Sprintf("schema record sequence %s (marker literal ok: %v) does not match the writer's header [uvarint marker, byte, uvarint, uvarint, uvarint] + payload", got, magicOK))
		}
	}
	if fn := r.NeedFunc(rf, "kaitai/gokaitai.RecordioV4_Record.Read"); fn != nil {
		seq, _ := consumeSequence(fn)
		key = rf + "/gokaitai.RecordioV4_Record.Read/sequence"
		got := seqString(seq)
		if got == "[bytes,byte,uvarint,uvarint,uvarint,bytes]" {
			// first bytes: ReadBytes(3) compared with the marker literal
			okM := false
			if c, ok := seq[0].val.(*ssa.Call); ok {
				if k, ok := constInt(stripConvert(argsOf(c)[0])); ok && int(k) == len(wantMagic) {
					okM = true
				}
			}
			// the literal in bytes.Equal
			lits := byteLiteralsIn(fn)
			foundLit := false
			for _, l := range lits {
				if string(l) == string(wantMagic) {
					foundLit = true
				}
			}
			if okM && foundLit {
				r.OK(rf, key, fn.Pos(), got+" with marker literal = uvarint(marker)")
			} else {
				r.Bad(rf, key, fn.Pos(), "the generated reader's marker literal / length differs from uvarint(marker constant)")
			}
		} else {
			r.Bad(rf, key, fn.Pos(), "generated reader consumes "+got+", expected [bytes(marker),byte,uvarint,uvarint,uvarint,bytes(payload)]")
		}
	}
	if fn := r.NeedFunc(rf, "kaitai/gokaitai.RecordioV4_FileHeader.Read"); fn != nil {
		seq, _ := consumeSequence(fn)
		key = rf + "/gokaitai.RecordioV4_FileHeader.Read/sequence"
		if seqString(seq) == "[u4,u4]" {
			r.OK(rf, key, fn.Pos(), "version u4le, compression u4le")
		} else {
			r.Bad(rf, key, fn.Pos(), "generated file header reader consumes "+seqString(seq)+", the writer emits two little-endian uint32")
		}
	}

	// --- payload length
	if fn := r.NeedFunc(rp, "kaitai/gokaitai.RecordioV4_Record.LenPayload"); fn != nil {
		cases := []struct {
			name   string
			nilRec bool
			comp   bool
			want   string
		}{
			{"nil-record", true, true, "0"},
			{"nil-record-uncompressed-file", true, false, "0"},
			{"uncompressed", false, false, "U"},
			{"compressed", false, true, "C"},
		}
		for _, cs := range cases {
			key := rp + "/gokaitai.RecordioV4_Record.LenPayload/" + cs.name
			got, why := evalPayLen(fn, cs.nilRec, cs.comp)
			switch {
			case why != "":
				r.Unk(rp, key, fn.Pos(), why)
			case sameSet(got, cs.want):
				r.OK(rp, key, fn.Pos(), "payload length = "+cs.want)
			default:
				r.Bad(rp, key, fn.Pos(), fmt.Sprintf("payload length evaluates to %v, the writer stores %s bytes: the parser loses its position after this record", got, cs.want))
			}
		}
		// the schema expression must mention the same inputs (nil flag, both lengths)
		key := rp + "/kaitai/recordio_v4.ksy/instances.len_payload"
		lp := root.get("types", "record", "instances", "len_payload", "value")
		if lp == nil {
			r.Bad(rp, key, 0, "schema has no len_payload instance")
		} else if strings.Contains(lp.val, "record_nil") && strings.Contains(lp.val, "uncompressed_payload_len") && strings.Contains(lp.val, "compressed_payload_len") && !strings.Contains(lp.val, "^") {
			r.OK(rp, key, 0, lp.val)
		} else {
			r.Bad(rp, key, 0, "schema expression `"+lp.val+"` does not select by nil flag / compression (xor of the two lengths is wrong for every compressed file)")
		}
	}
}

func stripConvert(v ssa.Value) ssa.Value {
	for {
		switch x := v.(type) {
		case *ssa.Convert:
			v = x.X
		case *ssa.ChangeType:
			v = x.X
		default:
			return v
		}
	}
}

func diffTable(want, got map[string]int64) string {
	var d []string
	for n, v := range want {
		if g, ok := got[n]; !ok {
			d = append(d, fmt.Sprintf("%s=%d missing", n, v))
		} else if g != v {
			d = append(d, fmt.Sprintf("%s is %d, writer uses %d", n, g, v))
		}
	}
	for n, v := range got {
		if _, ok := want[n]; !ok {
			d = append(d, fmt.Sprintf("%s=%d unknown to the writer", n, v))
		}
	}
	sort.Strings(d)
	return strings.Join(d, "; ")
}

// byteLiteralsIn: constant byte-slice literals built in fn (`[]uint8{a,b,c}` → stores of constants into a fresh array).
func byteLiteralsIn(fn *ssa.Function) [][]byte {
	arr := map[*ssa.Alloc]map[int64]byte{}
	eachInstr(fn, func(s Site) {
		st, ok := s.Instr.(*ssa.Store)
		if !ok {
			return
		}
		ia, ok := st.Addr.(*ssa.IndexAddr)
		if !ok {
			return
		}
		al, ok := ia.X.(*ssa.Alloc)
		if !ok {
			return
		}
		i, ok1 := constInt(ia.Index)
		v, ok2 := constInt(st.Val)
		if ok1 && ok2 {
			if arr[al] == nil {
				arr[al] = map[int64]byte{}
			}
			arr[al][i] = byte(v)
		}
	})
	var out [][]byte
	for _, m := range arr {
		bs := make([]byte, len(m))
		okAll := true
		for i := range bs {
			b, ok := m[int64(i)]
			if !ok {
				okAll = false
			}
			bs[i] = b
		}
		if okAll {
			out = append(out, bs)
		}
	}
	return out
}

func sameSet(got []string, want string) bool {
	if len(got) == 0 {
		return false
	}
	for _, g := range got {
		if g != want {
			return false
		}
	}
	return true
}

// evalPayLen symbolically evaluates the value stored into the lenPayload field on every feasible path.
// Symbols: "0", "U" (uncompressed length), "C" (compressed length), "T" (anything else).
func evalPayLen(fn *ssa.Function, nilRec, comp bool) ([]string, string) {
	results := map[string]bool{}
	why := ""
	type env map[ssa.Value]string
	var walk func(b *ssa.BasicBlock, pred *ssa.BasicBlock, e env, depth int)
	sym := func(e env, v ssa.Value) string {
		v = stripConvert(v)
		if s, ok := e[v]; ok {
			return s
		}
		if k, ok := constInt(v); ok {
			if k == 0 {
				return "0"
			}
			return "T"
		}
		return "T"
	}
	// condition evaluation: returns (value, known)
	var cond func(e env, v ssa.Value) (bool, bool)
	cond = func(e env, v ssa.Value) (bool, bool) {
		switch x := v.(type) {
		case *ssa.UnOp:
			if x.Op == token.NOT {
				if c, ok := cond(e, x.X); ok {
					return !c, true
				}
				return false, false
			}
			if _, f, _, ok := loadOfField(x); ok && f == "_f_lenPayload" {
				return false, true // memo not yet filled
			}
		case *ssa.BinOp:
			l, rr := stripConvert(x.X), stripConvert(x.Y)
			fieldOf := func(v ssa.Value) string {
				if _, f, _, ok := loadOfField(v); ok {
					return f
				}
				return ""
			}
			// RecordNil compared with a constant
			if fieldOf(l) == "RecordNil" {
				if k, ok := constInt(rr); ok {
					cur := int64(0)
					if nilRec {
						cur = 1
					}
					return evalCmp(x.Op, cur, k)
				}
			}
			// CompressionType compared with a constant
			if fieldOf(l) == "CompressionType" {
				if k, ok := constInt(rr); ok {
					if x.Op == token.EQL {
						if k == 0 {
							return !comp, true
						}
						return false, false
					}
					if x.Op == token.NEQ {
						if k == 0 {
							return comp, true
						}
						return false, false
					}
				}
			}
			// a length compared with zero
			ls, rs := sym(e, l), sym(e, rr)
			zeroKnown := func(s string) (bool, bool) { // is the symbol zero?
				switch s {
				case "0":
					return true, true
				case "C":
					if nilRec {
						return false, false // a nil record may carry any recorded compressed length
					}
					return !comp, true
				case "U":
					if nilRec {
						return true, true
					}
					return false, false
				}
				return false, false
			}
			if rs == "0" && (x.Op == token.EQL || x.Op == token.NEQ) {
				if z, ok := zeroKnown(ls); ok {
					if x.Op == token.EQL {
						return z, true
					}
					return !z, true
				}
			}
		}
		return false, false
	}
	walk = func(b *ssa.BasicBlock, pred *ssa.BasicBlock, e env, depth int) {
		if depth > 64 {
			why = "path budget exceeded"
			return
		}
		for _, ins := range b.Instrs {
			switch x := ins.(type) {
			case *ssa.Phi:
				for i, p := range b.Preds {
					if p == pred {
						e[x] = sym(e, x.Edges[i])
					}
				}
			case *ssa.Extract:
				if c, ok := x.Tuple.(*ssa.Call); ok && x.Index == 0 && strings.HasSuffix(CalleeKey(c), "VlqBase128Le.Value") {
					if _, f, _, ok := loadOfField(argsOf0(c)); ok {
						switch f {
						case "UncompressedPayloadLen":
							e[x] = "U"
							if nilRec {
								e[x] = "0" // len(nil) == 0
							}
						case "CompressedPayloadLen":
							e[x] = "C"
							if !comp {
								e[x] = "0" // no compressor: the writer records 0
							}
						}
					}
				}
			case *ssa.BinOp:
				l, rr := sym(e, x.X), sym(e, x.Y)
				switch x.Op {
				case token.XOR, token.OR, token.ADD:
					if l == "0" {
						e[x] = rr
					} else if rr == "0" {
						e[x] = l
					} else {
						e[x] = "T"
					}
				case token.SUB:
					if rr == "0" {
						e[x] = l
					} else {
						e[x] = "T"
					}
				case token.MUL, token.AND:
					if l == "0" || rr == "0" {
						e[x] = "0"
					} else {
						e[x] = "T"
					}
				}
			case *ssa.Store:
				if _, f, _, ok := fieldAddrName(x.Addr); ok && f == "lenPayload" {
					results[sym(e, x.Val)] = true
				}
			case *ssa.If:
				if v, nilS, _, ok := nilTest(b); ok && isErrorType(v.Type()) {
					walk(nilS, b, e, depth+1)
					return
				}
				if c, ok := cond(e, x.Cond); ok {
					if c {
						walk(b.Succs[0], b, e, depth+1)
					} else {
						walk(b.Succs[1], b, e, depth+1)
					}
					return
				}
				for _, s := range b.Succs {
					ne := env{}
					for k, v := range e {
						ne[k] = v
					}
					walk(s, b, ne, depth+1)
				}
				return
			case *ssa.Jump:
				walk(b.Succs[0], b, e, depth+1)
				return
			}
		}
	}
	walk(fn.Blocks[0], nil, env{}, 0)
	var out []string
	for k := range results {
		out = append(out, k)
	}
	sort.Strings(out)
	if len(out) == 0 && why == "" {
		why = "no store to lenPayload found on any feasible path"
	}
	return out, why
}

func argsOf0(c *ssa.Call) ssa.Value {
	if len(c.Call.Args) == 0 {
		return nil
	}
	return c.Call.Args[0]
}

// R-decompressed-length: the record header (CRC protected) says how long the payload is once decompressed. A compressed
// stream without its own length or checksum (LZW) can be damaged so that it decodes to a plausible shorter or longer
// value; the sstable value checksum does not always see that (CRC-64 stays in a fixed point over trailing zeros). So every
// decompression result is compared with the header's uncompressed length before it is returned.
func ruleDecompressedLength(r *Report) {
	const rule = "decompressed-length"
	r.Rule(rule, 8, "in both RecordIO readers every result of Decompress / DecompressWithBuf is checked against the uncompressed length of the record header (a call of a length check that receives len(result), on every path to a success return)")
	p := r.P
	lengthChecked := map[*ssa.Function]bool{}
	for _, fn := range p.FuncsOfPkg("recordio") {
		sites := CallsIn(fn, Suffix("CompressionI.Decompress", "CompressionI.DecompressWithBuf"))
		for _, s := range sites {
			key := uniqKey(r, rule+"/"+FuncKey(fn))
			r.Saw(fn)
			res := s.Instr.(ssa.Value)
			dep := func(v ssa.Value) bool {
				return valueDependsOn(v, func(x ssa.Value) bool {
					ex, ok := x.(*ssa.Extract)
					return ok && ex.Tuple == res && ex.Index == 0
				})
			}
			var checks []Site
			eachInstr(fn, func(t Site) {
				c, ok := t.Instr.(*ssa.Call)
				if !ok {
					return
				}
				sc := c.Call.StaticCallee()
				if sc == nil || !inModule(sc) {
					return
				}
				if _, hasErr, _ := errResults(c); !hasErr {
					return
				}
				for _, a := range c.Call.Args {
					if lc, isC := a.(*ssa.Call); isC {
						if bi, isB := lc.Call.Value.(*ssa.Builtin); isB && bi.Name() == "len" && dep(lc.Call.Args[0]) {
							checks = append(checks, t)
						}
					}
				}
			})
			// the check itself: it has to fail for a longer result as well as for a shorter one
			for _, c := range checks {
				sc := c.Instr.(*ssa.Call).Call.StaticCallee()
				if lengthChecked[sc] {
					continue
				}
				lengthChecked[sc] = true
				ckey := rule + "/" + FuncKey(sc) + "/both-directions"
				r.Saw(sc)
				lt, gt, ne := false, false, false
				eachInstr(sc, func(t Site) {
					bo, ok := t.Instr.(*ssa.BinOp)
					if !ok {
						return
					}
					unconv := func(v ssa.Value) ssa.Value {
						for {
							cv, isCv := v.(*ssa.Convert)
							if !isCv {
								return v
							}
							v = cv.X
						}
					}
					px, py := paramOrigin(unconv(bo.X)), paramOrigin(unconv(bo.Y))
					if px == nil || py == nil || px == py || px.Parent() != sc || py.Parent() != sc {
						return
					}
					first := px == sc.Params[0]
					switch bo.Op {
					case token.NEQ, token.EQL:
						ne = true
					case token.LSS, token.LEQ:
						if first {
							lt = true
						} else {
							gt = true
						}
					case token.GTR, token.GEQ:
						if first {
							gt = true
						} else {
							lt = true
						}
					}
				})
				switch {
				case ne || (lt && gt):
					r.OK(rule, ckey, sc.Pos(), "the length check fails for any difference")
				case lt || gt:
					r.Bad(rule, ckey, sc.Pos(), "the length check is one-sided: a damaged stream that decodes to more (or fewer) bytes than the header says passes — the LZW form of the empty value, 00 03 02, with one bit flipped (00 02 02) decodes to a single zero byte and is served for a key that was written empty")
				default:
					r.Unk(rule, ckey, sc.Pos(), "no comparison of the two lengths found in the check")
				}
			}
			var succ []Site
			for _, nr := range nilReturns(fn) {
				if reachableFromSite(s, nr) {
					succ = append(succ, nr)
				}
			}
			if len(checks) == 0 {
				r.Bad(rule, key, s.Pos(), "the decompressed payload is returned without comparing its length with the header's uncompressed size: a damaged LZW stream that decodes to the same prefix with a different number of trailing zeros (8×0xFF followed by zeros: 41 or 44 bytes instead of 48, and the CRC-64 of all of them is ffffffffffffffff) is served as the value")
				continue
			}
			// from the decompression on, no success return may be reached around the check
			removed := map[Edge]bool{}
			for _, c := range checks {
				for _, su := range c.Block.Succs {
					removed[Edge{c.Block, su}] = true
				}
			}
			around := false
			for _, su := range s.Block.Succs {
				reach := reachFrom(su, removed)
				for _, nr := range succ {
					inCheckBlock := false
					for _, c := range checks {
						if c.Block == nr.Block {
							inCheckBlock = true
						}
					}
					if reach[nr.Block] && !inCheckBlock {
						around = true
					}
				}
			}
			if around {
				r.Bad(rule, key, s.Pos(), "a success return is reachable from the decompression without passing the length check")
			} else {
				r.OK(rule, key, s.Pos(), "len(decompressed) is checked against the header before the record is returned")
			}
		}
	}
}

// selectsStoredLength: the first result of fn is co on the paths where the file header has a compressor and un on the
// others.
func selectsStoredLength(fn *ssa.Function, un, co *ssa.Parameter, depth int) bool {
	if fn == nil || fn.Blocks == nil || depth > 2 {
		return false
	}
	// the non-nil / nil sides of tests of the compressor field
	var nonNilTo, nilTo []*ssa.BasicBlock
	for _, b := range liveBlocks(fn) {
		if v, nilS, nonNil, okT := nilTest(b); okT {
			if _, f, _, okF := loadOfField(v); okF && f == "compressor" {
				nonNilTo, nilTo = append(nonNilTo, nonNil), append(nilTo, nilS)
			}
		}
	}
	under := func(b *ssa.BasicBlock, tos []*ssa.BasicBlock) bool {
		for _, t := range tos {
			if t == b || dominates(t, b) {
				return true
			}
		}
		return false
	}
	sawCo, sawUn := false, false
	for _, rs := range returnsOf(fn) {
		ret := rs.Instr.(*ssa.Return)
		if len(ret.Results) == 0 {
			return false
		}
		v := ret.Results[0]
		switch x := v.(type) {
		case *ssa.Phi:
			for i, e := range x.Edges {
				pred := x.Block().Preds[i]
				switch {
				case e == ssa.Value(co) && under(pred, nonNilTo):
					sawCo = true
				case e == ssa.Value(un) && !under(pred, nonNilTo):
					sawUn = true
				default:
					return false
				}
			}
		case *ssa.Parameter:
			switch {
			case x == co && under(rs.Block, nonNilTo):
				sawCo = true
			case x == un && !under(rs.Block, nonNilTo):
				sawUn = true
			default:
				return false
			}
		case *ssa.Call:
			sc := x.Call.StaticCallee()
			if sc == nil || !inModule(sc) {
				return false
			}
			var gu, gc *ssa.Parameter
			for i, a := range x.Call.Args {
				if i >= len(sc.Params) {
					break
				}
				if a == ssa.Value(un) {
					gu = sc.Params[i]
				}
				if a == ssa.Value(co) {
					gc = sc.Params[i]
				}
			}
			if gu == nil || gc == nil || !selectsStoredLength(sc, gu, gc, depth+1) {
				return false
			}
			sawCo, sawUn = true, true
		case *ssa.Extract:
			c, isC := x.Tuple.(*ssa.Call)
			if !isC || x.Index != 0 {
				return false
			}
			sc := c.Call.StaticCallee()
			if sc == nil || !inModule(sc) {
				return false
			}
			var gu, gc *ssa.Parameter
			for i, a := range c.Call.Args {
				if i >= len(sc.Params) {
					break
				}
				if a == ssa.Value(un) {
					gu = sc.Params[i]
				}
				if a == ssa.Value(co) {
					gc = sc.Params[i]
				}
			}
			if gu == nil || gc == nil || !selectsStoredLength(sc, gu, gc, depth+1) {
				return false
			}
			sawCo, sawUn = true, true
		default:
			return false
		}
	}
	_ = nilTo
	return sawCo && sawUn
}
