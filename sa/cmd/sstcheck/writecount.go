package main

import (
	"go/token"

	"golang.org/x/tools/go/ssa"
)

// R-write-count: a write that reports fewer bytes than requested without an error value must become an error.
// Instances: the vendored buffered writer's flush (count of the underlying write vs. buffered count) and the payload
// write of FileWriter.Write (count vs. len(payload)).
func ruleWriteCount(r *Report) {
	const rule = "write-count"
	r.Rule(rule, 2, "the byte count returned by the underlying write is compared with the number of bytes that had to be written, and a shortfall leads to an error (io.ErrShortWrite / a failing return): a short write is never reported as success")
	type inst struct {
		fn      string
		isWrite func(c *ssa.Call) bool
		isWant  func(v ssa.Value) bool
	}
	insts := []inst{
		{"recordio.Writer.Flush",
			func(c *ssa.Call) bool {
				if !c.Call.IsInvoke() || c.Call.Method.Name() != "Write" {
					return false
				}
				_, f, _, ok := loadOfField(c.Call.Value)
				return ok && f == "wr"
			},
			func(v ssa.Value) bool { _, f, _, ok := loadOfField(v); return ok && f == "n" }},
		{"recordio.FileWriter.Write",
			func(c *ssa.Call) bool {
				if !c.Call.IsInvoke() || c.Call.Method.Name() != "Write" {
					return false
				}
				_, f, _, ok := loadOfField(c.Call.Value)
				return ok && f == "bufWriter"
			},
			func(v ssa.Value) bool {
				c, ok := v.(*ssa.Call)
				if !ok {
					return false
				}
				b, ok := c.Call.Value.(*ssa.Builtin)
				return ok && b.Name() == "len"
			}},
	}
	for _, in := range insts {
		fn := r.NeedFunc(rule, in.fn)
		if fn == nil {
			continue
		}
		key := rule + "/" + in.fn
		var w *Site
		eachInstr(fn, func(s Site) {
			if c, ok := s.Instr.(*ssa.Call); ok && in.isWrite(c) {
				ss := s
				w = &ss
			}
		})
		if w == nil {
			r.Missing(rule, key, "underlying write not found")
			continue
		}
		var cnt ssa.Value
		for _, rf := range *w.Instr.(ssa.Value).Referrers() {
			if ex, ok := rf.(*ssa.Extract); ok && ex.Index == 0 {
				cnt = ex
			}
		}
		ok := false
		_, failEdges := errorEdges(*w)
		for _, b := range liveBlocks(fn) {
			if len(b.Instrs) == 0 {
				continue
			}
			// a comparison that only runs once the write already reported an error does not count
			underErr := false
			for _, e := range failEdges {
				if e.To == b || dominates(e.To, b) {
					underErr = true
				}
			}
			if underErr {
				continue
			}
			iff, isI := b.Instrs[len(b.Instrs)-1].(*ssa.If)
			if !isI {
				continue
			}
			bo, isB := iff.Cond.(*ssa.BinOp)
			if !isB {
				continue
			}
			x, y := stripConvert(bo.X), stripConvert(bo.Y)
			var short *ssa.BasicBlock
			switch {
			case x == cnt && in.isWant(y) && (bo.Op == token.LSS || bo.Op == token.NEQ):
				short = b.Succs[0]
			case x == cnt && in.isWant(y) && (bo.Op == token.GEQ || bo.Op == token.EQL):
				short = b.Succs[1]
			case y == cnt && in.isWant(x) && (bo.Op == token.GTR || bo.Op == token.NEQ):
				short = b.Succs[0]
			case y == cnt && in.isWant(x) && (bo.Op == token.LEQ || bo.Op == token.EQL):
				short = b.Succs[1]
			}
			if short == nil || !precedes(*w, Site{Fn: fn, Block: b, Idx: len(b.Instrs) - 1, Instr: iff}) {
				continue
			}
			// the short edge leads to an error: a failing return, or a use of io.ErrShortWrite within two blocks
			if endsInFailingReturn(short) {
				ok = true
			}
			seen := map[*ssa.BasicBlock]bool{}
			var walk func(bl *ssa.BasicBlock, d int)
			walk = func(bl *ssa.BasicBlock, d int) {
				if d > 2 || seen[bl] {
					return
				}
				seen[bl] = true
				for _, ins := range bl.Instrs {
					if u, isU := ins.(*ssa.UnOp); isU && globalLoad(u) == "io.ErrShortWrite" {
						ok = true
					}
				}
				for _, su := range bl.Succs {
					walk(su, d+1)
				}
			}
			walk(short, 0)
		}
		if ok {
			r.OK(rule, key, w.Pos(), "short count → error")
		} else {
			r.Bad(rule, key, w.Pos(), "the count returned by the write is not checked against the requested length: a short write (disk full without an error value) is acknowledged as complete")
		}
	}
}
