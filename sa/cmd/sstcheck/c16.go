package main

import (
	"fmt"
	"go/token"
	"strings"

	"golang.org/x/tools/go/ssa"
)

func init() {
	register("C16",
		"Static shape rules for the skip-list map and the merge heap — only the clauses whose truth is visible in the shape of the code: (E-SIGN) the descent advances exactly when the search key is greater than the next node's key and otherwise records the predecessor / descends; Get reports found exactly on comparator result 0; Insert rejects exactly equal keys, links the new node's forward pointer before publishing it in the predecessor, and increments the size exactly once on the non-panicking path; range iterators reject inverted bounds and honour the inclusive upper bound; the heap's less-than is 'comparator < 0'; Next reads key, value and input identity of the root before refilling it and returns exactly those, removes an input exactly on the exhaustion sentinel and reports exhaustion when empty; init admits an input exactly when its first fill succeeded. Tower heights, sift arithmetic and 'every element exactly once' are value-level and are NOT decided; this is a set of necessary conditions, not the sorted-map / k-way-merge property.",
		[]string{"comparators honour the sign contract", "heap sift-up/down index arithmetic and random tower heights are outside static reach"},
		runC16)
}

func runC16(r *Report) {
	ruleSkiplistShape(r)
	ruleBoundsSign(r)
	ruleHeapShape(r)
	ruleSentinelForm(r, "pq", "skiplist")
	ruleMergeAcceptsAnyCount(r)
}

func ruleSkiplistShape(r *Report) {
	const rs = "skiplist-shape"
	r.Rule(rs, 6, "skip list: descent step, found test, duplicate rejection, link order and size accounting react to exactly the intended comparator signs / happen in the required order")
	// (1) descent
	if fn := r.NeedFunc(rs, "skiplist.findGreaterOrEqual"); fn != nil {
		key := rs + "/skiplist.findGreaterOrEqual/advance-iff-greater"
		var cmp *Site
		swapped := false
		eachInstr(fn, func(s Site) {
			c, ok := s.Instr.(*ssa.Call)
			if !ok || !isCompareCall(c) {
				return
			}
			a := argsOf(c)
			if po := paramOrigin(a[0]); po != nil && refName(po) == "key" {
				ss := s
				cmp = &ss
			} else if po := paramOrigin(a[1]); po != nil && refName(po) == "key" {
				ss := s
				cmp, swapped = &ss, true
			}
		})
		if cmp == nil {
			r.Bad(rs, key, fn.Pos(), "the descent never compares the search key with the next node's key")
		} else {
			// the branch that tests the result: which successor is taken for each representative result?
			c := cmp.Instr.(ssa.Value)
			var testB *ssa.BasicBlock
			for _, b := range liveBlocks(fn) {
				if _, ok := branchOn(b, c, 0); ok {
					testB = b
				}
			}
			if testB == nil {
				r.Unk(rs, key, cmp.Pos(), "the comparator result is not tested against a constant")
			} else {
				retDom := func(b *ssa.BasicBlock) bool {
					for _, rsite := range returnsOf(fn) {
						if b == rsite.Block || dominates(b, rsite.Block) {
							return true
						}
					}
					return false
				}
				prof := ""
				for _, v := range signReps {
					t, _ := branchOn(testB, c, v)
					if retDom(t) {
						prof += "S" // stop side: records the predecessor / descends / returns
					} else {
						prof += "A" // advance side
					}
				}
				want := "SSSAA"
				if swapped {
					want = "AASSS"
				}
				if prof == want {
					r.OK(rs, key, cmp.Pos(), "advance exactly while key > next.key (profile "+prof+")")
				} else {
					r.Bad(rs, key, cmp.Pos(), fmt.Sprintf("descent step profile %s (expected %s): the search stops before or runs past the first node >= key", prof, want))
				}
			}
		}
	}
	// (2) Get: found iff == 0 ; (3) Insert: panic iff == 0
	if fn := r.NeedFunc(rs, "skiplist.Map.Get"); fn != nil {
		key := rs + "/skiplist.Map.Get/found-iff-equal"
		ok := false
		eachInstr(fn, func(s Site) {
			if c, isC := s.Instr.(*ssa.Call); isC && isCompareCall(c) {
				if signProfile(s, nilReturns(fn), nil) == "--R--" {
					ok = true
				}
			}
		})
		if ok {
			r.OK(rs, key, fn.Pos(), "value returned exactly for comparator result 0")
		} else {
			r.Bad(rs, key, fn.Pos(), "Get reports a key as found for a comparator result other than 0 (or not for 0)")
		}
	}
	if fn := r.NeedFunc(rs, "skiplist.Map.Insert"); fn != nil {
		key := rs + "/skiplist.Map.Insert/rejects-equal-only"
		var panics []Site
		eachInstr(fn, func(s Site) {
			if _, ok := s.Instr.(*ssa.Panic); ok {
				panics = append(panics, s)
			}
		})
		ok := false
		eachInstr(fn, func(s Site) {
			if c, isC := s.Instr.(*ssa.Call); isC && isCompareCall(c) {
				if signProfile(s, panics, nil) == "--R--" {
					ok = true
				}
			}
		})
		if ok {
			r.OK(rs, key, fn.Pos(), "duplicate panic exactly for comparator result 0")
		} else {
			r.Bad(rs, key, fn.Pos(), "Insert rejects (or accepts) the wrong comparator results as duplicates")
		}
		// link order: newNode.SetNext(i, pred.Next(i)) before pred.SetNext(i, newNode)
		key = rs + "/skiplist.Map.Insert/link-order"
		var newNode ssa.Value
		for _, s := range CallsIn(fn, Keys("skiplist.newSkipListNode")) {
			newNode = s.Instr.(ssa.Value)
		}
		var first, second *Site
		eachInstr(fn, func(s Site) {
			c, isC := s.Instr.(*ssa.Call)
			if !isC || !strings.HasSuffix(CalleeKey(c), "Node.SetNext") {
				return
			}
			a := c.Call.Args
			if len(a) >= 3 {
				if a[0] == newNode {
					ss := s
					first = &ss
				} else if a[2] == newNode {
					ss := s
					second = &ss
				}
			}
		})
		if newNode != nil && first != nil && second != nil && precedes(*first, *second) {
			r.OK(rs, key, first.Pos(), "new node's forward pointer set before the predecessor points to it")
		} else {
			r.Bad(rs, key, fn.Pos(), "the predecessor is linked to the new node before the new node's forward pointer is set (or one of the two links is missing): the list is cut or cyclic")
		}
		// size++ exactly once, after the links, on the non-panicking path
		key = rs + "/skiplist.Map.Insert/size-accounting"
		n := 0
		okInc := false
		eachInstr(fn, func(s Site) {
			st, isS := s.Instr.(*ssa.Store)
			if !isS {
				return
			}
			if _, f, _, isF := fieldAddrName(st.Addr); !isF || f != "size" {
				return
			}
			n++
			if bo, isB := st.Val.(*ssa.BinOp); isB && bo.Op == token.ADD {
				if k, isK := constInt(bo.Y); isK && k == 1 {
					if _, f2, _, ok2 := loadOfField(bo.X); ok2 && f2 == "size" {
						okInc = true
						// on every path to the return
						for _, rsite := range returnsOf(fn) {
							if !dominates(s.Block, rsite.Block) {
								okInc = false
							}
						}
					}
				}
			}
		})
		if n == 1 && okInc {
			r.OK(rs, key, fn.Pos(), "size += 1 on every returning path")
		} else {
			r.Bad(rs, key, fn.Pos(), "Insert does not increment the size exactly once per inserted key")
		}
	}
	// range start: IteratorStartingAt / IteratorBetween start at findGreaterOrEqual(lower)
	for _, k := range []string{"skiplist.Map.IteratorStartingAt", "skiplist.Map.IteratorBetween"} {
		fn := r.NeedFunc(rs, k)
		if fn == nil {
			continue
		}
		key := rs + "/" + k + "/starts-at-lower-bound"
		ok := false
		for _, s := range CallsIn(fn, Keys("skiplist.findGreaterOrEqual")) {
			a := s.Call().Common().Args
			if po := paramOrigin(a[1]); po != nil && fn.Params[1] == po {
				// stored into the iterator's node field
				for _, rf := range *s.Instr.(ssa.Value).Referrers() {
					if st, isS := rf.(*ssa.Store); isS {
						if _, f, _, isF := fieldAddrName(st.Addr); isF && f == "node" {
							ok = true
						}
					}
				}
			}
		}
		if ok {
			r.OK(rs, key, fn.Pos(), "iterator starts at the first node >= the lower bound")
		} else {
			r.Bad(rs, key, fn.Pos(), "the range iterator does not start at findGreaterOrEqual(lower bound)")
		}
	}
}

func ruleHeapShape(r *Report) {
	p := r.P
	const rh = "heap-shape"
	r.Rule(rh, 6, "merge heap: less-than is 'comparator < 0'; Next returns the root's key/value/input identity read before the refill, drops an input exactly on exhaustion, reports exhaustion when empty; init admits exactly the inputs whose first fill succeeded")
	ruleQueueFailureIsFinal(r, rh)
	if fn := r.NeedFunc(rh, "pq.PriorityQueue.lessThan"); fn != nil {
		key := rh + "/pq.PriorityQueue.lessThan"
		ok := false
		for _, rsite := range returnsOf(fn) {
			bo0, isB := rsite.Instr.(*ssa.Return).Results[0].(*ssa.BinOp)
			if !isB {
				continue
			}
			for _, bo := range cmpViews(bo0) {
				if c, isC := bo.X.(*ssa.Call); isC && isCompareCall(c) {
					if k, isK := constInt(bo.Y); isK {
						prof := ""
						for _, v := range signReps {
							res, _ := evalCmp(bo.Op, v, k)
							if res {
								prof += "T"
							} else {
								prof += "-"
							}
						}
						// operand order (i, j)
						a := argsOf(c)
						_, _, b0, ok0 := loadOfFieldOrField(a[0])
						_, _, b1, ok1 := loadOfFieldOrField(a[1])
						if ok0 && ok1 && paramOrigin(b0) == fn.Params[1] && paramOrigin(b1) == fn.Params[2] && prof == "TT---" {
							ok = true
						}
					}
				}
			}
		}
		if ok {
			r.OK(rh, key, fn.Pos(), "lessThan(i, j) = compare(i.key, j.key) < 0")
		} else {
			r.Bad(rh, key, fn.Pos(), "the heap order is not 'comparator(i, j) < 0': the smallest head is not at the root")
		}
	}
	// the sift loops move a hole: slots are copied one way (heap[i] = heap[j]) and the sifted element, saved before the
	// loop, is stored once at the end. Then the comparison that ends the loop has to look at the saved element — the slot it
	// came from is overwritten by the first copy
	for _, k := range []string{"pq.PriorityQueue.upHeap", "pq.PriorityQueue.downHeap"} {
		fn := r.NeedFunc(rh, k)
		if fn == nil {
			continue
		}
		key := rh + "/" + k + "/sift-compares-saved-element"
		inLoop := func(b *ssa.BasicBlock) bool {
			for _, su := range b.Succs {
				if reachFrom(su, nil)[b] {
					return true
				}
			}
			return false
		}
		isHeapSlot := func(v ssa.Value) bool {
			ia, ok := v.(*ssa.IndexAddr)
			if !ok {
				return false
			}
			_, f, _, isF := loadOfField(ia.X)
			return isF && f == "heap"
		}
		isSlotLoad := func(v ssa.Value) bool {
			u, ok := v.(*ssa.UnOp)
			return ok && u.Op == token.MUL && isHeapSlot(u.X)
		}
		holeCopies := 0
		var saved ssa.Value
		eachInstr(fn, func(s Site) {
			st, ok := s.Instr.(*ssa.Store)
			if !ok || !isHeapSlot(st.Addr) || !isSlotLoad(st.Val) {
				return
			}
			ld := st.Val.(*ssa.UnOp)
			if inLoop(s.Block) && ld.Block() == s.Block {
				// a swap writes the other slot as well: that is not a hole
				from := ld.X.(*ssa.IndexAddr).Index
				swap := false
				for _, ins := range s.Block.Instrs {
					if o, isS := ins.(*ssa.Store); isS && o != st && isHeapSlot(o.Addr) && o.Addr.(*ssa.IndexAddr).Index == from {
						swap = true
					}
				}
				if !swap {
					holeCopies++
				}
			} else if !inLoop(s.Block) && !inLoop(ld.Block()) && ld.Block() != s.Block {
				saved = st.Val
			}
		})
		switch {
		case holeCopies == 0:
			r.OK(rh, key, fn.Pos(), "no one-way slot copies in a loop (not the hole technique)")
		case saved == nil:
			r.Unk(rh, key, fn.Pos(), "slots are copied one way inside the loop but the saved element that is stored behind the loop was not recognised")
		default:
			bad := ""
			n := 0
			for _, b := range liveBlocks(fn) {
				if !inLoop(b) {
					continue
				}
				cnd, tS, fS, _, _, ok := effCond(b)
				if !ok {
					continue
				}
				c, isC := cnd.(*ssa.Call)
				if !isC || c.Call.StaticCallee() == nil || !strings.HasSuffix(FuncKey(genericBody(c.Call.StaticCallee())), "PriorityQueue.lessThan") {
					continue
				}
				if inLoop(tS) && reachFrom(tS, nil)[b] && inLoop(fS) && reachFrom(fS, nil)[b] {
					continue // does not leave the loop (choice of the smaller child)
				}
				n++
				has := false
				for _, a := range c.Call.Args {
					if a == saved {
						has = true
					}
				}
				if !has {
					bad = r.P.Pos(c.Pos())
				}
			}
			if bad != "" {
				r.Bad(rh, key, fn.Pos(), "the comparison that ends the sift loop ("+bad+") does not look at the element that is being sifted (saved before the loop) but at a slot the loop has already overwritten: an element rises or sinks at most one level, the root is not the smallest head — a merge over four or more inputs emits keys out of order, the table writer refuses them and the compaction goroutine stops the process")
			} else if n == 0 {
				r.Unk(rh, key, fn.Pos(), "no loop-ending comparison found")
			} else {
				r.OK(rh, key, fn.Pos(), "the loop-ending comparison uses the saved element")
			}
		}
	}
	if fn := r.NeedFunc(rh, "pq.PriorityQueue.Next"); fn != nil {
		fill := CallsIn(fn, Keys("pq.PriorityQueue.fillNext"))
		key := rh + "/pq.PriorityQueue.Next/read-before-refill"
		ok := len(fill) == 1
		var kv, vv, cv ssa.Value
		if ok {
			eachInstr(fn, func(s Site) {
				switch x := s.Instr.(type) {
				case *ssa.UnOp:
					if _, f, _, isF := loadOfField(x); isF && precedes(s, fill[0]) {
						if f == "key" {
							kv = x
						} else if f == "value" {
							vv = x
						}
					}
				case *ssa.Call:
					if strings.HasSuffix(CalleeKey(x), "IteratorWithContext.Context") && precedes(s, fill[0]) {
						cv = x
					}
				}
			})
			ok = kv != nil && vv != nil && cv != nil
			if ok {
				for _, nr := range nilReturns(fn) {
					res := nr.Instr.(*ssa.Return).Results
					get := func(v ssa.Value) ssa.Value {
						if _, vals := classifyErrVal(v, map[ssa.Value]bool{}); len(vals) == 1 {
							return vals[0]
						}
						return v
					}
					if get(res[0]) != kv || get(res[1]) != vv || get(res[2]) != cv {
						ok = false
					}
				}
			}
		}
		if ok {
			r.OK(rh, key, fn.Pos(), "key, value and input identity are read from the root before it is refilled, and returned")
		} else {
			r.Bad(rh, key, fn.Pos(), "Next does not return the root's key / value / input identity as read before the refill: elements are attributed to the wrong input or skipped")
		}
		// exhausted input dropped exactly on Done; empty heap reports Done
		key = rh + "/pq.PriorityQueue.Next/drop-on-exhaustion"
		okDrop := false
		if len(fill) == 1 {
			al := errAliases(fill[0])
			for _, b := range liveBlocks(fn) {
				if v, g, isS, _, okT := sentinelTest(b); okT && al[v] && g == "pq.Done" {
					// the Done edge shrinks the heap: a store to field size of (size - 1)
					reach := reachFrom(isS, nil)
					eachInstr(fn, func(s Site) {
						if st, isSt := s.Instr.(*ssa.Store); isSt && reach[s.Block] && (s.Block == isS || dominates(isS, s.Block)) {
							if _, f, _, isF := fieldAddrName(st.Addr); isF && f == "size" {
								if bo, isB := st.Val.(*ssa.BinOp); isB && bo.Op == token.SUB {
									okDrop = true
								}
							}
						}
					})
				}
			}
		}
		if okDrop {
			r.OK(rh, key, fn.Pos(), "an input leaves the heap exactly when its refill reports exhaustion")
		} else {
			r.Bad(rh, key, fn.Pos(), "the heap does not shrink exactly on the exhaustion sentinel of the refilled input")
		}
		key = rh + "/pq.PriorityQueue.Next/empty-reports-done"
		okEmpty := false
		for _, b := range liveBlocks(fn) {
			if len(b.Instrs) == 0 {
				continue
			}
			for _, v := range ifCmpForms(b) {
				if v.Op != token.EQL {
					continue
				}
				if _, f, _, isF := loadOfField(v.X); isF && f == "size" {
					if k, isK := constInt(v.Y); isK && k == 0 && returnedSentinel(v.T) == "pq.Done" {
						okEmpty = true
					}
				}
			}
		}
		if okEmpty {
			r.OK(rh, key, fn.Pos(), "size == 0 → Done")
		} else {
			r.Bad(rh, key, fn.Pos(), "an empty heap does not report the exhaustion sentinel")
		}
	}
	if fn := r.NeedFunc(rh, "pq.PriorityQueue.init"); fn != nil {
		key := rh + "/pq.PriorityQueue.init/admit-iff-filled"
		fill := CallsIn(fn, Keys("pq.PriorityQueue.fillNext"))
		var appends []Site
		eachInstr(fn, func(s Site) {
			if st, ok := s.Instr.(*ssa.Store); ok {
				if _, f, _, isF := fieldAddrName(st.Addr); isF && f == "heap" {
					if c, isC := st.Val.(*ssa.Call); isC && CalleeKey(c) == "builtin.append" {
						appends = append(appends, s)
					}
				}
			}
		})
		o := &order{r, p}
		o.OnlyAfterSuccess(rh, key, fn, "the first fill", fill, "admitting the input to the heap", appends, nil)
	}
}
