package main

// E-LOCK: guarded-by / lock-mode / lock-order analysis for package simpledb.
// Forward must-hold dataflow on SSA per function; interprocedural by a descending fix point over call sites
// (entry lock set of a function = intersection over its module-internal call sites; roots start empty).

import (
	"fmt"
	"go/token"
	"go/types"
	"sort"
	"strings"

	"golang.org/x/tools/go/ssa"
)

type lockState map[string]int // lock id → 1 (shared) | 2 (exclusive); nil map value = TOP (not yet constrained)

var lockAlias = map[string]string{
	"simpledb.DB.rwLock":                   "L_db",
	"simpledb.SSTableManager.databaseLock": "L_db",
	"simpledb.SSTableManager.managerLock":  "L_mgr",
}

func copyLS(s lockState) lockState {
	n := lockState{}
	for k, v := range s {
		n[k] = v
	}
	return n
}

func meetLS(a, b lockState, aTop, bTop bool) (lockState, bool) {
	if aTop {
		return copyLS(b), bTop
	}
	if bTop {
		return copyLS(a), false
	}
	n := lockState{}
	for k, v := range a {
		if w, ok := b[k]; ok {
			if w < v {
				v = w
			}
			n[k] = v
		}
	}
	return n, false
}

func eqLS(a, b lockState) bool {
	if len(a) != len(b) {
		return false
	}
	for k, v := range a {
		if b[k] != v {
			return false
		}
	}
	return true
}

func (s lockState) String() string {
	var ks []string
	for k, v := range s {
		m := "R"
		if v == 2 {
			m = "W"
		}
		ks = append(ks, k+":"+m)
	}
	sort.Strings(ks)
	return "{" + strings.Join(ks, ",") + "}"
}

// lockOp: is this call Lock/RLock/Unlock/RUnlock on a mutex reached through a struct field? → (lock id, op)
func lockOp(c ssa.CallInstruction) (id string, op string) {
	k := CalleeKey(c)
	switch k {
	case "sync.RWMutex.Lock", "sync.RWMutex.RLock", "sync.RWMutex.Unlock", "sync.RWMutex.RUnlock", "sync.Mutex.Lock", "sync.Mutex.Unlock":
	default:
		return "", ""
	}
	args := c.Common().Args
	if len(args) == 0 {
		return "", ""
	}
	recv := args[0]
	t, f, _, ok := loadOfField(recv)
	if !ok {
		// &x.mu (mutex stored by value)
		if t2, f2, _, ok2 := fieldAddrName(recv); ok2 {
			t, f, ok = t2, f2, true
		}
	}
	if !ok {
		return "?", k[strings.LastIndex(k, ".")+1:]
	}
	id = t + "." + f
	if a, ok := lockAlias[id]; ok {
		id = a
	}
	return id, k[strings.LastIndex(k, ".")+1:]
}

type lockAnalysis struct {
	p       *Prog
	fns     []*ssa.Function
	inScope map[*ssa.Function]bool
	entry   map[*ssa.Function]lockState
	top     map[*ssa.Function]bool
	roots   map[*ssa.Function]bool
	blockIn map[*ssa.BasicBlock]lockState
	bTop    map[*ssa.BasicBlock]bool
	// net effect of calling f on the caller's lock set
	releases map[*ssa.Function]map[string]bool
	acquires map[*ssa.Function]map[string]int
	goRoots  map[*ssa.Function]bool
}

func newLockAnalysis(p *Prog, pkg string) *lockAnalysis {
	la := &lockAnalysis{p: p, inScope: map[*ssa.Function]bool{}, entry: map[*ssa.Function]lockState{}, top: map[*ssa.Function]bool{},
		roots: map[*ssa.Function]bool{}, blockIn: map[*ssa.BasicBlock]lockState{}, bTop: map[*ssa.BasicBlock]bool{},
		releases: map[*ssa.Function]map[string]bool{}, acquires: map[*ssa.Function]map[string]int{}, goRoots: map[*ssa.Function]bool{}}
	la.fns = p.FuncsOfPkg(pkg)
	for _, f := range la.fns {
		la.inScope[f] = true
		la.top[f] = true
	}
	// net effects
	for _, f := range la.fns {
		locked := map[string]int{}
		unlocked := map[string]bool{}
		eachInstr(f, func(s Site) {
			if c, ok := s.Instr.(ssa.CallInstruction); ok {
				if id, op := lockOp(c); id != "" {
					switch op {
					case "Lock":
						locked[id] = 2
					case "RLock":
						if locked[id] < 1 {
							locked[id] = 1
						}
					default:
						unlocked[id] = true
					}
				}
			}
		})
		rel := map[string]bool{}
		acq := map[string]int{}
		for id := range unlocked {
			if locked[id] == 0 {
				rel[id] = true
			}
		}
		for id, m := range locked {
			if !unlocked[id] {
				acq[id] = m
			}
		}
		la.releases[f] = rel
		la.acquires[f] = acq
	}
	// roots: functions with no module-internal caller, exported API, goroutine entries
	called := map[*ssa.Function]bool{}
	for _, f := range p.modFns {
		eachInstr(f, func(s Site) {
			switch x := s.Instr.(type) {
			case *ssa.Go:
				for _, t := range p.Callees(x) {
					la.goRoots[t] = true
				}
			case ssa.CallInstruction:
				for _, t := range p.Callees(x) {
					called[t] = true
				}
				for _, a := range x.Common().Args {
					if mc, ok := a.(*ssa.MakeClosure); ok {
						called[mc.Fn.(*ssa.Function)] = true
					} else if fv, ok := a.(*ssa.Function); ok {
						called[fv] = true
					}
				}
			}
		})
	}
	for _, f := range la.fns {
		exported := false
		if o := f.Object(); o != nil && o.Exported() && f.Parent() == nil {
			exported = true
		}
		if !called[f] || exported || la.goRoots[f] {
			la.roots[f] = true
			la.entry[f] = lockState{}
			la.top[f] = false
		}
	}
	la.solve()
	return la
}

func (la *lockAnalysis) solve() {
	for iter := 0; iter < 50; iter++ {
		changed := false
		for _, f := range la.fns {
			if la.top[f] {
				continue
			}
			if la.flow(f) {
				changed = true
			}
		}
		// functions still TOP but now reachable get processed next round
		if !changed {
			break
		}
	}
}

// propagate call-site state into callee entry
func (la *lockAnalysis) into(callee *ssa.Function, s lockState) bool {
	if !la.inScope[callee] || la.goRoots[callee] {
		return false
	}
	if la.roots[callee] && callee.Parent() == nil {
		// an exported function that is also called internally keeps the empty root state
		return false
	}
	old, oldTop := la.entry[callee], la.top[callee]
	n, nt := meetLS(old, s, oldTop, false)
	if oldTop != nt || !eqLS(old, n) {
		la.entry[callee] = n
		la.top[callee] = nt
		return true
	}
	return false
}

// flow runs the intra-procedural must-hold analysis of f; returns whether any callee entry changed.
func (la *lockAnalysis) flow(f *ssa.Function) bool {
	changed := false
	blocks := liveBlocks(f)
	for _, b := range blocks {
		la.bTop[b] = true
		delete(la.blockIn, b)
	}
	la.blockIn[blocks[0]] = copyLS(la.entry[f])
	la.bTop[blocks[0]] = false
	work := []*ssa.BasicBlock{blocks[0]}
	inWork := map[*ssa.BasicBlock]bool{blocks[0]: true}
	for len(work) > 0 {
		b := work[0]
		work = work[1:]
		inWork[b] = false
		st := copyLS(la.blockIn[b])
		for _, ins := range b.Instrs {
			if la.step(f, ins, st, true) {
				changed = true
			}
		}
		for _, su := range b.Succs {
			old, oldTop := la.blockIn[su], la.bTop[su]
			n, nt := meetLS(old, st, oldTop, false)
			if oldTop != nt || !eqLS(old, n) {
				la.blockIn[su] = n
				la.bTop[su] = nt
				if !inWork[su] {
					work = append(work, su)
					inWork[su] = true
				}
			}
		}
	}
	return changed
}

// step applies one instruction to st; with propagate it also pushes st into callee entries.
func (la *lockAnalysis) step(f *ssa.Function, ins ssa.Instruction, st lockState, propagate bool) bool {
	changed := false
	c, ok := ins.(ssa.CallInstruction)
	if !ok {
		return false
	}
	if _, isGo := c.(*ssa.Go); isGo {
		return false
	}
	if id, op := lockOp(c); id != "" {
		if _, isDefer := c.(*ssa.Defer); isDefer {
			return false // released at function exit
		}
		switch op {
		case "Lock":
			st[id] = 2
		case "RLock":
			if st[id] < 1 {
				st[id] = 1
			}
		case "Unlock", "RUnlock":
			delete(st, id)
		}
		return false
	}
	callees := la.p.Callees(c)
	if propagate {
		for _, t := range callees {
			if la.into(t, st) {
				changed = true
			}
		}
		for _, a := range c.Common().Args {
			if mc, ok := a.(*ssa.MakeClosure); ok {
				if la.into(mc.Fn.(*ssa.Function), st) {
					changed = true
				}
			} else if fv, ok := a.(*ssa.Function); ok {
				if la.into(fv, st) {
					changed = true
				}
			}
		}
	}
	if _, isDefer := c.(*ssa.Defer); isDefer {
		return changed
	}
	// net effect of the callee on our state (only when every callee agrees)
	if len(callees) == 1 && la.inScope[callees[0]] {
		for id := range la.releases[callees[0]] {
			delete(st, id)
		}
		for id, m := range la.acquires[callees[0]] {
			if st[id] < m {
				st[id] = m
			}
		}
	}
	return changed
}

// StateAt recomputes the lock set immediately before instruction `at`.
func (la *lockAnalysis) StateAt(s Site) (lockState, bool) {
	if la.top[s.Fn] || la.bTop[s.Block] {
		return nil, false
	}
	st := copyLS(la.blockIn[s.Block])
	for i := 0; i < s.Idx; i++ {
		la.step(s.Fn, s.Block.Instrs[i], st, false)
	}
	return st, true
}

// ---------- rules ----------

type guardSpec struct {
	typ, field string
	lock       string
}

var guardTable = []guardSpec{
	{"simpledb.DB", "memStore", "L_db"},
	{"simpledb.DB", "open", "L_db"},
	{"simpledb.DB", "closed", "L_db"},
	{"simpledb.DB", "wal", "L_db"},
	{"simpledb.SSTableManager", "allSSTableReaders", "L_mgr"},
	{"simpledb.SSTableManager", "currentReader", "L_mgr"},
}

// methods that mutate the object they are called on (through a guarded field)
var mutatingMethods = map[string]bool{
	"Upsert": true, "Delete": true, "Tombstone": true, "Add": true, "DeleteIfExists": true,
	"Append": true, "AppendSync": true, "Rotate": true, "Close": true, "Clean": true, "Flush": true, "FlushWithTombstones": true,
}

// preConcurrency: functions all of whose call paths come from DB.Open before its first go statement.
func preConcurrency(p *Prog) map[*ssa.Function]bool {
	open := p.Func("simpledb.DB.Open")
	pre := map[*ssa.Function]bool{}
	if open == nil {
		return pre
	}
	// call sites in Open not reachable from a go statement
	var gos []Site
	eachInstr(open, func(s Site) {
		if _, ok := s.Instr.(*ssa.Go); ok {
			gos = append(gos, s)
		}
	})
	callers := map[*ssa.Function][]Site{}
	goEntry := map[*ssa.Function]bool{}
	for _, f := range p.FuncsOfPkg("simpledb") {
		eachInstr(f, func(s Site) {
			if g, ok := s.Instr.(*ssa.Go); ok {
				for _, t := range p.Callees(g) {
					goEntry[t] = true
				}
				return
			}
			if c, ok := s.Instr.(ssa.CallInstruction); ok {
				for _, t := range p.Callees(c) {
					callers[t] = append(callers[t], s)
				}
				for _, a := range c.Common().Args {
					if mc, ok := a.(*ssa.MakeClosure); ok {
						callers[mc.Fn.(*ssa.Function)] = append(callers[mc.Fn.(*ssa.Function)], s)
					}
				}
			}
		})
	}
	preSite := func(s Site) bool {
		if s.Fn != open {
			return false
		}
		for _, g := range gos {
			if reachableFromSite(g, s) {
				return false
			}
		}
		return true
	}
	changed := true
	for changed {
		changed = false
		for _, f := range p.FuncsOfPkg("simpledb") {
			if pre[f] || len(callers[f]) == 0 || goEntry[f] {
				continue
			}
			if o := f.Object(); o != nil && o.Exported() && f.Parent() == nil {
				continue
			}
			all := true
			for _, cs := range callers[f] {
				if !(preSite(cs) || pre[cs.Fn]) {
					all = false
				}
			}
			if all {
				pre[f] = true
				changed = true
			}
		}
	}
	return pre
}

func ruleLocks(r *Report) {
	p := r.P
	la := newLockAnalysis(p, "simpledb")
	pre := preConcurrency(p)
	const rg = "guarded-by"
	r.Rule(rg, 25, "every access to DB.memStore/open/closed/wal happens with the database lock held (exclusive for writes and mutating calls), every access to the manager's reader list / merged reader with the manager lock held (exclusive for writes); element writes and closing of live readers additionally need the database lock exclusively")
	const ro = "lock-order"
	r.Rule(ro, 4, "the database lock is never acquired while the manager lock is held; nothing reachable from the flusher goroutine acquires the database lock; the hand-off send happens with the database lock held exclusively; the hand-off channel is unbuffered")

	guardOf := func(t, f string) (string, bool) {
		for _, g := range guardTable {
			if g.typ == t && g.field == f {
				return g.lock, true
			}
		}
		return "", false
	}
	isConstructed := func(base ssa.Value) bool {
		_, ok := base.(*ssa.Alloc)
		return ok
	}
	need := func(s Site, fnKey, what, lock string, mode int, extra string) {
		key := ef0uniq(fmt.Sprintf("%s/%s/%s", rg, fnKey, what))
		if pre[s.Fn] {
			r.OK(rg, key, s.Pos(), "pre-concurrency phase of Open (no other goroutine exists, clients are excluded by the database lock)")
			return
		}
		st, ok := la.StateAt(s)
		if !ok {
			r.Unk(rg, key, s.Pos(), "function is not reachable from the API or a goroutine root in the analysed call graph")
			return
		}
		if st[lock] >= mode {
			r.OK(rg, key, s.Pos(), fmt.Sprintf("lock set %s", st))
		} else {
			m := map[int]string{1: "at least shared", 2: "exclusive"}[mode]
			r.Bad(rg, key, s.Pos(), fmt.Sprintf("%s requires %s in %s mode, lock set here is %s%s", what, lock, m, st, extra))
		}
	}

	for _, fn := range la.fns {
		r.Saw(fn)
		fk := FuncKey(fn)
		inCloseTail := fk == "simpledb.DB.Close"
		if par := fn.Parent(); par != nil && FuncKey(par) == "simpledb.DB.Close" {
			if ds, ok := deferSiteOf(fn); ok && closeTailSite(ds) {
				inCloseTail = true
			}
		}
		eachInstr(fn, func(s Site) {
			switch x := s.Instr.(type) {
			case *ssa.Store:
				if t, f, base, ok := fieldAddrName(x.Addr); ok {
					if lock, ok := guardOf(t, f); ok && !isConstructed(base) {
						need(s, fk, "write "+t+"."+f, lock, 2, "")
					}
				}
				// element write into the live reader list
				if ia, ok := x.Addr.(*ssa.IndexAddr); ok {
					if t, f, _, ok := loadOfField(ia.X); ok && t == "simpledb.SSTableManager" && f == "allSSTableReaders" {
						need(s, fk, "element write allSSTableReaders[i]", "L_mgr", 2, "")
						need(s, fk, "element write allSSTableReaders[i] (array shared with the reader in use by Get)", "L_db", 2, "")
					}
				}
			case *ssa.UnOp:
				if x.Op != token.MUL {
					return
				}
				t, f, base, ok := fieldAddrName(x.X)
				if !ok {
					return
				}
				lock, ok := guardOf(t, f)
				if !ok || isConstructed(base) {
					return
				}
				// is this load the receiver of a mutating call?
				mode := 1
				what := "read " + t + "." + f
				for _, rf := range *x.Referrers() {
					if c, ok := rf.(ssa.CallInstruction); ok {
						cc := c.Common()
						name := ""
						if cc.IsInvoke() && cc.Value == ssa.Value(x) {
							name = cc.Method.Name()
						} else if sc := cc.StaticCallee(); sc != nil && len(cc.Args) > 0 && cc.Args[0] == ssa.Value(x) && sc.Signature.Recv() != nil {
							name = fnName(sc)
						}
						if mutatingMethods[name] {
							mode = 2
							what = "mutating call " + t + "." + f + "." + name
						}
					}
				}
				if inCloseTail && (f == "wal") {
					// named exemption: the tail of Close runs after closed=true was published under the lock and both
					// goroutines were joined; no client can pass the closed check any more
					if closeTailSite(s) {
						key := ef0uniq(fmt.Sprintf("%s/%s/%s", rg, fk, what))
						r.OK(rg, key, s.Pos(), "exempt (named): tail of DB.Close after closed=true was published and both goroutines were joined")
						return
					}
				}
				need(s, fk, what, lock, mode, "")
			case ssa.CallInstruction:
				ck := CalleeKey(x)
				// helper that mutates its slice argument in place (append on a reslice of the parameter)
				for _, t := range p.Callees(x) {
					if inPlaceSliceMutator(t) {
						for _, a := range argsOf(x) {
							if tt, f, _, ok := loadOfField(a); ok && tt == "simpledb.SSTableManager" && f == "allSSTableReaders" {
								need(s, fk, "in-place removal from allSSTableReaders ("+FuncKey(t)+")", "L_mgr", 2, "")
								need(s, fk, "in-place removal from allSSTableReaders (array shared with the reader in use by Get)", "L_db", 2, "")
							}
						}
					}
				}
				// closing a live reader
				if strings.HasSuffix(ck, ".Close") {
					cc := x.Common()
					if cc.IsInvoke() {
						if isElemOfField(cc.Value, "simpledb.SSTableManager", "allSSTableReaders") {
							need(s, fk, "closing a live table reader", "L_db", 2, " (a Get holding the shared lock may be reading from it)")
						}
					}
				}
				// the merged reader is fetched and used by clients under the database lock
				if ck == "simpledb.SSTableManager.currentSSTable" && !inCloseTail {
					need(s, fk, "use of the merged table reader", "L_db", 1, "")
				}
			}
		})
	}

	// ---- order ----
	for _, fn := range la.fns {
		fk := FuncKey(fn)
		eachInstr(fn, func(s Site) {
			switch x := s.Instr.(type) {
			case ssa.CallInstruction:
				if _, isDefer := x.(*ssa.Defer); isDefer {
					return
				}
				if id, op := lockOp(x); id == "L_db" && (op == "Lock" || op == "RLock") {
					st, ok := la.StateAt(s)
					key := ef0uniq(fmt.Sprintf("%s/%s/acquire-L_db", ro, fk))
					if !ok {
						return
					}
					if st["L_mgr"] > 0 {
						r.Bad(ro, key, s.Pos(), "the database lock is acquired while the manager lock is held (lock-order inversion with reflectCompactionResult)")
					} else if st["L_db"] > 0 {
						r.Bad(ro, key, s.Pos(), "the database lock is acquired while already held (self-deadlock on sync.RWMutex)")
					} else {
						r.OK(ro, key, s.Pos(), fmt.Sprintf("acquired with lock set %s", st))
					}
				}
				if id, op := lockOp(x); id == "L_mgr" && (op == "Lock" || op == "RLock") {
					st, ok := la.StateAt(s)
					if ok && st["L_mgr"] > 0 {
						r.Bad(ro, ef0uniq(fmt.Sprintf("%s/%s/acquire-L_mgr", ro, fk)), s.Pos(), "the manager lock is acquired while already held (self-deadlock)")
					}
				}
			case *ssa.Send:
				if _, f, _, ok := loadOfField(x.Chan); ok && f == "storeFlushChannel" {
					st, ok := la.StateAt(s)
					key := ef0uniq(fmt.Sprintf("%s/%s/send-storeFlushChannel", ro, fk))
					if pre[fn] {
						r.OK(ro, key, s.Pos(), "pre-concurrency")
					} else if !ok || st["L_db"] < 2 {
						r.Bad(ro, key, s.Pos(), fmt.Sprintf("the memstore hand-off is sent without the database lock held exclusively (lock set %s): a concurrent writer can race the swap", st))
					} else {
						r.OK(ro, key, s.Pos(), fmt.Sprintf("hand-off under %s", st))
					}
				}
			}
		})
	}
	// flusher never needs L_db
	if fl := p.Func("simpledb.flushMemstoreContinuously"); fl != nil {
		key := ro + "/flusher-needs-no-L_db"
		bad := ""
		for _, f := range moduleReach(p, []*ssa.Function{fl}) {
			eachInstr(f, func(s Site) {
				if c, ok := s.Instr.(ssa.CallInstruction); ok {
					if id, op := lockOp(c); id == "L_db" && (op == "Lock" || op == "RLock") {
						bad = FuncKey(f) + "@" + p.Pos(s.Pos())
					}
				}
			})
		}
		if bad != "" {
			r.Bad(ro, key, fl.Pos(), "code reachable from the flusher acquires the database lock ("+bad+"); the rotation sends on the unbuffered channel while holding it → deadlock")
		} else {
			r.OK(ro, key, fl.Pos(), "no database-lock acquisition reachable from the flusher goroutine")
		}
	} else {
		r.Missing(ro, ro+"/flusher", "flusher goroutine entry not found")
	}
	ruleUnbuffered(r, ro)
	ruleLockAlias(r, ro)
}

// closeTailSite: in DB.Close, the site is dominated by the immediately-invoked closure that performs the join.
func closeTailSite(s Site) bool {
	// a function literal deferred in the tail runs when Close returns: later still
	if ds, ok := deferSiteOf(s.Fn); ok {
		s = ds
	}
	for _, a := range s.Fn.AnonFuncs {
		cs, ok := immediateCallOf(a)
		if !ok {
			continue
		}
		joins := false
		eachInstr(a, func(x Site) {
			if u, ok := x.Instr.(*ssa.UnOp); ok && u.Op == token.ARROW {
				if _, f, _, ok := loadOfField(u.X); ok && f == "doneFlushChannel" {
					joins = true
				}
			}
		})
		if joins && precedes(cs, s) {
			return true
		}
	}
	return false
}

// inPlaceSliceMutator: function with a slice parameter whose body appends onto a reslice of that parameter.
func inPlaceSliceMutator(f *ssa.Function) bool {
	if f == nil || f.Blocks == nil || !inModule(f) {
		return false
	}
	res := false
	eachInstr(f, func(s Site) {
		c, ok := s.Instr.(*ssa.Call)
		if !ok {
			return
		}
		b, ok := c.Call.Value.(*ssa.Builtin)
		if !ok || b.Name() != "append" || len(c.Call.Args) == 0 {
			return
		}
		if sl, ok := c.Call.Args[0].(*ssa.Slice); ok {
			if _, isParam := sl.X.(*ssa.Parameter); isParam {
				res = true
			}
		}
	})
	return res
}

// isElemOfField: v is `*(&(x.f)[i])` i.e. an element of slice field f.
func isElemOfField(v ssa.Value, typ, field string) bool {
	u, ok := v.(*ssa.UnOp)
	if !ok || u.Op != token.MUL {
		return false
	}
	ia, ok := u.X.(*ssa.IndexAddr)
	if !ok {
		return false
	}
	t, f, _, ok := loadOfField(ia.X)
	return ok && t == typ && f == field
}

// R-unbuffered: the value stored in DB.storeFlushChannel is make(chan T) with capacity 0.
func ruleUnbuffered(r *Report, rule string) {
	p := r.P
	key := rule + "/storeFlushChannel-unbuffered"
	found := false
	for _, fn := range p.FuncsOfPkg("simpledb") {
		eachInstr(fn, func(s Site) {
			st, ok := s.Instr.(*ssa.Store)
			if !ok {
				return
			}
			if _, f, _, ok := fieldAddrName(st.Addr); !ok || f != "storeFlushChannel" {
				return
			}
			found = true
			mc, ok := st.Val.(*ssa.MakeChan)
			if !ok {
				r.Unk(rule, key, st.Pos(), "the hand-off channel is not created by make(chan …) at the store site")
				return
			}
			if n, ok := constInt(mc.Size); ok && n == 0 {
				r.OK(rule, key, st.Pos(), "make(chan memStoreFlushAction) without capacity")
			} else {
				r.Bad(rule, key, st.Pos(), "the memstore hand-off channel is buffered: a second rotation can drop the first memstore from the read path before its table is visible")
			}
		})
	}
	if !found {
		r.Missing(rule, key, "no store to DB.storeFlushChannel found")
	}
}

// the alias fact the lock table relies on: DB.rwLock and SSTableManager.databaseLock are the same mutex
func ruleLockAlias(r *Report, rule string) {
	p := r.P
	key := rule + "/alias-rwLock-databaseLock"
	fn := p.Func("simpledb.NewSimpleDB")
	mg := p.Func("simpledb.NewSSTableManager")
	if fn == nil || mg == nil {
		r.Missing(rule, key, "NewSimpleDB / NewSSTableManager not found")
		return
	}
	var stored ssa.Value
	eachInstr(fn, func(s Site) {
		if st, ok := s.Instr.(*ssa.Store); ok {
			if t, f, _, ok := fieldAddrName(st.Addr); ok && t == "simpledb.DB" && f == "rwLock" {
				stored = st.Val
			}
		}
	})
	passed := false
	for _, c := range CallsIn(fn, Keys("simpledb.NewSSTableManager")) {
		for _, a := range c.Call().Common().Args {
			if a == stored && stored != nil {
				passed = true
			}
		}
	}
	// inside NewSSTableManager the *sync.RWMutex parameter is stored into databaseLock
	inMgr := false
	eachInstr(mg, func(s Site) {
		if st, ok := s.Instr.(*ssa.Store); ok {
			if t, f, _, ok := fieldAddrName(st.Addr); ok && t == "simpledb.SSTableManager" && f == "databaseLock" {
				if pr, ok := st.Val.(*ssa.Parameter); ok {
					if pt, ok := pr.Type().(*types.Pointer); ok && typeShort(pt) == "sync.RWMutex" {
						inMgr = true
					}
				}
			}
		}
	})
	if passed && inMgr {
		r.OK(rule, key, fn.Pos(), "one *sync.RWMutex value initialises DB.rwLock and SSTableManager.databaseLock")
	} else {
		r.Bad(rule, key, fn.Pos(), "DB.rwLock and SSTableManager.databaseLock are no longer the same mutex: the compaction swap does not exclude readers")
	}
}
