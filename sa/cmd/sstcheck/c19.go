package main

func init() {
	register("C19",
		"Static ownership rules: (E-OWNER) every closable field of every struct type with a Close method is closed by that Close (named exceptions with reasons); every closable value obtained from a constructor/open call is closed, returned, stored into an owner or handed to an ownership-taking callee; in the compaction swap every input's live reader is closed before its directory is removed and no condition other than 'a reader for this path exists' can skip that close; (E-JOIN) both goroutines started by Open signal a done channel, have a stop signal that Close raises, are joined by Close, the ticker is stopped, and the WAL / table readers are closed only after both joins. Decides these shapes; descriptor counts at run time and error-path leaks are not decided.",
		[]string{"fault-free workloads (the property speaks about them): error-path leaks are reported as notes only", "finalizers are not relied upon"},
		func(r *Report) {
			ruleOwnerFields(r)
			ruleOwnerOverwrite(r)
			ruleReplayClosesPerFile(r)
			ruleNoAcquireAfterClose(r)
			ruleCloseReleasesAll(r)
			ruleOpenFailureReleases(r)
			ruleStackKeepsEveryReader(r)
			ruleAcquireFailureCloses(r, []string{"simpledb", "sstables", "memstore", "recordio", "recordio/proto", "wal", "wal/proto"})
			ruleOwnerLocals(r, []string{"simpledb", "sstables", "wal", "memstore", "recordio", "recordio/proto"})
			ruleEvict(r)
			ruleJoin(r)
			ruleCloseFlushes(r)
		})
}
