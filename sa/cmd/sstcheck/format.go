package main

// E-FORMAT / E-TABLE / E-RANGE / E-NILFLAG: writer ↔ reader agreement on the RecordIO format.

import (
	"encoding/binary"
	"fmt"
	"go/ast"
	"go/constant"
	"go/token"
	"go/types"
	"sort"
	"strings"

	"golang.org/x/tools/go/ssa"
)

// ---------- field sequences ----------

type field struct {
	kind string // "uvarint" | "byte" | "bytes" | "u4"
	val  ssa.Value
	pos  token.Pos
}

func seqString(fs []field) string {
	var out []string
	for _, f := range fs {
		out = append(out, f.kind)
	}
	return "[" + strings.Join(out, ",") + "]"
}

// acyclicPaths enumerates entry→return paths of a loop-free function (bounded).
func acyclicPaths(fn *ssa.Function, follow func(b *ssa.BasicBlock) []*ssa.BasicBlock) [][]*ssa.BasicBlock {
	var out [][]*ssa.BasicBlock
	var cur []*ssa.BasicBlock
	on := map[*ssa.BasicBlock]bool{}
	var walk func(b *ssa.BasicBlock)
	walk = func(b *ssa.BasicBlock) {
		if on[b] || len(out) > 256 {
			return
		}
		on[b] = true
		cur = append(cur, b)
		succs := follow(b)
		if len(succs) == 0 {
			if _, ok := b.Instrs[len(b.Instrs)-1].(*ssa.Return); ok {
				out = append(out, append([]*ssa.BasicBlock{}, cur...))
			}
		}
		for _, s := range succs {
			walk(s)
		}
		cur = cur[:len(cur)-1]
		on[b] = false
	}
	walk(fn.Blocks[0])
	return out
}

// emitSequence: the ordered fields a header-filling function writes into its buffer, identical on every path.
func emitSequence(fn *ssa.Function) ([]field, string) {
	paths := acyclicPaths(fn, func(b *ssa.BasicBlock) []*ssa.BasicBlock { return b.Succs })
	var ref []field
	for pi, path := range paths {
		var seq []field
		for _, b := range path {
			for _, ins := range b.Instrs {
				switch x := ins.(type) {
				case *ssa.Call:
					if CalleeKey(x) == "encoding/binary.PutUvarint" {
						seq = append(seq, field{"uvarint", x.Call.Args[1], x.Pos()})
					}
				case *ssa.Store:
					if ia, ok := x.Addr.(*ssa.IndexAddr); ok {
						if _, isParam := ia.X.(*ssa.Parameter); isParam {
							if bt, ok := x.Val.Type().Underlying().(*types.Basic); ok && bt.Kind() == types.Uint8 {
								seq = append(seq, field{"byte", x.Val, x.Pos()})
							}
						}
					}
				}
			}
		}
		if pi == 0 {
			ref = seq
		} else if seqString(seq) != seqString(ref) {
			return nil, "paths emit different field sequences: " + seqString(ref) + " vs " + seqString(seq)
		}
	}
	if len(paths) == 0 {
		return nil, "no path"
	}
	return ref, ""
}

// consumeSequence: the ordered fields a header-reading function consumes along its success path
// (at each error test the nil-error edge is followed).
func consumeSequence(fn *ssa.Function) ([]field, []*ssa.BasicBlock) {
	follow := func(b *ssa.BasicBlock) []*ssa.BasicBlock {
		if v, nilS, _, ok := nilTest(b); ok && isErrorType(v.Type()) {
			return []*ssa.BasicBlock{nilS}
		}
		return b.Succs
	}
	paths := acyclicPaths(fn, follow)
	// the success path: the one ending in a nil-error return; take the longest
	var best []*ssa.BasicBlock
	idx := errorResultIndex(fn)
	for _, p := range paths {
		last := p[len(p)-1]
		ret := last.Instrs[len(last.Instrs)-1].(*ssa.Return)
		if k, _ := returnErrOperand(ret, idx); k != "nil" && idx >= 0 {
			// named result `err` returned as-is at the end (generated code: `return err`) counts as success path too
			if k == "unknown" || k == "val" {
				if len(p) > len(best) {
					best = p
				}
			}
			continue
		}
		if len(p) >= len(best) {
			best = p
		}
	}
	var seq []field
	for _, b := range best {
		for _, ins := range b.Instrs {
			c, ok := ins.(*ssa.Call)
			if !ok {
				continue
			}
			switch k := CalleeKey(c); {
			case k == "encoding/binary.ReadUvarint":
				seq = append(seq, field{"uvarint", c, c.Pos()})
			case strings.HasSuffix(k, ".ReadByte") || strings.HasSuffix(k, "Stream.ReadU1"):
				seq = append(seq, field{"byte", c, c.Pos()})
			case strings.HasSuffix(k, "Stream.ReadU4le"):
				seq = append(seq, field{"u4", c, c.Pos()})
			case strings.HasSuffix(k, "Stream.ReadBytes"):
				seq = append(seq, field{"bytes", c, c.Pos()})
			case strings.HasSuffix(k, "VlqBase128Le.Read"):
				seq = append(seq, field{"uvarint", c, c.Pos()})
			case strings.HasSuffix(k, "checksumByteReader.Checksum"):
				seq = append(seq, field{"checksum", c, c.Pos()})
			case strings.HasSuffix(k, "checksumByteReader.Reset"):
				seq = append(seq, field{"reset", c, c.Pos()})
			}
		}
	}
	return seq, best
}

func uvarintBytes(v uint64) []byte {
	buf := make([]byte, binary.MaxVarintLen64)
	n := binary.PutUvarint(buf, v)
	return buf[:n]
}

// constOf: package-level constant value as uint64.
func pkgConst(p *Prog, pkgShort, name string) (uint64, bool) {
	pk := p.All[modPath+"/"+pkgShort]
	if pk == nil {
		return 0, false
	}
	o, ok := pk.Types.Scope().Lookup(name).(*types.Const)
	if !ok {
		return 0, false
	}
	return constant.Uint64Val(constant.ToInt(o.Val()))
}

// byteSliceVar: the literal bytes a package-level `var X = []byte{…}` is initialised with.
func byteSliceVar(p *Prog, pkgShort, name string) ([]byte, bool) {
	pk := p.All[modPath+"/"+pkgShort]
	if pk == nil {
		return nil, false
	}
	for _, f := range pk.Syntax {
		for _, d := range f.Decls {
			gd, ok := d.(*ast.GenDecl)
			if !ok || gd.Tok != token.VAR {
				continue
			}
			for _, sp := range gd.Specs {
				vs := sp.(*ast.ValueSpec)
				for i, n := range vs.Names {
					if n.Name != name || i >= len(vs.Values) {
						continue
					}
					cl, ok := vs.Values[i].(*ast.CompositeLit)
					if !ok {
						return nil, false
					}
					var out []byte
					for _, e := range cl.Elts {
						tv, ok := pk.TypesInfo.Types[e]
						if !ok || tv.Value == nil {
							return nil, false
						}
						u, _ := constant.Uint64Val(constant.ToInt(tv.Value))
						out = append(out, byte(u))
					}
					return out, true
				}
			}
		}
	}
	return nil, false
}

func ruleFormat(r *Report) {
	const rule = "format"
	r.Rule(rule, 6, "the v4 record header is written and read as the same field sequence [uvarint marker, nil byte, uvarint uncompressed length, uvarint compressed length, uvarint crc]; the marker literal equals the uvarint encoding of the marker constant; the reader's results are the fields the writer filled from the corresponding arguments; both native readers parse through the one header reader")
	p := r.P
	w := r.NeedFunc(rule, "recordio.fillRecordHeaderV4")
	rd := r.NeedFunc(rule, "recordio.readRecordHeaderV4")
	if w == nil || rd == nil {
		return
	}
	ws, werr := emitSequence(w)
	rs, _ := consumeSequence(rd)
	want := "[uvarint,byte,uvarint,uvarint,uvarint]"
	key := rule + "/recordio.fillRecordHeaderV4/sequence"
	if werr != "" {
		r.Bad(rule, key, w.Pos(), werr)
	} else if seqString(ws) != want {
		r.Bad(rule, key, w.Pos(), "writer emits "+seqString(ws)+", format is "+want)
	} else {
		r.OK(rule, key, w.Pos(), "writer emits "+seqString(ws))
	}
	var rfields []field
	for _, f := range rs {
		if f.kind != "checksum" && f.kind != "reset" {
			rfields = append(rfields, f)
		}
	}
	key = rule + "/recordio.readRecordHeaderV4/sequence"
	if seqString(rfields) != seqString(ws) || werr != "" {
		r.Bad(rule, key, rd.Pos(), "reader consumes "+seqString(rfields)+" but the writer emits "+seqString(ws)+": every record is misparsed")
	} else {
		r.OK(rule, key, rd.Pos(), "reader consumes "+seqString(rfields))
	}
	// semantic mapping writer side: field0 = marker constant, field2 = param 1, field3 = param 2, byte = f(param recordNil)
	if werr == "" && seqString(ws) == want {
		key = rule + "/recordio.fillRecordHeaderV4/field-sources"
		ok := true
		why := ""
		if c, isC := ws[0].val.(*ssa.Const); !isC {
			ok, why = false, "marker field is not the constant"
		} else if mv, okc := pkgConst(p, "recordio", "MagicNumberSeparatorLong"); !okc || c.Uint64() != mv {
			ok, why = false, "marker field is not MagicNumberSeparatorLong"
		}
		if len(w.Params) >= 4 {
			if ws[2].val != ssa.Value(w.Params[1]) {
				ok, why = false, "third field is not the uncompressed size argument"
			}
			if ws[3].val != ssa.Value(w.Params[2]) {
				ok, why = false, "fourth field is not the compressed size argument"
			}
			// byte: constant 1 on the recordNil-true edge, 0 otherwise: check both constants occur, keyed by a branch on param 3
			ones, zeros := 0, 0
			eachInstr(w, func(s Site) {
				if st, okS := s.Instr.(*ssa.Store); okS {
					if _, isIA := st.Addr.(*ssa.IndexAddr); isIA {
						if v, okC := constInt(st.Val); okC {
							// which edge of `if recordNil` are we on?
							for _, pb := range s.Block.Preds {
								if iff, okI := pb.Instrs[len(pb.Instrs)-1].(*ssa.If); okI && iff.Cond == ssa.Value(w.Params[3]) {
									if pb.Succs[0] == s.Block && v == 1 {
										ones++
									}
									if pb.Succs[1] == s.Block && v == 0 {
										zeros++
									}
								}
							}
						}
					}
				}
			})
			if ones != 1 || zeros != 1 {
				ok, why = false, "nil byte is not 1 exactly when recordNil is true"
			}
		}
		if ok {
			r.OK(rule, key, w.Pos(), "marker constant, nil flag, uncompressed, compressed, crc")
		} else {
			r.Bad(rule, key, w.Pos(), why)
		}
	}
	// semantic mapping reader side: results (uncompressed, compressed, nil==1)
	{
		key = rule + "/recordio.readRecordHeaderV4/result-mapping"
		ok := len(rfields) == 5
		why := ""
		if ok {
			for _, nr := range nilReturns(rd) {
				ret := nr.Instr.(*ssa.Return)
				from := func(v ssa.Value, f field) bool {
					// v is Extract#0 of call f.val (possibly through a result cell)
					if _, vals := classifyErrVal(v, map[ssa.Value]bool{}); len(vals) == 1 {
						v = vals[0]
					}
					ex, isE := v.(*ssa.Extract)
					return isE && ex.Index == 0 && ex.Tuple == f.val
				}
				if !from(ret.Results[0], rfields[2]) {
					ok, why = false, "first result is not the third header field (uncompressed length)"
				}
				if !from(ret.Results[1], rfields[3]) {
					ok, why = false, "second result is not the fourth header field (compressed length)"
				}
				res2 := ret.Results[2]
				if _, vals := classifyErrVal(res2, map[ssa.Value]bool{}); len(vals) == 1 {
					res2 = vals[0]
				}
				bo, isB := res2.(*ssa.BinOp)
				if !isB || bo.Op != token.EQL {
					ok, why = false, "nil flag result is not `byte == 1`"
				} else {
					k, isK := constInt(bo.Y)
					if !isK || k != 1 || !from(bo.X, rfields[1]) {
						ok, why = false, "nil flag result is not `second field == 1`"
					}
				}
			}
		} else {
			why = "unexpected field count"
		}
		if ok {
			r.OK(rule, key, rd.Pos(), "results = (field 3, field 4, field 2 == 1)")
		} else {
			r.Bad(rule, key, rd.Pos(), why)
		}
	}
	// marker literal
	{
		key = rule + "/recordio.MagicNumberSeparatorLongBytes"
		mv, ok1 := pkgConst(p, "recordio", "MagicNumberSeparatorLong")
		lit, ok2 := byteSliceVar(p, "recordio", "MagicNumberSeparatorLongBytes")
		if !ok1 || !ok2 {
			r.Missing(rule, key, "marker constant or literal not found")
		} else if string(lit) == string(uvarintBytes(mv)) {
			r.OK(rule, key, 0, fmt.Sprintf("literal % x = uvarint(%#x)", lit, mv))
		} else {
			r.Bad(rule, key, 0, fmt.Sprintf("marker literal % x is not the uvarint encoding % x of the marker constant: SeekNext scans for the wrong bytes", lit, uvarintBytes(mv)))
		}
	}
	// both native readers call the one header reader; the writer calls the one header filler with (len(record), len(compressed), record == nil)
	for _, k := range []string{"recordio.FileReader.ReadNext", "recordio.FileReader.SkipNext", "recordio.MMapReader.ReadNextAt"} {
		fn := r.NeedFunc(rule, k)
		if fn == nil {
			continue
		}
		key = rule + "/" + k + "/uses-header-reader"
		if len(CallsIn(fn, Keys("recordio.readRecordHeaderV4"))) > 0 {
			r.OK(rule, key, fn.Pos(), "parses v4 headers through readRecordHeaderV4")
		} else {
			r.Bad(rule, key, fn.Pos(), "does not parse v4 headers through readRecordHeaderV4")
		}
	}
	if fn := r.NeedFunc(rule, "recordio.FileWriter.Write"); fn != nil {
		key = rule + "/recordio.FileWriter.Write/header-arguments"
		calls := CallsIn(fn, Keys("recordio.writeRecordHeaderV4"))
		ok := len(calls) == 1
		why := "no single writeRecordHeaderV4 call"
		if ok {
			a := calls[0].Call().Common().Args
			rec := fn.Params[1]
			// arg1 = uint64(len(record))
			isLenOf := func(v ssa.Value, of ssa.Value) bool {
				if cv, isC := v.(*ssa.Convert); isC {
					v = cv.X
				}
				c, isCall := v.(*ssa.Call)
				if !isCall {
					return false
				}
				b, isB := c.Call.Value.(*ssa.Builtin)
				return isB && b.Name() == "len" && c.Call.Args[0] == of
			}
			if !isLenOf(a[1], rec) {
				ok, why = false, "uncompressed size argument is not len(record)"
			}
			// arg3 = record == nil
			nilFlag := false
			if bo, isB := a[3].(*ssa.BinOp); isB {
				for _, v := range cmpViews(bo) {
					if v.Op == token.EQL && v.X == ssa.Value(rec) && isNilConst(v.Y) {
						nilFlag = true
					}
				}
			}
			if !nilFlag {
				ok, why = false, "nil flag argument is not `record == nil`"
			}
			// arg2 = phi(0, len(compressedRecord)) where compressedRecord is the compressor's output
			if ph, isP := a[2].(*ssa.Phi); isP {
				zero, comp := false, false
				for _, e := range ph.Edges {
					if z, isZ := constInt(e); isZ && z == 0 {
						zero = true
					} else if cv, isC := e.(*ssa.Convert); isC {
						if c, isCall := cv.X.(*ssa.Call); isCall {
							if b, isB := c.Call.Value.(*ssa.Builtin); isB && b.Name() == "len" {
								if ex, isE := c.Call.Args[0].(*ssa.Extract); isE {
									if cc, isCC := ex.Tuple.(*ssa.Call); isCC && strings.HasSuffix(CalleeKey(cc), "CompressionI.CompressWithBuf") {
										comp = true
									}
								}
							}
						}
					}
				}
				if !zero || !comp {
					ok, why = false, "compressed size argument is not 0 without compressor / len(compressed) with one"
				}
			} else {
				ok, why = false, "compressed size argument has an unexpected shape"
			}
		}
		if ok {
			r.OK(rule, key, fn.Pos(), "header(len(record), 0|len(compressed), record == nil)")
		} else {
			r.Bad(rule, key, fn.Pos(), why)
		}
	}
}

// ---------- header CRC ----------

func ruleHeaderCrc(r *Report) {
	const rule = "header-crc"
	r.Rule(rule, 5, "the record header CRC is crc32-Castagnoli on both sides, covers exactly the four parsed fields (reader: reset before the first field, checksum taken after the fourth and before the checksum field), is compared before the header is used, and mismatch / wrong marker return the documented errors")
	p := r.P
	tabs := map[string]string{}
	for _, k := range []string{"recordio.fillRecordHeaderV4", "recordio.newChecksumByteReader"} {
		fn := r.NeedFunc(rule, k)
		if fn == nil {
			continue
		}
		key := rule + "/" + k + "/table"
		mk := crcTableSites(p, fn)
		if len(mk) != 1 {
			r.Bad(rule, key, fn.Pos(), "header checksum is not crc32 over crc32.MakeTable(const) (directly or through a package variable initialised once)")
			continue
		}
		if c, ok := mk[0].Call().Common().Args[0].(*ssa.Const); ok {
			tabs[k] = c.Value.ExactString()
			r.OK(rule, key, mk[0].Pos(), "crc32 polynomial "+tabs[k])
		} else {
			r.Unk(rule, key, mk[0].Pos(), "polynomial is not a constant")
		}
	}
	if len(tabs) == 2 {
		key := rule + "/tables-equal"
		if tabs["recordio.fillRecordHeaderV4"] == tabs["recordio.newChecksumByteReader"] {
			r.OK(rule, key, 0, "same polynomial")
		} else {
			r.Bad(rule, key, 0, "writer and reader use different crc32 polynomials for the record header")
		}
	}
	// writer: crc.Write(bytes[:off]) happens after the fourth field and before the fifth
	if w := p.Func("recordio.fillRecordHeaderV4"); w != nil {
		key := rule + "/recordio.fillRecordHeaderV4/covers-four-fields"
		ws, werr := emitSequence(w)
		var wr []Site
		fed := map[ssa.Instruction]ssa.Value{} // the bytes fed to the checksum, per feeding call
		eachInstr(w, func(s Site) {
			c, ok := s.Instr.(*ssa.Call)
			if !ok {
				return
			}
			if c.Call.IsInvoke() && c.Call.Method.Name() == "Write" && typeShort(c.Call.Value.Type()) == "hash.Hash32" {
				wr = append(wr, s)
				fed[s.Instr] = c.Call.Args[0]
			} else if ck := CalleeKey(c); ck == "hash/crc32.Checksum" {
				wr = append(wr, s)
				fed[s.Instr] = c.Call.Args[0]
			} else if ck == "hash/crc32.Update" {
				wr = append(wr, s)
				fed[s.Instr] = c.Call.Args[2]
			}
		})
		ok := werr == "" && len(ws) == 5 && len(wr) == 1
		if ok {
			var s3, s4 Site
			eachInstr(w, func(s Site) {
				if s.Instr.Pos() == ws[3].pos {
					s3 = s
				}
				if s.Instr.Pos() == ws[4].pos {
					s4 = s
				}
			})
			ok = s3.Instr != nil && s4.Instr != nil && precedes(s3, wr[0]) && precedes(wr[0], s4)
			// fed bytes[:off]: a Slice of the buffer parameter from index 0
			if sl, isS := fed[wr[0].Instr].(*ssa.Slice); !isS || sl.Low != nil || sl.X != ssa.Value(w.Params[0]) {
				ok = false
			}
		}
		// the digest state is private to the call: a digest shared between writers (package variable, field) is reset and
		// fed by concurrent writers of different files at the same time and stores a checksum built from both headers
		dkey := rule + "/recordio.fillRecordHeaderV4/digest-local"
		shared := false
		for _, s := range wr {
			c := s.Instr.(*ssa.Call)
			if !c.Call.IsInvoke() {
				continue // crc32.Checksum / crc32.Update: pure
			}
			if cc, isCall := c.Call.Value.(*ssa.Call); !isCall || CalleeKey(cc) != "hash/crc32.New" {
				shared = true
			}
		}
		if len(wr) == 0 {
			r.Missing(rule, dkey, "no checksum feed in fillRecordHeaderV4")
		} else if shared {
			r.Bad(rule, dkey, wr[0].Pos(), "the header checksum is computed with a digest that outlives the call (not created by crc32.New in fillRecordHeaderV4): writers of different files running in different goroutines interleave Reset/Write/Sum32 and store a wrong checksum, which the native reader rejects")
		} else {
			r.OK(rule, dkey, wr[0].Pos(), "digest created per header (or pure crc32.Checksum)")
		}
		if ok {
			r.OK(rule, key, w.Pos(), "crc over bytes[:off] after field 4, before field 5")
		} else {
			r.Bad(rule, key, w.Pos(), "the writer's header CRC does not cover exactly the first four fields")
		}
	}
	if rd := p.Func("recordio.readRecordHeaderV4"); rd != nil {
		rs, _ := consumeSequence(rd)
		key := rule + "/recordio.readRecordHeaderV4/covers-four-fields"
		got := seqString(rs)
		if got == "[reset,uvarint,byte,uvarint,uvarint,checksum,uvarint]" {
			r.OK(rule, key, rd.Pos(), got)
		} else {
			r.Bad(rule, key, rd.Pos(), "reader sequence "+got+": the checksum must be reset before the first field and taken after the fourth, before the stored checksum is read")
		}
		// comparison: If(actual != expected) → failing return of HeaderChecksumMismatchErr; success returns only via equal edge
		key = rule + "/recordio.readRecordHeaderV4/compared"
		var cmpB *ssa.BasicBlock
		var mism *ssa.BasicBlock
		for _, b := range liveBlocks(rd) {
			if len(b.Instrs) == 0 {
				continue
			}
			iff, ok := b.Instrs[len(b.Instrs)-1].(*ssa.If)
			if !ok {
				continue
			}
			bo, ok := iff.Cond.(*ssa.BinOp)
			if !ok || (bo.Op != token.NEQ && bo.Op != token.EQL) {
				continue
			}
			srcX, srcY := errSource(bo.X), errSource(bo.Y)
			if (strings.HasSuffix(srcX, "Checksum") && srcY == "encoding/binary.ReadUvarint") || (strings.HasSuffix(srcY, "Checksum") && srcX == "encoding/binary.ReadUvarint") {
				cmpB = b
				if bo.Op == token.NEQ {
					mism = b.Succs[0]
				} else {
					mism = b.Succs[1]
				}
			}
		}
		if cmpB == nil {
			r.Bad(rule, key, rd.Pos(), "the computed header checksum is never compared with the stored one")
		} else {
			removed := map[Edge]bool{}
			for _, su := range cmpB.Succs {
				if su != mism {
					removed[Edge{cmpB, su}] = true
				}
			}
			bad := false
			for _, nr := range nilReturns(rd) {
				if siteReachable(nr, removed) {
					bad = true
				}
			}
			if bad || !endsInFailingReturn(mism) || !blockMentionsGlobal(mism, "recordio.HeaderChecksumMismatchErr") {
				r.Bad(rule, key, rd.Pos(), "a header whose checksum does not match can be returned as valid, or the mismatch does not yield HeaderChecksumMismatchErr")
			} else {
				r.OK(rule, key, rd.Pos(), "mismatch → HeaderChecksumMismatchErr; success only via the equal edge")
			}
		}
	}
	// the stored checksum is the one field its own CRC cannot cover: its varint must be checked for canonical length
	if rd := p.Func("recordio.readRecordHeaderV4"); rd != nil {
		key := rule + "/recordio.readRecordHeaderV4/checksum-field-canonical"
		var stored *ssa.Call // the ReadUvarint that reads the stored checksum: the last one in the consume sequence
		for _, s := range CallsIn(rd, Keys("encoding/binary.ReadUvarint")) {
			c := s.Instr.(*ssa.Call)
			if stored == nil || reachableFromSite(siteOf(stored), s) {
				stored = c
			}
		}
		if stored == nil {
			r.Missing(rule, key, "no ReadUvarint in readRecordHeaderV4")
		} else {
			// all varints of the header behind the marker: lengths and stored checksum
			var varints []*ssa.Call
			for _, sv := range CallsIn(rd, Keys("encoding/binary.ReadUvarint")) {
				varints = append(varints, sv.Instr.(*ssa.Call))
			}
			sort.Slice(varints, func(i, j int) bool { return reachableFromSite(siteOf(varints[i]), siteOf(varints[j])) })
			if len(varints) > 3 {
				varints = varints[len(varints)-3:]
			}
			fromStored := func(v ssa.Value) bool {
				for _, vc := range varints {
					vc := vc
					if !valueDependsOn(v, func(x ssa.Value) bool {
						ex, ok := x.(*ssa.Extract)
						return ok && ex.Tuple == ssa.Value(vc) && ex.Index == 0
					}) {
						return false
					}
				}
				return len(varints) > 0
			}
			fromCount := func(v ssa.Value) bool {
				return valueDependsOn(v, func(x ssa.Value) bool {
					// the reader's count of consumed bytes: its accessor, or the field the accessor returns
					if isFieldLoad("recordio.checksumByteReader", "idx")(x) {
						return true
					}
					c, ok := x.(*ssa.Call)
					return ok && strings.HasSuffix(CalleeKey(c), "checksumByteReader.Count")
				})
			}
			good := false
			for _, b := range liveBlocks(rd) {
				if len(b.Instrs) == 0 {
					continue
				}
				iff, ok := b.Instrs[len(b.Instrs)-1].(*ssa.If)
				if !ok {
					continue
				}
				bo, ok := iff.Cond.(*ssa.BinOp)
				if !ok {
					continue
				}
				if !((fromStored(bo.X) && fromCount(bo.Y)) || (fromStored(bo.Y) && fromCount(bo.X))) {
					continue
				}
				_ = iff
				// one edge fails, success only through the other
				for i, su := range b.Succs {
					if !endsInFailingReturn(su) {
						continue
					}
					removed := map[Edge]bool{{b, b.Succs[1-i]}: true}
					reach := false
					for _, nr := range nilReturns(rd) {
						if siteReachable(nr, removed) {
							reach = true
						}
					}
					if !reach {
						good = true
					}
				}
			}
			if good {
				r.OK(rule, key, stored.Pos(), "the number of header bytes consumed is compared with the shortest encoding of the parsed lengths and checksum; a mismatch fails")
			} else {
				r.Bad(rule, key, stored.Pos(), "a varint of the header (lengths, stored checksum) is accepted in over-long form: for the lengths, setting the continuation bit of a length byte that is followed by 0x00 keeps the value and shifts the rest of the header, so the stored checksum is read from the payload (input: uncompressed file, length byte 0x10 -> 0x90, payload starting with uvarint(crc32c(altered header)) = f2 c7 93 8e 0f); for the checksum itself: setting the continuation bit of its last byte (a single-byte header alteration) makes the header swallow the first payload byte when that byte is 0x00; the value is unchanged, the comparison passes and the payload is returned shifted by one byte, without error (input: payload \"\\x00…\" whose header crc is >= 2^28)")
			}
		}
	}
	// marker comparison in every header reader
	for _, k := range []string{"recordio.readRecordHeaderV4", "recordio.readRecordHeaderV3", "recordio.readRecordHeaderV2", "recordio.readRecordHeaderV1"} {
		fn := r.NeedFunc(rule, k)
		if fn == nil {
			continue
		}
		key := rule + "/" + k + "/marker-compared"
		ok := false
		for _, b := range liveBlocks(fn) {
			if len(b.Instrs) == 0 {
				continue
			}
			iff, isI := b.Instrs[len(b.Instrs)-1].(*ssa.If)
			if !isI {
				continue
			}
			bo, isB := iff.Cond.(*ssa.BinOp)
			if !isB || (bo.Op != token.NEQ && bo.Op != token.EQL) {
				continue
			}
			mc, isC := bo.Y.(*ssa.Const)
			if !isC || mc.Value == nil {
				continue
			}
			mv, _ := pkgConst(p, "recordio", "MagicNumberSeparatorLong")
			if u, okU := constant.Uint64Val(constant.ToInt(mc.Value)); !okU || u != mv {
				continue
			}
			mis := b.Succs[0]
			eq := b.Succs[1]
			if bo.Op == token.EQL {
				mis, eq = eq, mis
			}
			removed := map[Edge]bool{{b, eq}: true}
			reach := false
			for _, nr := range nilReturns(fn) {
				if siteReachable(nr, removed) {
					reach = true
				}
			}
			if endsInFailingReturn(mis) && returnedSentinel(mis) == "recordio.MagicNumberMismatchErr" && !reach {
				ok = true
			}
		}
		if ok {
			r.OK(rule, key, fn.Pos(), "wrong marker → MagicNumberMismatchErr; success only via the equal edge")
		} else {
			r.Bad(rule, key, fn.Pos(), "the record marker is not compared with the constant (or a mismatch does not return MagicNumberMismatchErr)")
		}
	}
}

func blockMentionsGlobal(b *ssa.BasicBlock, g string) bool {
	seen := map[*ssa.BasicBlock]bool{}
	for b != nil && !seen[b] {
		seen[b] = true
		for _, ins := range b.Instrs {
			if u, ok := ins.(*ssa.UnOp); ok && globalLoad(u) == g {
				return true
			}
		}
		if len(b.Succs) == 1 {
			b = b.Succs[0]
		} else {
			b = nil
		}
	}
	return false
}

// ---------- E-TABLE / E-RANGE ----------

func compressionConsts(p *Prog) map[string]int64 {
	out := map[string]int64{}
	pk := p.All[modPath+"/recordio"]
	if pk == nil {
		return out
	}
	sc := pk.Types.Scope()
	for _, n := range sc.Names() {
		if c, ok := sc.Lookup(n).(*types.Const); ok && strings.HasPrefix(n, "CompressionType") {
			if v, ok := constant.Int64Val(constant.ToInt(c.Val())); ok {
				out[strings.ToLower(strings.TrimPrefix(n, "CompressionType"))] = v
			}
		}
	}
	return out
}

func ruleCompressionTable(r *Report) {
	const rule = "compression-table"
	r.Rule(rule, 3, "the compression constants, the compressor factory's switch and the file-header range check describe the same set of codes; accepted format versions are exactly [Version1, CurrentVersion]; both Open paths parse the file header through the one checked function")
	p := r.P
	// the writer emits a file header only for a code its own factory accepted
	if fn := r.NeedFunc(rule, "recordio.FileWriter.Open"); fn != nil {
		o := &order{r, p}
		A := CallsIn(fn, Keys("recordio.NewCompressorForType"))
		B := CallsIn(fn, Keys("recordio.writeFileHeader"))
		o.OnlyAfterSuccess(rule, rule+"/recordio.FileWriter.Open/code-validated-before-header", fn, "NewCompressorForType", A, "writing the file header", B, nil)
	}
	consts := compressionConsts(p)
	if len(consts) == 0 {
		r.Missing(rule, rule+"/constants", "no CompressionType* constants")
		return
	}
	var codes []int64
	for _, v := range consts {
		codes = append(codes, v)
	}
	sort.Slice(codes, func(i, j int) bool { return codes[i] < codes[j] })
	max := codes[len(codes)-1]
	dense := int64(len(codes)) == max+1 && codes[0] == 0
	// switch in NewCompressorForType: the set of constants compared with the parameter
	if fn := r.NeedFunc(rule, "recordio.NewCompressorForType"); fn != nil {
		key := rule + "/recordio.NewCompressorForType/exhaustive"
		seen := map[int64]bool{}
		eachInstr(fn, func(s Site) {
			if bo, ok := s.Instr.(*ssa.BinOp); ok && bo.Op == token.EQL && bo.X == ssa.Value(fn.Params[0]) {
				if k, ok := constInt(bo.Y); ok {
					seen[k] = true
				}
			}
		})
		missing := []string{}
		for n, v := range consts {
			if !seen[v] {
				missing = append(missing, n)
			}
		}
		for v := range seen {
			found := false
			for _, c := range codes {
				if c == v {
					found = true
				}
			}
			if !found {
				missing = append(missing, fmt.Sprintf("code %d without constant", v))
			}
		}
		sort.Strings(missing)
		if len(missing) == 0 {
			r.OK(rule, key, fn.Pos(), fmt.Sprintf("switch covers %v", codes))
		} else {
			r.Bad(rule, key, fn.Pos(), "the compressor factory does not handle: "+strings.Join(missing, ", "))
		}
		// each case returns a non-error; default returns an error
	}
	if fn := r.NeedFunc(rule, "recordio.readFileHeaderFromBuffer"); fn != nil {
		// interval extraction: comparisons of the two decoded uint32 values with constants whose true edge fails
		type bound struct {
			op token.Token
			k  int64
		}
		rej := map[ssa.Value][]bound{}
		for _, b := range liveBlocks(fn) {
			if len(b.Instrs) == 0 {
				continue
			}
			// whichever way the test is written: the reading under which the failing return is the "holds" side
			for _, v := range ifCmpForms(b) {
				if !endsInFailingReturn(v.T) || endsInFailingReturn(v.F) {
					continue
				}
				k, isK := constInt(v.Y)
				if !isK {
					continue
				}
				if c, isC := v.X.(*ssa.Call); isC && strings.HasSuffix(CalleeKey(c), "littleEndian.Uint32") {
					rej[c] = append(rej[c], bound{v.Op, k})
					break
				}
			}
		}
		accepts := func(bs []bound, v int64) bool {
			for _, b := range bs {
				if res, ok := evalCmp(b.op, v, b.k); ok && res {
					return false
				}
			}
			return true
		}
		v1, _ := pkgConst(p, "recordio", "Version1")
		cur, _ := pkgConst(p, "recordio", "CurrentVersion")
		var verOK, compOK bool
		var verDesc, compDesc string
		for _, bs := range rej {
			// classify by which interval it accepts
			acc := []int64{}
			for v := int64(-1); v <= 16; v++ {
				if v >= 0 && accepts(bs, v) {
					acc = append(acc, v)
				}
			}
			if len(acc) > 0 && acc[0] == int64(v1) {
				verDesc = fmt.Sprint(acc)
				verOK = acc[len(acc)-1] == int64(cur) && int64(len(acc)) == int64(cur)-int64(v1)+1
			} else if len(acc) > 0 && acc[0] == 0 {
				compDesc = fmt.Sprint(acc)
				compOK = dense && acc[len(acc)-1] == max && int64(len(acc)) == max+1
			}
		}
		key := rule + "/recordio.readFileHeaderFromBuffer/version-range"
		if verOK {
			r.OK(rule, key, fn.Pos(), "accepted versions "+verDesc)
		} else {
			r.Bad(rule, key, fn.Pos(), fmt.Sprintf("accepted versions %s are not exactly [%d,%d]", verDesc, v1, cur))
		}
		key = rule + "/recordio.readFileHeaderFromBuffer/compression-range"
		if compOK {
			r.OK(rule, key, fn.Pos(), "accepted compression codes "+compDesc)
		} else {
			r.Bad(rule, key, fn.Pos(), fmt.Sprintf("accepted compression codes %s are not exactly the constant table %v", compDesc, codes))
		}
	}
	o := &order{r, p}
	for _, k := range []string{"recordio.FileReader.Open", "recordio.MMapReader.Open"} {
		if fn := r.NeedFunc(rule, k); fn != nil {
			A := CallsIn(fn, Keys("recordio.readFileHeaderFromBuffer"))
			o.OnlyAfterSuccess(rule, rule+"/"+k+"/header-checked", fn, "readFileHeaderFromBuffer", A, "the success return", nilReturns(fn), nil)
		}
	}
	// the writer stamps the current version and its compression type into the header
	if fn := r.NeedFunc(rule, "recordio.fileHeaderAsByteSlice"); fn != nil {
		key := rule + "/recordio.fileHeaderAsByteSlice/stamps"
		puts := CallsIn(fn, Suffix("littleEndian.PutUint32"))
		ok := len(puts) == 2
		if ok {
			a0 := argsOf(puts[0].Call())
			a1 := argsOf(puts[1].Call())
			c, isC := a0[len(a0)-1].(*ssa.Const)
			if !isC || c.Uint64() != func() uint64 { v, _ := pkgConst(p, "recordio", "CurrentVersion"); return v }() {
				ok = false
			}
			if a1[len(a1)-1] != ssa.Value(fn.Params[0]) {
				ok = false
			}
			// offsets: first into [0:4], second into [4:8]
			lo := func(v ssa.Value) int64 {
				if sl, isS := v.(*ssa.Slice); isS {
					if sl.Low == nil {
						return 0
					}
					k, _ := constInt(sl.Low)
					return k
				}
				return -1
			}
			if lo(a0[0]) != 0 || lo(a1[0]) != 4 {
				ok = false
			}
		}
		if ok {
			r.OK(rule, key, fn.Pos(), "header = CurrentVersion | compressionType")
		} else {
			r.Bad(rule, key, fn.Pos(), "the file header is not (CurrentVersion at 0, compression type at 4)")
		}
	}
}

// ---------- E-NILFLAG ----------

func ruleNilFlag(r *Report) {
	const rule = "nilflag"
	r.Rule(rule, 6, "every caller of a header reader that returns a nil flag uses the flag in a branch that decides the payload consumption (read, ReadAt, or seek distance); discarding the flag is a violation")
	p := r.P
	n := 0
	for _, fn := range p.FuncsOfPkg("recordio") {
		for _, s := range CallsIn(fn, Keys("recordio.readRecordHeaderV3", "recordio.readRecordHeaderV4")) {
			n++
			r.Saw(fn)
			key := ef0uniq(fmt.Sprintf("%s/%s/%s", rule, FuncKey(fn), CalleeKey(s.Call())))
			var flag ssa.Value
			for _, rf := range *s.Instr.(ssa.Value).Referrers() {
				if ex, ok := rf.(*ssa.Extract); ok && ex.Index == 2 {
					flag = ex
				}
			}
			if flag == nil {
				r.Bad(rule, key, s.Pos(), "the nil flag of the record header is discarded: a nil record (which has no payload although a compressed length may be recorded) is consumed like a record with payload")
				continue
			}
			// the flag is the condition of an If
			used := false
			for _, b := range liveBlocks(fn) {
				if len(b.Instrs) == 0 {
					continue
				}
				if iff, ok := b.Instrs[len(b.Instrs)-1].(*ssa.If); ok && iff.Cond == flag {
					// on the true edge (nil record) no payload read may be reachable before returning,
					// or the seek distance must change: accept either
					// payload consumers
					var cons []Site
					eachInstr(fn, func(x Site) {
						if c, ok := x.Instr.(*ssa.Call); ok {
							k := CalleeKey(c)
							if k == "io.ReadFull" || strings.HasSuffix(k, "ReaderAt.ReadAt") {
								if precedes(s, x) {
									cons = append(cons, x)
								}
							}
						}
					})
					readAfterNil := false
					reach := reachFrom(b.Succs[0], nil)
					for _, c := range cons {
						if reach[c.Block] && !dominates(c.Block, b) {
							readAfterNil = true
						}
					}
					seeks := CallsIn(fn, Keys("os.File.Seek"))
					if len(seeks) > 0 {
						// skip flavour: the seek distance is decided by the flag — the test is on every path to the seek
						// (not nested under the compression case), and what reaches the distance arithmetic is the phi that
						// merges the constant 0 of the nil edge (nothing re-assigns the amount behind it)
						used = true
						for _, sk := range seeks {
							if !reachFrom(b, nil)[sk.Block] {
								continue
							}
							if !dominates(b, sk.Block) {
								used = false
								continue
							}
							var zeroPhi *ssa.Phi
							for _, jb := range liveBlocks(fn) {
								for _, ins := range jb.Instrs {
									ph, isPhi := ins.(*ssa.Phi)
									if !isPhi {
										break
									}
									for ei, e := range ph.Edges {
										if cst, isC := e.(*ssa.Const); isC && cst.Value != nil && cst.Uint64() == 0 {
											pred := jb.Preds[ei]
											if pred == b.Succs[0] || (pred == b && jb == b.Succs[0]) {
												zeroPhi = ph
											}
										}
									}
								}
							}
							direct := false
							if zeroPhi != nil {
								var walk func(v ssa.Value, d int) bool
								walk = func(v ssa.Value, d int) bool {
									if d > 8 {
										return false
									}
									if v == ssa.Value(zeroPhi) {
										return true
									}
									switch y := v.(type) {
									case *ssa.BinOp:
										return walk(y.X, d+1) || walk(y.Y, d+1)
									case *ssa.Convert:
										return walk(y.X, d+1)
									case *ssa.ChangeType:
										return walk(y.X, d+1)
									}
									return false
								}
								direct = walk(sk.Call().Common().Args[len(sk.Call().Common().Args)-2], 0)
							}
							if !direct {
								used = false
							}
						}
					} else if !readAfterNil {
						used = true
					}
				}
			}
			if used {
				r.OK(rule, key, s.Pos(), "nil flag decides payload consumption")
			} else {
				r.Bad(rule, key, s.Pos(), "the nil flag is read but does not decide the payload consumption on every path: a nil record in a compressed file carries the codec's size for the empty input in its header (1 to 23 bytes) but no payload — skipping it by that size lands inside the next record")
			}
		}
	}
	if n == 0 {
		r.Missing(rule, rule+"/callers", "no caller of readRecordHeaderV3/V4 found")
	}
}

// crcTableSites: the crc32.MakeTable calls that produce the table used by fn's crc32.New / Checksum / Update calls:
// a MakeTable call in fn itself, or the single initialiser of a package-level table variable that fn loads
// (a shared table is immutable, unlike a shared digest).
func crcTableSites(p *Prog, fn *ssa.Function) []Site {
	mk := CallsIn(fn, Keys("hash/crc32.MakeTable"))
	if len(mk) > 0 {
		return mk
	}
	var out []Site
	for _, s := range CallsIn(fn, Keys("hash/crc32.New", "hash/crc32.Checksum", "hash/crc32.Update")) {
		c := s.Call().Common()
		var tab ssa.Value
		switch CalleeKey(s.Call()) {
		case "hash/crc32.New":
			tab = c.Args[0]
		default:
			tab = c.Args[1]
		}
		u, ok := tab.(*ssa.UnOp)
		if !ok || u.Op != token.MUL {
			continue
		}
		g, ok := u.X.(*ssa.Global)
		if !ok {
			continue
		}
		// all stores to g in the module: exactly one, in a package initialiser, of a MakeTable result
		var stores []Site
		for _, f := range p.ModuleFuncs() {
			eachInstr(f, func(t Site) {
				if st, ok := t.Instr.(*ssa.Store); ok && st.Addr == ssa.Value(g) {
					stores = append(stores, t)
				}
			})
		}
		if len(stores) != 1 || fnName(stores[0].Fn) != "init" {
			continue
		}
		if mc, ok := stores[0].Instr.(*ssa.Store).Val.(*ssa.Call); ok && CalleeKey(mc) == "hash/crc32.MakeTable" {
			out = append(out, siteOf(mc))
		}
	}
	return out
}
