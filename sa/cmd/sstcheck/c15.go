package main

import (
	"fmt"
	"go/constant"
	"go/token"
	"strings"

	"golang.org/x/tools/go/ssa"
)

func init() {
	register("C15",
		"Static rules on the stream writer: (E-SIGN) with a previous key the comparator runs before either append and the appends stay reachable exactly for 'previous < key' (equal and greater are rejected with an error); (E-COMMIT) the writer's persistent state (last key and its backing array, min key, counters) is written only where no failing return can follow, i.e. after both appends succeeded; (E-FLOW) on the index-append failure path the data writer is rewound to the size read before the data write; counters move only on the success path; FileWriter.Close truncates lingering bytes between flush and close, and Seek folds the current offset into the largest offset. Decides these shapes on all paths, not table content equality.",
		[]string{"the comparator honours the sign contract (negative / zero / positive)", "I/O failures surface as error values"},
		runC15)
}

var (
	dataWrite  = Keys("recordio.WriterI.Write")
	indexWrite = Keys("recordio/proto.WriterI.Write")
)

func runC15(r *Report) {
	ruleSizeIsAppendPosition(r)
	p := r.P
	o := &order{r, p}
	fn := r.NeedFunc("compare-first", "sstables.SSTableStreamWriter.WriteNext")
	if fn == nil {
		return
	}
	appends := append(CallsIn(fn, dataWrite), CallsIn(fn, indexWrite)...)

	const rc = "compare-first"
	r.Rule(rc, 3, "when a previous key exists the comparator is called before either append; the appends are reachable exactly when previous < key; the rejecting edges return errors")
	cmps := CallsIn(fn, Suffix("Comparator.Compare"))
	if len(appends) < 2 {
		r.Missing(rc, rc+"/appends", "data and index append not found in WriteNext")
	}
	if len(cmps) == 0 {
		r.Bad(rc, rc+"/sstables.SSTableStreamWriter.WriteNext/comparator-called", fn.Pos(), "WriteNext never compares the key with the last accepted key")
	}
	for _, c := range cmps {
		// operands: (lastKey, key)
		args := c.Call().Common().Args
		key := rc + "/sstables.SSTableStreamWriter.WriteNext/comparator-operands"
		a0 := isFieldLoad("sstables.SSTableStreamWriter", "lastKey")(args[0])
		a1 := paramOrigin(args[1]) != nil && refName(paramOrigin(args[1])) == "key"
		b0 := isFieldLoad("sstables.SSTableStreamWriter", "lastKey")(args[1])
		b1 := paramOrigin(args[0]) != nil && refName(paramOrigin(args[0])) == "key"
		want := "RR---" // Compare(last, key): appends reachable for negative results only
		if b0 && b1 {
			want = "---RR"
		} else if !(a0 && a1) {
			r.Unk(rc, key, c.Pos(), "comparator operands are not (lastKey, key)")
			continue
		}
		r.OK(rc, key, c.Pos(), "comparator compares the last accepted key with the new key")
		got := signProfile(c, appends, nil)
		key = rc + "/sstables.SSTableStreamWriter.WriteNext/accept-iff-greater"
		if got == want {
			r.OK(rc, key, c.Pos(), "appends reachable for comparator results "+got+" (-2,-1,0,1,2)")
		} else {
			r.Bad(rc, key, c.Pos(), fmt.Sprintf("appends reachable for comparator results %s, expected %s: equal or smaller keys are accepted, or greater keys rejected", got, want))
		}
		// rejecting paths return errors: for results 0 and positive no nil return reachable
		key = rc + "/sstables.SSTableStreamWriter.WriteNext/reject-returns-error"
		gotNil := signProfile(c, nilReturns(fn), nil)
		if gotNil == want {
			r.OK(rc, key, c.Pos(), "a rejected key never yields a nil error")
		} else {
			r.Bad(rc, key, c.Pos(), fmt.Sprintf("nil-error returns reachable for comparator results %s, expected %s", gotNil, want))
		}
	}
	// with a previous key, the comparator is on every path to the appends
	hasPrevT, hasPrevF := condEdges(fn, func(c ssa.Value) bool {
		bo, ok := c.(*ssa.BinOp)
		if !ok || (bo.Op != token.NEQ && bo.Op != token.EQL) {
			return false
		}
		return (isNilConst(bo.Y) && isFieldLoad("sstables.SSTableStreamWriter", "lastKey")(bo.X)) ||
			(isNilConst(bo.X) && isFieldLoad("sstables.SSTableStreamWriter", "lastKey")(bo.Y))
	})
	{
		key := rc + "/sstables.SSTableStreamWriter.WriteNext/comparator-dominates-appends"
		// the "no previous key" edge: for `lastKey != nil` it is the false edge, for `== nil` the true edge
		removed := map[Edge]bool{}
		for _, b := range liveBlocks(fn) {
			if len(b.Instrs) == 0 {
				continue
			}
			if iff, ok := b.Instrs[len(b.Instrs)-1].(*ssa.If); ok {
				if bo, ok := iff.Cond.(*ssa.BinOp); ok {
					for _, e := range append(hasPrevT, hasPrevF...) {
						if e.From == b {
							if bo.Op == token.NEQ {
								removed[Edge{b, b.Succs[1]}] = true
							} else {
								removed[Edge{b, b.Succs[0]}] = true
							}
						}
					}
				}
			}
		}
		// only the first such test (the one dominating the appends) matters: keep edges whose From dominates an append
		for e := range removed {
			dom := false
			for _, a := range appends {
				if dominates(e.From, a.Block) {
					dom = true
				}
			}
			if !dom {
				delete(removed, e)
			}
		}
		for _, c := range cmps {
			for _, su := range c.Block.Succs {
				removed[Edge{c.Block, su}] = true
			}
		}
		bad := false
		for _, a := range appends {
			if siteReachable(a, removed) {
				bad = true
			}
		}
		if len(hasPrevT) == 0 {
			r.Unk(rc, key, fn.Pos(), "no test of lastKey against nil found")
		} else if bad || len(cmps) == 0 {
			r.Bad(rc, key, fn.Pos(), "an append is reachable with a previous key present without passing the comparator")
		} else {
			r.OK(rc, key, fn.Pos(), "with a previous key every path to the appends passes the comparator")
		}
	}

	// E-COMMIT
	const rm = "commit"
	r.Rule(rm, 4, "no store to the writer's persistent state (lastKey and its backing array, metaData.MinKey/NumRecords/NullValues) can be followed by a failing return of WriteNext")
	failing := func() []Site {
		var out []Site
		idx := errorResultIndex(fn)
		for _, rs := range returnsOf(fn) {
			if k, _ := returnErrOperand(rs.Instr.(*ssa.Return), idx); k != "nil" {
				out = append(out, rs)
			}
		}
		return out
	}()
	stateField := func(v ssa.Value) (string, bool) {
		t, f, _, ok := fieldAddrName(v)
		if !ok {
			return "", false
		}
		if t == "sstables.SSTableStreamWriter" && f == "lastKey" {
			return "lastKey", true
		}
		if t == "sstables/proto.MetaData" && (f == "MinKey" || f == "NumRecords" || f == "NullValues" || f == "MaxKey") {
			return "metaData." + f, true
		}
		return "", false
	}
	nState := 0
	eachInstr(fn, func(s Site) {
		name := ""
		switch x := s.Instr.(type) {
		case *ssa.Store:
			if n, ok := stateField(x.Addr); ok {
				name = n
			}
		case *ssa.Call:
			if b, ok := x.Call.Value.(*ssa.Builtin); ok && b.Name() == "copy" {
				if t, f, _, ok := loadOfField(x.Call.Args[0]); ok {
					if t == "sstables.SSTableStreamWriter" && f == "lastKey" {
						name = "copy(lastKey)"
					} else if t == "sstables/proto.MetaData" && f == "MinKey" {
						name = "copy(metaData.MinKey)"
					}
				}
			}
		}
		if name == "" {
			return
		}
		nState++
		key := ef0uniq(rm + "/sstables.SSTableStreamWriter.WriteNext/" + name)
		bad := ""
		for _, f := range failing {
			if reachableFromSite(s, f) {
				bad = p.Pos(f.Pos())
			}
		}
		if bad != "" {
			r.Bad(rm, key, s.Pos(), "writer state "+name+" is updated before the last fallible step: a failing return at "+bad+" can follow, leaving the writer naming a key that was never accepted")
		} else {
			r.OK(rm, key, s.Pos(), "no failing return can follow")
		}
	})
	if nState == 0 {
		r.Missing(rm, rm+"/state-writes", "WriteNext never updates lastKey / metadata")
	}
	// counters only on the success path of both appends
	{
		var counters []Site
		eachInstr(fn, func(s Site) {
			if st, ok := s.Instr.(*ssa.Store); ok {
				if n, ok := stateField(st.Addr); ok && (n == "metaData.NumRecords" || n == "lastKey") {
					counters = append(counters, s)
				}
			}
		})
		o.OnlyAfterSuccess(rm, rm+"/sstables.SSTableStreamWriter.WriteNext/after-data-append", fn, "the data append", CallsIn(fn, dataWrite), "the state update", counters, nil)
		o.OnlyAfterSuccess(rm, rm+"/sstables.SSTableStreamWriter.WriteNext/after-index-append", fn, "the index append", CallsIn(fn, indexWrite), "the state update", counters, nil)
	}

	// "a key was accepted" is encoded as lastKey != nil: every success path must leave it non-nil
	{
		key := rm + "/sstables.SSTableStreamWriter.WriteNext/lastKey-non-nil-after-success"
		removed := map[Edge]bool{}
		for _, b := range liveBlocks(fn) {
			if v, _, nonNil, ok := nilTest(b); ok && isFieldLoad("sstables.SSTableStreamWriter", "lastKey")(v) {
				removed[Edge{b, nonNil}] = true
			}
			for _, ins := range b.Instrs {
				if st, ok := ins.(*ssa.Store); ok {
					if n, ok := stateField(st.Addr); ok && n == "lastKey" {
						if _, isMake := st.Val.(*ssa.MakeSlice); isMake {
							for _, su := range b.Succs {
								removed[Edge{b, su}] = true
							}
						}
					}
				}
			}
		}
		bad := false
		for _, w := range CallsIn(fn, indexWrite) {
			succ, _ := errorEdges(w)
			for _, e := range succ {
				reach := reachFrom(e.To, removed)
				for _, nr := range nilReturns(fn) {
					if reach[nr.Block] {
						// the return block itself may contain the allocating store
						alloc := false
						for _, ins := range nr.Block.Instrs {
							if st, ok := ins.(*ssa.Store); ok {
								if n, ok := stateField(st.Addr); ok && n == "lastKey" {
									_, alloc = st.Val.(*ssa.MakeSlice)
								}
							}
						}
						if !alloc {
							bad = true
						}
					}
				}
			}
		}
		if bad {
			r.Bad(rm, key, fn.Pos(), "a successful write can leave lastKey nil (e.g. when the first accepted key is the empty key): the writer forgets that a key was accepted, so the next key is neither compared nor is MinKey kept")
		} else {
			r.OK(rm, key, fn.Pos(), "after a successful write lastKey is a non-nil buffer")
		}
	}

	// R-rollback
	const rb = "rollback"
	r.Rule(rb, 2, "when the index append fails the data writer is rewound (Seek) to the size read before the data write, on every path from that failure to the return")
	{
		seeks := CallsIn(fn, Keys("recordio.WriterI.Seek"))
		iw := CallsIn(fn, indexWrite)
		dw := CallsIn(fn, dataWrite)
		key := rb + "/sstables.SSTableStreamWriter.WriteNext/seek-argument"
		if len(seeks) == 0 {
			r.Bad(rb, key, fn.Pos(), "a failed index append is not rolled back: the data file keeps a record without index entry")
		}
		for _, s := range seeks {
			arg := s.Call().Common().Args[0]
			c, ok := arg.(*ssa.Call)
			okArg := false
			if ok && Suffix("SizeI.Size", "WriterI.Size")(CalleeKey(c)) {
				var cs Site
				eachInstr(fn, func(x Site) {
					if x.Instr == ssa.Instruction(c) {
						cs = x
					}
				})
				for _, d := range dw {
					if precedes(cs, d) {
						okArg = true
					}
				}
			}
			if okArg {
				r.OK(rb, key, s.Pos(), "Seek(Size() read before the data write)")
			} else {
				r.Bad(rb, key, s.Pos(), "the rewind target is not the data writer's size taken before the data write")
			}
		}
		key = rb + "/sstables.SSTableStreamWriter.WriteNext/seek-on-failure-path"
		okPath := len(iw) > 0 && len(seeks) > 0
		for _, w := range iw {
			_, fail := errorEdges(w)
			if len(fail) == 0 {
				okPath = false
			}
			for _, e := range fail {
				removed := map[Edge]bool{}
				for _, s := range seeks {
					for _, su := range s.Block.Succs {
						removed[Edge{s.Block, su}] = true
					}
				}
				reach := reachFrom(e.To, removed)
				for _, rs := range returnsOf(fn) {
					inSeekBlock := false
					for _, s := range seeks {
						if s.Block == rs.Block && s.Idx < rs.Idx {
							inSeekBlock = true
						}
					}
					if reach[rs.Block] && !inSeekBlock {
						okPath = false
					}
				}
			}
		}
		if okPath {
			r.OK(rb, key, fn.Pos(), "every path from the index-append failure passes the rewind")
		} else {
			r.Bad(rb, key, fn.Pos(), "a path from the index-append failure returns without rewinding the data writer")
		}
	}

	ruleTruncateOnClose(r)
	ruleMetadata(r)
	ruleWriterErrflow(r)
	ruleFlushErrflow(r)
	ruleCreateTruncates(r)
	// (a write that was cut is remembered: the table must not be finished behind it)
	ruleStickyWriteError(r)
}

// R-truncate-on-close (shared with C04)
func ruleTruncateOnClose(r *Report) {
	const rule = "truncate-on-close"
	r.Rule(rule, 3, "FileWriter.Close flushes, truncates to the current offset when bytes linger beyond it (largest > current), then closes; Seek folds the current offset into the largest offset before moving")
	p := r.P
	o := &order{r, p}
	// the high-water mark only grows: outside Open every assignment folds the old value in (max), it is never lowered
	// to the current offset — otherwise Close stops truncating the bytes a Seek back left behind
	{
		key := rule + "/recordio.FileWriter/largest-only-grows"
		bad := ""
		n := 0
		for _, fn := range p.FuncsOfPkg("recordio") {
			if fn.Signature.Recv() == nil || !strings.HasSuffix(typeShort(fn.Signature.Recv().Type()), "recordio.FileWriter") || fnName(fn) == "Open" {
				continue
			}
			eachInstr(fn, func(s Site) {
				st, ok := s.Instr.(*ssa.Store)
				if !ok {
					return
				}
				if t, f, _, isF := fieldAddrName(st.Addr); !isF || t != "recordio.FileWriter" || f != "largestOffset" {
					return
				}
				n++
				folds, _ := foldsLargest(fn, s)
				if !folds {
					bad = FuncKey(fn) + " at " + p.Pos(s.Pos())
				}
			})
		}
		if bad != "" {
			r.Bad(rule, key, 0, "largestOffset is assigned without folding its old value in ("+bad+"): after a Seek back (a rolled-back table write) an accepted nil record lowers the mark, Close no longer truncates, and the rolled-back record's bytes stay in the file — DataBytes understates the data file")
		} else {
			r.OK(rule, key, 0, fmt.Sprintf("%d assignment(s) outside Open, all max(old, …)", n))
		}
	}
	if fn := r.NeedFunc(rule, "recordio.FileWriter.Close"); fn != nil {
		F := CallsIn(fn, Suffix("WriteSeekerCloserFlusher.Flush", "Writer.Flush"))
		T := CallsIn(fn, Keys("os.File.Truncate"))
		C := CallsIn(fn, Keys("os.File.Close"))
		o.OnlyAfterSuccess(rule, rule+"/recordio.FileWriter.Close/truncate-after-flush", fn, "Flush", F, "Truncate", T, nil)
		// close only after truncate succeeded or the guard said nothing lingers
		var guards []Edge
		isGuard := func(c ssa.Value) bool {
			bo, ok := c.(*ssa.BinOp)
			if !ok {
				return false
			}
			l := isFieldLoad("recordio.FileWriter", "largestOffset")
			cu := isFieldLoad("recordio.FileWriter", "currentOffset")
			return (l(bo.X) && cu(bo.Y)) || (l(bo.Y) && cu(bo.X))
		}
		gT, gF := condEdges(fn, func(c ssa.Value) bool {
			if ph, isPhi := c.(*ssa.Phi); isPhi {
				// the guard kept in a variable together with the aligned flag: `linger := w.aligned || largest > current`
				n := 0
				for _, e := range ph.Edges {
					if k, isK := e.(*ssa.Const); isK && k.Value != nil && k.Value.Kind() == constant.Bool && constant.BoolVal(k.Value) {
						continue
					}
					if !isGuard(e) {
						return false
					}
					n++
				}
				return n == 1
			}
			return isGuard(c)
		})
		for _, e := range append(gT, gF...) {
			leads := false
			for _, t := range T {
				if e.To == t.Block || dominates(e.To, t.Block) {
					leads = true
				}
			}
			if !leads {
				guards = append(guards, e)
			}
		}
		o.OnlyAfterSuccess(rule, rule+"/recordio.FileWriter.Close/close-after-truncate", fn, "Truncate", T, "file.Close", onSuccessPath(fn, C), guards)
		// block-aligned writers always leave a zero-padded tail behind the last record: Close truncates it
		{
			akey := rule + "/recordio.FileWriter.Close/aligned-tail-truncated"
			removed := map[Edge]bool{}
			tested := false
			for _, b := range liveBlocks(fn) {
				cnd, _, fS, _, fE, ok := effCond(b)
				if !ok || !isFieldLoad("recordio.FileWriter", "alignedBlockWrites")(cnd) {
					continue
				}
				tested = true
				if fE {
					removed[Edge{b, fS}] = true // the "not aligned" side
				}
			}
			for _, t := range T {
				for _, su := range t.Block.Succs {
					removed[Edge{t.Block, su}] = true
				}
			}
			// (the test may be kept in a variable and looked at further down: `linger := w.aligned || …; if linger`)
			pruneStoredConditions(fn, removed)
			skipped := false
			for _, c := range onSuccessPath(fn, C) {
				if siteReachable(c, removed) {
					skipped = true
				}
			}
			if !tested || skipped {
				r.Bad(rule, akey, fn.Pos(), "a block-aligned (DirectIO) writer closes its file without truncating the zero padding of its last block: the readers of this package take the padding for the end of the file, the published Kaitai schema (repeat: eos with a magic) fails on it — every file written with DirectIO, for all four compression types, even a header-only one")
			} else {
				r.OK(rule, akey, fn.Pos(), "aligned writers truncate to the current offset at Close")
			}
		}
		// the guard itself: Truncate runs exactly when largest > current
		key := rule + "/recordio.FileWriter.Close/truncate-iff-lingering"
		okGuard := false
		for _, b := range liveBlocks(fn) {
			if len(b.Instrs) == 0 {
				continue
			}
			iff, ok := b.Instrs[len(b.Instrs)-1].(*ssa.If)
			if !ok {
				continue
			}
			bo, ok := iff.Cond.(*ssa.BinOp)
			viaStored := false
			if ph, isPhi := iff.Cond.(*ssa.Phi); isPhi && !ok {
				// a condition kept in a variable, `linger := aligned || largest > current`: true whenever the comparison is
				for _, e := range ph.Edges {
					if k, isK := e.(*ssa.Const); isK && k.Value != nil && k.Value.Kind() == constant.Bool && constant.BoolVal(k.Value) {
						continue
					}
					if eb, isB := e.(*ssa.BinOp); isB && bo == nil {
						bo, ok, viaStored = eb, true, true
					} else {
						ok = false
						break
					}
				}
			}
			if !ok || bo == nil {
				continue
			}
			l := isFieldLoad("recordio.FileWriter", "largestOffset")
			cu := isFieldLoad("recordio.FileWriter", "currentOffset")
			var trueMeansLinger bool
			switch {
			case l(bo.X) && cu(bo.Y) && bo.Op == token.GTR, cu(bo.X) && l(bo.Y) && bo.Op == token.LSS:
				trueMeansLinger = true
			case l(bo.X) && cu(bo.Y) && bo.Op == token.LEQ, cu(bo.X) && l(bo.Y) && bo.Op == token.GEQ:
				trueMeansLinger = false
			default:
				continue
			}
			if viaStored && !trueMeansLinger {
				continue
			}
			su := b.Succs[1]
			if trueMeansLinger {
				su = b.Succs[0]
			}
			for _, t := range T {
				if su == t.Block || dominates(su, t.Block) {
					okGuard = true
				}
			}
		}
		if okGuard && len(T) > 0 {
			// argument of Truncate derives from currentOffset
			arg := argsOf(T[0].Call())[0]
			if cv, ok := arg.(*ssa.Convert); ok && isFieldLoad("recordio.FileWriter", "currentOffset")(cv.X) {
				r.OK(rule, key, T[0].Pos(), "Truncate(currentOffset) under largestOffset > currentOffset")
			} else {
				r.Bad(rule, key, T[0].Pos(), "Truncate is not called with the current offset")
			}
		} else {
			r.Bad(rule, key, fn.Pos(), "lingering bytes beyond the current offset are not truncated at close (guard largestOffset > currentOffset → Truncate not found)")
		}
	}
	if fn := r.NeedFunc(rule, "recordio.FileWriter.Seek"); fn != nil {
		key := rule + "/recordio.FileWriter.Seek/fold-largest"
		var stL, stC Site
		var haveL, haveC bool
		eachInstr(fn, func(s Site) {
			if st, ok := s.Instr.(*ssa.Store); ok {
				if t, f, _, ok := fieldAddrName(st.Addr); ok && t == "recordio.FileWriter" {
					if f == "largestOffset" {
						stL, haveL = s, true
					}
					if f == "currentOffset" {
						stC, haveC = s, true
					}
				}
			}
		})
		okFold := false
		if haveL && haveC && reachableFromSite(stL, stC) && !reachableFromSite(stC, stL) {
			if f, with := foldsLargest(fn, stL); f && with == "currentOffset" {
				okFold = true
			}
		}
		if okFold {
			r.OK(rule, key, stL.Pos(), "largestOffset = max(largestOffset, currentOffset) before currentOffset moves")
		} else {
			r.Bad(rule, key, fn.Pos(), "Seek does not fold the current offset into largestOffset before overwriting it: lingering bytes are not truncated at close")
		}
	}
}

// foldsLargest: the store keeps the high-water mark monotone — its value is max(largestOffset, x), or it is a load of a
// field that a dominating test found larger than the mark (`if w.currentOffset > w.largestOffset { w.largestOffset = w.currentOffset }`).
// It returns the field the mark is folded with ("" when x is not a plain field load).
func foldsLargest(fn *ssa.Function, s Site) (bool, string) {
	st := s.Instr.(*ssa.Store)
	isLargest := isFieldLoad("recordio.FileWriter", "largestOffset")
	fieldOf := func(v ssa.Value) string {
		if _, f, _, ok := loadOfField(v); ok {
			return f
		}
		return ""
	}
	if c, isC := st.Val.(*ssa.Call); isC {
		if bi, isB := c.Call.Value.(*ssa.Builtin); isB && bi.Name() == "max" {
			with, has := "", false
			for _, a := range c.Call.Args {
				if isLargest(a) {
					has = true
				} else {
					with = fieldOf(a)
				}
			}
			if has {
				return true, with
			}
		}
	}
	vf := fieldOf(st.Val)
	if vf == "" || vf == "largestOffset" {
		return false, ""
	}
	for _, b := range liveBlocks(fn) {
		cnd, tS, fS, tE, fE, okC := effCond(b)
		if !okC {
			continue
		}
		bo, isB := cnd.(*ssa.BinOp)
		if !isB {
			continue
		}
		var grow *ssa.BasicBlock
		switch {
		case (bo.Op == token.GTR || bo.Op == token.GEQ) && fieldOf(bo.X) == vf && isLargest(bo.Y) && tE:
			grow = tS
		case (bo.Op == token.LSS || bo.Op == token.LEQ) && isLargest(bo.X) && fieldOf(bo.Y) == vf && tE:
			grow = tS
		case (bo.Op == token.LEQ || bo.Op == token.LSS) && fieldOf(bo.X) == vf && isLargest(bo.Y) && fE:
			grow = fS
		case (bo.Op == token.GEQ || bo.Op == token.GTR) && isLargest(bo.X) && fieldOf(bo.Y) == vf && fE:
			grow = fS
		}
		if grow != nil && (grow == s.Block || dominates(grow, s.Block)) {
			// nothing writes the field between the test and the store (same block chain): accepted as it stands
			return true, vf
		}
	}
	return false, ""
}
