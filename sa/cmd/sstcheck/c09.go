package main

import (
	"fmt"
	"go/token"
	"strings"

	"golang.org/x/tools/go/ssa"
)

func init() {
	register("C09",
		"Static rules that the load-time verification cannot be bypassed: every success return of NewSSTableReader passes a successful validateDataFile; inside it the only early success returns are the v0 and the skip-on-load guards, and every index entry's value is fetched with the checking variant (constant skipHashCheck=false) before the next entry or the success return; the checksum-mismatch branch of both verifying sites yields an error except under the documented 'expected == 0' escape; the verifying sites cannot reach a success return around the comparison; writer and reader use the same CRC table; defaults keep load-time checking on. Decides these shapes on all paths; it does not enumerate corruption positions and does not bound CRC collisions.",
		[]string{"CRC-64/ISO detects the damage (collisions are out of scope)", "the record layer's header CRC / marker rules are decided under C12"},
		runC09)
}

func runC09(r *Report) {
	ruleReadCheckOptionHonoured(r)
	ruleStoredPayloadCovered(r)
	ruleErrorIsLooksAtTarget(r)
	ruleQueueFailureIsFinal(r, "queue-failure-is-final")
	p := r.P
	o := &order{r, p}
	const rv = "validate-always"
	r.Rule(rv, 6, "NewSSTableReader returns a reader only after validateDataFile succeeded; validateDataFile returns nil early only under the v0 / skipHashCheckOnLoad guards and fetches every index entry with skipHashCheck=false")
	if fn := r.NeedFunc(rv, "sstables.NewSSTableReader"); fn != nil {
		A := CallsIn(fn, Keys("sstables.SSTableReader.validateDataFile"))
		o.OnlyAfterSuccess(rv, rv+"/sstables.NewSSTableReader/nil-return", fn, "validateDataFile", A, "the success return", nilReturns(fn), nil)
		// default option
		key := rv + "/sstables.NewSSTableReader/default-skipHashCheckOnLoad"
		def, found := true, false
		eachInstr(fn, func(s Site) {
			if st, ok := s.Instr.(*ssa.Store); ok {
				if t, f, _, ok := fieldAddrName(st.Addr); ok && t == "sstables.SSTableReaderOptions" && f == "skipHashCheckOnLoad" {
					found = true
					if b, isC := constBool(st.Val); !isC || b {
						def = false
					}
				}
			}
		})
		_ = found
		if def {
			r.OK(rv, key, fn.Pos(), "default options keep load-time verification on")
		} else {
			r.Bad(rv, key, fn.Pos(), "default of skipHashCheckOnLoad is not the constant false")
		}
	}
	// who may switch it off
	for _, fn := range p.FuncsOfPkg("sstables") {
		eachInstr(fn, func(s Site) {
			st, ok := s.Instr.(*ssa.Store)
			if !ok {
				return
			}
			t, f, _, ok := fieldAddrName(st.Addr)
			if !ok || t != "sstables.SSTableReaderOptions" || f != "skipHashCheckOnLoad" || FuncKey(fn) == "sstables.NewSSTableReader" {
				return
			}
			key := fmt.Sprintf("%s/writer/%s", rv, FuncKey(fn))
			if fn.Parent() != nil && FuncKey(fn.Parent()) == "sstables.SkipHashCheckOnLoad" {
				r.OK(rv, key, st.Pos(), "set by the SkipHashCheckOnLoad option")
			} else {
				r.Bad(rv, key, st.Pos(), "skipHashCheckOnLoad is written outside the SkipHashCheckOnLoad option")
			}
		})
	}
	if fn := r.NeedFunc(rv, "sstables.SSTableReader.validateDataFile"); fn != nil {
		G := CallsIn(fn, Keys("sstables.SSTableReader.getValueAtOffset"))
		N := CallsIn(fn, Suffix("IteratorI.Next"))
		// (1) checking variant
		for i, g := range G {
			key := fmt.Sprintf("%s/sstables.SSTableReader.validateDataFile/checking-variant#%d", rv, i+1)
			args := g.Call().Common().Args
			if b, ok := constBool(args[len(args)-1]); ok && !b {
				r.OK(rv, key, g.Pos(), "getValueAtOffset(iv, false)")
			} else {
				r.Bad(rv, key, g.Pos(), "load-time validation fetches values without the checksum comparison (skipHashCheck is not the constant false)")
			}
		}
		if len(G) == 0 {
			r.Bad(rv, rv+"/sstables.SSTableReader.validateDataFile/checking-variant#1", fn.Pos(), "validateDataFile never fetches a value")
		}
		// (2) early nil returns only behind the two guards; otherwise through the loop
		gV0, _ := condEdges(fn, func(c ssa.Value) bool {
			bo, ok := c.(*ssa.BinOp)
			if !ok {
				return false
			}
			return isFieldLoad("sstables.SSTableReader", "v0DataReader")(bo.X) || isFieldLoad("sstables.SSTableReader", "v0DataReader")(bo.Y)
		})
		gSkip, _ := condEdges(fn, isFieldLoad("sstables.SSTableReaderOptions", "skipHashCheckOnLoad"))
		var guards []Edge
		// both out-edges of the guard blocks are candidates; the guarding edge is the one whose target is a nil return
		for _, e := range append(gV0, gSkip...) {
			for _, su := range e.From.Succs {
				if endsInNilReturn(su) {
					guards = append(guards, Edge{e.From, su})
				}
			}
		}
		// the loop's normal exit: Done classification of the index iterator
		var doneEdges []Edge
		for _, n := range N {
			al := errAliases(n)
			for _, b := range liveBlocks(fn) {
				if v, g, isS, _, ok := sentinelTest(b); ok && al[v] && g == "skiplist.Done" {
					doneEdges = append(doneEdges, Edge{b, isS})
				}
			}
		}
		key := rv + "/sstables.SSTableReader.validateDataFile/nil-returns"
		removed := map[Edge]bool{}
		for _, e := range append(guards, doneEdges...) {
			removed[e] = true
		}
		bad := false
		for _, nr := range nilReturns(fn) {
			if siteReachable(nr, removed) {
				bad = true
				r.Bad(rv, key, nr.Pos(), "a success return of validateDataFile is reachable without the v0 / skip-on-load guard and without exhausting the index")
			}
		}
		if !bad {
			r.OK(rv, key, fn.Pos(), fmt.Sprintf("success returns only via %d guard edge(s) or index exhaustion", len(guards)))
		}
		// (3) per entry: from the success edge of Next, neither the next Next nor a success return is reachable
		// without a successful getValueAtOffset
		key = rv + "/sstables.SSTableReader.validateDataFile/every-entry"
		rem := map[Edge]bool{}
		for _, g := range G {
			su, _ := errorEdges(g)
			for _, e := range su {
				rem[e] = true
			}
		}
		okAll := len(N) > 0 && len(rem) > 0
		for _, n := range N {
			su, _ := errorEdges(n)
			if len(su) == 0 {
				okAll = false
			}
			for _, e := range su {
				reach := reachFrom(e.To, rem)
				if reach[n.Block] {
					okAll = false
				}
				for _, nr := range nilReturns(fn) {
					if reach[nr.Block] {
						okAll = false
					}
				}
			}
		}
		if okAll {
			r.OK(rv, key, fn.Pos(), "each index entry is verified before the next entry or the success return")
		} else {
			r.Bad(rv, key, fn.Pos(), "an index entry can be passed over without a successful checked value fetch")
		}
	}

	// mismatch-is-error
	const rm = "mismatch-is-error"
	r.Rule(rm, 4, "at both verifying sites the checksum-mismatch edge reaches a success return only under the 'expected == 0' escape, and with checking enabled no success return bypasses the comparison")
	for _, k := range []string{"sstables.SSTableReader.getValueAtOffset", "sstables.SSTableFullScanIterator.Next"} {
		fn := r.NeedFunc(rm, k)
		if fn == nil {
			continue
		}
		// comparison blocks: If on BinOp(==/!=) where one side derives from checksumValue and the other from field Checksum
		var cmpBlocks []*ssa.BasicBlock
		var mismatch []Edge
		for _, b := range liveBlocks(fn) {
			if len(b.Instrs) == 0 {
				continue
			}
			iff, ok := b.Instrs[len(b.Instrs)-1].(*ssa.If)
			if !ok {
				continue
			}
			bo, ok := iff.Cond.(*ssa.BinOp)
			if !ok || (bo.Op != token.NEQ && bo.Op != token.EQL) {
				continue
			}
			fromCk := func(v ssa.Value) bool {
				if errSourceAny(v) == "sstables.checksumValue" {
					return true
				}
				// computed in place: the zero-mapped CRC-64 of a digest
				if sm, val, ok := zeroMappedSum(v); ok {
					if c, isC := sm.(*ssa.Call); isC && c.Call.IsInvoke() && c.Call.Method.Name() == "Sum64" {
						// the digest was fed exactly the value whose emptiness decides the zero mapping
						fed, other := 0, 0
						if refs := c.Call.Value.Referrers(); refs != nil {
							for _, rf := range *refs {
								if w, isW := rf.(*ssa.Call); isW && w.Call.IsInvoke() && w.Call.Value == c.Call.Value && w.Call.Method.Name() == "Write" {
									if len(w.Call.Args) == 1 && w.Call.Args[0] == val {
										fed++
									} else {
										other++
									}
								}
							}
						}
						return fed == 1 && other == 0
					}
				}
				return false
			}
			isExp := func(v ssa.Value) bool {
				if f, ok := v.(*ssa.Field); ok {
					_, n, _, ok2 := fieldAddrName(f)
					return ok2 && n == "Checksum"
				}
				_, n, _, ok := loadOfField(v)
				return ok && n == "Checksum"
			}
			if (fromCk(bo.X) && isExp(bo.Y)) || (fromCk(bo.Y) && isExp(bo.X)) {
				cmpBlocks = append(cmpBlocks, b)
				if bo.Op == token.NEQ {
					mismatch = append(mismatch, Edge{b, b.Succs[0]})
				} else {
					mismatch = append(mismatch, Edge{b, b.Succs[1]})
				}
			}
		}
		if len(cmpBlocks) == 0 {
			r.Bad(rm, rm+"/"+k+"/comparison", fn.Pos(), "no comparison of the computed checksum with the index entry's checksum")
			continue
		}
		// zero-escape edges
		// (whichever way the test is written: `expected == 0` or `expected != 0` with the branches exchanged)
		var zeroT []Edge
		for _, b := range liveBlocks(fn) {
			isExp := func(v ssa.Value) bool {
				if f, ok := v.(*ssa.Field); ok {
					_, n, _, ok2 := fieldAddrName(f)
					return ok2 && n == "Checksum"
				}
				_, n, _, ok := loadOfField(v)
				return ok && n == "Checksum"
			}
			z := func(v ssa.Value) bool { i, ok := constInt(v); return ok && i == 0 }
			for _, v := range ifCmpForms(b) {
				if v.Op == token.EQL && isExp(v.X) && z(v.Y) {
					zeroT = append(zeroT, Edge{b, v.T})
					break
				}
			}
		}
		rem := map[Edge]bool{}
		for _, e := range zeroT {
			rem[e] = true
		}
		key := rm + "/" + k + "/mismatch-edge"
		bad := false
		for _, e := range mismatch {
			reach := reachFrom(e.To, rem)
			for _, nr := range nilReturns(fn) {
				if reach[nr.Block] {
					bad = true
				}
			}
		}
		if bad {
			r.Bad(rm, key, fn.Pos(), "a checksum mismatch can reach a success return outside the 'expected == 0' escape: damage is served as data")
		} else {
			r.OK(rm, key, fn.Pos(), "mismatch returns an error (except expected == 0)")
		}
		// the escape itself: checksum 0 is what the writer stores for an empty or nil value and for nothing else. A value
		// read for such an entry that is NOT empty is another record's payload (two records that changed places) — the
		// escape may only be taken for an empty value
		key = rm + "/" + k + "/zero-escape-only-for-empty"
		if len(zeroT) == 0 {
			r.OK(rm, key, fn.Pos(), "no 'expected == 0' escape")
		} else {
			emptyOnly := map[Edge]bool{}
			for _, b := range liveBlocks(fn) {
				for _, v := range ifCmpForms(b) {
					c, isC := v.X.(*ssa.Call)
					if v.Op != token.EQL || !isC {
						continue
					}
					if bi, isB := c.Call.Value.(*ssa.Builtin); isB && bi.Name() == "len" {
						if z, isZ := constInt(v.Y); isZ && z == 0 {
							emptyOnly[Edge{b, v.T}] = true
							break
						}
					}
				}
			}
			wide := false
			for _, e := range zeroT {
				reach := reachFrom(e.To, emptyOnly)
				for _, nr := range nilReturns(fn) {
					if reach[nr.Block] {
						wide = true
					}
				}
			}
			if wide {
				r.Bad(rm, key, fn.Pos(), "for an index checksum of 0 any value is accepted: with per-read checking (SkipHashCheckOnLoad + EnableHashCheckOnReads) and two records that changed places in data.rio, a key written with an empty or nil value is served the other key's value without error")
			} else {
				r.OK(rm, key, fn.Pos(), "the 'expected == 0' escape is taken for an empty value only")
			}
		}
		// no bypass: success returns only via the skipHashCheck-true edge or through a comparison block
		key = rm + "/" + k + "/no-bypass"
		skipT, _ := condEdges(fn, func(c ssa.Value) bool {
			if pr, ok := c.(*ssa.Parameter); ok && refName(pr) == "skipHashCheck" {
				return true
			}
			return isFieldLoad("sstables.SSTableFullScanIterator", "skipHashCheck")(c)
		})
		rem2 := map[Edge]bool{}
		for _, e := range skipT {
			rem2[e] = true
		}
		for _, b := range cmpBlocks {
			for _, su := range b.Succs {
				rem2[Edge{b, su}] = true
			}
		}
		// (the 'expected == 0' escape taken in front of the comparison instead of behind it is the same escape; whether it
		// is too wide is judged above)
		for _, e := range zeroT {
			rem2[e] = true
		}
		bad = false
		for _, nr := range nilReturns(fn) {
			if siteReachable(nr, rem2) {
				bad = true
			}
		}
		if len(skipT) == 0 {
			r.Unk(rm, key, fn.Pos(), "the skipHashCheck switch was not found")
		} else if bad {
			r.Bad(rm, key, fn.Pos(), "with checking enabled a success return is reachable without passing the checksum comparison")
		} else {
			r.OK(rm, key, fn.Pos(), "success only via skipHashCheck or through the comparison")
		}
	}

	ruleCrcAgree(r)
	ruleStackErrflow(r)
	ruleHeaderCrc(r)
	ruleExactLength(r)
	ruleInputsValidated(r)
	ruleIndexEntryComplete(r)
	ruleDecompressedLength(r)
}

// endsInNilReturn: following jumps from b ends in a return with constant-nil error.
func endsInNilReturn(b *ssa.BasicBlock) bool {
	fn := b.Parent()
	idx := errorResultIndex(fn)
	seen := map[*ssa.BasicBlock]bool{}
	for !seen[b] {
		seen[b] = true
		switch x := b.Instrs[len(b.Instrs)-1].(type) {
		case *ssa.Return:
			k, _ := returnErrOperand(x, idx)
			return k == "nil"
		case *ssa.Jump:
			b = b.Succs[0]
		default:
			return false
		}
	}
	return false
}

// errSourceAny: callee key of the call whose (any) result v is, through Extract / cell loads.
func errSourceAny(v ssa.Value) string { return errSource(v) }

// R-crc-agree: writer and reader compute the value checksum with the same table over the same bytes.
func ruleCrcAgree(r *Report) {
	const rule = "crc-agree"
	r.Rule(rule, 2, "the value checksum is crc64 with the same table constant on the write side (WriteNext) and the read side (checksumValue), fed the value itself")
	tables := map[string]string{}
	for _, k := range []string{"sstables.SSTableStreamWriter.WriteNext", "sstables.checksumValue"} {
		fn := r.NeedFunc(rule, k)
		if fn == nil {
			continue
		}
		key := rule + "/" + k
		mk := CallsIn(fn, Keys("hash/crc64.MakeTable"))
		nw := CallsIn(fn, Keys("hash/crc64.New"))
		if len(mk) == 0 && len(nw) == 0 && k != "sstables.checksumValue" && readerChecksumOfValue(fn) != nil {
			// the writer calls the readers' function: one computation, nothing to disagree
			r.OK(rule, key, fn.Pos(), "computed by sstables.checksumValue, the function the readers verify with")
			continue
		}
		if len(mk) != 1 || len(nw) != 1 {
			r.Bad(rule, key, fn.Pos(), "the value checksum is not computed with crc64.New(crc64.MakeTable(const))")
			continue
		}
		c, ok := mk[0].Call().Common().Args[0].(*ssa.Const)
		if !ok {
			r.Unk(rule, key, mk[0].Pos(), "crc64 table polynomial is not a constant")
			continue
		}
		tables[k] = c.Value.ExactString()
		// the bytes fed are a parameter of the function (the value), written exactly once
		wr := CallsIn(fn, func(k string) bool {
			return k == "io.Writer.Write" || k == "hash.Hash.Write" || k == "hash.Hash64.Write"
		})
		fed := 0
		for _, w := range wr {
			cc := w.Call().Common()
			if !cc.IsInvoke() || cc.Value != nw[0].Instr.(ssa.Value) {
				continue // only writes into the hash created by crc64.New
			}
			if pr, ok := cc.Args[0].(*ssa.Parameter); ok && (refName(pr) == "value" || len(fn.Params) == 1) {
				fed++
			} else {
				fed += 100
			}
		}
		if fed != 1 {
			r.Bad(rule, key, fn.Pos(), "the checksum is not fed exactly the value parameter")
		} else {
			r.OK(rule, key, mk[0].Pos(), "crc64 table "+tables[k]+" over the value")
		}
	}
	// 0 means "nothing to verify" in the index; a non-empty value must never be stored or compared with it
	for _, k := range []string{"sstables.SSTableStreamWriter.WriteNext", "sstables.checksumValue"} {
		fn := r.P.Func(k)
		if fn == nil {
			continue
		}
		key := rule + "/" + k + "/zero-means-absent"
		okZ := k != "sstables.checksumValue" && readerChecksumOfValue(fn) != nil
		for _, s := range CallsIn(fn, Keys("sstables.nonZeroChecksum")) {
			a := s.Call().Common().Args
			if len(a) != 2 {
				continue
			}
			if c, ok := a[0].(*ssa.Call); ok && c.Call.IsInvoke() && c.Call.Method.Name() == "Sum64" {
				if po := paramOrigin(a[1]); po != nil && (refName(po) == "value" || len(fn.Params) == 1) {
					okZ = true
				}
			}
		}
		// the inline form of the helper
		eachInstr(fn, func(s Site) {
			ph, isPhi := s.Instr.(*ssa.Phi)
			if !isPhi {
				return
			}
			if sm, val, ok := zeroMappedSum(ph); ok {
				if c, isC := sm.(*ssa.Call); isC && c.Call.IsInvoke() && c.Call.Method.Name() == "Sum64" {
					if po := paramOrigin(val); po != nil && (refName(po) == "value" || len(fn.Params) == 1) {
						okZ = true
					}
				}
			}
		})
		if okZ {
			r.OK(rule, key, fn.Pos(), "the sum passes through the shared zero-avoiding helper with the value it was computed from")
		} else {
			r.Bad(rule, key, fn.Pos(), "the raw CRC-64 is used: a non-empty value whose CRC-64/ISO is 0 (e.g. f4 42 2f f4 42 2f f4 12) is stored with checksum 0, which readers take for \"no checksum recorded\" and never verify: a flipped bit in that record is served without error under verify-on-load and verify-on-read")
		}
	}
	// … and nowhere else in the package is a CRC-64 computed that bypasses the helper: a second way of hashing (a one-shot
	// crc64.Checksum in a hot loop) disagrees with the stored checksum exactly for the values the helper exists for
	for _, fn := range r.P.FuncsOfPkg("sstables") {
		eachInstr(fn, func(s Site) {
			c, ok := s.Instr.(*ssa.Call)
			if !ok {
				return
			}
			raw := false
			if c.Call.IsInvoke() && c.Call.Method.Name() == "Sum64" {
				raw = true
			} else if sc := c.Call.StaticCallee(); sc != nil {
				switch FuncKey(sc) {
				case "hash/crc64.Checksum", "hash/crc64.Update":
					raw = true
				}
			}
			if !raw {
				return
			}
			key := uniqKey(r, rule+"/"+FuncKey(fn)+"/sum-through-helper")
			r.Saw(fn)
			through := len(*c.Referrers()) > 0
			for _, rf := range *c.Referrers() {
				// the inline form: the sum is only compared with 0 and merged with the replacement constant
				if bo, isB := rf.(*ssa.BinOp); isB && (bo.Op == token.EQL || bo.Op == token.NEQ) {
					continue
				}
				if ph, isPhi := rf.(*ssa.Phi); isPhi {
					if sm, _, ok := zeroMappedSum(ph); ok && sm == ssa.Value(c) {
						continue
					}
				}
				cc, isC := rf.(*ssa.Call)
				if !isC || cc.Call.StaticCallee() == nil || FuncKey(cc.Call.StaticCallee()) != "sstables.nonZeroChecksum" || len(cc.Call.Args) == 0 || cc.Call.Args[0] != ssa.Value(c) {
					through = false
				}
			}
			// comparisons alone are not a use of the sum as a checksum
			mapped := false
			for _, rf := range *c.Referrers() {
				switch rf.(type) {
				case *ssa.Phi, *ssa.Call:
					mapped = true
				}
			}
			through = through && mapped
			if through {
				r.OK(rule, key, s.Pos(), "the CRC-64 goes through nonZeroChecksum")
			} else {
				r.Bad(rule, key, s.Pos(), "a CRC-64 is computed here and used without nonZeroChecksum: for a non-empty value whose CRC-64/ISO is 0 the index holds 1 (the writer's mapping), this site computes 0 — the value fails verification (or, on the writing side, is never verified)")
			}
		})
	}
	if hz := r.P.Func("sstables.nonZeroChecksum"); hz != nil {
		key := rule + "/sstables.nonZeroChecksum/shape"
		// returns a non-zero constant exactly when sum == 0 and the value is non-empty
		good := false
		for _, rs := range returnsOf(hz) {
			if c, ok := constInt(rs.Instr.(*ssa.Return).Results[0]); ok && c != 0 {
				good = true
			}
		}
		if good {
			r.OK(rule, key, hz.Pos(), "zero sum of a non-empty value is replaced by a non-zero constant")
		} else {
			r.Bad(rule, key, hz.Pos(), "the helper never replaces a zero sum")
		}
	}
	// … and every other CRC-64 table of the package (a checksum computed in place instead of through checksumValue) is
	// the writer's
	if want, ok := tables["sstables.SSTableStreamWriter.WriteNext"]; ok {
		for _, fn := range r.P.FuncsOfPkg("sstables") {
			fk := FuncKey(fn)
			if fk == "sstables.SSTableStreamWriter.WriteNext" || fk == "sstables.checksumValue" {
				continue
			}
			for _, mk := range CallsIn(fn, Keys("hash/crc64.MakeTable")) {
				key := uniqKey(r, rule+"/"+fk+"/same-polynomial")
				r.Saw(fn)
				c, isC := mk.Call().Common().Args[0].(*ssa.Const)
				switch {
				case !isC:
					r.Unk(rule, key, mk.Pos(), "crc64 table polynomial is not a constant")
				case c.Value.ExactString() != want:
					r.Bad(rule, key, mk.Pos(), "a CRC-64 is computed here with another polynomial than the one the table writer stores: every value fails its verification at this site (or, compared with nothing, damage goes unnoticed)")
				default:
					r.OK(rule, key, mk.Pos(), "the writer's polynomial")
				}
			}
		}
	}
	if len(tables) == 2 && tables["sstables.SSTableStreamWriter.WriteNext"] != tables["sstables.checksumValue"] {
		r.Bad(rule, rule+"/tables-equal", 0, "writer and reader use different crc64 polynomials: every load-time validation fails or no damage is detected")
	} else if len(tables) == 2 {
		r.OK(rule, rule+"/tables-equal", 0, "same polynomial on both sides")
	}
}

// R-stored-payload-covered (known finding F-CRC-1): the v4 record header carries a CRC-32C of its own fields; the payload
// bytes as stored are covered by nothing at the record level. The only check a value gets is the CRC-64/ISO of its
// uncompressed bytes in the table index. That polynomial has a short Hamming distance: two values that differ by the xor
// pattern 02 00 00 00 00 00 00 60 03 share it, and one altered byte of a snappy stream (a copy offset) can turn one into
// the other. A record-level checksum over the stored bytes would see the altered byte whatever it decodes to.
func ruleStoredPayloadCovered(r *Report) {
	const rule = "stored-payload-covered"
	r.Rule(rule, 2, "each v4 reader verifies a checksum over the payload bytes as they are stored (a digest that is fed the buffer the payload was read into) before it returns the record")
	for _, k := range []string{"recordio.FileReader.ReadNext", "recordio.MMapReader.ReadNextAt"} {
		fn := r.NeedFunc(rule, k)
		if fn == nil {
			continue
		}
		key := rule + "/" + k
		// payload buffers: first argument of io.ReadFull / ReaderAt.ReadAt that follow a v4 header parse
		hdr := CallsIn(fn, Keys("recordio.readRecordHeaderV4"))
		var bufs []ssa.Value
		eachInstr(fn, func(s Site) {
			c, ok := s.Instr.(*ssa.Call)
			if !ok || len(hdr) == 0 || !reachableFromSite(hdr[0], s) {
				return
			}
			ck := CalleeKey(c)
			a := argsOf(c)
			switch {
			case ck == "io.ReadFull" && len(c.Call.Args) == 2:
				bufs = append(bufs, c.Call.Args[1])
			case strings.HasSuffix(ck, "ReaderAt.ReadAt") && len(a) >= 1:
				bufs = append(bufs, a[0])
			}
		})
		covered := false
		eachInstr(fn, func(s Site) {
			c, ok := s.Instr.(*ssa.Call)
			if !ok {
				return
			}
			ck := CalleeKey(c)
			isDigest := strings.HasPrefix(ck, "hash/crc32.") || strings.HasPrefix(ck, "hash/crc64.") || ck == "hash.Hash.Write" || ck == "hash.Hash32.Write" || ck == "hash.Hash64.Write" || ck == "io.Writer.Write" && strings.Contains(typeShort(c.Call.Value.Type()), "hash.")
			if !isDigest {
				return
			}
			for _, a := range c.Call.Args {
				for _, b := range bufs {
					if valueDependsOn(a, func(x ssa.Value) bool { return x == b }) {
						covered = true
					}
				}
			}
		})
		if covered {
			r.OK(rule, key, fn.Pos(), "the stored payload is checksummed at the record level")
		} else {
			r.Bad(rule, key, fn.Pos(), "nothing at the record level covers the payload bytes as stored; a value is only checked through the CRC-64/ISO of its uncompressed bytes in the table index, which two values that differ in few bytes can share: one altered byte of a snappy payload (a copy offset, 1b -> 35 at offset 69 of the demonstration table) makes Get and Scan return a different, plausible value under verify-on-load and verify-on-read; two equal-length values with equal CRC-64 that change places are served crosswise")
		}
	}
}

// readerChecksumOfValue: the result of a call of sstables.checksumValue on the function's value parameter (the writer
// using the readers' function instead of its own copy of the computation), nil when there is none.
func readerChecksumOfValue(fn *ssa.Function) ssa.Value {
	var out ssa.Value
	for _, s := range CallsIn(fn, Keys("sstables.checksumValue")) {
		if s.Lifted {
			continue
		}
		c := s.Instr.(*ssa.Call)
		if len(c.Call.Args) != 1 {
			continue
		}
		if po := paramOrigin(c.Call.Args[0]); po == nil || refName(po) != "value" {
			continue
		}
		for _, rf := range *c.Referrers() {
			if ex, ok := rf.(*ssa.Extract); ok && ex.Index == 0 {
				out = ex
			}
		}
	}
	return out
}
