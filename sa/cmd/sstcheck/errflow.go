package main

// E-ERRFLOW: path-sensitive error discipline on SSA.
// For every call whose result includes an error value e: e must not be dropped, must not be
// overwritten unchecked, and no path on which e is known (or may be) non-nil may end in a
// return that reports success, unless the path stops the process or e was an end-of-stream
// sentinel that the frozen classification table allows that function to treat as normal end.

import (
	"fmt"
	"go/token"
	"go/types"
	"os"
	"sort"
	"strings"

	"golang.org/x/tools/go/ssa"
)

// sentinels a function may treat as normal termination (reviewed by reading each function).
var classification = map[string]map[string]bool{
	"sstables.SSTableMerger.Merge":                  {"pq.Done": true},
	"sstables.SSTableMerger.MergeCompact":           {"sstables.Done": true},
	"sstables.SSTableSimpleWriter.WriteSkipListMap": {"skiplist.Done": true},
	"memstore.MemStore.flushMemstore":               {"skiplist.Done": true},
	"memstore.flushMemstore":                        {"skiplist.Done": true},
	"wal.Replayer.Replay":                           {"io.EOF": true, "io.ErrUnexpectedEOF": true},
	// initialising the heap: an input that is exhausted from the start simply does not enter the heap
	"pq.PriorityQueue.init": {"pq.Done": true},
	// refilling the heap root: an exhausted input is dropped from the heap
	"pq.PriorityQueue.Next": {"pq.Done": true},
	// the merged iterator ends when the heap is exhausted (it then emits the last group or Done)
	"sstables.MergeCompactionIterator.Next": {"pq.Done": true},
	// mmap ReadAt reports io.EOF together with a short count near the end of the file; numRead==0 is turned into io.EOF
	"recordio.MMapReader.ReadNextAt": {"io.EOF": true},
	"recordio.readNextAtV2":          {"io.EOF": true},
	"recordio.readNextAtV3":          {"io.EOF": true},
	// SeekNext performs checksum-verified trial reads; a failed trial means "no record starts here"; header parse
	// failures of a trial read arrive typed (recordHeaderError)
	"recordio.MMapReader.SeekNext": {"io.EOF": true, "recordio.HeaderChecksumMismatchErr": true, "recordio.MagicNumberMismatchErr": true, "type:recordio.recordHeaderError": true},
	// index loaders read the index file until end-of-file
	"sstables.SliceKeyIndexLoader.Load": {"io.EOF": true},
	// validateDataFile walks the whole index until the iterator is exhausted
	"sstables.SSTableReader.validateDataFile": {"skiplist.Done": true},
}

// end / absence signals: errors that callers classify as "nothing more" or "not there"
var benignSentinels = map[string]bool{
	"pq.Done": true, "sstables.Done": true, "skiplist.Done": true, "io.EOF": true,
	"skiplist.NotFound": true, "sstables.NotFound": true, "memstore.KeyNotFound": true, "simpledb.ErrNotFound": true,
}

// sentinelConversions: reviewed places where one signal is deliberately translated into a benign one
// (outermost function | from -> to), one line of reason each.
var sentinelConversions = map[string]string{
	"memstore.SkipListSStableIterator.Next|skiplist.Done->sstables.Done":   "adapter: the skip list's end-of-iteration becomes the table iterator's",
	"sstables.SSTableIterator.Next|skiplist.Done->sstables.Done":           "adapter: end of the index iterator is the end of the scan",
	"sstables.SSTableFullScanIterator.Next|skiplist.Done->sstables.Done":   "adapter: end of the index iterator is the end of the scan (the data reader's io.EOF is NOT: a data file that ends before its index is damage)",
	"sstables.V0SSTableFullScanIterator.Next|skiplist.Done->sstables.Done": "adapter: end of the index iterator is the end of the scan",
	"sstables.SSTableMergeIteratorContext.Next|sstables.Done->pq.Done":     "adapter: an exhausted table leaves the merge heap",
	"sstables.DiskKeyIndexIterator.Next|io.EOF->skiplist.Done":             "the index file is read to its end: end-of-file of the index is the end of the index",
	"recordio.FileReader.ReadNext|recordio.MagicNumberMismatchErr->io.EOF": "block-aligned files end in zero padding: a marker mismatch followed only by zeros is the end of the file (checked byte by byte)",
	"recordio.readNextV2|recordio.MagicNumberMismatchErr->io.EOF":          "as above, v2 files",
	"recordio.readNextV3|recordio.MagicNumberMismatchErr->io.EOF":          "as above, v3 files",
	"simpledb.DB.GetBytes|memstore.KeyTombstoned->simpledb.ErrNotFound":    "a tombstone in the memstore means the key is deleted",
	"simpledb.DB.GetBytes|memstore.KeyNotFound->simpledb.ErrNotFound":      "absent from the memstore and from the tables",
}

// error constructors: not failure sources
var errConstructors = Keys("fmt.Errorf", "errors.New", "errors.Join", "errors.Unwrap")

// named exemptions, one call in one function each, with the reason
var exemptCalls = map[string]string{
	"sstables.readFilterIfExists|os.Stat":   "existence probe for an optional file: only IsNotExist is acted on, any other failure resurfaces at the read that follows",
	"sstables.readMetaDataIfExists|os.Stat": "existence probe for an optional file: only IsNotExist is acted on, any other failure resurfaces at the open that follows",
}

// readOnlyClose: a Close() call on a value whose static type offers no Write*/Flush/Sync method.
func readOnlyClose(c ssa.CallInstruction) bool {
	cc := c.Common()
	var recv types.Type
	name := ""
	if cc.IsInvoke() {
		recv, name = cc.Value.Type(), cc.Method.Name()
	} else if sc := cc.StaticCallee(); sc != nil && sc.Signature.Recv() != nil {
		recv, name = sc.Signature.Recv().Type(), fnName(sc)
	}
	if name != "Close" || recv == nil {
		return false
	}
	ms := types.NewMethodSet(recv)
	if _, isPtr := recv.(*types.Pointer); !isPtr && !types.IsInterface(recv) {
		ms = types.NewMethodSet(types.NewPointer(recv))
	}
	if ms.Len() <= 1 {
		return false // a bare closer: cannot tell
	}
	for i := 0; i < ms.Len(); i++ {
		n := ms.At(i).Obj().Name()
		if strings.HasPrefix(n, "Write") || n == "Flush" || n == "Sync" || n == "Truncate" {
			return false
		}
	}
	return true
}

// process-stopping calls ("or the process stops")
var stopCalls = Keys("log.Panicf", "log.Panic", "log.Panicln", "log.Fatalf", "log.Fatal", "log.Fatalln", "os.Exit")

type errflow struct {
	p          *Prog
	r          *Report
	rule       string
	infallible map[*ssa.Function]bool
	inScope    func(fn *ssa.Function) bool
	// extraClass lets a property add reviewed (function, sentinel) pairs
	extraClass map[string]map[string]bool
	maxStates  int
	// strictWrap: an error keeps its identity only when returned itself or wrapped with %w; formatting it with
	// another verb, or returning a different error on its failure path, loses it (used for truncation errors that a
	// caller classifies with errors.Is)
	strictWrap bool
}

func newErrflow(r *Report, rule string) *errflow {
	ef := &errflow{p: r.P, r: r, rule: rule, infallible: map[*ssa.Function]bool{}, maxStates: 40000}
	ef.computeInfallible()
	return ef
}

// computeInfallible: least fixed point would mark nothing; we want the greatest set S of module functions such that
// every return of f∈S yields a constant nil error or the error of a call whose callees are all in S.
func (ef *errflow) computeInfallible() {
	cand := map[*ssa.Function]bool{}
	for _, fn := range ef.p.modFns {
		if errorResultIndex(fn) >= 0 {
			cand[fn] = true
		}
	}
	changed := true
	for changed {
		changed = false
		for fn := range cand {
			if !ef.returnsOnlyNil(fn, cand) {
				delete(cand, fn)
				changed = true
			}
		}
	}
	ef.infallible = cand
}

func (ef *errflow) returnsOnlyNil(fn *ssa.Function, cand map[*ssa.Function]bool) bool {
	idx := errorResultIndex(fn)
	for _, rs := range returnsOf(fn) {
		ret := rs.Instr.(*ssa.Return)
		kind, vals := returnErrOperand(ret, idx)
		switch kind {
		case "nil":
			continue
		case "unknown":
			return false
		}
		for _, v := range vals {
			if !ef.valueFromInfallible(v, cand) {
				return false
			}
		}
	}
	// a function with deferred closures writing its result is not summarised
	for _, a := range fn.AnonFuncs {
		if deferredOnly(a) {
			wr := false
			eachInstr(a, func(s Site) {
				if st, ok := s.Instr.(*ssa.Store); ok && isCell(st.Addr) && isErrorType(st.Val.Type()) {
					wr = true
				}
			})
			if wr {
				return false
			}
		}
	}
	return true
}

func (ef *errflow) valueFromInfallible(v ssa.Value, cand map[*ssa.Function]bool) bool {
	return ef.valueFromInfallible1(v, cand, map[ssa.Value]bool{})
}

func (ef *errflow) valueFromInfallible1(v ssa.Value, cand map[*ssa.Function]bool, seen map[ssa.Value]bool) bool {
	if seen[v] {
		return true // a loop-carried phi: decided by its other edges
	}
	seen[v] = true
	switch x := v.(type) {
	case *ssa.Extract:
		if c, ok := x.Tuple.(*ssa.Call); ok {
			return ef.calleesAllIn(c, cand)
		}
	case *ssa.Call:
		return ef.calleesAllIn(x, cand)
	case *ssa.Phi:
		for _, e := range x.Edges {
			if isNilConst(e) {
				continue
			}
			if !ef.valueFromInfallible1(e, cand, seen) {
				return false
			}
		}
		return true
	}
	return false
}

func (ef *errflow) calleesAllIn(c ssa.CallInstruction, cand map[*ssa.Function]bool) bool {
	if tableInfallible(c) {
		return true
	}
	cs := ef.p.Callees(c)
	if len(cs) == 0 {
		return false
	}
	for _, f := range cs {
		if !cand[f] {
			return false
		}
	}
	return true
}

// tableInfallible: documented never-failing calls of the standard library.
func tableInfallible(c ssa.CallInstruction) bool {
	cc := c.Common()
	if cc.IsInvoke() && cc.Method.Name() == "Write" {
		switch typeShort(cc.Value.Type()) {
		case "hash.Hash", "hash.Hash32", "hash.Hash64": // hash.Hash: "It never returns an error."
			return true
		}
	}
	switch CalleeKey(c) {
	case "bytes.Buffer.Write", "bytes.Buffer.WriteByte", "bytes.Buffer.WriteString", "strings.Builder.Write", "strings.Builder.WriteString":
		return true
	}
	return false
}

func (ef *errflow) infallibleCall(c ssa.CallInstruction) bool {
	return ef.calleesAllIn(c, ef.infallible)
}

func (ef *errflow) allowed(fn *ssa.Function, sentinel string) bool {
	k := FuncKey(fn)
	// closures inherit the classification of their outermost function
	var outer *ssa.Function
	for f := fn; f != nil; f = f.Parent() {
		k = FuncKey(f)
		outer = f
		if classification[k][sentinel] || ef.extraClass[k][sentinel] {
			return true
		}
	}
	// a helper that was extracted from a reviewed function since the reference tree classifies like the function it
	// was taken out of (the functions that call it)
	if isFresh(outer) {
		for _, cs := range ef.p.CallSitesOf(outer) {
			c := cs.Fn
			for c.Parent() != nil {
				c = c.Parent()
			}
			if c != outer && !isFresh(c) && (classification[FuncKey(c)][sentinel] || ef.extraClass[FuncKey(c)][sentinel]) {
				return true
			}
		}
	}
	return false
}

// Check analyses every error-producing call in fn.
func (ef *errflow) Check(fn *ssa.Function) {
	ef.r.Saw(fn)
	eachInstr(fn, func(s Site) {
		c, ok := s.Instr.(ssa.CallInstruction)
		if !ok {
			return
		}
		vals, hasErr, unextracted := errResults(c)
		if !hasErr {
			return
		}
		callee := CalleeKey(c)
		if errConstructors(callee) {
			return // builds an error value, is not a failure source; followed as a carrier only
		}
		ef.r.CallSites++
		if callee == "" {
			callee = "dynamic:" + c.Common().Value.Name()
		}
		key := fmt.Sprintf("%s/%s/%s", ef.rule, FuncKey(fn), callee)
		// several calls of the same callee in one function: disambiguate by ordinal (stable under moves)
		key = ef.uniq(key)
		if ef.infallibleCall(c) {
			ef.r.OK(ef.rule, key, c.Pos(), "callee never returns a non-nil error (summary)")
			return
		}
		if why, ok := exemptCalls[FuncKey(fn)+"|"+callee]; ok {
			ef.r.OK(ef.rule, key, c.Pos(), "exempt (named): "+why)
			return
		}
		if readOnlyClose(c) {
			ef.r.OK(ef.rule, key, c.Pos(), "Close of a handle whose static type has no write/flush methods: its failure cannot concern written or read records")
			return
		}
		if _, isGo := c.(*ssa.Go); isGo {
			ef.r.Bad(ef.rule, key, c.Pos(), "error result of a go statement is discarded")
			return
		}
		if _, isDefer := c.(*ssa.Defer); isDefer {
			ef.r.Bad(ef.rule, key, c.Pos(), "error result of a deferred call is discarded")
			return
		}
		if unextracted || len(vals) == 0 {
			ef.r.Bad(ef.rule, key, c.Pos(), "error result is dropped (never read)")
			return
		}
		for _, e := range vals {
			if len(*e.Referrers()) == 0 {
				ef.r.Bad(ef.rule, key, c.Pos(), "error result is assigned and never read")
				return
			}
		}
		verdict, detail := ef.explore(fn, s, vals)
		switch verdict {
		case Discharged:
			ef.r.OK(ef.rule, key, c.Pos(), detail)
		case Violated:
			ef.r.Bad(ef.rule, key, c.Pos(), detail)
		default:
			ef.r.Unk(ef.rule, key, c.Pos(), detail)
		}
	})
}

var uniqCount = map[string]int{}

func (ef *errflow) uniq(k string) string {
	uniqCount[k]++
	if n := uniqCount[k]; n > 1 {
		return fmt.Sprintf("%s#%d", k, n)
	}
	return k
}

type efState struct {
	b        *ssa.BasicBlock
	idx      int
	pred     *ssa.BasicBlock
	mode     int // 0 unchecked, 1 must-handle (known non-nil)
	carriers map[ssa.Value]bool
	via      string // how the path learnt that the error is non-nil: "" (nil test), a sentinel name, "type:T", "pred"
}

func carrierKey(m map[ssa.Value]bool) string {
	var ks []string
	for v := range m {
		ks = append(ks, fmt.Sprintf("%p", v))
	}
	sort.Strings(ks)
	return strings.Join(ks, ",")
}

func copySet(m map[ssa.Value]bool) map[ssa.Value]bool {
	n := make(map[ssa.Value]bool, len(m)+2)
	for k := range m {
		n[k] = true
	}
	return n
}

// definedUnder: v is an SSA value whose definition is dominated by the origin call (so it is recomputed whenever
// the call executes again). Cells (Alloc, FreeVar) are never "under".
func definedUnder(v ssa.Value, origin Site) bool {
	ins, ok := v.(ssa.Instruction)
	if !ok {
		return false
	}
	if _, isAlloc := v.(*ssa.Alloc); isAlloc {
		return false
	}
	if ins == origin.Instr {
		return true
	}
	b := ins.Block()
	if b == nil {
		return false
	}
	if b == origin.Block {
		for i, x := range b.Instrs {
			if x == ins {
				return i > origin.Idx
			}
		}
		return false
	}
	return dominates(origin.Block, b)
}

// isResultCell: alloc is a named result of its function (a Return yields a load of it).
// stickyErrorFields: fields that hold the first error of an object which then refuses every further call.
var stickyErrorFields = map[string]bool{
	"recordio.Writer.err": true,
	"recordio.Reader.err": true,
}

func isResultCell(v ssa.Value) bool {
	a, ok := rootCell(v).(*ssa.Alloc)
	if !ok {
		return false
	}
	res := false
	for _, rs := range returnsOf(a.Parent()) {
		for _, op := range rs.Instr.(*ssa.Return).Results {
			if u, ok := op.(*ssa.UnOp); ok && u.Op == token.MUL && u.X == ssa.Value(a) {
				res = true
			}
		}
	}
	return res
}

func (ef *errflow) explore(fn *ssa.Function, origin Site, evals []ssa.Value) (Verdict, string) {
	init := map[ssa.Value]bool{}
	for _, e := range evals {
		init[e] = true
	}
	seen := map[string]bool{}
	var bad []string
	undec := ""
	states := 0
	errIdx := errorResultIndex(fn)

	var run func(st efState)
	run = func(st efState) {
		if undec != "" || len(bad) > 3 {
			return
		}
		k := fmt.Sprintf("%d|%d|%d|%s|%s", st.b.Index, st.idx, st.mode, carrierKey(st.carriers), st.via)
		if st.idx == 0 && st.pred != nil {
			k += fmt.Sprintf("|p%d", st.pred.Index)
		}
		if seen[k] {
			return
		}
		seen[k] = true
		states++
		if states > ef.maxStates {
			undec = "state budget exceeded"
			return
		}
		car := st.carriers
		has := func(v ssa.Value) bool {
			if v == nil {
				return false
			}
			return car[v] || car[stripIface(v)]
		}
		b := st.b
		for i := st.idx; i < len(b.Instrs); i++ {
			ins := b.Instrs[i]
			if ins == origin.Instr {
				// the producing call is executed again (loop back edge): every SSA value defined under it is about
				// to be redefined; the previous error survives only in cells and in values defined above the call
				nc := map[ssa.Value]bool{}
				for v := range car {
					if !definedUnder(v, origin) {
						nc[v] = true
					}
				}
				if len(nc) == 0 {
					if st.mode == 0 {
						bad = append(bad, "the call is executed again before its previous error was examined (overwritten by the next iteration)")
					} else {
						bad = append(bad, "a non-nil error path loops back to the call without reporting the error")
					}
					return
				}
				car = nc
				continue
			}
			switch x := ins.(type) {
			case *ssa.Phi:
				if st.pred != nil {
					for pi, p := range b.Preds {
						if p != st.pred || pi >= len(x.Edges) {
							continue
						}
						if has(x.Edges[pi]) {
							car = copySet(car)
							car[x] = true
						} else if car[x] {
							car = copySet(car)
							delete(car, x)
						}
						break
					}
				}
			case *ssa.Store:
				if has(x.Val) {
					switch a := x.Addr.(type) {
					case *ssa.Alloc:
						car = copySet(car)
						car[a] = true
					case *ssa.FreeVar:
						if deferredOnly(fn) && isResultCell(a) {
							return // joined into the enclosing function's result by a deferred closure
						}
						car = copySet(car)
						car[a] = true
					case *ssa.IndexAddr:
						if al, ok := a.X.(*ssa.Alloc); ok {
							// varargs packaging: the local array now holds e
							car = copySet(car)
							car[al] = true
						} else {
							return // stored into shared state: escapes, someone else's obligation
						}
					case *ssa.FieldAddr:
						// into a value that is being built here (a typed error, an element): travels with that value
						if _, fresh := a.X.(*ssa.Alloc); fresh {
							return
						}
						// into the state of a long-lived object: only where that object is reviewed to refuse everything
						// after its first error (the vendored buffered reader / writer)
						if t, f, _, ok := fieldAddrName(a); ok && stickyErrorFields[t+"."+f] {
							return
						}
						// any other field: keeping a note of the error discharges nothing — this call still has to report it
						// (a "pending error" that a later call returns is lost when no later call comes)
					default:
						return // global store: escapes to state
					}
				} else if car[x.Addr] {
					car = copySet(car)
					delete(car, x.Addr)
				}
			case *ssa.UnOp:
				if x.Op == token.MUL && car[x.X] {
					car = copySet(car)
					car[x] = true
				}
			case *ssa.ChangeInterface, *ssa.MakeInterface, *ssa.ChangeType:
				ops := ins.Operands(nil)
				if len(ops) > 0 && has(*ops[0]) {
					car = copySet(car)
					car[ins.(ssa.Value)] = true
				}
			case *ssa.TypeAssert:
				if has(x.X) {
					car = copySet(car)
					car[x] = true
				}
			case *ssa.Slice:
				if has(x.X) {
					car = copySet(car)
					car[x] = true
				}
			case *ssa.Extract:
				if car[x.Tuple] && (isErrorType(x.Type()) || types.IsInterface(x.Type())) {
					car = copySet(car)
					car[x] = true
				}
			case *ssa.Send:
				if has(x.X) {
					return
				}
			case *ssa.Panic:
				return
			case *ssa.Call:
				ck := CalleeKey(x)
				if stopCalls(ck) {
					return // the process stops
				}
				pass := false
				for _, a := range x.Call.Args {
					if has(a) {
						pass = true
					}
				}
				if pass && ef.strictWrap && ck == "fmt.Errorf" && !wrapsWithW(x, has) {
					pass = false
				}
				if pass {
					t := x.Type()
					if tup, ok := t.(*types.Tuple); ok {
						if tup.Len() > 0 {
							car = copySet(car)
							car[x] = true
						}
					} else if isErrorType(t) || types.IsInterface(t) {
						car = copySet(car)
						car[x] = true
					}
				}
			case *ssa.Return:
				for _, op := range x.Results {
					if has(op) {
						return // propagated
					}
				}
				if errIdx < 0 {
					if st.mode == 1 {
						bad = append(bad, fmt.Sprintf("non-nil error path ends at %s without reporting: the function has no error result and does not stop the process", ef.p.Pos(x.Pos())))
					} else {
						bad = append(bad, fmt.Sprintf("error is never examined before the return at %s", ef.p.Pos(x.Pos())))
					}
					return
				}
				kind, _ := returnErrOperand(x, errIdx)
				if kind == "nil" {
					if st.mode == 1 {
						bad = append(bad, fmt.Sprintf("absorbed: on a path where the error is non-nil the function returns a nil error at %s", ef.p.Pos(x.Pos())))
					} else {
						bad = append(bad, fmt.Sprintf("unchecked: a path reaches the nil-error return at %s without examining the error", ef.p.Pos(x.Pos())))
					}
					return
				}
				if st.mode == 1 {
					// io.EOF replaced by io.ErrUnexpectedEOF (the inline form of "the end of the file inside a record is not
					// a regular end"): the error stays in the truncation class that the strict mode is about
					eofToUnexpected := false
					if ef.strictWrap && st.via == "io.EOF" && errIdx < len(x.Results) {
						eofToUnexpected = valueDependsOn(x.Results[errIdx], func(v ssa.Value) bool { return globalLoad(v) == "io.ErrUnexpectedEOF" })
					}
					if ef.strictWrap && !eofToUnexpected {
						bad = append(bad, fmt.Sprintf("identity lost: on the failure path a different error (not wrapping this one with %%w) is returned at %s", ef.p.Pos(x.Pos())))
					}
					// the failure is replaced by another error: fine unless that error is an end/absence signal that
					// callers classify as benign — then the failure is absorbed one level up
					if to := returnedSentinel(b); to != "" && benignSentinels[to] && to != st.via {
						ck := FuncKey(outermost(fn)) + "|" + st.via + "->" + to
						if os.Getenv("VERIF_CONVERSIONS") != "" {
							fmt.Fprintf(os.Stderr, "CONVERSION %s\n", ck)
						}
						if _, listed := sentinelConversions[ck]; !listed {
							from := st.via
							if from == "" {
								from = "any failure"
							}
							bad = append(bad, fmt.Sprintf("converted: %s of this call is turned into %s at %s, which callers take for a regular end/absence signal (the failure is absorbed one level up)", from, to, ef.p.Pos(x.Pos())))
						}
					}
					return // reports a (different) error
				}
				if kind == "unknown" {
					return // bare return of a named result we cannot see: not flagged
				}
				bad = append(bad, fmt.Sprintf("overwritten: the error is never examined and a different error value is returned at %s", ef.p.Pos(x.Pos())))
				return
			case *ssa.If:
				if v, nilS, nonNilS, nilE, nonNilE, ok := nilTest2(b); ok && has(v) {
					// exact sides: non-nil continues as a failure path, nil is dropped; a side shared with another
					// condition (stored `a && err != nil`) keeps the current mode
					if nonNilE {
						run(efState{nonNilS, 0, b, 1, car, viaNil(st)})
					} else {
						run(efState{nonNilS, 0, b, st.mode, car, st.via})
					}
					if !nilE {
						run(efState{nilS, 0, b, st.mode, car, st.via})
					}
					return
				}
				if v, sent, isS, notS, ok := sentinelTest(b); ok && has(v) {
					if !ef.allowed(fn, sent) {
						run(efState{isS, 0, b, 1, car, sent})
					}
					run(efState{notS, 0, b, st.mode, car, st.via})
					return
				}
				if tn, aT, aF, ok := errorsAsTest(b, has); ok {
					// errors.As(err, &target): a classification by error type
					if !ef.allowed(fn, "type:"+tn) {
						run(efState{aT, 0, b, 1, car, "type:" + tn})
					}
					run(efState{aF, 0, b, st.mode, car, st.via})
					return
				}
				if pc, pT, pF, ok := predicateTest(b); ok && has(pc.Call.Args[0]) {
					if sents, ok := sentinelPredicate(pc.Call.StaticCallee()); ok {
						all := len(sents) > 0
						for g := range sents {
							if !ef.allowed(fn, g) {
								all = false
							}
						}
						if !all {
							run(efState{pT, 0, b, 1, car, "pred"})
						}
						run(efState{pF, 0, b, st.mode, car, st.via})
						return
					}
				}
				for _, s := range b.Succs {
					run(efState{s, 0, b, st.mode, car, st.via})
				}
				return
			case *ssa.Jump:
				run(efState{b.Succs[0], 0, b, st.mode, car, st.via})
				return
			}
		}
	}
	run(efState{origin.Block, origin.Idx + 1, nil, 0, init, ""})
	if undec != "" {
		return Undecided, undec
	}
	if len(bad) > 0 {
		// dedupe
		m := map[string]bool{}
		var u []string
		for _, s := range bad {
			if !m[s] {
				m[s] = true
				u = append(u, s)
			}
		}
		return Violated, strings.Join(u, "; ")
	}
	return Discharged, fmt.Sprintf("every path examines, propagates or escalates the error (%d states)", states)
}

// CheckDeferPreserve: deferred closures that write a captured error cell must join the previous value
// (err = errors.Join(err, …)), never replace it.
func (ef *errflow) CheckDeferPreserve(fn *ssa.Function) {
	for _, a := range fn.AnonFuncs {
		if !deferredOnly(a) {
			continue
		}
		eachInstr(a, func(s Site) {
			st, ok := s.Instr.(*ssa.Store)
			if !ok || !isCell(st.Addr) || !isErrorType(st.Val.Type()) {
				return
			}
			if _, isFree := st.Addr.(*ssa.FreeVar); !isFree {
				return
			}
			key := fmt.Sprintf("%s-defer/%s", ef.rule, FuncKey(a))
			key = ef.uniq(key)
			if joinOfCell(st.Val, st.Addr) {
				ef.r.OK(ef.rule, key, st.Pos(), "deferred closure joins into the result (errors.Join(old, …))")
			} else {
				ef.r.Bad(ef.rule, key, st.Pos(), "deferred closure overwrites the captured error instead of joining it")
			}
		})
	}
}

func joinOfCell(v ssa.Value, cell ssa.Value) bool {
	c, ok := v.(*ssa.Call)
	if !ok || CalleeKey(c) != "errors.Join" || len(c.Call.Args) != 1 {
		return false
	}
	// the varargs slice: look for a store of a load of `cell` into its backing array
	sl, ok := c.Call.Args[0].(*ssa.Slice)
	if !ok {
		return false
	}
	al, ok := sl.X.(*ssa.Alloc)
	if !ok {
		return false
	}
	found := false
	for _, r := range *al.Referrers() {
		ia, ok := r.(*ssa.IndexAddr)
		if !ok {
			continue
		}
		for _, rr := range *ia.Referrers() {
			if st, ok := rr.(*ssa.Store); ok {
				if u, ok := stripIface(st.Val).(*ssa.UnOp); ok && u.Op == token.MUL && u.X == cell {
					found = true
				}
			}
		}
	}
	return found
}

// moduleReach: module functions reachable from roots through resolved calls (closures included).
func moduleReach(p *Prog, roots []*ssa.Function) []*ssa.Function {
	seen := map[*ssa.Function]bool{}
	var out []*ssa.Function
	var visit func(fn *ssa.Function)
	visit = func(fn *ssa.Function) {
		if fn == nil || seen[fn] || fn.Blocks == nil || !inModule(fn) {
			return
		}
		seen[fn] = true
		out = append(out, fn)
		for _, a := range fn.AnonFuncs {
			visit(a)
		}
		eachInstr(fn, func(s Site) {
			if c, ok := s.Instr.(ssa.CallInstruction); ok {
				for _, t := range p.Callees(c) {
					visit(t)
				}
			}
		})
	}
	for _, r := range roots {
		visit(r)
	}
	sort.Slice(out, func(i, j int) bool { return FuncKey(out[i]) < FuncKey(out[j]) })
	return out
}

// wrapsWithW: the fmt.Errorf call wraps a carrier argument with the %w verb.
func wrapsWithW(c *ssa.Call, has func(ssa.Value) bool) bool {
	f, ok := stringConst(c.Call.Args[0])
	if !ok {
		return true // cannot see the format: do not guess
	}
	// verbs in order
	var verbs []byte
	for i := 0; i < len(f); i++ {
		if f[i] != '%' {
			continue
		}
		j := i + 1
		for j < len(f) && strings.ContainsRune("+-# 0123456789.*[]", rune(f[j])) {
			j++
		}
		if j < len(f) {
			if f[j] != '%' {
				verbs = append(verbs, f[j])
			}
			i = j
		}
	}
	// the variadic values in order
	sl, ok := c.Call.Args[len(c.Call.Args)-1].(*ssa.Slice)
	if !ok {
		return true
	}
	al, ok := sl.X.(*ssa.Alloc)
	if !ok {
		return true
	}
	vals := map[int64]ssa.Value{}
	for _, rf := range *al.Referrers() {
		if ia, ok := rf.(*ssa.IndexAddr); ok {
			idx, _ := constInt(ia.Index)
			for _, rr := range *ia.Referrers() {
				if st, ok := rr.(*ssa.Store); ok {
					vals[idx] = st.Val
				}
			}
		}
	}
	for i, vb := range verbs {
		if v, ok := vals[int64(i)]; ok && has(v) {
			return vb == 'w'
		}
	}
	return false
}

// errorsAsTest recognises `If errors.As(x, &target)` (behind effCond) for a carried x; returns the short name of the
// target's element type and the successors.
func errorsAsTest(b *ssa.BasicBlock, has func(ssa.Value) bool) (typeName string, trueSucc, falseSucc *ssa.BasicBlock, ok bool) {
	cnd, tS, fS, tE, _, is := effCond(b)
	if !is || !tE {
		return
	}
	c, isC := cnd.(*ssa.Call)
	if !isC || CalleeKey(c) != "errors.As" || len(c.Call.Args) != 2 || !has(c.Call.Args[0]) {
		return
	}
	t := stripIface(c.Call.Args[1]).Type()
	for i := 0; i < 2; i++ {
		if pt, isP := t.(*types.Pointer); isP {
			t = pt.Elem()
		}
	}
	return typeShort(t), tS, fS, true
}

// viaNil: a nil test after a sentinel test keeps the more specific knowledge.
func viaNil(st efState) string {
	if st.mode == 1 {
		return st.via
	}
	return ""
}
