package main

// Merge / compaction rules: E-KEYNIL, value opacity, E-REDUCER, context = age index, flood fill used, slot.

import (
	"fmt"
	"go/token"
	"go/types"
	"strings"

	"golang.org/x/tools/go/ssa"
)

// ---------- taint helpers ----------

// taintClosure propagates taint forward through phis, conversions, slicing, cell stores/loads and the named struct fields.
func taintClosure(fn *ssa.Function, seeds []ssa.Value, fields map[string]bool) map[ssa.Value]bool {
	t := map[ssa.Value]bool{}
	var work []ssa.Value
	add := func(v ssa.Value) {
		if v != nil && !t[v] {
			t[v] = true
			work = append(work, v)
		}
	}
	for _, s := range seeds {
		add(s)
	}
	// loads of the tainted fields
	eachInstr(fn, func(s Site) {
		if u, ok := s.Instr.(*ssa.UnOp); ok && u.Op == token.MUL {
			if _, f, _, ok := fieldAddrName(u.X); ok && fields[f] {
				add(u)
			}
		}
	})
	for len(work) > 0 {
		v := work[len(work)-1]
		work = work[:len(work)-1]
		refs := v.Referrers()
		if refs == nil {
			continue
		}
		for _, rf := range *refs {
			switch x := rf.(type) {
			case *ssa.Phi:
				add(x)
			case *ssa.ChangeType:
				add(x)
			case *ssa.Slice:
				if x.X == v {
					add(x)
				}
			case *ssa.Store:
				if x.Val == v && isCell(x.Addr) {
					if cr := x.Addr.Referrers(); cr != nil {
						for _, lr := range *cr {
							if u, ok := lr.(*ssa.UnOp); ok && u.Op == token.MUL {
								add(u)
							}
						}
					}
				}
			}
		}
	}
	return t
}

// keySources: values that carry a key inside fn: first result of iterator / queue Next calls, key parameters of reducers.
func keySources(fn *ssa.Function) (keys, vals []ssa.Value) {
	eachInstr(fn, func(s Site) {
		c, ok := s.Instr.(*ssa.Call)
		if !ok {
			return
		}
		k := CalleeKey(c)
		isNext := Suffix("SSTableIteratorI.Next", "IteratorWithContext.Next", "PriorityQueueI.Next", "PriorityQueue.Next", "IteratorI.Next")(k)
		isReduce := false
		if k == "" {
			// dynamic call of a ReduceFunc-shaped value: func([]byte, [][]byte, []int) ([]byte, []byte)
			if sig := c.Call.Signature(); sig != nil && sig.Params().Len() == 3 && sig.Results().Len() == 2 {
				isReduce = true
			}
		}
		if !isNext && !isReduce {
			return
		}
		for _, rf := range *c.Referrers() {
			if ex, ok := rf.(*ssa.Extract); ok {
				if ex.Index == 0 {
					keys = append(keys, ex)
				} else if ex.Index == 1 {
					vals = append(vals, ex)
				}
			}
		}
	})
	return
}

// R-keynil: keys are never compared with nil on the merge path.
func ruleKeyNil(r *Report) {
	const rule = "keynil"
	r.Rule(rule, 5, "on the merge path a key value (from an iterator, the heap, the reducer, or the remembered previous key) is never tested against nil: every index loader returns the empty key as a nil slice, so a nil test makes the empty key behave differently from all other keys")
	p := r.P
	fns := []string{"sstables.MergeCompactionIterator.Next", "sstables.SSTableMerger.Merge", "sstables.SSTableMerger.MergeCompact", "sstables.SSTableMergeIteratorContext.Next",
		"sstables.ScanReduceLatestWins", "sstables.ScanReduceLatestWinsSkipTombstones", "pq.PriorityQueue.Next", "pq.PriorityQueue.fillNext", "pq.PriorityQueue.init",
		"pq.PriorityQueue.lessThan", "sstables.SSTableStreamWriter.WriteNext"}
	for _, k := range fns {
		fn := p.Func(k)
		if fn == nil || fn.Blocks == nil {
			if strings.HasPrefix(k, "sstables.MergeCompactionIterator") || strings.HasPrefix(k, "sstables.SSTableMerger") {
				r.Missing(rule, rule+"/"+k, "anchor function not found")
			}
			continue
		}
		r.Saw(fn)
		keys, _ := keySources(fn)
		var seeds []ssa.Value
		seeds = append(seeds, keys...)
		for _, pa := range fn.Params {
			if refName(pa) == "key" || refName(pa) == "k" {
				if sl, ok := pa.Type().Underlying().(*types.Slice); ok && types.Identical(sl.Elem(), types.Typ[types.Byte]) {
					seeds = append(seeds, pa)
				}
			}
		}
		fields := map[string]bool{}
		if strings.HasPrefix(k, "sstables.MergeCompactionIterator") {
			fields["prevKey"] = true
		}
		if strings.HasPrefix(k, "pq.") {
			fields["key"] = true
		}
		t := taintClosure(fn, seeds, fields)
		if len(t) == 0 {
			continue
		}
		bad := ""
		eachInstr(fn, func(s Site) {
			bo, ok := s.Instr.(*ssa.BinOp)
			if !ok || (bo.Op != token.EQL && bo.Op != token.NEQ) {
				return
			}
			if (isNilConst(bo.Y) && t[bo.X]) || (isNilConst(bo.X) && t[bo.Y]) {
				bad = p.Pos(bo.Pos())
			}
		})
		key := rule + "/" + k
		if bad != "" {
			r.Bad(rule, key, fn.Pos(), "a key value is compared with nil at "+bad+": the empty key (a nil slice after loading) is treated as 'no key' and values are attributed to the wrong key or dropped")
		} else {
			r.OK(rule, key, fn.Pos(), fmt.Sprintf("%d key-carrying value(s), none compared with nil", len(t)))
		}
	}
}

// R-value-opaque: the merge iterator decides emission only by nil-ness of the reduced value, never by its length.
func ruleValueOpaque(r *Report) {
	const rule = "value-opaque"
	r.Rule(rule, 1, "the merge iterator treats values as opaque except for nil-ness: no branch depends on the length of a value from the heap or the reducer (an empty non-nil value is a kept tombstone and must be emitted)")
	p := r.P
	fn := r.NeedFunc(rule, "sstables.MergeCompactionIterator.Next")
	if fn == nil {
		return
	}
	_, vals := keySources(fn)
	t := taintClosure(fn, vals, nil)
	bad := ""
	eachInstr(fn, func(s Site) {
		c, ok := s.Instr.(*ssa.Call)
		if !ok {
			return
		}
		if b, ok := c.Call.Value.(*ssa.Builtin); ok && b.Name() == "len" && t[c.Call.Args[0]] {
			bad = p.Pos(c.Pos())
		}
	})
	key := rule + "/sstables.MergeCompactionIterator.Next"
	if bad != "" {
		r.Bad(rule, key, fn.Pos(), "emission depends on the length of a reduced value at "+bad+": an empty non-nil value (tombstone kept by an unanchored compaction) is dropped")
	} else {
		r.OK(rule, key, fn.Pos(), fmt.Sprintf("%d value-carrying value(s), none measured", len(t)))
	}
	// both emission sites decide alike: each call of the reducer is followed by a nil test of its value result
	eachInstr(fn, func(s Site) {
		c, ok := s.Instr.(*ssa.Call)
		if !ok || CalleeKey(c) != "" {
			return
		}
		if sig := c.Call.Signature(); sig == nil || sig.Params().Len() != 3 || sig.Results().Len() != 2 {
			return
		}
		k := ef0uniq(rule + "/sstables.MergeCompactionIterator.Next/reduce-result-nil-tested")
		tested := false
		for _, rf := range *c.Referrers() {
			if ex, ok := rf.(*ssa.Extract); ok && ex.Index == 1 {
				tt := taintClosure(fn, []ssa.Value{ex}, nil)
				for _, b := range liveBlocks(fn) {
					if v, _, _, ok := nilTest(b); ok && tt[v] {
						tested = true
					}
				}
			}
		}
		if tested {
			r.OK(rule, k, c.Pos(), "reduced value is nil-tested before emission")
		} else {
			r.Bad(rule, k, c.Pos(), "the reduced value is emitted without the nil test that lets a reducer drop a key (tombstones would be written as records) or the test is missing at one of the two emission sites")
		}
	})
}

// ---------- R-ctx-age ----------

// the context index handed to NewMergeIteratorContext is the loop index over the age-ordered slice
func ruleCtxAge(r *Report, fns []string) {
	const rule = "ctx-age"
	r.Rule(rule, len(fns), "the merge context of each input iterator is its index in the oldest-first slice (the index used to fetch that input in the same loop), so 'largest context wins' means 'newest table wins'")
	p := r.P
	for _, k := range fns {
		fn := r.NeedFunc(rule, k)
		if fn == nil {
			continue
		}
		// (the calls themselves, also when a newly extracted helper of fn makes them)
		calls := realSites(fn, Keys("sstables.NewMergeIteratorContext"))
		key := rule + "/" + k
		if len(calls) == 0 {
			r.Missing(rule, key, "no NewMergeIteratorContext call")
			continue
		}
		for _, c := range calls {
			a0 := c.Call().Common().Args[0]
			// a0 must be used as the index of an IndexAddr on the age-ordered slice inside this function
			ok := false
			what := ""
			g := c.Fn
			eachInstr(g, func(s Site) {
				ia, is := s.Instr.(*ssa.IndexAddr)
				if !is || ia.Index != a0 {
					return
				}
				if _, f, _, isF := loadOfField(ia.X); isF && f == "readers" {
					ok, what = true, "s.readers[i]"
				} else if sortedSlice(g, ia.X) {
					ok, what = true, "sorted paths[i]"
				} else if po := paramOrigin(ia.X); po != nil && g != fn {
					// the helper's parameter: what fn hands it must be the sorted slice
					for pi, q := range g.Params {
						if q != po {
							continue
						}
						eachInstr(fn, func(t Site) {
							if cc, isC := t.Instr.(*ssa.Call); isC && cc.Call.StaticCallee() == g && pi < len(cc.Call.Args) && sortedSlice(fn, cc.Call.Args[pi]) {
								ok, what = true, "sorted paths[i] (handed to "+FuncKey(g)+")"
							}
						})
					}
				}
			})
			if ok {
				r.OK(rule, key, c.Pos(), "context = index of "+what)
			} else {
				r.Bad(rule, key, c.Pos(), "the merge context is not the loop index over the oldest-first slice: 'latest wins' no longer selects the newest table (e.g. a constant, a reversed or shifted index)")
			}
		}
	}
	_ = p
}

// sortedSlice: v is (a load of the cell holding) the slice that was passed to sort.Strings in fn.
func sortedSlice(fn *ssa.Function, v ssa.Value) bool {
	res := false
	for _, s := range CallsIn(fn, Keys("sort.Strings")) {
		a := s.Call().Common().Args[0]
		if a == v {
			res = true
		}
		// both are loads of the same cell
		ua, ok1 := a.(*ssa.UnOp)
		uv, ok2 := v.(*ssa.UnOp)
		if ok1 && ok2 && ua.X == uv.X {
			res = true
		}
	}
	return res
}

// ---------- E-REDUCER ----------

// possibleFuncs resolves a function-typed value to the set of function constants it may be (through phis and conversions).
func possibleFuncs(v ssa.Value) (fns []*ssa.Function, via map[*ssa.Function][]*ssa.BasicBlock, ok bool) {
	via = map[*ssa.Function][]*ssa.BasicBlock{}
	seen := map[ssa.Value]bool{}
	ok = true
	var walk func(v ssa.Value, from *ssa.BasicBlock)
	walk = func(v ssa.Value, from *ssa.BasicBlock) {
		if seen[v] {
			return
		}
		seen[v] = true
		switch x := v.(type) {
		case *ssa.Function:
			fns = append(fns, x)
			via[x] = append(via[x], from)
		case *ssa.ChangeType:
			walk(x.X, from)
		case *ssa.MakeClosure:
			f := x.Fn.(*ssa.Function)
			fns = append(fns, f)
			via[f] = append(via[f], from)
		case *ssa.Phi:
			for i, e := range x.Edges {
				walk(e, x.Block().Preds[i])
			}
		default:
			ok = false
		}
	}
	walk(v, nil)
	return
}

// nonNilAt: is value v provably non-nil when flowing out of block `from` (nil = anywhere)?
func nonNilValue(v ssa.Value, from *ssa.BasicBlock, depth int) bool {
	return nonNilEdge(v, from, nil, depth)
}

func nonNilEdge(v ssa.Value, from, to *ssa.BasicBlock, depth int) bool {
	if depth > 6 {
		return false
	}
	switch x := v.(type) {
	case *ssa.MakeSlice:
		return true
	case *ssa.Slice:
		if _, ok := x.X.(*ssa.Alloc); ok {
			return true // slice of a fresh array (composite literal)
		}
		return false
	case *ssa.Const:
		return x.Value != nil
	case *ssa.Phi:
		for i, e := range x.Edges {
			if !nonNilEdge(e, x.Block().Preds[i], x.Block(), depth+1) {
				return false
			}
		}
		return true
	}
	// the edge from→to is itself the non-nil edge of a nil test of v
	if from != nil && to != nil {
		if x, _, nonNil, ok := nilTest(from); ok && x == v && nonNil == to {
			if nilS := otherSucc(from, to); nilS != to {
				return true
			}
		}
	}
	// established by a dominating nil test: some block B ends in nilTest(v) and `from` is reached only via the non-nil edge
	if from != nil {
		fn := from.Parent()
		for _, b := range liveBlocks(fn) {
			if x, _, nonNil, ok := nilTest(b); ok && x == v {
				if nonNil == from || dominates(nonNil, from) {
					// and the nil edge does not lead to `from` without reassignment: require from not reachable from nil edge
					// except through nonNil (SSA: v itself never changes, so dominance by the non-nil successor suffices
					// when that successor has b as its only predecessor)
					if len(nonNil.Preds) == 1 {
						return true
					}
				}
			}
		}
	}
	return false
}

// reducerDrops: can reduce function f return a nil value (second result)? → "dropping"
func reducerDrops(f *ssa.Function) (bool, string) {
	if f == nil || f.Blocks == nil {
		return true, "no body"
	}
	for _, rs := range returnsOf(f) {
		ret := rs.Instr.(*ssa.Return)
		if len(ret.Results) != 2 {
			return true, "unexpected result arity"
		}
		if !nonNilValue(ret.Results[1], rs.Block, 0) {
			return true, "value result may be nil at " + f.Prog.Fset.Position(ret.Pos()).String()
		}
	}
	return false, "every return yields a non-nil value"
}

func ruleReducer(r *Report) {
	const rule = "reducer"
	r.Rule(rule, 2, "a compaction may use a tombstone-dropping reducer only on paths where the selection is anchored at the oldest live table (includesOldest, computed under the manager lock from element 0 of the flood-filled selection); otherwise the reducer must preserve tombstones (never return a nil value)")
	p := r.P
	fn := r.NeedFunc(rule, "simpledb.executeCompaction")
	if fn == nil {
		return
	}
	calls := CallsIn(fn, Suffix("SSTableMerger.MergeCompact"))
	if len(calls) == 0 {
		r.Missing(rule, rule+"/simpledb.executeCompaction/MergeCompact", "executeCompaction does not call MergeCompact")
		return
	}
	anchT, _ := condEdges(fn, func(c ssa.Value) bool {
		if f, ok := c.(*ssa.Field); ok {
			st, _ := f.X.Type().Underlying().(*types.Struct)
			return st != nil && refField(f.X.Type(), f.Field) == "includesOldest"
		}
		_, f, _, ok := loadOfField(c)
		return ok && f == "includesOldest"
	})
	removed := map[Edge]bool{}
	for _, e := range anchT {
		removed[e] = true
	}
	for _, c := range calls {
		args := argsOf(c.Call())
		red := args[len(args)-1]
		fs, via, ok := possibleFuncs(red)
		key := rule + "/simpledb.executeCompaction/reducer-operand"
		if !ok || len(fs) == 0 {
			r.Unk(rule, key, c.Pos(), "the reducer operand is not a set of function constants")
			continue
		}
		bad := ""
		desc := []string{}
		for _, f := range fs {
			drops, why := reducerDrops(f)
			desc = append(desc, fmt.Sprintf("%s:%v", FuncKey(f), map[bool]string{true: "dropping", false: "preserving"}[drops]))
			if !drops {
				continue
			}
			for _, from := range via[f] {
				if from == nil {
					bad = FuncKey(f) + " (" + why + ") is used unconditionally"
					continue
				}
				if len(anchT) == 0 || reachFrom(fn.Blocks[0], removed)[from] {
					bad = FuncKey(f) + " (" + why + ") reaches the merge on a path that is not control-dependent on includesOldest"
				}
			}
		}
		if bad != "" {
			r.Bad(rule, key, c.Pos(), "tombstone-dropping reducer "+bad+": when the oldest table is not among the inputs a deleted key becomes readable again")
		} else {
			r.OK(rule, key, c.Pos(), strings.Join(desc, ", "))
		}
	}
	// includesOldest is computed from element 0 of the flood-filled selection
	if cf := r.NeedFunc(rule, "simpledb.SSTableManager.candidateTablesForCompaction"); cf != nil {
		key := rule + "/simpledb.SSTableManager.candidateTablesForCompaction/includesOldest"
		var ff ssa.Value
		for _, s := range CallsIn(cf, Keys("simpledb.floodFill")) {
			ff = s.Instr.(ssa.Value)
		}
		found, okv := false, true
		eachInstr(cf, func(s Site) {
			st, ok := s.Instr.(*ssa.Store)
			if !ok {
				return
			}
			if _, f, _, ok := fieldAddrName(st.Addr); !ok || f != "includesOldest" {
				return
			}
			found = true
			var chk func(v ssa.Value, d int) bool
			chk = func(v ssa.Value, d int) bool {
				if d > 4 {
					return false
				}
				if b, ok := constBool(v); ok {
					return !b
				}
				if ph, ok := v.(*ssa.Phi); ok {
					for _, e := range ph.Edges {
						if !chk(e, d+1) {
							return false
						}
					}
					return true
				}
				if u, ok := v.(*ssa.UnOp); ok && u.Op == token.MUL {
					if ia, ok := u.X.(*ssa.IndexAddr); ok {
						if i, ok := constInt(ia.Index); ok && i == 0 && ia.X == ff && ff != nil {
							return true
						}
					}
				}
				return false
			}
			if !chk(st.Val, 0) {
				okv = false
			}
		})
		switch {
		case !found:
			r.Bad(rule, key, cf.Pos(), "the selection does not record whether it is anchored at the oldest table")
		case !okv:
			r.Bad(rule, key, cf.Pos(), "includesOldest is not element 0 of the flood-filled selection")
		default:
			r.OK(rule, key, cf.Pos(), "includesOldest = floodFill(selection)[0] (false when empty)")
		}
		// R-floodfill-used
		const rf = "floodfill-used"
		r.Rule(rf, 1, "the selection that decides which table paths are collected is the result of floodFill (gap-free in age order), not the raw per-table selection")
		key = rf + "/simpledb.SSTableManager.candidateTablesForCompaction"
		okUse, n := true, 0
		for _, bp := range CallsIn(cf, Suffix("SSTableReaderI.BasePath")) {
			n++
			// the BasePath call must be control-dependent on a load of ff[i]
			guarded := false
			for _, b := range liveBlocks(cf) {
				if len(b.Instrs) == 0 {
					continue
				}
				iff, ok := b.Instrs[len(b.Instrs)-1].(*ssa.If)
				if !ok {
					continue
				}
				if u, ok := iff.Cond.(*ssa.UnOp); ok && u.Op == token.MUL {
					if ia, ok := u.X.(*ssa.IndexAddr); ok && ia.X == ff && ff != nil {
						if b.Succs[0] == bp.Block || dominates(b.Succs[0], bp.Block) {
							guarded = true
						}
					}
				}
			}
			if !guarded {
				okUse = false
			}
		}
		if ff == nil || n == 0 || !okUse {
			r.Bad(rf, key, cf.Pos(), "table paths are collected under a selection that is not the result of floodFill: a gap in the age order lets a newer value be overridden by an older table")
		} else {
			r.OK(rf, key, cf.Pos(), "paths collected where floodFill(selection)[i] is true")
		}
	}
	// R-slot: the merged table replaces the oldest input
	const rs = "slot"
	r.Rule(rs, 1, "the compaction result takes the slot (directory name) of the first element of the sorted input paths")
	key := rs + "/simpledb.executeCompaction/ReplacementPath"
	found, okv := false, false
	eachInstr(fn, func(s Site) {
		st, ok := s.Instr.(*ssa.Store)
		if !ok {
			return
		}
		if _, f, _, ok := fieldAddrName(st.Addr); !ok || f != "ReplacementPath" {
			return
		}
		found = true
		if u, ok := st.Val.(*ssa.UnOp); ok && u.Op == token.MUL {
			if ia, ok := u.X.(*ssa.IndexAddr); ok {
				if i, ok := constInt(ia.Index); ok && i == 0 && sortedSlice(fn, ia.X) {
					// and the sort precedes
					for _, so := range CallsIn(fn, Keys("sort.Strings")) {
						if precedes(so, s) {
							okv = true
						}
					}
				}
			}
		}
	})
	if found && okv {
		r.OK(rs, key, fn.Pos(), "ReplacementPath = sorted paths[0]")
	} else {
		r.Bad(rs, key, fn.Pos(), "the merged table does not take the slot of the oldest input (paths[0] after sorting): after the swap it may shadow newer tables or be shadowed by older ones")
	}
	_ = p
}

// R-precedence-shape: merged readers are always built from the oldest-first list
func rulePrecedenceShape(r *Report) {
	const rule = "precedence-shape"
	r.Rule(rule, 2, "every SuperSSTableReader in simpledb is constructed from the manager's oldest-first reader list (or that list with the newest reader appended at the end)")
	p := r.P
	n := 0
	for _, fn := range p.FuncsOfPkg("simpledb") {
		for _, c := range CallsIn(fn, Keys("sstables.NewSuperSSTableReader")) {
			n++
			r.Saw(fn)
			a0 := c.Call().Common().Args[0]
			key := ef0uniq(rule + "/" + FuncKey(fn))
			isList := func(v ssa.Value) bool {
				_, f, _, ok := loadOfField(v)
				return ok && f == "allSSTableReaders"
			}
			ok := isList(a0)
			if ap, isC := a0.(*ssa.Call); isC && !ok {
				if b, isB := ap.Call.Value.(*ssa.Builtin); isB && b.Name() == "append" && isList(ap.Call.Args[0]) {
					ok = true
				}
			}
			if ok {
				r.OK(rule, key, c.Pos(), "built from allSSTableReaders (oldest first)")
			} else {
				r.Bad(rule, key, c.Pos(), "the merged reader is not built from the oldest-first list (or prepends the new table): read precedence no longer follows table age")
			}
		}
	}
	if n == 0 {
		r.Missing(rule, rule+"/sites", "no NewSuperSSTableReader call in simpledb")
	}
}

func otherSucc(b, s *ssa.BasicBlock) *ssa.BasicBlock {
	for _, x := range b.Succs {
		if x != s {
			return x
		}
	}
	return s
}

// R-value-passthrough: below the merge, a value is forwarded as it was read. A nil (or empty) value is a tombstone,
// and only the layer that sees all tables — the merge iterator's reducer, or the caller of the stacked Get — may act on
// it. A per-table iterator that skips nil values, or a stacked Get that moves on to an older table when the newest
// answer is nil, lets the older table's stale value through.
func ruleValuePassthrough(r *Report) {
	const rule = "value-passthrough"
	fns := []string{"sstables.SuperSSTableReader.Get", "sstables.SSTableIterator.Next", "sstables.SSTableFullScanIterator.Next", "sstables.SSTableMergeIteratorContext.Next"}
	r.Rule(rule, len(fns), "the stacked point lookup and every per-table iterator return the value they obtained from the layer below without branching on it (no nil or length test of the value): tombstones travel up to the layer that sees all tables")
	for _, k := range fns {
		fn := r.NeedFunc(rule, k)
		if fn == nil {
			continue
		}
		// value sources: []byte results of calls (reader Get / ReadNextAt / ReadNext / iterator Next), except index 0 of a
		// three-result Next (that is the key)
		var vals []ssa.Value
		eachInstr(fn, func(s Site) {
			c, ok := s.Instr.(*ssa.Call)
			if !ok {
				return
			}
			tup, isT := c.Type().(*types.Tuple)
			if !isT {
				return
			}
			for _, rf := range *c.Referrers() {
				ex, ok := rf.(*ssa.Extract)
				if !ok {
					continue
				}
				if sl, isS := ex.Type().Underlying().(*types.Slice); !isS || !types.Identical(sl.Elem(), types.Typ[types.Byte]) {
					continue
				}
				if tup.Len() == 3 && ex.Index == 0 {
					continue // key
				}
				vals = append(vals, ex)
			}
		})
		key := rule + "/" + k
		bad := ""
		// the lookup handed to a visiting helper as a function literal: the value is obtained (and must not be looked at)
		// in the literal, and reaches this function through the variable the literal assigns
		for _, g := range fn.AnonFuncs {
			var gvals []ssa.Value
			eachInstr(g, func(s Site) {
				c, ok := s.Instr.(*ssa.Call)
				if !ok {
					return
				}
				tup, isT := c.Type().(*types.Tuple)
				if !isT {
					return
				}
				for _, rf := range *c.Referrers() {
					if ex, ok := rf.(*ssa.Extract); ok && !(tup.Len() == 3 && ex.Index == 0) {
						if sl, isS := ex.Type().Underlying().(*types.Slice); isS && types.Identical(sl.Elem(), types.Typ[types.Byte]) {
							gvals = append(gvals, ex)
						}
					}
				}
			})
			if len(gvals) == 0 {
				continue
			}
			tg := taintClosure(g, gvals, nil)
			for _, b := range liveBlocks(g) {
				if v, _, _, _, _, ok := nilTest2(b); ok && tg[v] {
					bad = r.P.Pos(b.Instrs[len(b.Instrs)-1].(*ssa.If).Cond.Pos())
				}
			}
			eachInstr(g, func(s Site) {
				if c, ok := s.Instr.(*ssa.Call); ok {
					if bi, ok := c.Call.Value.(*ssa.Builtin); ok && bi.Name() == "len" && tg[c.Call.Args[0]] {
						bad = r.P.Pos(c.Pos())
					}
				}
				st, isS := s.Instr.(*ssa.Store)
				if !isS || !tg[st.Val] {
					return
				}
				fv, isFV := st.Addr.(*ssa.FreeVar)
				if !isFV {
					return
				}
				eachInstr(fn, func(t Site) {
					mc, isMC := t.Instr.(*ssa.MakeClosure)
					if !isMC || mc.Fn != ssa.Value(g) {
						return
					}
					for i, b := range mc.Bindings {
						if i < len(g.FreeVars) && g.FreeVars[i] == fv {
							if rr := b.Referrers(); rr != nil {
								for _, u := range *rr {
									if ld, isL := u.(*ssa.UnOp); isL && ld.Op == token.MUL && ld.Block() != nil && ld.Parent() == fn {
										vals = append(vals, ld)
									}
								}
							}
						}
					}
				})
			})
		}
		if len(vals) == 0 {
			r.Missing(rule, key, "no value-producing call found")
			continue
		}
		t := taintClosure(fn, vals, nil)
		for _, b := range liveBlocks(fn) {
			if v, _, _, _, _, ok := nilTest2(b); ok && t[v] {
				bad = r.P.Pos(b.Instrs[len(b.Instrs)-1].(*ssa.If).Cond.Pos())
			}
		}
		eachInstr(fn, func(s Site) {
			if c, ok := s.Instr.(*ssa.Call); ok {
				if bi, ok := c.Call.Value.(*ssa.Builtin); ok && bi.Name() == "len" && t[c.Call.Args[0]] {
					bad = r.P.Pos(c.Pos())
				}
			}
		})
		// … and what is returned is that value or a copy that keeps nil nil and empty empty (bytes.Clone): an append-copy
		// turns one into the other — append([]byte{}, v...) makes a tombstone an empty value, append([]byte(nil), v...)
		// makes an empty value a tombstone
		isSrc := map[ssa.Value]bool{}
		for _, v := range vals {
			isSrc[v] = true
		}
		var keeps func(v ssa.Value, d int) bool
		keeps = func(v ssa.Value, d int) bool {
			if d > 8 {
				return false
			}
			if isSrc[v] {
				return true
			}
			switch x := v.(type) {
			case *ssa.Phi:
				for _, e := range x.Edges {
					if !keeps(e, d+1) {
						return false
					}
				}
				return true
			case *ssa.Call:
				if sc := x.Call.StaticCallee(); sc != nil {
					switch FuncKey(genericBody(sc)) {
					case "bytes.Clone", "slices.Clone":
						return keeps(x.Call.Args[0], d+1)
					}
				}
				if bi, isB := x.Call.Value.(*ssa.Builtin); isB && bi.Name() == "append" {
					for _, a := range x.Call.Args {
						if t[a] || isSrc[a] {
							return false
						}
					}
				}
				return true // some other derivation (a decoded field): not a copy of the value
			case *ssa.UnOp:
				if x.Op == token.MUL && isCell(x.X) {
					sv, unknown := reachingStores(x)
					if unknown {
						return true
					}
					for _, e := range sv {
						if e != zeroMarker && !keeps(e, d+1) {
							return false
						}
					}
				}
				return true
			case *ssa.Slice:
				return keeps(x.X, d+1)
			}
			return true
		}
		for _, rs := range returnsOf(fn) {
			for _, res := range rs.Instr.(*ssa.Return).Results {
				if sl, isS := res.Type().Underlying().(*types.Slice); isS && types.Identical(sl.Elem(), types.Typ[types.Byte]) && !keeps(res, 0) {
					bad = r.P.Pos(rs.Pos()) + " (returned through an append-copy, which does not keep nil and empty apart)"
				}
			}
		}
		if bad != "" {
			r.Bad(rule, key, fn.Pos(), "the value obtained from the layer below is tested or re-made at "+bad+" before it is returned: a tombstone (nil value) of a newer table is skipped or becomes an empty value here, so an older table's value comes back or a deleted key shows up in a scan")
		} else {
			r.OK(rule, key, fn.Pos(), fmt.Sprintf("%d value source(s), forwarded untested", len(vals)))
		}
	}
}
