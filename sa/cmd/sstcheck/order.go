package main

// E-ORDER: must-pass-through / must-precede rules on the SSA control-flow graph.
// All templates reduce to one primitive: "site B is unreachable from the function entry once a set of
// CFG edges is deleted". The edges are the nil-error ("success") successors of the branches that test
// the error of a call A, and/or explicit guard edges.

import (
	"fmt"
	"go/token"
	"strings"

	"golang.org/x/tools/go/ssa"
)

// errAliases: values that may hold the error produced at call site s (through cells, phis, conversions).
func errAliases(s Site) map[ssa.Value]bool { return errAliasesMode(s, false) }

// errAliasesMode: with strict set, a phi is an alias only when a test of it speaks about the call on every way in
// (phiCarriesOnly); that is what a must-pass rule needs ("the success edge of A"). Without it every merge that takes the
// error is an alias, which is the right reading for "where may this error be looked at" (failure edges, classification).
func errAliasesMode(s Site, strict bool) map[ssa.Value]bool {
	c := s.Call()
	if c == nil {
		return nil
	}
	vals, _, _ := errResults(c)
	al := map[ssa.Value]bool{}
	var work []ssa.Value
	add := func(v ssa.Value) {
		if v != nil && !al[v] {
			al[v] = true
			work = append(work, v)
		}
	}
	for _, v := range vals {
		add(v)
	}
	var deferred []*ssa.Phi
	for len(work) > 0 || len(deferred) > 0 {
		if len(work) == 0 {
			// phis that did not qualify when they were met: their other edges may have become aliases since
			var rest []*ssa.Phi
			for _, ph := range deferred {
				if !al[ph] && phiCarriesOnly(ph, al, s) {
					add(ph)
				} else if !al[ph] {
					rest = append(rest, ph)
				}
			}
			deferred = rest
			if len(work) == 0 {
				break
			}
		}
		v := work[len(work)-1]
		work = work[:len(work)-1]
		refs := v.Referrers()
		if refs == nil {
			continue
		}
		for _, r := range *refs {
			switch x := r.(type) {
			case *ssa.Store:
				if x.Val == v && isCell(x.Addr) {
					// loads of the cell that may observe this store
					if cr := x.Addr.Referrers(); cr != nil {
						for _, lr := range *cr {
							if u, ok := lr.(*ssa.UnOp); ok && u.Op == token.MUL {
								rs, _ := reachingStores(u)
								for _, sv := range rs {
									if sv == v {
										add(u)
									}
								}
							}
						}
					}
				}
			case *ssa.Phi:
				if !strict || phiCarriesOnly(x, al, s) {
					add(x)
				} else {
					deferred = append(deferred, x)
				}
			case *ssa.ChangeInterface:
				add(x)
			case *ssa.MakeInterface:
				add(x)
			}
		}
	}
	return al
}

// phiCarriesOnly: a test of ph says something about the call at s on every way into the phi — each edge brings an alias of
// the call's error, or comes from a place that is only reached when a direct test has found that error nil (the call has
// run and succeeded; what the edge brings is a later step's error). A phi that also takes values from paths on which the
// call has not run (`if opt { err = a() }; err2 := b(); … phi(err, err2)`) is no alias: its nil edge is no proof that the
// call succeeded.
func phiCarriesOnly(ph *ssa.Phi, al map[ssa.Value]bool, s Site) bool {
	blk := ph.Block()
	if blk == nil {
		return true
	}
	var succTargets []*ssa.BasicBlock
	for _, b := range liveBlocks(s.Fn) {
		if v, nilS, _, ok := nilTest(b); ok && al[v] {
			if _, isPhi := v.(*ssa.Phi); !isPhi && len(nilS.Preds) == 1 {
				succTargets = append(succTargets, nilS)
			}
		}
	}
	for i, e := range ph.Edges {
		if al[e] || e == ssa.Value(ph) {
			continue
		}
		if i >= len(blk.Preds) {
			return false
		}
		ok := false
		for _, t := range succTargets {
			if dominates(t, blk.Preds[i]) {
				ok = true
			}
		}
		if !ok {
			return false
		}
	}
	return true
}

// errorEdges returns the CFG edges taken when the error of call site s is nil (success) / non-nil (failure).
func errorEdges(s Site) (succ, fail []Edge) {
	al := errAliasesMode(s, false)
	if len(al) == 0 {
		return
	}
	strict := errAliasesMode(s, true)
	for _, b := range liveBlocks(s.Fn) {
		if v, nilS, nonNilS, ok := nilTest(b); ok && al[v] {
			if strict[v] {
				succ = append(succ, Edge{b, nilS})
			}
			fail = append(fail, Edge{b, nonNilS})
		}
	}
	return
}

type order struct {
	r *Report
	p *Prog
}

func siteDesc(p *Prog, s Site) string {
	if c := s.Call(); c != nil {
		return CalleeKey(c) + "@" + p.Pos(s.Pos())
	}
	return fmt.Sprintf("%T@%s", s.Instr, p.Pos(s.Pos()))
}

// OnlyAfterSuccess: every B site in fn is reachable only through a success edge of some A site
// (plus optional extra guard edges that legitimately lead to B).
// Verdicts: no B → unresolved; no A → violated; A without recognisable test → undecided.
func (o *order) OnlyAfterSuccess(rule, key string, fn *ssa.Function, aName string, A []Site, bName string, B []Site, guards []Edge) {
	if fn == nil {
		return
	}
	if len(B) == 0 {
		o.r.Missing(rule, key, fmt.Sprintf("no %s found in %s", bName, FuncKey(fn)))
		return
	}
	// the call of a newly extracted helper stands for a call it contains only if the helper cannot succeed without it
	{
		var A2 []Site
		for _, a := range A {
			if !a.Lifted || a.Must {
				A2 = append(A2, a)
			}
		}
		A = A2
	}
	removed := map[Edge]bool{}
	tested := 0
	for _, a := range A {
		succ, _ := errorEdges(a)
		if len(succ) > 0 {
			tested++
		}
		for _, e := range succ {
			removed[e] = true
		}
	}
	for _, g := range guards {
		removed[g] = true
	}
	for i, b := range B {
		k := key
		if len(B) > 1 {
			k = fmt.Sprintf("%s#%d", key, i+1)
		}
		if len(A) == 0 && len(guards) == 0 {
			o.r.Bad(rule, k, b.Pos(), fmt.Sprintf("%s is reached in %s although no call of %s precedes it in the function body", bName, FuncKey(fn), aName))
			continue
		}
		if !siteReachable(b, removed) {
			o.r.OK(rule, k, b.Pos(), fmt.Sprintf("%s unreachable once the %d success edge(s) of %s are removed", bName, len(removed), aName))
			continue
		}
		if tested < len(A) && len(A) > 0 {
			// some A's error is not branch-tested in a recognisable way: is B at least after A?
			after := false
			for _, a := range A {
				if precedes(a, b) {
					after = true
				}
			}
			if after {
				o.r.Unk(rule, k, b.Pos(), fmt.Sprintf("%s follows %s but the error of %s is not tested by a recognised nil-branch before it", bName, aName, aName))
				continue
			}
		}
		o.r.Bad(rule, k, b.Pos(), fmt.Sprintf("%s is reachable on a path that does not pass a success edge of %s (function %s)", bName, aName, FuncKey(fn)))
	}
}

// FailStop: from the failure successor of every tested A, no B site is reachable.
func (o *order) FailStop(rule, key string, fn *ssa.Function, aName string, A []Site, bName string, B []Site) {
	if fn == nil {
		return
	}
	if len(A) == 0 {
		o.r.Missing(rule, key, fmt.Sprintf("no %s found in %s", aName, FuncKey(fn)))
		return
	}
	for i, a := range A {
		k := key
		if len(A) > 1 {
			k = fmt.Sprintf("%s#%d", key, i+1)
		}
		_, fail := errorEdges(a)
		if len(fail) == 0 {
			o.r.Unk(rule, k, a.Pos(), fmt.Sprintf("error of %s is not tested by a recognised nil-branch", aName))
			continue
		}
		bad := ""
		for _, e := range fail {
			reach := reachFrom(e.To, nil)
			for _, b := range B {
				if reach[b.Block] {
					bad = siteDesc(o.p, b)
				}
			}
		}
		if bad != "" {
			o.r.Bad(rule, k, a.Pos(), fmt.Sprintf("%s is reachable from the failure edge of %s", bad, aName))
		} else {
			o.r.OK(rule, k, a.Pos(), fmt.Sprintf("no %s reachable from the failure edge of %s", bName, aName))
		}
	}
}

// Before: some A site precedes (dominates, at instruction level) every B site.
func (o *order) Before(rule, key string, fn *ssa.Function, aName string, A []Site, bName string, B []Site) {
	if fn == nil {
		return
	}
	if len(B) == 0 {
		o.r.Missing(rule, key, fmt.Sprintf("no %s found in %s", bName, FuncKey(fn)))
		return
	}
	{
		var A2 []Site
		for _, a := range A {
			if !a.Lifted || a.Must {
				A2 = append(A2, a)
			}
		}
		A = A2
	}
	for i, b := range B {
		k := key
		if len(B) > 1 {
			k = fmt.Sprintf("%s#%d", key, i+1)
		}
		ok := false
		for _, a := range A {
			if precedes(a, b) {
				ok = true
			}
		}
		if ok {
			o.r.OK(rule, k, b.Pos(), fmt.Sprintf("%s dominates %s", aName, bName))
		} else {
			o.r.Bad(rule, k, b.Pos(), fmt.Sprintf("%s is not preceded by %s on every path in %s", bName, aName, FuncKey(fn)))
		}
	}
}

// condEdges: edges out of blocks whose If condition satisfies pred; returns (trueEdges, falseEdges).
func condEdges(fn *ssa.Function, pred func(cond ssa.Value) bool) (t, f []Edge) {
	for _, b := range liveBlocks(fn) {
		if len(b.Instrs) == 0 {
			continue
		}
		iff, ok := b.Instrs[len(b.Instrs)-1].(*ssa.If)
		if !ok || !pred(iff.Cond) {
			continue
		}
		t = append(t, Edge{b, b.Succs[0]})
		f = append(f, Edge{b, b.Succs[1]})
	}
	return
}

// lenIsZero recognises `len(x) == 0` / `len(x) != 0` / `len(x) > 0`… on value x satisfying isX; returns which
// successor index (0=true,1=false) is taken when len(x)==0.
func lenZeroTest(cond ssa.Value, isX func(v ssa.Value) bool) (zeroSucc int, ok bool) {
	bo, is := cond.(*ssa.BinOp)
	if !is {
		return 0, false
	}
	lenOf := func(v ssa.Value) bool {
		c, ok := v.(*ssa.Call)
		if !ok {
			return false
		}
		b, ok := c.Call.Value.(*ssa.Builtin)
		return ok && b.Name() == "len" && len(c.Call.Args) == 1 && isX(c.Call.Args[0])
	}
	var k int64
	var kok bool
	op := bo.Op
	if lenOf(bo.X) {
		k, kok = constInt(bo.Y)
	} else if lenOf(bo.Y) {
		k, kok = constInt(bo.X)
		// mirror the operator
		switch op {
		case token.LSS:
			op = token.GTR
		case token.GTR:
			op = token.LSS
		case token.LEQ:
			op = token.GEQ
		case token.GEQ:
			op = token.LEQ
		}
	} else {
		return 0, false
	}
	if !kok {
		return 0, false
	}
	// evaluate "0 op k" → which successor a zero length takes
	var res bool
	switch op {
	case token.EQL:
		res = 0 == k
		if k != 0 {
			return 0, false
		}
	case token.NEQ:
		res = 0 != k
		if k != 0 {
			return 0, false
		}
	case token.GTR: // len > k
		if k != 0 {
			return 0, false
		}
		res = false
	case token.LEQ: // len <= 0
		if k != 0 {
			return 0, false
		}
		res = true
	case token.LSS: // len < 1
		if k != 1 {
			return 0, false
		}
		res = true
	case token.GEQ: // len >= 1
		if k != 1 {
			return 0, false
		}
		res = false
	default:
		return 0, false
	}
	if res {
		return 0, true
	}
	return 1, true
}

func describeSites(p *Prog, ss []Site) string {
	var out []string
	for _, s := range ss {
		out = append(out, siteDesc(p, s))
	}
	return strings.Join(out, ", ")
}

// ---- C11 rule instances ----

func c11FlagRules(r *Report) {
	o := &order{r, r.P}
	const rule = "flag-unreachable-on-failure"
	r.Rule(rule, 3, "the success flag / installation of a compaction result is unreachable from the failure edge of the merge, and the goroutine bodies escalate a returned error")
	if fn := r.NeedFunc(rule, "simpledb.executeCompaction"); fn != nil {
		A := CallsIn(fn, Suffix("SSTableMerger.MergeCompact", "SSTableMerger.Merge"))
		B := CallsIn(fn, Keys("simpledb.saveCompactionMetadata"))
		o.OnlyAfterSuccess(rule, rule+"/simpledb.executeCompaction/saveCompactionMetadata", fn, "the merge", A, "the success-flag write", B, nil)
		o.FailStop(rule, rule+"/simpledb.executeCompaction/merge-failure", fn, "the merge", A, "success-flag write", B)
	}
	// the caller installs the result only after executeCompaction succeeded
	for _, fn := range r.P.FuncsOfPkg("simpledb") {
		B := CallsIn(fn, Keys("simpledb.SSTableManager.reflectCompactionResult"))
		if len(B) == 0 {
			continue
		}
		r.Saw(fn)
		A := CallsIn(fn, Keys("simpledb.executeCompaction"))
		o.OnlyAfterSuccess(rule, rule+"/"+FuncKey(fn)+"/reflectCompactionResult", fn, "executeCompaction", A, "installing the compaction result", B, nil)
	}
}
