package main

// Shared SSA / CFG helpers used by all engines.

import (
	_ "embed"
	"encoding/json"
	"go/constant"
	"go/token"
	"go/types"
	"sort"
	"strings"

	"golang.org/x/tools/go/ssa"
)

// ---------- call sites ----------

type Site struct {
	Fn    *ssa.Function
	Block *ssa.BasicBlock
	Idx   int
	Instr ssa.Instruction
	// Lifted: not a matching call itself but the call of a newly extracted helper that contains one (see CallsIn)
	Lifted bool
	// Must (lifted sites): the helper cannot return successfully without a successful matching call — only then does the
	// helper's call stand for the matching call where a rule demands that the call HAS happened
	Must bool
}

func (s Site) Call() ssa.CallInstruction { c, _ := s.Instr.(ssa.CallInstruction); return c }
func (s Site) Pos() token.Pos            { return s.Instr.Pos() }

func liveBlocks(fn *ssa.Function) []*ssa.BasicBlock {
	// blocks reachable from entry (excludes the synthetic recover block, which has no predecessors)
	if len(fn.Blocks) == 0 {
		return nil
	}
	seen := map[*ssa.BasicBlock]bool{}
	var out []*ssa.BasicBlock
	var walk func(b *ssa.BasicBlock)
	walk = func(b *ssa.BasicBlock) {
		if seen[b] {
			return
		}
		seen[b] = true
		out = append(out, b)
		for _, s := range b.Succs {
			walk(s)
		}
	}
	walk(fn.Blocks[0])
	sort.Slice(out, func(i, j int) bool { return out[i].Index < out[j].Index })
	return out
}

func eachInstr(fn *ssa.Function, f func(s Site)) {
	for _, b := range liveBlocks(fn) {
		for i, ins := range b.Instrs {
			f(Site{Fn: fn, Block: b, Idx: i, Instr: ins})
		}
	}
}

type Matcher func(key string) bool

func Keys(keys ...string) Matcher {
	m := map[string]bool{}
	for _, k := range keys {
		m[k] = true
	}
	return func(k string) bool { return m[k] }
}

func Suffix(sfx ...string) Matcher {
	return func(k string) bool {
		for _, s := range sfx {
			if k == s || strings.HasSuffix(k, "."+s) {
				return true
			}
		}
		return false
	}
}

// CallsIn lists plain calls (not defer/go) in fn whose callee key matches. A call of a helper that the reference tree
// does not know (freshFuncs: a function that was extracted since) counts as well when the matching call sits in that
// helper: "extract function" moves a call out of the function a rule looks at, the call of the new helper stands where
// the moved statements stood.
func CallsIn(fn *ssa.Function, m Matcher) []Site {
	var out []Site
	eachInstr(fn, func(s Site) {
		c, ok := s.Instr.(*ssa.Call)
		if !ok {
			return
		}
		if m(CalleeKey(c)) {
			out = append(out, s)
			return
		}
		if sc := c.Call.StaticCallee(); sc != nil && isFresh(sc) && freshContains(sc, m, 0, map[*ssa.Function]bool{}) {
			s.Lifted = true
			s.Must = freshMustPass(sc, m, 0)
			out = append(out, s)
		}
	})
	return out
}

// directOnly drops the lifted sites: for rules about what stands around the real call, which hold (or not) in the helper.
func directOnly(sites []Site) []Site {
	var out []Site
	for _, s := range sites {
		if !s.Lifted {
			out = append(out, s)
		}
	}
	return out
}

// realSites: the matching calls themselves — in fn, and inside the newly extracted helpers fn calls (as sites of those
// helpers): for rules about what happens to the call's result, which is decided where the call stands.
func realSites(fn *ssa.Function, m Matcher) []Site {
	var out []Site
	seen := map[*ssa.Function]bool{}
	var walk func(g *ssa.Function, depth int)
	walk = func(g *ssa.Function, depth int) {
		if g == nil || seen[g] || depth > 3 {
			return
		}
		seen[g] = true
		for _, s := range CallsIn(g, m) {
			if !s.Lifted {
				out = append(out, s)
				continue
			}
			if sc := s.Instr.(*ssa.Call).Call.StaticCallee(); sc != nil {
				walk(sc, depth+1)
			}
		}
	}
	walk(fn, 0)
	return out
}

// freshFuncs: declared module functions that are not in the reference table and were not recognised as a renamed
// reference function (set by resolveRenamed; empty on the reference tree).
var freshFuncs = map[*ssa.Function]bool{}

func isFresh(fn *ssa.Function) bool {
	if fn == nil {
		return false
	}
	if o := fn.Origin(); o != nil {
		fn = o
	}
	return freshFuncs[fn]
}

// freshMustPass: every successful way out of g (a return with a nil error; any return when g has no error result) lies
// behind the success edge of a matching call (or of a helper call for which the same holds).
func freshMustPass(g *ssa.Function, m Matcher, depth int) bool {
	if g == nil || g.Blocks == nil || depth > 3 {
		return false
	}
	removed := map[Edge]bool{}
	any := false
	for _, a := range CallsIn(g, m) {
		if a.Lifted && !a.Must {
			continue
		}
		succ, fail := errorEdges(a)
		if len(succ) == 0 && len(fail) == 0 {
			// no error to test: having passed the call is enough
			for _, su := range a.Block.Succs {
				removed[Edge{a.Block, su}] = true
			}
			// the rest of the block behind the call counts as passed: returns in the same block are fine
			any = true
			continue
		}
		for _, e := range succ {
			removed[e] = true
		}
		any = true
	}
	if !any {
		return false
	}
	// the ways out that can be successful: every return that does not stand behind the failure edge of a call
	var failTo []*ssa.BasicBlock
	eachInstr(g, func(s Site) {
		if _, ok := s.Instr.(*ssa.Call); ok {
			if _, fail := errorEdges(s); len(fail) > 0 {
				for _, e := range fail {
					failTo = append(failTo, e.To)
				}
			}
		}
	})
	var exits []Site
	for _, rs := range returnsOf(g) {
		behindFailure := false
		for _, ft := range failTo {
			if ft == rs.Block || dominates(ft, rs.Block) {
				behindFailure = true
			}
		}
		if !behindFailure {
			exits = append(exits, rs)
		}
	}
	idxG := errorResultIndex(g)
	for _, rs := range exits {
		if siteReachable(rs, removed) {
			// a return in the block of an untested matching call, behind it
			passed := false
			// … or a return that hands on the matching call's own error: it is nil exactly when the call succeeded
			if ret := rs.Instr.(*ssa.Return); idxG >= 0 && idxG < len(ret.Results) {
				for _, a := range CallsIn(g, m) {
					if a.Lifted && !a.Must {
						continue
					}
					if al := errAliases(a); al[ret.Results[idxG]] || al[stripIface(ret.Results[idxG])] {
						passed = true
					}
				}
			}
			for _, a := range CallsIn(g, m) {
				if a.Block == rs.Block && a.Idx < rs.Idx {
					passed = true
				}
			}
			if !passed {
				return false
			}
		}
	}
	return true
}

// freshContains: g, or a fresh helper it calls, contains a plain call that matches.
func freshContains(g *ssa.Function, m Matcher, depth int, seen map[*ssa.Function]bool) bool {
	if g == nil || g.Blocks == nil || depth > 3 || seen[g] {
		return false
	}
	seen[g] = true
	found := false
	for _, f := range closuresOf(g) {
		eachInstr(f, func(s Site) {
			if found {
				return
			}
			c, ok := s.Instr.(*ssa.Call)
			if !ok {
				return
			}
			if m(CalleeKey(c)) {
				found = true
				return
			}
			if sc := c.Call.StaticCallee(); sc != nil && isFresh(sc) && freshContains(sc, m, depth+1, seen) {
				found = true
			}
		})
	}
	return found
}

// AllCallsIn includes defer and go statements.
func AllCallsIn(fn *ssa.Function, m Matcher) []Site {
	var out []Site
	eachInstr(fn, func(s Site) {
		if c, ok := s.Instr.(ssa.CallInstruction); ok && m(CalleeKey(c)) {
			out = append(out, s)
		}
	})
	return out
}

// closuresOf returns fn plus all function literals nested in it (transitively).
func closuresOf(fn *ssa.Function) []*ssa.Function {
	out := []*ssa.Function{fn}
	for _, a := range fn.AnonFuncs {
		out = append(out, closuresOf(a)...)
	}
	return out
}

// deferredOnly reports whether closure fn is only ever used as the operand of defer statements.
func deferredOnly(fn *ssa.Function) bool {
	par := fn.Parent()
	if par == nil {
		return false
	}
	found := false
	ok := true
	eachInstr(par, func(s Site) {
		mc, is := s.Instr.(*ssa.MakeClosure)
		if !is || mc.Fn != fn {
			return
		}
		found = true
		for _, r := range *mc.Referrers() {
			if _, d := r.(*ssa.Defer); !d {
				ok = false
			}
		}
	})
	// a literal without free variables is referenced directly by the defer instruction
	if !found {
		eachInstr(par, func(s Site) {
			switch x := s.Instr.(type) {
			case *ssa.Defer:
				if x.Call.Value == ssa.Value(fn) {
					found = true
				}
			case ssa.CallInstruction:
				if x.Common().Value == ssa.Value(fn) {
					ok = false
					found = true
				}
			}
		})
	}
	return found && ok
}

// immediateCallOf: if closure fn is created and invoked exactly once, directly (func(){..}()), return that call site.
func immediateCallOf(fn *ssa.Function) (Site, bool) {
	par := fn.Parent()
	if par == nil {
		return Site{}, false
	}
	var res Site
	n := 0
	bad := false
	eachInstr(par, func(s Site) {
		switch x := s.Instr.(type) {
		case *ssa.MakeClosure:
			if x.Fn == fn {
				for _, r := range *x.Referrers() {
					if c, ok := r.(*ssa.Call); ok && c.Call.Value == ssa.Value(x) {
						continue
					}
					bad = true
				}
			}
		case *ssa.Call:
			v := x.Call.Value
			if mc, ok := v.(*ssa.MakeClosure); ok && mc.Fn == fn {
				res = s
				n++
			} else if v == ssa.Value(fn) {
				res = s
				n++
			}
		}
	})
	return res, n == 1 && !bad
}

// ---------- CFG reachability with removed edges ----------

type Edge struct{ From, To *ssa.BasicBlock }

// reachFrom computes blocks reachable from start when the given edges are deleted.
func reachFrom(start *ssa.BasicBlock, removed map[Edge]bool) map[*ssa.BasicBlock]bool {
	seen := map[*ssa.BasicBlock]bool{}
	var st []*ssa.BasicBlock
	st = append(st, start)
	seen[start] = true
	for len(st) > 0 {
		b := st[len(st)-1]
		st = st[:len(st)-1]
		for _, s := range b.Succs {
			if removed[Edge{b, s}] || seen[s] {
				continue
			}
			seen[s] = true
			st = append(st, s)
		}
	}
	return seen
}

// siteReachable: is site s executed on some path from entry that avoids the removed edges?
func siteReachable(s Site, removed map[Edge]bool) bool {
	return reachFrom(s.Fn.Blocks[0], removed)[s.Block]
}

// reachableFromSite: can control flow from just after `from` reach `to` (same function)?
func reachableFromSite(from, to Site) bool {
	if from.Block == to.Block && to.Idx > from.Idx {
		return true
	}
	for _, s := range from.Block.Succs {
		if reachFrom(s, nil)[to.Block] {
			return true
		}
	}
	return false
}

// precedes: does site a come strictly before site b on every path from entry to b (dominance at instruction level)?
func precedes(a, b Site) bool {
	if a.Fn != b.Fn {
		return false
	}
	if a.Block == b.Block {
		return a.Idx < b.Idx
	}
	return dominates(a.Block, b.Block)
}

// ---------- values ----------

func isErrorType(t types.Type) bool {
	return t != nil && types.Identical(t, types.Universe.Lookup("error").Type())
}

func isNilConst(v ssa.Value) bool {
	c, ok := v.(*ssa.Const)
	return ok && c.Value == nil
}

func constInt(v ssa.Value) (int64, bool) {
	c, ok := v.(*ssa.Const)
	if !ok || c.Value == nil {
		return 0, false
	}
	if c.Value.Kind() == constant.Int {
		i, ok := constant.Int64Val(c.Value)
		return i, ok
	}
	return 0, false
}

func constBool(v ssa.Value) (bool, bool) {
	c, ok := v.(*ssa.Const)
	if !ok || c.Value == nil || c.Value.Kind() != constant.Bool {
		return false, false
	}
	return constant.BoolVal(c.Value), true
}

// stripConv removes value-preserving conversions (ChangeType, ChangeInterface, MakeInterface, Convert between same-size ints is NOT stripped).
func stripIface(v ssa.Value) ssa.Value {
	for {
		switch x := v.(type) {
		case *ssa.ChangeInterface:
			v = x.X
		case *ssa.MakeInterface:
			v = x.X
		case *ssa.ChangeType:
			v = x.X
		default:
			return v
		}
	}
}

// errResults returns the SSA values carrying the error results of call c (Extracts for tuples),
// and whether an error component exists that is never extracted.
func errResults(c ssa.CallInstruction) (vals []ssa.Value, hasErr bool, unextracted bool) {
	v := c.Value()
	if v == nil {
		// defer / go: results are discarded
		sig := c.Common().Signature()
		for i := 0; i < sig.Results().Len(); i++ {
			if isErrorType(sig.Results().At(i).Type()) {
				return nil, true, true
			}
		}
		return nil, false, false
	}
	if tup, ok := v.Type().(*types.Tuple); ok {
		for i := 0; i < tup.Len(); i++ {
			if !isErrorType(tup.At(i).Type()) {
				continue
			}
			hasErr = true
			found := false
			for _, r := range *v.Referrers() {
				if ex, ok := r.(*ssa.Extract); ok && ex.Index == i {
					vals = append(vals, ex)
					found = true
				}
			}
			if !found {
				unextracted = true
			}
		}
		return
	}
	if isErrorType(v.Type()) {
		return []ssa.Value{v}, true, false
	}
	return nil, false, false
}

// ---------- cells (address-taken locals, captured variables) ----------

type cellInfo struct {
	p *Prog
}

func isCell(v ssa.Value) bool {
	switch v.(type) {
	case *ssa.Alloc, *ssa.FreeVar:
		return true
	}
	return false
}

// rootCell follows a FreeVar to the value bound in the enclosing function's MakeClosure.
func rootCell(v ssa.Value) ssa.Value {
	for {
		fv, ok := v.(*ssa.FreeVar)
		if !ok {
			return v
		}
		fn := fv.Parent()
		par := fn.Parent()
		if par == nil {
			return v
		}
		idx := -1
		for i, f := range fn.FreeVars {
			if f == fv {
				idx = i
			}
		}
		var bound ssa.Value
		eachInstr(par, func(s Site) {
			if mc, ok := s.Instr.(*ssa.MakeClosure); ok && mc.Fn == fn && idx >= 0 && idx < len(mc.Bindings) {
				bound = mc.Bindings[idx]
			}
		})
		if bound == nil {
			return v
		}
		v = bound
	}
}

// cellWriters: functions (other than `self`) that store to the same root cell and are not deferred-only closures.
func cellClobberedByCalls(cell ssa.Value, self *ssa.Function) bool {
	root := rootCell(cell)
	var owner *ssa.Function
	switch r := root.(type) {
	case *ssa.Alloc:
		owner = r.Parent()
	case *ssa.FreeVar:
		owner = r.Parent()
	default:
		return true
	}
	for _, f := range closuresOf(owner) {
		if f == self || isAncestor(f, self) {
			continue
		}
		writes := false
		eachInstr(f, func(s Site) {
			if st, ok := s.Instr.(*ssa.Store); ok && isCell(st.Addr) && rootCell(st.Addr) == root {
				writes = true
			}
		})
		if writes && !deferredOnly(f) {
			return true
		}
	}
	return false
}

func isAncestor(a, f *ssa.Function) bool {
	for p := f.Parent(); p != nil; p = p.Parent() {
		if p == a {
			return true
		}
	}
	return false
}

// reachingStores: the set of values that the load `ld` of a cell may observe, found by walking backwards.
// unknown is true when a path reaches the function entry or a clobbering call without meeting a store.
func reachingStores(ld *ssa.UnOp) (vals []ssa.Value, unknown bool) {
	cell := ld.X
	if !isCell(cell) || ld.Op != token.MUL {
		return nil, true
	}
	fn := ld.Parent()
	clob := cellClobberedByCalls(cell, fn)
	type key struct {
		b *ssa.BasicBlock
	}
	seen := map[*ssa.BasicBlock]bool{}
	set := map[ssa.Value]bool{}
	var walk func(b *ssa.BasicBlock, from int)
	walk = func(b *ssa.BasicBlock, from int) {
		for i := from; i >= 0; i-- {
			switch x := b.Instrs[i].(type) {
			case *ssa.Store:
				if x.Addr == cell {
					set[x.Val] = true
					return
				}
			case ssa.CallInstruction:
				if _, isDefer := x.(*ssa.Defer); isDefer {
					continue
				}
				if clob {
					unknown = true
					return
				}
			}
		}
		if len(b.Preds) == 0 {
			// entry: Alloc'ed cells start zeroed; free variables are unknown
			if _, ok := cell.(*ssa.Alloc); ok {
				set[zeroMarker] = true
			} else {
				unknown = true
			}
			return
		}
		for _, p := range b.Preds {
			if seen[p] {
				continue
			}
			seen[p] = true
			walk(p, len(p.Instrs)-1)
		}
	}
	idx := -1
	for i, ins := range ld.Block().Instrs {
		if ins == ssa.Instruction(ld) {
			idx = i
		}
	}
	walk(ld.Block(), idx-1)
	for v := range set {
		vals = append(vals, v)
	}
	return vals, unknown
}

// zeroMarker stands for "the zero value of a freshly allocated cell".
var zeroMarker ssa.Value = &ssa.Const{}

// ---------- branch recognition ----------

// effCond looks through boolean negation and through the phi that a stored short-circuit expression
// (`t := a && f(x); if t {`) leaves behind: it returns the innermost condition value c and the successors taken
// when c is true / false. tExact says "control reaches tS only if c is true", fExact likewise; a phi with constant
// false on the other edges keeps tExact, one with constant true keeps fExact.
func effCond(b *ssa.BasicBlock) (c ssa.Value, tS, fS *ssa.BasicBlock, tExact, fExact, ok bool) {
	if len(b.Instrs) == 0 {
		return
	}
	iff, is := b.Instrs[len(b.Instrs)-1].(*ssa.If)
	if !is {
		return
	}
	c, tS, fS, tExact, fExact, ok = iff.Cond, b.Succs[0], b.Succs[1], true, true, true
	for i := 0; i < 8; i++ {
		switch x := c.(type) {
		case *ssa.UnOp:
			if x.Op != token.NOT {
				return
			}
			c, tS, fS, tExact, fExact = x.X, fS, tS, fExact, tExact
		case *ssa.Phi:
			var leaf ssa.Value
			nT, nF, nLeaf := 0, 0, 0
			for _, e := range x.Edges {
				if cb, isC := constBool(e); isC {
					if cb {
						nT++
					} else {
						nF++
					}
				} else if leaf == nil || e == leaf {
					leaf = e
					nLeaf++
				} else {
					nLeaf = 99
				}
			}
			if leaf == nil || nLeaf == 99 {
				return
			}
			// phi true with no constant-true edge ⇒ leaf true; phi false with no constant-false edge ⇒ leaf false
			c, tExact, fExact = leaf, tExact && nT == 0, fExact && nF == 0
		default:
			return
		}
	}
	return
}

// nilTest2 recognises a comparison of x with nil behind effCond; nilExact: nilSucc is only reached with x == nil,
// nonNilExact: nonNilSucc is only reached with x != nil.
func nilTest2(b *ssa.BasicBlock) (x ssa.Value, nilSucc, nonNilSucc *ssa.BasicBlock, nilExact, nonNilExact, ok bool) {
	c, tS, fS, tE, fE, is := effCond(b)
	if !is {
		return
	}
	bo, is := c.(*ssa.BinOp)
	if !is || (bo.Op != token.NEQ && bo.Op != token.EQL) {
		return
	}
	var v ssa.Value
	if isNilConst(bo.Y) {
		v = bo.X
	} else if isNilConst(bo.X) {
		v = bo.Y
	} else {
		return
	}
	if bo.Op == token.NEQ {
		return v, fS, tS, fE, tE, true
	}
	return v, tS, fS, tE, fE, true
}

// nilTest recognises `If (x != nil)` / `If (x == nil)` at the end of block b, returning x and the successor
// taken when x is nil and when it is non-nil (both exact).
func nilTest(b *ssa.BasicBlock) (x ssa.Value, nilSucc, nonNilSucc *ssa.BasicBlock, ok bool) {
	v, n, nn, ne, nne, is := nilTest2(b)
	if !is || !ne || !nne {
		return nil, nil, nil, false
	}
	return v, n, nn, true
}

// sentinelTest recognises `If errors.Is(x, *G)` and `If x == *G` / `x != *G` for a package-level variable G
// (behind effCond). isSucc is only reached when x is the sentinel; notSucc is the other successor (on which the
// sentinel is excluded only when the condition was not combined with another one).
func sentinelTest(b *ssa.BasicBlock) (x ssa.Value, sentinel string, isSucc, notSucc *ssa.BasicBlock, ok bool) {
	cnd, tS, fS, tE, fE, is := effCond(b)
	if !is {
		return
	}
	switch c := cnd.(type) {
	case *ssa.Call:
		if CalleeKey(c) == "errors.Is" && len(c.Call.Args) == 2 && tE {
			if g := globalLoad(c.Call.Args[1]); g != "" {
				return c.Call.Args[0], g, tS, fS, true
			}
		}
	case *ssa.BinOp:
		if c.Op == token.EQL || c.Op == token.NEQ {
			var v ssa.Value
			var g string
			if g = globalLoad(c.Y); g != "" {
				v = c.X
			} else if g = globalLoad(c.X); g != "" {
				v = c.Y
			} else {
				return
			}
			if !isErrorType(v.Type()) {
				return
			}
			if c.Op == token.EQL && tE {
				return v, g, tS, fS, true
			}
			if c.Op == token.NEQ && fE {
				return v, g, fS, tS, true
			}
		}
	}
	return
}

// predicateTest recognises `If helper(x)` (behind effCond) for a one-argument static helper; trueSucc is only
// reached when the helper returned true.
func predicateTest(b *ssa.BasicBlock) (call *ssa.Call, trueSucc, falseSucc *ssa.BasicBlock, ok bool) {
	cnd, tS, fS, tE, _, is := effCond(b)
	if !is || !tE {
		return
	}
	c, isCall := cnd.(*ssa.Call)
	if !isCall || len(c.Call.Args) != 1 || c.Call.StaticCallee() == nil {
		return
	}
	return c, tS, fS, true
}

// globalLoad: v is a load of a package-level variable → "pkg.Name".
func globalLoad(v ssa.Value) string {
	v = stripIface(v)
	u, ok := v.(*ssa.UnOp)
	if !ok || u.Op != token.MUL {
		return ""
	}
	g, ok := u.X.(*ssa.Global)
	if !ok {
		return ""
	}
	return shortPkg(g.Pkg.Pkg.Path()) + "." + g.Name()
}

// returns of fn (in live blocks)
func returnsOf(fn *ssa.Function) []Site {
	var out []Site
	eachInstr(fn, func(s Site) {
		if _, ok := s.Instr.(*ssa.Return); ok {
			out = append(out, s)
		}
	})
	return out
}

// errorResultIndex: index of the (last) error result of fn, -1 if none.
func errorResultIndex(fn *ssa.Function) int {
	res := fn.Signature.Results()
	for i := res.Len() - 1; i >= 0; i-- {
		if isErrorType(res.At(i).Type()) {
			return i
		}
	}
	return -1
}

// returnErrOperand resolves what error a Return yields. With named results and defer the operand is a load
// after `rundefers`; we look through it to the value stored before rundefers (kind "spill").
// kinds: "nil" constant nil; "val" an SSA value; "unknown".
func returnErrOperand(ret *ssa.Return, idx int) (kind string, vals []ssa.Value) {
	if idx < 0 || idx >= len(ret.Results) {
		return "unknown", nil
	}
	v := ret.Results[idx]
	return classifyErrVal(v, map[ssa.Value]bool{})
}

func classifyErrVal(v ssa.Value, seen map[ssa.Value]bool) (string, []ssa.Value) {
	if seen[v] {
		return "val", nil
	}
	seen[v] = true
	if isNilConst(v) {
		return "nil", nil
	}
	if v == zeroMarker {
		return "nil", nil
	}
	if u, ok := v.(*ssa.UnOp); ok && u.Op == token.MUL && isCell(u.X) {
		vals, unk := reachingStores(u)
		if unk || len(vals) == 0 {
			return "unknown", nil
		}
		allNil := true
		var out []ssa.Value
		for _, sv := range vals {
			k, vs := classifyErrVal(sv, seen)
			if k == "unknown" {
				return "unknown", nil
			}
			if k != "nil" {
				allNil = false
				if len(vs) == 0 {
					vs = []ssa.Value{sv}
				}
				out = append(out, vs...)
			}
		}
		if allNil {
			return "nil", nil
		}
		return "val", out
	}
	return "val", []ssa.Value{v}
}

// fieldOf: v is FieldAddr/Field of struct type named tname selecting field fname.
func fieldAddrName(v ssa.Value) (typ string, field string, base ssa.Value, ok bool) {
	switch x := v.(type) {
	case *ssa.FieldAddr:
		st := derefStruct(x.X.Type())
		if st == nil {
			return
		}
		return typeShort(x.X.Type()), refField(x.X.Type(), x.Field), x.X, true
	case *ssa.Field:
		st := derefStruct(x.X.Type())
		if st == nil {
			return
		}
		return typeShort(x.X.Type()), refField(x.X.Type(), x.Field), x.X, true
	}
	return
}

func derefStruct(t types.Type) *types.Struct {
	if p, ok := t.Underlying().(*types.Pointer); ok {
		t = p.Elem()
	}
	st, _ := t.Underlying().(*types.Struct)
	return st
}

// loadOfField: v is `*(&x.f)` (or x.f on a struct value) → (type, field).
func loadOfField(v ssa.Value) (typ, field string, base ssa.Value, ok bool) {
	v = stripIface(v)
	if u, is := v.(*ssa.UnOp); is && u.Op == token.MUL {
		return fieldAddrName(u.X)
	}
	if f, is := v.(*ssa.Field); is {
		return fieldAddrName(f)
	}
	return
}

// argsOf returns the call's arguments without the receiver (static method calls carry it as Args[0]).
func argsOf(c ssa.CallInstruction) []ssa.Value {
	cc := c.Common()
	if !cc.IsInvoke() {
		if sc := cc.StaticCallee(); sc != nil && sc.Signature.Recv() != nil && len(cc.Args) > 0 {
			return cc.Args[1:]
		}
	}
	return cc.Args
}

// indexIn: position of ins in its block (-1 when absent).
func indexIn(ins ssa.Instruction) int {
	for i, x := range ins.Block().Instrs {
		if x == ins {
			return i
		}
	}
	return -1
}

// siteOf builds the Site of an instruction.
func siteOf(ins ssa.Instruction) Site {
	return Site{Fn: ins.Parent(), Block: ins.Block(), Idx: indexIn(ins), Instr: ins}
}

// valueDependsOn: does v (through arithmetic, conversions, call arguments, extracts, phis and single-store cells)
// depend on a value satisfying pred? Bounded DFS over operands.
func valueDependsOn(v ssa.Value, pred func(ssa.Value) bool) bool {
	seen := map[ssa.Value]bool{}
	var walk func(v ssa.Value, depth int) bool
	walk = func(v ssa.Value, depth int) bool {
		if v == nil || seen[v] || depth > 12 {
			return false
		}
		seen[v] = true
		if pred(v) {
			return true
		}
		switch x := v.(type) {
		case *ssa.UnOp:
			if x.Op == token.MUL && isCell(x.X) {
				vals, _ := reachingStores(x)
				for _, sv := range vals {
					if walk(sv, depth+1) {
						return true
					}
				}
				return walk(x.X, depth+1) // the cell itself (a captured variable) may be what is asked for
			}
		}
		if al, isAlloc := v.(*ssa.Alloc); isAlloc {
			// a local array / struct (varargs packaging, composite literal): what was stored into its elements
			for _, ref := range *al.Referrers() {
				var addr ssa.Value
				switch a := ref.(type) {
				case *ssa.IndexAddr:
					addr = a
				case *ssa.FieldAddr:
					addr = a
				}
				if addr == nil {
					continue
				}
				for _, rr := range *addr.Referrers() {
					if st, isSt := rr.(*ssa.Store); isSt && st.Addr == addr && walk(st.Val, depth+1) {
						return true
					}
				}
			}
		}
		ins, ok := v.(ssa.Instruction)
		if !ok {
			return false
		}
		for _, op := range ins.Operands(nil) {
			if *op != nil && walk(*op, depth+1) {
				return true
			}
		}
		return false
	}
	return walk(v, 0)
}

// ---------- guards that moved into a helper ----------

// summarizeGuard understands a module function whose single bool result / last error result reports the outcome of the
// one test it makes: it returns that inner condition and whether a positive result (true, a non-nil error) is returned
// exactly when the condition is true (posWhenTrue) or exactly when it is false.
func summarizeGuard(callee *ssa.Function) (cnd ssa.Value, posWhenTrue bool, ok bool) {
	if callee == nil || len(callee.Blocks) == 0 {
		return
	}
	res := callee.Signature.Results()
	if res.Len() == 0 {
		return
	}
	idx := res.Len() - 1
	isErr := isErrorType(res.At(idx).Type())
	if !isErr {
		if bt, isB := res.At(idx).Type().Underlying().(*types.Basic); !isB || bt.Kind() != types.Bool || res.Len() != 1 {
			return
		}
	}
	// truthiness of a returned value: 1 positive, 0 negative, -1 unknown
	truth := func(v ssa.Value) int {
		if isErr {
			if isNilConst(v) {
				return 0
			}
			switch v.(type) {
			case *ssa.MakeInterface, *ssa.Call:
				// errors.New / fmt.Errorf / a typed error value
				if c, isC := v.(*ssa.Call); isC {
					if sc := c.Call.StaticCallee(); sc == nil || inModule(sc) {
						return -1
					}
				}
				return 1
			}
			return -1
		}
		if c, isC := constBool(v); isC {
			if c {
				return 1
			}
			return 0
		}
		return -1
	}
	var conds []*ssa.BasicBlock
	for _, b := range liveBlocks(callee) {
		if _, _, _, _, _, is := effCond(b); is {
			conds = append(conds, b)
		}
	}
	rets := returnsOf(callee)
	if len(conds) == 0 && len(rets) == 1 && !isErr {
		// `return r.closed` / `return !r.closed`
		v := rets[0].Instr.(*ssa.Return).Results[idx]
		pos := true
		for i := 0; i < 4; i++ {
			if u, isU := v.(*ssa.UnOp); isU && u.Op == token.NOT {
				v, pos = u.X, !pos
				continue
			}
			break
		}
		return v, pos, true
	}
	if len(conds) != 1 {
		return
	}
	c, tS, fS, tE, fE, _ := effCond(conds[0])
	if !tE || !fE {
		return
	}
	rT, rF := reachFrom(tS, nil), reachFrom(fS, nil)
	allT, allF := -2, -2 // -2: none seen yet
	for _, rs := range rets {
		t := truth(rs.Instr.(*ssa.Return).Results[idx])
		inT, inF := rT[rs.Block], rF[rs.Block]
		if t < 0 || inT == inF {
			return
		}
		if inT {
			if allT != -2 && allT != t {
				return
			}
			allT = t
		} else {
			if allF != -2 && allF != t {
				return
			}
			allF = t
		}
	}
	if allT == 1 && allF == 0 {
		return c, true, true
	}
	if allT == 0 && allF == 1 {
		return c, false, true
	}
	return
}

// condThroughHelper: block b ends in a test of the result of a static call to a module function that summarizeGuard
// understands. It returns the helper's inner condition (a value of the callee), the call, and the successors of b that
// are taken when the inner condition is true / false, with effCond's exactness.
func condThroughHelper(b *ssa.BasicBlock) (inner ssa.Value, call *ssa.Call, tS, fS *ssa.BasicBlock, tE, fE, ok bool) {
	c, cT, cF, cTE, cFE, is := effCond(b)
	if !is {
		return
	}
	asCall := func(v ssa.Value) *ssa.Call {
		if ex, isE := v.(*ssa.Extract); isE {
			v = ex.Tuple
		}
		cl, isC := v.(*ssa.Call)
		if !isC {
			return nil
		}
		if sc := cl.Call.StaticCallee(); sc == nil || !inModule(sc) {
			return nil
		}
		return cl
	}
	if cl := asCall(c); cl != nil {
		if in, pos, sOK := summarizeGuard(genericBody(cl.Call.StaticCallee())); sOK {
			if pos {
				return in, cl, cT, cF, cTE, cFE, true
			}
			return in, cl, cF, cT, cFE, cTE, true
		}
		return
	}
	if x, nS, nnS, nE, nnE, isN := nilTest2(b); isN {
		if cl := asCall(x); cl != nil {
			if in, pos, sOK := summarizeGuard(genericBody(cl.Call.StaticCallee())); sOK {
				if pos {
					return in, cl, nnS, nS, nnE, nE, true
				}
				return in, cl, nS, nnS, nE, nnE, true
			}
		}
	}
	return
}

// genericBody: the function whose blocks hold the source of sc — for the instantiation (wrapper) of a generic function
// that is its origin.
func genericBody(sc *ssa.Function) *ssa.Function {
	if sc == nil {
		return nil
	}
	if o := sc.Origin(); o != nil && len(o.Blocks) > 0 {
		return o
	}
	return sc
}

// deferSiteOf: fn is a function literal that its parent defers exactly once (`defer func() { … }()`); the site of that
// defer statement.
func deferSiteOf(fn *ssa.Function) (Site, bool) {
	par := fn.Parent()
	if par == nil {
		return Site{}, false
	}
	var res Site
	n := 0
	eachInstr(par, func(s Site) {
		if d, ok := s.Instr.(*ssa.Defer); ok {
			if mc, isMC := d.Call.Value.(*ssa.MakeClosure); isMC && mc.Fn == fn {
				res = s
				n++
			}
		}
	})
	return res, n == 1
}

// closureBinding: the value the parent binds to the i-th free variable of the function literal g (nil if g is not
// made exactly there).
func closureBinding(parent, g *ssa.Function, i int) ssa.Value {
	var out ssa.Value
	eachInstr(parent, func(s Site) {
		if mc, ok := s.Instr.(*ssa.MakeClosure); ok && mc.Fn == g && i < len(mc.Bindings) {
			out = rootCell(mc.Bindings[i])
		}
	})
	return out
}

// ---------- comparisons, whichever way round they are written ----------

type cmpView struct {
	Op   token.Token
	X, Y ssa.Value
}

func mirrorOp(op token.Token) token.Token {
	switch op {
	case token.LSS:
		return token.GTR
	case token.GTR:
		return token.LSS
	case token.LEQ:
		return token.GEQ
	case token.GEQ:
		return token.LEQ
	}
	return op
}

// cmpViews: the comparison as written and with its operands exchanged (a < b is b > a); rules match whichever fits.
func cmpViews(bo *ssa.BinOp) []cmpView {
	switch bo.Op {
	case token.LSS, token.GTR, token.LEQ, token.GEQ, token.EQL, token.NEQ:
		return []cmpView{{bo.Op, bo.X, bo.Y}, {mirrorOp(bo.Op), bo.Y, bo.X}}
	}
	return []cmpView{{bo.Op, bo.X, bo.Y}}
}

// ifCmp is one way of reading the comparison that ends a block: Op(X, Y) holds on T and fails on F.
type ifCmp struct {
	Op   token.Token
	X, Y ssa.Value
	T, F *ssa.BasicBlock
}

// ifCmpForms: all equivalent readings of the comparison that ends block b — as written, with the operands exchanged,
// and each of them negated with the successors exchanged (`if a <= b {A} else {B}` is `if a > b {B} else {A}`; the
// builder compiles `if !(a <= b)` to exactly that). Integer, string and pointer comparisons only.
func ifCmpForms(b *ssa.BasicBlock) []ifCmp {
	if len(b.Instrs) == 0 {
		return nil
	}
	iff, ok := b.Instrs[len(b.Instrs)-1].(*ssa.If)
	if !ok {
		return nil
	}
	bo, ok := iff.Cond.(*ssa.BinOp)
	if !ok || isFloatOperand(bo.X) {
		return nil
	}
	var out []ifCmp
	for _, v := range cmpViews(bo) {
		out = append(out, ifCmp{v.Op, v.X, v.Y, b.Succs[0], b.Succs[1]})
		out = append(out, ifCmp{negateCmp(v.Op), v.X, v.Y, b.Succs[1], b.Succs[0]})
	}
	return out
}

// ---------- dominators (own computation: the CFG is normalised after the SSA build, see threadStoredConditions) ----------

var domCache = map[*ssa.Function]map[*ssa.BasicBlock]*ssa.BasicBlock{}

// idoms computes immediate dominators of the reachable blocks of fn (Cooper, Harvey, Kennedy).
func idoms(fn *ssa.Function) map[*ssa.BasicBlock]*ssa.BasicBlock {
	if m, ok := domCache[fn]; ok {
		return m
	}
	idom := map[*ssa.BasicBlock]*ssa.BasicBlock{}
	if len(fn.Blocks) == 0 {
		domCache[fn] = idom
		return idom
	}
	// reverse postorder from the entry (the recover block is a second root: it is only dominated by itself)
	var order []*ssa.BasicBlock
	seen := map[*ssa.BasicBlock]bool{}
	var dfs func(b *ssa.BasicBlock)
	dfs = func(b *ssa.BasicBlock) {
		seen[b] = true
		for _, s := range b.Succs {
			if !seen[s] {
				dfs(s)
			}
		}
		order = append(order, b)
	}
	entry := fn.Blocks[0]
	dfs(entry)
	rpoNum := map[*ssa.BasicBlock]int{}
	for i := range order {
		rpoNum[order[len(order)-1-i]] = i
	}
	idom[entry] = entry
	intersect := func(a, b *ssa.BasicBlock) *ssa.BasicBlock {
		for a != b {
			for rpoNum[a] > rpoNum[b] {
				a = idom[a]
			}
			for rpoNum[b] > rpoNum[a] {
				b = idom[b]
			}
		}
		return a
	}
	changed := true
	for changed {
		changed = false
		for i := len(order) - 2; i >= 0; i-- { // reverse postorder, entry excluded
			b := order[i]
			var nd *ssa.BasicBlock
			for _, p := range b.Preds {
				if _, done := idom[p]; !done {
					continue
				}
				if nd == nil {
					nd = p
				} else {
					nd = intersect(p, nd)
				}
			}
			if nd != nil && idom[b] != nd {
				idom[b] = nd
				changed = true
			}
		}
	}
	domCache[fn] = idom
	return idom
}

// dominates: every path from the entry of the function to b passes a (a block dominates itself).
func dominates(a, b *ssa.BasicBlock) bool {
	if a == nil || b == nil || a.Parent() != b.Parent() {
		return false
	}
	if a == b {
		return true
	}
	idom := idoms(a.Parent())
	if _, ok := idom[b]; !ok {
		return false // unreachable (or the recover block)
	}
	entry := a.Parent().Blocks[0]
	for x := b; ; {
		d, ok := idom[x]
		if !ok {
			return false
		}
		if d == a {
			return true
		}
		if x == entry || d == x {
			return false
		}
		x = d
	}
}

// ---------- parameter roles, independent of today's spelling ----------

//go:embed params_ref.json
var paramsRefJSON []byte

var paramsRef map[string][]string

// refName: the name the parameter had on the reference tree the rules were written against (params_ref.json: function key
// → parameter names by position, receiver first). Several rules identify a parameter by its role — the key of a lookup,
// the value that is hashed, the per-read switch — and the role is a position in a signature; what the parameter is called
// today is not part of any property. Functions that are not in the table fall back to the current name.
func refName(p *ssa.Parameter) string {
	if p == nil {
		return ""
	}
	if paramsRef == nil {
		paramsRef = map[string][]string{}
		_ = json.Unmarshal(paramsRefJSON, &paramsRef)
	}
	fn := p.Parent()
	if fn != nil {
		if names, ok := paramsRef[FuncKey(fn)]; ok {
			for i, q := range fn.Params {
				if q == p && i < len(names) && len(names) == len(fn.Params) {
					return names[i]
				}
			}
		}
	}
	return p.Name()
}

// ---------- field roles, independent of today's spelling ----------

//go:embed fields_ref.json
var fieldsRefJSON []byte

var fieldsRef map[string][]string

// refField: the name the i-th field of the (pointer to a) named struct type t had on the reference tree (fields_ref.json:
// type → field names by index). The rules speak of "the high-water mark of the writer", "the reader list of the manager"
// by field name; an unexported field's name is no more part of a property than a parameter's. A type that is not in the
// table, or whose number of fields changed, falls back to today's names.
func refField(t types.Type, i int) string {
	st := derefStruct(t)
	if st == nil || i < 0 || i >= st.NumFields() {
		return ""
	}
	if fieldsRef == nil {
		fieldsRef = map[string][]string{}
		_ = json.Unmarshal(fieldsRefJSON, &fieldsRef)
	}
	k := strings.TrimPrefix(typeShort(t), "*")
	if names, ok := fieldsRef[k]; ok && len(names) == st.NumFields() {
		return names[i]
	}
	return st.Field(i).Name()
}

// pruneStoredConditions extends a set of removed edges by what a stored condition decides: where a block branches on a
// boolean phi (`c := a || b` computed earlier, `if c` here) and every edge that still brings a value to the phi — its
// predecessor reachable from the entry without the removed edges, the edge itself not removed — brings the same constant,
// the branch that constant rules out is removed as well. The phi's block dominates the branch, so the value the phi got on
// the way there is the one that is tested (the rule is not applied to phis inside loops that are entered again).
func pruneStoredConditions(fn *ssa.Function, removed map[Edge]bool) {
	if len(fn.Blocks) == 0 {
		return
	}
	for changed := true; changed; {
		changed = false
		reach := reachFrom(fn.Blocks[0], removed)
		for _, b := range fn.Blocks {
			if !reach[b] || len(b.Instrs) == 0 || len(b.Succs) != 2 {
				continue
			}
			iff, ok := b.Instrs[len(b.Instrs)-1].(*ssa.If)
			if !ok {
				continue
			}
			ph, ok := iff.Cond.(*ssa.Phi)
			if !ok {
				continue
			}
			pb := ph.Block()
			if pb != b && reachFrom(b, removed)[pb] {
				continue // the phi can be computed again after the branch: a loop
			}
			vals := map[bool]bool{}
			other := false
			for i, e := range ph.Edges {
				pred := pb.Preds[i]
				if !reach[pred] || removed[Edge{pred, pb}] {
					continue
				}
				if k, isK := e.(*ssa.Const); isK && k.Value != nil && k.Value.Kind() == constant.Bool {
					vals[constant.BoolVal(k.Value)] = true
				} else {
					other = true
				}
			}
			if other || len(vals) != 1 {
				continue
			}
			drop := b.Succs[1]
			if vals[false] {
				drop = b.Succs[0]
			}
			if !removed[Edge{b, drop}] {
				removed[Edge{b, drop}] = true
				changed = true
			}
		}
	}
}
