package main

// Durability / recovery ordering rules shared by C02, C07, C10, C13 (and partly C01, C17).

import (
	"fmt"
	"go/constant"
	"go/token"
	"go/types"
	"regexp"
	"strings"

	"golang.org/x/tools/go/ssa"
)

var (
	walAppend     = Keys("wal.WriteAheadLogAppendI.Append", "wal.Appender.Append")
	walAppendSync = Keys("wal.WriteAheadLogAppendI.AppendSync", "wal.Appender.AppendSync")
	walAnyAppend  = Keys("wal.WriteAheadLogAppendI.Append", "wal.Appender.Append", "wal.WriteAheadLogAppendI.AppendSync", "wal.Appender.AppendSync")
	memMutate     = Keys("simpledb.RWMemstore.Upsert", "simpledb.RWMemstore.Delete", "simpledb.RWMemstore.Tombstone", "simpledb.RWMemstore.Add", "simpledb.RWMemstore.DeleteIfExists")
)

// nilReturns: Return sites of fn whose error operand is the constant nil.
func nilReturns(fn *ssa.Function) []Site {
	idx := errorResultIndex(fn)
	var out []Site
	for _, rs := range returnsOf(fn) {
		if idx < 0 {
			out = append(out, rs)
			continue
		}
		k, vals := returnErrOperand(rs.Instr.(*ssa.Return), idx)
		if k == "nil" {
			out = append(out, rs)
			continue
		}
		// `return w.rejected`: an error kept in the object's state, nil unless something went wrong earlier — on this call
		// it is the success exit
		ret := rs.Instr.(*ssa.Return)
		cands := append([]ssa.Value{}, vals...)
		if idx < len(ret.Results) {
			cands = append(cands, ret.Results[idx])
		}
		for _, v := range cands {
			_, f, base, isF := loadOfField(v)
			if !isF || paramOrigin(base) == nil {
				continue
			}
			// not when this very function sets the field to an error (then the return hands out what was just stored)
			setHere := false
			eachInstr(fn, func(t Site) {
				if st, isS := t.Instr.(*ssa.Store); isS {
					if _, sf, _, ok := fieldAddrName(st.Addr); ok && sf == f && !isNilConst(st.Val) {
						setHere = true
					}
				}
			})
			if !setHere {
				out = append(out, rs)
				break
			}
		}
	}
	return out
}

// isReplayCallback: fn is a function literal passed to WriteAheadLogReplayI.Replay.
func isReplayCallback(fn *ssa.Function) bool {
	par := fn.Parent()
	if par == nil {
		// a named function that was extracted since the reference tree: the callback itself (handed to Replay as a
		// function or method value), or a helper that only replay callbacks call
		if !isFresh(fn) || theProg == nil {
			return false
		}
		handed := false
		for _, g := range theProg.modFns {
			eachInstr(g, func(s Site) {
				c, ok := s.Instr.(*ssa.Call)
				if !ok || !Suffix("WriteAheadLogReplayI.Replay", "Replayer.Replay")(CalleeKey(c)) {
					return
				}
				for _, a := range c.Call.Args {
					if a == ssa.Value(fn) {
						handed = true
					}
					if mc, ok := a.(*ssa.MakeClosure); ok {
						if w, ok := mc.Fn.(*ssa.Function); ok && w.Synthetic != "" {
							eachInstr(w, func(t Site) {
								if d, ok := t.Instr.(ssa.CallInstruction); ok && d.Common().StaticCallee() == fn {
									handed = true
								}
							})
						}
					}
				}
			})
		}
		if handed {
			return true
		}
		sites := theProg.CallSitesOf(fn)
		if len(sites) == 0 {
			return false
		}
		for _, cs := range sites {
			if cs.Fn == fn || !isReplayCallback(cs.Fn) {
				return false
			}
		}
		return true
	}
	res := false
	eachInstr(par, func(s Site) {
		c, ok := s.Instr.(*ssa.Call)
		if !ok || !Suffix("WriteAheadLogReplayI.Replay", "Replayer.Replay")(CalleeKey(c)) {
			return
		}
		for _, a := range c.Call.Args {
			if mc, ok := a.(*ssa.MakeClosure); ok && mc.Fn == fn {
				res = true
			}
			if a == ssa.Value(fn) {
				res = true
			}
		}
	})
	return res
}

// loggingFuncs: functions of simpledb that append to the WAL.
func loggingFuncs(p *Prog) []*ssa.Function {
	var out []*ssa.Function
	for _, fn := range p.FuncsOfPkg("simpledb") {
		if len(CallsIn(fn, walAnyAppend)) > 0 {
			out = append(out, fn)
		}
	}
	return out
}

// R-log-before-apply: memstore mutations happen only after a successful WAL append (or while replaying the WAL).
func ruleLogBeforeApply(r *Report) {
	const rule = "log-before-apply"
	r.Rule(rule, 2, "every memstore mutation in simpledb is reachable only through the success edge of a WAL append in the same function; the WAL replay callback is the one exempt site")
	o := &order{r, r.P}
	for _, fn := range r.P.FuncsOfPkg("simpledb") {
		if rt := fn.Signature.Recv(); rt != nil && typeShort(rt.Type()) == "simpledb.RWMemstore" {
			continue // the pair's own delegating methods
		}
		B := CallsIn(fn, memMutate)
		if len(B) == 0 {
			continue
		}
		r.Saw(fn)
		key := rule + "/" + FuncKey(fn)
		if isReplayCallback(fn) {
			r.OK(rule, key, fn.Pos(), "WAL replay callback: re-applies logged mutations")
			continue
		}
		A := CallsIn(fn, walAnyAppend)
		// a new helper that both logs and applies is one call here: the order is decided inside it
		isA := map[ssa.Instruction]bool{}
		for _, a := range A {
			isA[a.Instr] = true
		}
		var B2 []Site
		for _, b := range B {
			if !(b.Lifted && isA[b.Instr]) {
				B2 = append(B2, b)
			}
		}
		if len(B2) == 0 {
			r.OK(rule, key, fn.Pos(), "logs and applies through one helper, which is checked on its own")
			continue
		}
		o.OnlyAfterSuccess(rule, key, fn, "a WAL append", A, "the memstore mutation", B2, nil)
	}
}

func isFieldLoad(typ, field string) func(v ssa.Value) bool {
	return func(v ssa.Value) bool {
		t, f, _, ok := loadOfField(v)
		return ok && t == typ && f == field
	}
}

// R-sync-default: the non-sync append runs only under enableAsyncWAL; the option defaults to false; AppendSync → WriteSync.
func ruleSyncDefault(r *Report) {
	const rule = "sync-default"
	r.Rule(rule, 5, "the buffered (non-fsync) WAL append is control-dependent on the enableAsyncWAL option, which defaults to false and is set only by the EnableAsyncWAL option; the sync append uses the fsyncing writer call")
	p := r.P
	lf := loggingFuncs(p)
	if len(lf) == 0 {
		r.Missing(rule, rule+"/logging-functions", "no function in simpledb appends to the WAL")
	}
	for _, fn := range lf {
		r.Saw(fn)
		tEdges, _ := condEdges(fn, isFieldLoad("simpledb.DB", "enableAsyncWAL"))
		removed := map[Edge]bool{}
		for _, e := range tEdges {
			removed[e] = true
		}
		// (the call of a new helper that appends is judged inside the helper, which is a logging function itself)
		for i, a := range directOnly(CallsIn(fn, walAppend)) {
			key := fmt.Sprintf("%s/%s/async-append#%d", rule, FuncKey(fn), i+1)
			if len(tEdges) == 0 || siteReachable(a, removed) {
				r.Bad(rule, key, a.Pos(), "the non-fsync Append is reachable without passing the true edge of a test of DB.enableAsyncWAL")
			} else {
				r.OK(rule, key, a.Pos(), "Append only under enableAsyncWAL == true")
			}
		}
		// and the function must have a sync append at all
		if len(CallsIn(fn, walAppendSync)) == 0 {
			r.Bad(rule, fmt.Sprintf("%s/%s/has-sync-append", rule, FuncKey(fn)), fn.Pos(), "function logs to the WAL but never with AppendSync")
		} else {
			r.OK(rule, fmt.Sprintf("%s/%s/has-sync-append", rule, FuncKey(fn)), fn.Pos(), "AppendSync present")
		}
	}
	// default value and single writer of the option
	if fn := r.NeedFunc(rule, "simpledb.NewSimpleDB"); fn != nil {
		key := rule + "/simpledb.NewSimpleDB/default-false"
		verdict, detail := "ok", "ExtraOptions literal leaves enableAsyncWAL false"
		found := false
		eachInstr(fn, func(s Site) {
			st, ok := s.Instr.(*ssa.Store)
			if !ok {
				return
			}
			if t, f, _, ok := fieldAddrName(st.Addr); ok && t == "simpledb.ExtraOptions" && f == "enableAsyncWAL" {
				found = true
				if b, isC := constBool(st.Val); !isC || b {
					verdict, detail = "bad", "default of enableAsyncWAL is not the constant false"
				}
			}
		})
		_ = found
		if verdict == "ok" {
			r.OK(rule, key, fn.Pos(), detail)
		} else {
			r.Bad(rule, key, fn.Pos(), detail)
		}
		// DB.enableAsyncWAL initialised from the option
		key = rule + "/simpledb.NewSimpleDB/field-from-option"
		okFlow := false
		eachInstr(fn, func(s Site) {
			st, ok := s.Instr.(*ssa.Store)
			if !ok {
				return
			}
			if t, f, _, ok := fieldAddrName(st.Addr); ok && t == "simpledb.DB" && f == "enableAsyncWAL" {
				if isFieldLoad("simpledb.ExtraOptions", "enableAsyncWAL")(st.Val) {
					okFlow = true
				}
			}
		})
		if okFlow {
			r.OK(rule, key, fn.Pos(), "DB.enableAsyncWAL = extraOpts.enableAsyncWAL")
		} else {
			r.Bad(rule, key, fn.Pos(), "DB.enableAsyncWAL is not initialised from ExtraOptions.enableAsyncWAL")
		}
	}
	// who may write the option / the field
	for _, fn := range p.FuncsOfPkg("simpledb") {
		eachInstr(fn, func(s Site) {
			st, ok := s.Instr.(*ssa.Store)
			if !ok {
				return
			}
			t, f, _, ok := fieldAddrName(st.Addr)
			if !ok || f != "enableAsyncWAL" {
				return
			}
			key := fmt.Sprintf("%s/writer/%s/%s", rule, FuncKey(fn), t)
			switch {
			case FuncKey(fn) == "simpledb.NewSimpleDB":
				// covered above
			case t == "simpledb.ExtraOptions" && fn.Parent() != nil && FuncKey(fn.Parent()) == "simpledb.EnableAsyncWAL":
				r.OK(rule, key, st.Pos(), "set by the EnableAsyncWAL option")
			default:
				r.Bad(rule, key, st.Pos(), "enableAsyncWAL is written outside NewSimpleDB / the EnableAsyncWAL option")
			}
		})
	}
	// AppendSync → WriteSync
	if fn := r.NeedFunc(rule, "wal.Appender.AppendSync"); fn != nil {
		o := &order{r, p}
		A := CallsIn(fn, Suffix("WriterI.WriteSync", "FileWriter.WriteSync"))
		o.OnlyAfterSuccess(rule, rule+"/wal.Appender.AppendSync/WriteSync", fn, "WriteSync", A, "the nil-error return", nilReturns(fn), nil)
	}
}

// R-write-flush-fsync: WriteSync = write, flush the user-space buffer, fsync — in this order, before returning nil.
func ruleWriteFlushFsync(r *Report) {
	const rule = "write-flush-fsync"
	r.Rule(rule, 3, "FileWriter.WriteSync returns nil only after Write, then bufWriter.Flush, then file.Sync each succeeded, in this order")
	fn := r.NeedFunc(rule, "recordio.FileWriter.WriteSync")
	if fn == nil {
		return
	}
	o := &order{r, r.P}
	W := CallsIn(fn, Keys("recordio.FileWriter.Write"))
	F := CallsIn(fn, Suffix("WriteSeekerCloserFlusher.Flush", "Writer.Flush"))
	S := CallsIn(fn, Keys("os.File.Sync"))
	o.OnlyAfterSuccess(rule, rule+"/recordio.FileWriter.WriteSync/flush-after-write", fn, "Write", W, "Flush", F, nil)
	o.OnlyAfterSuccess(rule, rule+"/recordio.FileWriter.WriteSync/sync-after-flush", fn, "Flush", F, "file.Sync", S, nil)
	o.OnlyAfterSuccess(rule, rule+"/recordio.FileWriter.WriteSync/return-after-sync", fn, "file.Sync", S, "the nil-error return", nilReturns(fn), nil)
}

// R-header-at-open: a freshly opened (non direct-IO) writer has flushed its header before Open returns nil.
func ruleHeaderAtOpen(r *Report) {
	const rule = "header-at-open"
	r.Rule(rule, 2, "FileWriter.Open returns nil only after the header was written and (unless block-aligned direct IO) flushed")
	fn := r.NeedFunc(rule, "recordio.FileWriter.Open")
	if fn == nil {
		return
	}
	o := &order{r, r.P}
	H := CallsIn(fn, Keys("recordio.writeFileHeader"))
	F := CallsIn(fn, Suffix("WriteSeekerCloserFlusher.Flush", "Writer.Flush"))
	// guard: alignedBlockWrites true skips the flush
	tE, fE := condEdges(fn, isFieldLoad("recordio.FileWriter", "alignedBlockWrites"))
	// the If is `if !w.alignedBlockWrites` → go/ssa tests the field and swaps successors, so the edge that skips
	// the flush is the one that does not lead to the Flush block
	var guards []Edge
	for _, e := range append(tE, fE...) {
		leadsToFlush := false
		for _, f := range F {
			if e.To == f.Block || reachFrom(e.To, nil)[f.Block] && dominates(e.To, f.Block) {
				leadsToFlush = true
			}
		}
		if !leadsToFlush {
			guards = append(guards, e)
		}
	}
	o.OnlyAfterSuccess(rule, rule+"/recordio.FileWriter.Open/flush-after-header", fn, "writeFileHeader", H, "Flush", F, nil)
	o.OnlyAfterSuccess(rule, rule+"/recordio.FileWriter.Open/return-after-flush", fn, "Flush", F, "the nil-error return", nilReturns(fn), guards)
}

// R-table-before-wal-remove
func ruleTableBeforeWalRemove(r *Report) {
	const rule = "table-before-wal-remove"
	r.Rule(rule, 1, "the WAL file of a memstore is removed only after the memstore's table was flushed successfully")
	fn := r.NeedFunc(rule, "simpledb.executeFlush")
	if fn == nil {
		return
	}
	o := &order{r, r.P}
	A := CallsIn(fn, Suffix("MemStoreI.FlushWithTombstones", "MemStore.FlushWithTombstones", "MemStoreI.Flush", "MemStore.Flush"))
	// removals of the WAL file: removal sites whose argument is the flush action's walPath
	var B []Site
	for _, s := range removalSites(r.P, fn) {
		for _, a := range argsOf(s.Call()) {
			if f, ok := a.(*ssa.Field); ok {
				if st, _ := f.X.Type().Underlying().(*types.Struct); st != nil && refField(f.X.Type(), f.Field) == "walPath" {
					B = append(B, s)
				}
			} else if _, fld, _, ok := loadOfField(a); ok && fld == "walPath" {
				B = append(B, s)
			}
		}
	}
	o.OnlyAfterSuccess(rule, rule+"/simpledb.executeFlush/os.Remove", fn, "the table flush", A, "removing the WAL file", B, nil)
}

// R-flag-after-close: the compaction success flag is written only after the merged table's writer was closed successfully.
func ruleFlagAfterClose(r *Report) {
	const rule = "flag-after-close"
	r.Rule(rule, 1, "saveCompactionMetadata (the flag that makes recovery delete the inputs) is reachable only through the success edge of a non-deferred Close of the merged table's writer")
	fn := r.NeedFunc(rule, "simpledb.executeCompaction")
	if fn == nil {
		return
	}
	o := &order{r, r.P}
	A := CallsIn(fn, Suffix("SSTableStreamWriter.Close", "SSTableStreamWriterI.Close"))
	B := CallsIn(fn, Keys("simpledb.saveCompactionMetadata"))
	o.OnlyAfterSuccess(rule, rule+"/simpledb.executeCompaction/saveCompactionMetadata", fn, "writer.Close", A, "the success-flag write", B, nil)
}

// R-delete-after-flag: inputs are deleted only by code that runs after a successful compaction, all deletions precede
// the rename into the oldest slot, and recovery never deletes the slot it just renamed into.
func ruleDeleteAfterFlag(r *Report) {
	const rule = "delete-after-flag"
	r.Rule(rule, 3, "live: no input directory is removed after the merged table was renamed into place; recovery: the slot is cleared before the rename and removals after it exclude the slot; installation happens only after executeCompaction succeeded")
	p := r.P
	// live path
	var live *ssa.Function
	for _, fn := range p.FuncsOfPkg("simpledb") {
		if strings.HasPrefix(FuncKey(fn), "simpledb.SSTableManager.reflectCompactionResult") && len(CallsIn(fn, Keys("os.Rename"))) > 0 {
			live = fn
		}
	}
	if live == nil {
		r.Missing(rule, rule+"/reflectCompactionResult", "no os.Rename found in reflectCompactionResult")
	} else {
		r.Saw(live)
		ren := CallsIn(live, Keys("os.Rename"))
		rm := CallsIn(live, Keys("os.RemoveAll", "os.Remove"))
		key := rule + "/simpledb.SSTableManager.reflectCompactionResult/no-remove-after-rename"
		bad := ""
		for _, a := range ren {
			for _, b := range rm {
				if reachableFromSite(a, b) {
					bad = siteDesc(p, b)
				}
			}
		}
		if len(rm) == 0 {
			r.Bad(rule, key, live.Pos(), "the inputs of the compaction are never removed")
		} else if bad != "" {
			r.Bad(rule, key, ren[0].Pos(), "a directory removal ("+bad+") is reachable after the rename: it can delete the table that was just installed")
		} else {
			r.OK(rule, key, ren[0].Pos(), "all removals precede the rename")
		}
	}
	// recovery path
	if fn := r.NeedFunc(rule, "simpledb.DB.repairCompactions"); fn != nil {
		ren := CallsIn(fn, Keys("os.Rename"))
		rm := CallsIn(fn, Keys("os.RemoveAll", "os.Remove"))
		if len(ren) == 0 {
			r.Missing(rule, rule+"/simpledb.DB.repairCompactions/rename", "no os.Rename in repairCompactions")
		}
		for _, a := range ren {
			// some removal whose argument is the rename target dominates the rename
			key := rule + "/simpledb.DB.repairCompactions/target-cleared-before-rename"
			tgt := a.Call().Common().Args[1]
			ok := false
			for _, b := range rm {
				if precedes(b, a) && b.Call().Common().Args[0] == tgt {
					o := &order{r, p}
					_ = o
					succ, _ := errorEdges(b)
					rem := map[Edge]bool{}
					for _, e := range succ {
						rem[e] = true
					}
					if len(succ) > 0 && !siteReachable(a, rem) {
						ok = true
					}
				}
			}
			if ok {
				r.OK(rule, key, a.Pos(), "RemoveAll(target) succeeded before Rename(…, target)")
			} else {
				r.Bad(rule, key, a.Pos(), "the rename target is not cleared (RemoveAll of the same path, success edge) before the rename")
			}
			// removals reachable after the rename must be guarded by `!= ReplacementPath`
			key = rule + "/simpledb.DB.repairCompactions/removals-after-rename-exclude-slot"
			tE, fE := condEdges(fn, func(c ssa.Value) bool {
				bo, ok := c.(*ssa.BinOp)
				if !ok || (bo.Op != token.NEQ && bo.Op != token.EQL) {
					return false
				}
				isRP := func(v ssa.Value) bool {
					_, f, _, ok := loadOfField(v)
					return ok && f == "ReplacementPath"
				}
				return isRP(bo.X) || isRP(bo.Y)
			})
			guardEdges := map[Edge]bool{}
			for _, e := range append(tE, fE...) {
				guardEdges[e] = true
			}
			bad := ""
			n := 0
			for _, b := range rm {
				if !reachableFromSite(a, b) || precedes(b, a) && !reachFrom(a.Block, nil)[b.Block] {
					continue
				}
				// b is after the rename (in the same iteration): must be unreachable without a guard edge
				if b.Block == a.Block {
					bad = siteDesc(p, b)
					continue
				}
				n++
				// reachable from the rename block without crossing a ReplacementPath comparison?
				seen := reachFrom(a.Block, guardEdges)
				if seen[b.Block] && !precedes(b, a) {
					bad = siteDesc(p, b)
				}
			}
			if bad != "" {
				r.Bad(rule, key, a.Pos(), "a removal after the rename ("+bad+") is not guarded by a comparison with ReplacementPath: it can delete the finished table")
			} else {
				r.OK(rule, key, a.Pos(), fmt.Sprintf("%d removal(s) after the rename are guarded by the ReplacementPath comparison", n))
			}
		}
	}
}

// ---------- E-TORN ----------

// sentinelPredicate: if fn is `func(err error) bool` built only from errors.Is(err, *G) tests, return the set of
// sentinels for which it returns true (small abstract interpretation over its CFG).
func sentinelPredicate(fn *ssa.Function) (map[string]bool, bool) {
	if fn == nil || fn.Blocks == nil || len(fn.Params) != 1 || !isErrorType(fn.Params[0].Type()) {
		return nil, false
	}
	res := fn.Signature.Results()
	if res.Len() != 1 || !types.Identical(res.At(0).Type(), types.Typ[types.Bool]) {
		return nil, false
	}
	// collect candidate sentinels
	cands := map[string]bool{}
	pure := true
	eachInstr(fn, func(s Site) {
		switch x := s.Instr.(type) {
		case *ssa.Call:
			if CalleeKey(x) == "errors.Is" && len(x.Call.Args) == 2 && stripIface(x.Call.Args[0]) == ssa.Value(fn.Params[0]) {
				if g := globalLoad(x.Call.Args[1]); g != "" {
					cands[g] = true
					return
				}
			}
			pure = false
		case *ssa.If, *ssa.Jump, *ssa.Return, *ssa.Phi, *ssa.UnOp, *ssa.BinOp, *ssa.ChangeInterface, *ssa.MakeInterface:
		default:
			pure = false
		}
	})
	if !pure || len(cands) == 0 {
		return nil, false
	}
	out := map[string]bool{}
	for s := range cands {
		if v, ok := evalPredicate(fn, s); ok && v {
			out[s] = true
		}
	}
	return out, true
}

func evalPredicate(fn *ssa.Function, sentinel string) (bool, bool) {
	vals := map[ssa.Value]bool{}
	b := fn.Blocks[0]
	var pred *ssa.BasicBlock
	for steps := 0; steps < 200; steps++ {
		for _, ins := range b.Instrs {
			switch x := ins.(type) {
			case *ssa.Phi:
				for i, p := range b.Preds {
					if p == pred {
						if c, ok := constBool(x.Edges[i]); ok {
							vals[x] = c
						} else if v, ok := vals[x.Edges[i]]; ok {
							vals[x] = v
						} else {
							return false, false
						}
					}
				}
			case *ssa.Call:
				if g := globalLoad(x.Call.Args[1]); g != "" {
					vals[x] = g == sentinel
				}
			case *ssa.UnOp:
				if x.Op == token.NOT {
					if v, ok := vals[x.X]; ok {
						vals[x] = !v
					}
				}
			case *ssa.If:
				v, ok := vals[x.Cond]
				if !ok {
					return false, false
				}
				pred = b
				if v {
					b = b.Succs[0]
				} else {
					b = b.Succs[1]
				}
			case *ssa.Jump:
				pred = b
				b = b.Succs[0]
			case *ssa.Return:
				if c, ok := constBool(x.Results[0]); ok {
					return c, true
				}
				v, ok := vals[x.Results[0]]
				return v, ok
			}
		}
	}
	return false, false
}

// classifiedSentinels: for the error produced at site s, which sentinels are tested such that the "is" side continues
// without returning an error derived from it (break / continue / fallthrough to the next file)?
func classifiedSentinels(p *Prog, s Site) map[string]bool {
	al := errAliases(s)
	out := map[string]bool{}
	for _, b := range liveBlocks(s.Fn) {
		if len(b.Instrs) == 0 {
			continue
		}
		if _, ok := b.Instrs[len(b.Instrs)-1].(*ssa.If); !ok {
			continue
		}
		var sents map[string]bool
		var isSucc *ssa.BasicBlock
		if v, g, isS, _, ok := sentinelTest(b); ok && al[v] {
			sents, isSucc = map[string]bool{g: true}, isS
		} else if c, tS, _, ok := predicateTest(b); ok && al[stripIface(c.Call.Args[0])] {
			if m, ok := sentinelPredicate(c.Call.StaticCallee()); ok {
				sents, isSucc = m, tS
			}
		}
		if sents == nil {
			continue
		}
		// the "is" side must not lead straight to a failing return (returning what the release of the reader says is not
		// one: `return reader.Close()` reports the close, not the classified error)
		if endsInFailingReturn(isSucc) && !returnsCloseResult(isSucc, al) {
			continue
		}
		for g := range sents {
			out[g] = true
		}
	}
	return out
}

// returnsCloseResult: following jumps from b ends in a return whose error operand is the result of a Close call and does
// not carry any of the given error values.
func returnsCloseResult(b *ssa.BasicBlock, al map[ssa.Value]bool) bool {
	fn := b.Parent()
	idx := errorResultIndex(fn)
	seen := map[*ssa.BasicBlock]bool{}
	for b != nil && !seen[b] {
		seen[b] = true
		switch x := b.Instrs[len(b.Instrs)-1].(type) {
		case *ssa.Return:
			if idx < 0 || idx >= len(x.Results) {
				return false
			}
			v := x.Results[idx]
			if _, vals := returnErrOperand(x, idx); len(vals) == 1 {
				v = vals[0]
			}
			c, ok := v.(*ssa.Call)
			if !ok {
				return false
			}
			name := ""
			if c.Call.IsInvoke() {
				name = c.Call.Method.Name()
			} else if sc := c.Call.StaticCallee(); sc != nil {
				name = fnName(sc)
			}
			return name == "Close" && !valueDependsOn(v, func(y ssa.Value) bool { return al[y] })
		case *ssa.Jump:
			b = b.Succs[0]
		default:
			return false
		}
	}
	return false
}

// endsInFailingReturn follows unconditional jumps from b; true when the chain ends in a Return whose error operand is not constant nil.
func endsInFailingReturn(b *ssa.BasicBlock) bool {
	fn := b.Parent()
	idx := errorResultIndex(fn)
	seen := map[*ssa.BasicBlock]bool{}
	for !seen[b] {
		seen[b] = true
		last := b.Instrs[len(b.Instrs)-1]
		switch x := last.(type) {
		case *ssa.Return:
			k, _ := returnErrOperand(x, idx)
			return k != "nil"
		case *ssa.Jump:
			b = b.Succs[0]
		default:
			return false
		}
	}
	return false
}

// truncation error set of the recordio file reader (summary of the standard library contracts):
// io.ReadFull yields io.EOF when nothing was read and io.ErrUnexpectedEOF when the input ends early;
// binary.ReadUvarint yields io.EOF at a clean boundary and io.ErrUnexpectedEOF inside a varint.
var truncationSet = []string{"io.EOF", "io.ErrUnexpectedEOF"}

// R-torn: WAL replay classifies every truncation-class error of Open and ReadNext as end of log.
func ruleTorn(r *Report) {
	if _, done := r.RuleText["truncation-identity"]; !done {
		ruleTruncationIdentity(r)
	}
	const rule = "torn"
	r.Rule(rule, 4, "in WAL replay, each truncation-class error (io.EOF, io.ErrUnexpectedEOF) of reader.Open and reader.ReadNext reaches a non-failing continuation: a kill can leave a header-less newest file or a record cut by a buffer flush")
	p := r.P
	fn := r.NeedFunc(rule, "wal.Replayer.Replay")
	if fn == nil {
		return
	}
	// producibility facts (structural): the reader uses io.ReadFull / ReadUvarint, the writer can flush mid-record
	if rd := p.Func("recordio.FileReader.ReadNext"); rd != nil {
		reach := moduleReach(p, []*ssa.Function{rd})
		uses := false
		for _, f := range reach {
			if len(CallsIn(f, Keys("io.ReadFull", "encoding/binary.ReadUvarint"))) > 0 {
				uses = true
			}
		}
		if !uses {
			r.Note("torn: FileReader.ReadNext no longer reads through io.ReadFull/ReadUvarint; the truncation error set summary should be re-derived")
		}
	}
	for _, m := range []struct{ what, name string }{{"open", "Open"}, {"read", "ReadNext"}} {
		sites := realSites(fn, Suffix("ReaderI."+m.name, "OpenableI."+m.name, "FileReader."+m.name))
		if len(sites) == 0 {
			r.Missing(rule, fmt.Sprintf("%s/wal.Replayer.Replay/%s", rule, m.what), "no reader."+m.name+" call in Replay")
			continue
		}
		for _, s := range sites {
			cl := classifiedSentinels(p, s)
			for _, t := range truncationSet {
				key := fmt.Sprintf("%s/wal.Replayer.Replay/%s/%s", rule, m.what, t)
				if cl[t] {
					r.OK(rule, key, s.Pos(), t+" from reader."+m.name+" is classified as end of log")
				} else {
					r.Bad(rule, key, s.Pos(), t+" from reader."+m.name+" is not classified: replay fails on a file that a kill can produce")
				}
			}
		}
	}
}

// R-truncation-identity: the truncation errors that replay classifies (io.EOF / io.ErrUnexpectedEOF) must arrive
// unchanged or wrapped with %w from the low-level reads up to ReadNext / Open.
func ruleTruncationIdentity(r *Report) {
	const rule = "truncation-identity"
	r.Rule(rule, 5, "on the sequential reader's Open / ReadNext path every error of io.ReadFull, binary.ReadUvarint, ReadByte and of the header reader is returned itself or wrapped with %w (never reformatted or replaced), so errors.Is in the WAL replayer can recognise a torn tail")
	p := r.P
	ef := newErrflow(r, rule)
	ef.strictWrap = true
	ef.extraClass = map[string]map[string]bool{
		// the zero-padded tail of block-aligned files: a marker mismatch followed by zeros only is end-of-file
		"recordio.FileReader.ReadNext": {"recordio.MagicNumberMismatchErr": true},
	}
	n := 0
	for _, k := range []string{"recordio.FileReader.Open", "recordio.FileReader.ReadNext", "recordio.readRecordHeaderV4", "recordio.checksumByteReader.ReadByte", "recordio.CountingBufferedReader.ReadByte"} {
		fn := p.Func(k)
		if fn == nil || fn.Blocks == nil {
			continue
		}
		r.Saw(fn)
		eachInstr(fn, func(s Site) {
			c, ok := s.Instr.(*ssa.Call)
			if !ok {
				return
			}
			ck := CalleeKey(c)
			if !(ck == "io.ReadFull" || ck == "encoding/binary.ReadUvarint" || strings.HasSuffix(ck, ".ReadByte") || ck == "recordio.readRecordHeaderV4") {
				return
			}
			vals, hasErr, _ := errResults(c)
			if !hasErr || len(vals) == 0 {
				return
			}
			n++
			key := ef0uniq(rule + "/" + k + "/" + ck)
			v, detail := ef.explore(fn, s, vals)
			if v == Discharged {
				r.OK(rule, key, c.Pos(), "identity preserved")
			} else {
				r.Bad(rule, key, c.Pos(), "a truncation-class error loses its identity on the way up: "+detail)
			}
		})
	}
	if n == 0 {
		r.Missing(rule, rule+"/sites", "no low-level read found on the Open/ReadNext path")
	}
}

// R-partial-table: recovery must tolerate a table directory a kill can leave (created, files incomplete).
func rulePartialTable(r *Report) {
	const rule = "partial-table"
	r.Rule(rule, 1, "in reconstructSSTables the failure of NewSSTableReader on a directory reaches a failing return only behind a completeness test of that directory")
	fn := r.NeedFunc(rule, "simpledb.DB.reconstructSSTables")
	if fn == nil {
		return
	}
	for _, s := range CallsIn(fn, Keys("sstables.NewSSTableReader")) {
		key := rule + "/simpledb.DB.reconstructSSTables/sstables.NewSSTableReader"
		_, fail := errorEdges(s)
		failing := false
		for _, e := range fail {
			if endsInFailingReturn(e.To) {
				failing = true
			}
		}
		if !failing {
			r.OK(rule, key, s.Pos(), "a reader failure does not abort recovery")
			continue
		}
		// a completeness test: an If dominating the call whose condition is not the nil-test of an error from a
		// non-os call (i.e. a bool helper or a test on os.Stat's result) and one of whose edges skips the call
		guarded := false
		for _, b := range liveBlocks(fn) {
			if !dominates(b, s.Block) || b == s.Block || len(b.Instrs) == 0 {
				continue
			}
			iff, ok := b.Instrs[len(b.Instrs)-1].(*ssa.If)
			if !ok {
				continue
			}
			skips := false
			for _, su := range b.Succs {
				if !reachFrom(su, map[Edge]bool{})[s.Block] || !dominates(su, s.Block) && su != s.Block {
					skips = true
				}
			}
			if !skips {
				continue
			}
			if v, _, _, ok := nilTest(b); ok && isErrorType(v.Type()) {
				src := errSource(v)
				if strings.HasPrefix(src, "os.") {
					guarded = true
				}
				continue
			}
			if c, ok := iff.Cond.(*ssa.Call); ok && c.Call.StaticCallee() != nil && inModule(c.Call.StaticCallee()) {
				guarded = true
			}
		}
		if guarded {
			r.OK(rule, key, s.Pos(), "guarded by a completeness test")
		} else if why := atomicTablePublish(r.P); why != "" {
			r.OK(rule, key, s.Pos(), "tables become visible to recovery only by a rename of a completed directory: "+why)
		} else {
			r.Bad(rule, key, s.Pos(), "a table directory without complete files (kill between MkdirAll and the writer's Close) makes Open fail: no completeness test precedes NewSSTableReader and its error is returned")
		}
	}
}

// errSource: callee key of the call that produced error value v (through Extract / cell loads), "" if unknown.
func errSource(v ssa.Value) string {
	seen := map[ssa.Value]bool{}
	for v != nil && !seen[v] {
		seen[v] = true
		switch x := v.(type) {
		case *ssa.Extract:
			v = x.Tuple
		case *ssa.Call:
			return CalleeKey(x)
		case *ssa.UnOp:
			if x.Op == token.MUL && isCell(x.X) {
				vals, _ := reachingStores(x)
				if len(vals) == 1 {
					v = vals[0]
					continue
				}
			}
			return ""
		default:
			return ""
		}
	}
	return ""
}

// ---------- E-NAMES ----------

var fixedWidthVerb = regexp.MustCompile(`^[^%]*%0(\d+)d[^%]*$`)

// stringConst resolves a string constant value.
func stringConst(v ssa.Value) (string, bool) {
	c, ok := v.(*ssa.Const)
	if !ok || c.Value == nil || c.Value.Kind() != constant.String {
		return "", false
	}
	return constant.StringVal(c.Value), true
}

// R-names: numbered file/directory names are zero-padded fixed width, and collected names are sorted before use.
func ruleNames(r *Report, which []string) {
	const rule = "names"
	r.Rule(rule, len(which), "names that encode age are fixed-width zero-padded (lexicographic order = numeric order), and every listing is sorted before it is consumed")
	p := r.P
	for _, w := range which {
		switch w {
		case "sstable-format", "wal-format":
			// anchored semantically: every fmt.Sprintf of the package whose constant format names an age-ordered
			// artefact (table directory / WAL file), wherever a refactoring puts it
			pkg, marker := "simpledb", "sstable"
			if w == "wal-format" {
				pkg, marker = "wal", ".wal"
			}
			key := rule + "/" + pkg + "/" + w
			found := 0
			for _, fn := range p.FuncsOfPkg(pkg) {
				for _, s := range CallsIn(fn, Keys("fmt.Sprintf")) {
					f, ok := stringConst(s.Call().Common().Args[0])
					if !ok {
						// the format kept in a field that only ever gets one constant
						if ty, fld, _, isF := loadOfField(s.Call().Common().Args[0]); isF {
							vals := map[string]bool{}
							all := true
							for _, g := range p.ModuleFuncs() {
								eachInstr(g, func(t Site) {
									st, isS := t.Instr.(*ssa.Store)
									if !isS {
										return
									}
									if ty2, fld2, _, isF2 := fieldAddrName(st.Addr); isF2 && ty2 == ty && fld2 == fld {
										if c, isC := stringConst(st.Val); isC {
											vals[c] = true
										} else {
											all = false
										}
									}
								})
							}
							if all && len(vals) == 1 {
								for c := range vals {
									f, ok = c, true
								}
							}
						}
					}
					if !ok || !strings.Contains(f, marker) || !strings.Contains(f, "%") {
						continue
					}
					found++
					r.Saw(fn)
					m := fixedWidthVerb.FindStringSubmatch(f)
					width := 0
					if m != nil {
						fmt.Sscanf(m[1], "%d", &width)
					}
					if m == nil || width < 6 {
						r.Bad(rule, key, s.Pos(), fmt.Sprintf("format %q is not literal text plus one zero-padded fixed-width decimal verb (%%0Nd, N>=6): names stop sorting in age order", f))
					} else {
						r.OK(rule, key, s.Pos(), fmt.Sprintf("format %q", f))
					}
				}
			}
			if found == 0 {
				r.Missing(rule, key, "no fmt.Sprintf with a constant format containing "+marker+" in package "+pkg)
			}
		case "sorted-recovery", "sorted-compaction", "sorted-replay":
			fk := map[string]string{"sorted-recovery": "simpledb.DB.reconstructSSTables", "sorted-compaction": "simpledb.executeCompaction", "sorted-replay": "wal.Replayer.Replay"}[w]
			fn := r.NeedFunc(rule, fk)
			if fn == nil {
				continue
			}
			ruleSortedBeforeUse(r, rule, fn)
		}
	}
	_ = p
}

// ruleSortedBeforeUse: the slice handed to sort.Strings is not indexed/ranged for consumption before the sort,
// and the consuming loop (the one creating readers) is dominated by the sort.
func ruleSortedBeforeUse(r *Report, rule string, fn *ssa.Function) {
	key := rule + "/" + FuncKey(fn) + "/sort.Strings"
	sorts := CallsIn(fn, Keys("sort.Strings", "slices.Sort", "sort.Sort"))
	if len(sorts) == 0 {
		r.Bad(rule, key, fn.Pos(), "the collected paths are never sorted: the file system's listing order decides table age / replay order")
		return
	}
	// consumers: calls that open a reader for an element
	cons := CallsIn(fn, func(k string) bool {
		return k == "sstables.NewSSTableReader" || strings.HasSuffix(k, "Options.readerFactory") || k == "simpledb.SSTableManager.addReader"
	})
	// dynamic call through the readerFactory field
	eachInstr(fn, func(s Site) {
		if c, ok := s.Instr.(*ssa.Call); ok && CalleeKey(c) == "" {
			if _, f, _, ok := loadOfField(c.Call.Value); ok && f == "readerFactory" {
				cons = append(cons, s)
			}
		}
	})
	// … or in a helper that was extracted since: its call stands for the construction
	eachInstr(fn, func(s Site) {
		c, ok := s.Instr.(*ssa.Call)
		if !ok {
			return
		}
		sc := c.Call.StaticCallee()
		if sc == nil || !isFresh(sc) {
			return
		}
		for _, g := range append([]*ssa.Function{sc}, moduleReach(r.P, []*ssa.Function{sc})...) {
			if g != sc && !isFresh(g) {
				continue
			}
			hit := false
			eachInstr(g, func(t Site) {
				if d, ok := t.Instr.(*ssa.Call); ok && CalleeKey(d) == "" {
					if _, f, _, ok := loadOfField(d.Call.Value); ok && f == "readerFactory" {
						hit = true
					}
				}
			})
			if hit {
				s.Lifted = true
				cons = append(cons, s)
				return
			}
		}
	})
	if len(cons) == 0 {
		r.Missing(rule, key, "no consumer (reader construction) found after the sort in "+FuncKey(fn))
		return
	}
	for _, c := range cons {
		ok := false
		for _, s := range sorts {
			if precedes(s, c) {
				ok = true
			}
		}
		if !ok {
			r.Bad(rule, key, c.Pos(), "a reader is constructed from the listing before it was sorted")
			return
		}
	}
	r.OK(rule, key, sorts[0].Pos(), fmt.Sprintf("sort dominates %d consumer site(s)", len(cons)))
}

// ---------- rotation ----------

func ruleRotate(r *Report) {
	const rule = "rotate"
	r.Rule(rule, 5, "WAL rotation closes (flushes) the old file before the next one is created; a failed creation of the next file leaves the appender as it was; the memstore is handed to the flusher only after a successful rotation; both append flavours check size/rotate before writing")
	p := r.P
	o := &order{r, p}
	if fn := r.NeedFunc(rule, "wal.Appender.Rotate"); fn != nil {
		A := CallsIn(fn, Suffix("WriterI.Close", "CloseableI.Close", "FileWriter.Close"))
		B := CallsIn(fn, Keys("wal.setupNextWriter"))
		o.OnlyAfterSuccess(rule, rule+"/wal.Appender.Rotate/close-before-next", fn, "currentWriter.Close", A, "setupNextWriter", B, nil)
	}
	// every other caller of setupNextWriter replaces the current writer too: it must have closed it, unless the
	// appender is being constructed (allocated in the calling function)
	for _, fn := range p.ModuleFuncs() {
		if FuncKey(fn) == "wal.Appender.Rotate" || fn.Blocks == nil {
			continue
		}
		B := CallsIn(fn, Keys("wal.setupNextWriter"))
		if len(B) == 0 {
			continue
		}
		fresh := true
		for _, b := range B {
			// the appender: first argument, or the receiver where the helper is a method
			args := b.Call().Common().Args
			if len(args) == 0 {
				fresh = false
				continue
			}
			if _, isAlloc := args[0].(*ssa.Alloc); !isAlloc {
				fresh = false
			}
		}
		key := rule + "/" + FuncKey(fn) + "/close-before-next"
		if fresh {
			r.OK(rule, key, fn.Pos(), "first writer of a freshly allocated appender")
			continue
		}
		A := CallsIn(fn, Suffix("WriterI.Close", "CloseableI.Close", "FileWriter.Close"))
		o.OnlyAfterSuccess(rule, key, fn, "currentWriter.Close", A, "setupNextWriter", B, nil)
	}
	// a rotation that fails leaves the appender as it was: the current writer, its path and the next number change only
	// once the next file is created and open. A path that is set in front of that names a file that does not exist (or an
	// empty one) when the creation fails; the next attempt takes it for the file it has just closed and hands it to the
	// flusher, which removes every log file up to that name — including the one that holds the unflushed records.
	if fn := p.Func("wal.setupNextWriter"); fn != nil {
		key := rule + "/wal.setupNextWriter/state-after-success"
		idx := errorResultIndex(fn)
		bad := ""
		n := 0
		eachInstr(fn, func(s Site) {
			st, ok := s.Instr.(*ssa.Store)
			if !ok {
				return
			}
			typ, fld, _, isF := fieldAddrName(st.Addr)
			if !isF || typ != "wal.Appender" || (fld != "currentWriter" && fld != "currentWriterPath" && fld != "nextWriterNumber") {
				return
			}
			n++
			for _, rs := range returnsOf(fn) {
				if k, _ := returnErrOperand(rs.Instr.(*ssa.Return), idx); k == "nil" {
					continue
				}
				if reachableFromSite(s, rs) {
					bad = fmt.Sprintf("%s is assigned at %s and the function can still fail at %s", fld, p.Pos(s.Pos()), p.Pos(rs.Pos()))
				}
			}
		})
		if n == 0 {
			r.Unk(rule, key, fn.Pos(), "no assignment of the appender's current writer found")
		} else if bad != "" {
			r.Bad(rule, key, fn.Pos(), "the appender's state is changed before the next file is created and open ("+bad+"): after a failed rotation (disk full, EMFILE) the appender names a file that was never written while it still holds the old, closed writer; the retry reports that name as the file it closed, and the flusher removes the log files up to it — the rejected Put's retry succeeds, a crash after it loses acknowledged records")
		} else {
			r.OK(rule, key, fn.Pos(), fmt.Sprintf("%d assignment(s) of the appender's writer state, none in front of a failing exit", n))
		}
	}
	// Rotate hands back the path of the file it closed: the flusher deletes every WAL file up to that name
	if fn := p.Func("wal.Appender.Rotate"); fn != nil {
		key := rule + "/wal.Appender.Rotate/returns-closed-path"
		// call sites in Rotate that (transitively) rewrite currentWriterPath
		var rewriters []Site
		eachInstr(fn, func(s Site) {
			c, ok := s.Instr.(ssa.CallInstruction)
			if !ok {
				return
			}
			var roots []*ssa.Function
			for _, cal := range p.Callees(c) {
				roots = append(roots, cal)
			}
			for _, g := range moduleReach(p, roots) {
				eachInstr(g, func(t Site) {
					if st, ok := t.Instr.(*ssa.Store); ok {
						if typ, fld, _, ok := fieldAddrName(st.Addr); ok && typ == "wal.Appender" && fld == "currentWriterPath" {
							rewriters = append(rewriters, s)
						}
					}
				})
			}
		})
		bad := ""
		nret := 0
		for _, rs := range nilReturns(fn) {
			ret := rs.Instr.(*ssa.Return)
			if len(ret.Results) == 0 {
				continue
			}
			nret++
			v := ret.Results[0]
			var loads []ssa.Value
			if u, ok := v.(*ssa.UnOp); ok && u.Op == token.MUL && isCell(u.X) {
				vals, unk := reachingStores(u)
				if unk {
					bad = "the returned path cannot be traced"
				}
				loads = vals
			} else {
				loads = []ssa.Value{v}
			}
			for _, l := range loads {
				typ, fld, _, ok := loadOfField(l)
				ins, isIns := l.(ssa.Instruction)
				if !ok || !isIns || typ != "wal.Appender" || fld != "currentWriterPath" {
					bad = "the returned path is not the appender's current writer path read before the rotation"
					continue
				}
				ls := Site{Fn: fn, Block: ins.Block(), Idx: indexIn(ins)}
				ls.Instr = ins
				for _, w := range rewriters {
					if w.Fn == fn && (reachableFromSite(w, ls) || (w.Block == ls.Block && w.Idx < ls.Idx)) {
						bad = "the returned path is read after " + siteDesc(p, w) + " replaced it: Rotate returns the name of the NEW file, and the flusher deletes every WAL file up to that name, including the one being appended to"
					}
				}
			}
		}
		if len(rewriters) == 0 {
			r.Missing(rule, key, "no call in Rotate rewrites currentWriterPath")
		} else if nret == 0 {
			r.Missing(rule, key, "Rotate has no success return")
		} else if bad != "" {
			r.Bad(rule, key, fn.Pos(), bad)
		} else {
			r.OK(rule, key, fn.Pos(), "success returns the path read before the next writer is set up")
		}
	}
	if fn := r.NeedFunc(rule, "simpledb.DB.rotateWalAndFlushMemstore"); fn != nil {
		A := CallsIn(fn, Suffix("WriteAheadLogAppendI.Rotate", "Appender.Rotate"))
		var B []Site
		eachInstr(fn, func(s Site) {
			if _, ok := s.Instr.(*ssa.Send); ok {
				B = append(B, s)
			}
		})
		o.OnlyAfterSuccess(rule, rule+"/simpledb.DB.rotateWalAndFlushMemstore/rotate-before-handoff", fn, "wal.Rotate", A, "the hand-off send", B, nil)
	}
	for _, k := range []string{"wal.Appender.Append", "wal.Appender.AppendSync"} {
		if fn := r.NeedFunc(rule, k); fn != nil {
			A := CallsIn(fn, Keys("wal.checkSizeAndRotate"))
			B := CallsIn(fn, Suffix("WriterI.Write", "WriterI.WriteSync"))
			o.OnlyAfterSuccess(rule, rule+"/"+k+"/size-check-before-write", fn, "checkSizeAndRotate", A, "the write", B, nil)
		}
	}
	// FileWriter.Close flushes before closing the file, truncates lingering bytes in between
	if fn := r.NeedFunc(rule, "recordio.FileWriter.Close"); fn != nil {
		F := CallsIn(fn, Suffix("WriteSeekerCloserFlusher.Flush", "Writer.Flush"))
		C := CallsIn(fn, Keys("os.File.Close"))
		o.OnlyAfterSuccess(rule, rule+"/recordio.FileWriter.Close/flush-before-close", fn, "Flush", F, "file.Close", onSuccessPath(fn, C), nil)
	}
}

// ---------- recovery (C10) ----------

func ruleWalDirAfterFlush(r *Report) {
	const rule = "wal-dir-after-flush"
	r.Rule(rule, 1, "recovery removes the WAL directory only after the replayed memstore was flushed successfully, or when nothing was replayed")
	fn := r.NeedFunc(rule, "simpledb.DB.replayAndSetupWriteAheadLog")
	if fn == nil {
		return
	}
	o := &order{r, r.P}
	A := CallsIn(fn, Keys("simpledb.executeFlush"))
	R := CallsIn(fn, Suffix("WriteAheadLogReplayI.Replay", "Replayer.Replay"))
	B := walDirRemovals(r.P, fn)
	// guard edge: the branch around the flush taken when no record was replayed. It is the If on which the
	// executeFlush call is control dependent: the edge that does not lead to the flush.
	var guards []Edge
	for _, a := range A {
		for _, b := range liveBlocks(fn) {
			if len(b.Instrs) == 0 {
				continue
			}
			if _, ok := b.Instrs[len(b.Instrs)-1].(*ssa.If); !ok {
				continue
			}
			if dominates(b, a.Block) {
				t0 := b.Succs[0] == a.Block || dominates(b.Succs[0], a.Block)
				t1 := b.Succs[1] == a.Block || dominates(b.Succs[1], a.Block)
				// only the nearest such If whose condition is a comparison of a counter with a constant
				iff := b.Instrs[len(b.Instrs)-1].(*ssa.If)
				if bo, ok := iff.Cond.(*ssa.BinOp); ok {
					_, c1 := constInt(bo.X)
					_, c2 := constInt(bo.Y)
					if (c1 || c2) && t0 != t1 {
						if t0 {
							guards = append(guards, Edge{b, b.Succs[1]})
						} else {
							guards = append(guards, Edge{b, b.Succs[0]})
						}
					}
				}
			}
		}
	}
	o.OnlyAfterSuccess(rule, rule+"/simpledb.DB.replayAndSetupWriteAheadLog/os.RemoveAll", fn, "executeFlush", A, "removing the WAL directory", B, guards)
	o.OnlyAfterSuccess(rule, rule+"/simpledb.DB.replayAndSetupWriteAheadLog/remove-after-replay", fn, "Replay", R, "removing the WAL directory", B, nil)
}

// R-idempotent: recovery uses only repeatable destructive primitives.
func ruleIdempotent(r *Report) {
	const rule = "idempotent"
	r.Rule(rule, 4, "code reachable from Open before the goroutines start calls only idempotent destructive primitives (RemoveAll, MkdirAll, Rename onto a cleared target); os.Remove/os.Mkdir only where a constant guard keeps them off the recovery path")
	p := r.P
	open := r.NeedFunc(rule, "simpledb.DB.Open")
	if open == nil {
		return
	}
	var roots []*ssa.Function
	eachInstr(open, func(s Site) {
		if c, ok := s.Instr.(*ssa.Call); ok {
			for _, t := range p.Callees(c) {
				if inModule(t) {
					roots = append(roots, t)
				}
			}
		}
	})
	scope := moduleReach(p, roots)
	n := 0
	for _, fn := range scope {
		pk := fnPkg(fn)
		if pk == nil || shortPkg(pk.Path()) != "simpledb" {
			continue
		}
		r.Saw(fn)
		for _, s := range CallsIn(fn, Keys("os.Remove", "os.Mkdir", "os.RemoveAll", "os.MkdirAll", "os.Rename")) {
			n++
			ck := CalleeKey(s.Call())
			key := ef0uniq(fmt.Sprintf("%s/%s/%s", rule, FuncKey(fn), ck))
			switch ck {
			case "os.RemoveAll", "os.MkdirAll":
				r.OK(rule, key, s.Pos(), "idempotent primitive")
			case "os.Rename":
				tgt := s.Call().Common().Args[1]
				ok := false
				for _, b := range CallsIn(fn, Keys("os.RemoveAll")) {
					if precedes(b, s) && b.Call().Common().Args[0] == tgt {
						ok = true
					}
				}
				if !ok && tableNamePath(tgt) && freshGenerationName(tgt) {
					ok = true
				}
				if ok {
					r.OK(rule, key, s.Pos(), "rename target cleared first (or a name built from a fresh generation number)")
				} else {
					r.Bad(rule, key, s.Pos(), "os.Rename during recovery onto a target that was not cleared with RemoveAll first: a repeated attempt fails")
				}
			default:
				// os.Remove / os.Mkdir: allowed only if guarded by a condition that is constant-false on every
				// recovery call path (walPath != "" with the recovery literal leaving walPath zero)
				listed := false
				if ck == "os.Remove" {
					// the name comes from a listing this attempt has just made: what a killed attempt has removed is not
					// in it any more
					listed = valueDependsOn(s.Call().Common().Args[0], func(x ssa.Value) bool {
						c, isC := x.(*ssa.Call)
						if !isC {
							return false
						}
						if c.Call.IsInvoke() && c.Call.Method.Name() == "Name" {
							return valueDependsOn(c.Call.Value, func(y ssa.Value) bool {
								l, isL := y.(*ssa.Call)
								return isL && CalleeKey(l) == "os.ReadDir"
							})
						}
						return false
					})
				}
				if listed {
					r.OK(rule, key, s.Pos(), "removes an entry of the listing made by this attempt")
				} else if guardedOffRecoveryLifted(p, fn, s, 0) {
					r.OK(rule, key, s.Pos(), "guarded by walPath != \"\"; the recovery call site passes a literal without walPath")
				} else {
					r.Bad(rule, key, s.Pos(), ck+" is not repeatable: a second recovery attempt after a kill fails on it")
				}
			}
		}
	}
	if n == 0 {
		r.Missing(rule, rule+"/sites", "no destructive file-system primitive found on the recovery path")
	}
	// listing a directory fails once the directory is gone: on the recovery path a listing is repeatable only when the
	// directory was (re)created before it on the same path of the caller, or its absence is tolerated
	inScope := map[*ssa.Function]bool{}
	for _, f := range scope {
		inScope[f] = true
	}
	for _, fn := range scope {
		pk := fnPkg(fn)
		if pk == nil || shortPkg(pk.Path()) != "simpledb" {
			continue
		}
		for _, s := range CallsIn(fn, Keys("os.ReadDir")) {
			// absence tolerated?
			tolerated := false
			for _, b := range liveBlocks(fn) {
				if _, g, _, _, ok := sentinelTest(b); ok && (g == "io/fs.ErrNotExist" || g == "os.ErrNotExist") {
					tolerated = true
				}
			}
			tolerated = tolerated || len(CallsIn(fn, Keys("os.IsNotExist"))) > 0
			type use struct {
				at   Site
				path ssa.Value
				in   *ssa.Function
			}
			var uses []use
			arg := s.Call().Common().Args[0]
			if po := paramOrigin(arg); po != nil && po.Parent() == fn {
				idx := -1
				for i, pr := range fn.Params {
					if pr == po {
						idx = i
					}
				}
				for _, cs := range p.CallSitesOf(fn) {
					if !inScope[cs.Fn] || idx < 0 {
						continue
					}
					uses = append(uses, use{cs, cs.Instr.(ssa.CallInstruction).Common().Args[idx], cs.Fn})
				}
			} else {
				uses = append(uses, use{s, arg, fn})
			}
			for _, u := range uses {
				key := ef0uniq(fmt.Sprintf("%s/%s/os.ReadDir", rule, FuncKey(u.in)))
				created := false
				for _, mk := range CallsIn(u.in, Keys("os.MkdirAll")) {
					if mk.Call().Common().Args[0] == u.path && precedes(mk, u.at) {
						created = true
					}
				}
				if guardedOffRecoveryLifted(p, fn, s, 0) {
					r.OK(rule, key, u.at.Pos(), "guarded by walPath != \"\"; the recovery call site passes a literal without walPath")
				} else if created || tolerated {
					r.OK(rule, key, u.at.Pos(), "the directory that is listed was created before on this path (or its absence is tolerated)")
				} else {
					r.Bad(rule, key, u.at.Pos(), "a directory is listed (os.ReadDir, error returned) that a previous, killed attempt may have removed already: once an attempt has fully removed it, every later Open fails with 'no such file or directory' — the database stays unopenable")
				}
			}
		}
	}
}

var ef0count = map[string]int{}

func ef0uniq(k string) string {
	ef0count[k]++
	if n := ef0count[k]; n > 1 {
		return fmt.Sprintf("%s#%d", k, n)
	}
	return k
}

// guardedOffRecoveryLifted: the site is guarded off the recovery path in its own function, or every call site of its
// function is (helpers such as removeWalFilesUpTo are only called under the walPath != "" guard).
func guardedOffRecoveryLifted(p *Prog, fn *ssa.Function, s Site, depth int) bool {
	if guardedOffRecovery(p, fn, s) {
		return true
	}
	if depth > 2 {
		return false
	}
	n := 0
	for _, caller := range p.FuncsOfPkg("simpledb") {
		for _, cs := range CallsIn(caller, Keys(FuncKey(fn))) {
			n++
			if !guardedOffRecoveryLifted(p, caller, cs, depth+1) {
				return false
			}
		}
	}
	return n > 0
}

// guardedOffRecovery: site s (in executeFlush) is control dependent on `X != ""` where X is the walPath field of the
// flush-action parameter, and every caller reachable from Open passes a composite literal that does not set walPath.
func guardedOffRecovery(p *Prog, fn *ssa.Function, s Site) bool {
	// find guard edges: If on BinOp(NEQ/EQL, load field walPath, "")
	isWalPath := func(v ssa.Value) bool {
		if f, ok := v.(*ssa.Field); ok {
			st, _ := f.X.Type().Underlying().(*types.Struct)
			return st != nil && refField(f.X.Type(), f.Field) == "walPath"
		}
		_, fld, _, ok := loadOfField(v)
		return ok && fld == "walPath"
	}
	tE, fE := condEdges(fn, func(c ssa.Value) bool {
		bo, ok := c.(*ssa.BinOp)
		if !ok || (bo.Op != token.NEQ && bo.Op != token.EQL) {
			return false
		}
		sx, okx := stringConst(bo.X)
		sy, oky := stringConst(bo.Y)
		return (okx && sx == "" && isWalPath(bo.Y)) || (oky && sy == "" && isWalPath(bo.X))
	})
	if len(tE)+len(fE) == 0 {
		return false
	}
	// the site must be unreachable when the "non-empty" edges are removed
	removed := map[Edge]bool{}
	for _, b := range liveBlocks(fn) {
		if len(b.Instrs) == 0 {
			continue
		}
		iff, ok := b.Instrs[len(b.Instrs)-1].(*ssa.If)
		if !ok {
			continue
		}
		bo, ok := iff.Cond.(*ssa.BinOp)
		if !ok {
			continue
		}
		if bo.Op == token.NEQ {
			removed[Edge{b, b.Succs[0]}] = true
		} else if bo.Op == token.EQL {
			removed[Edge{b, b.Succs[1]}] = true
		}
	}
	// restrict removed to guard edges only
	guard := map[Edge]bool{}
	for _, e := range append(tE, fE...) {
		if removed[e] {
			guard[e] = true
		}
	}
	if siteReachable(s, guard) {
		return false
	}
	// recovery callers: in functions reachable from Open (before goroutines) calls of fn pass a literal without walPath
	ok := false
	for _, caller := range p.FuncsOfPkg("simpledb") {
		for _, cs := range CallsIn(caller, Keys(FuncKey(fn))) {
			if FuncKey(caller) == "simpledb.flushMemstoreContinuously" || strings.HasPrefix(FuncKey(caller), "simpledb.flushMemstoreContinuously$") {
				continue // the live flusher, not part of recovery
			}
			// argument: load of an Alloc'ed struct literal; no store to its walPath field
			for _, a := range cs.Call().Common().Args {
				if u, isU := a.(*ssa.UnOp); isU && u.Op == token.MUL {
					if al, isA := u.X.(*ssa.Alloc); isA {
						st := derefStruct(al.Type())
						if st == nil {
							continue
						}
						sets := false
						for _, rf := range *al.Referrers() {
							if fa, isF := rf.(*ssa.FieldAddr); isF && refField(fa.X.Type(), fa.Field) == "walPath" {
								for _, rr := range *fa.Referrers() {
									if _, isS := rr.(*ssa.Store); isS {
										sets = true
									}
								}
							}
						}
						if !sets {
							ok = true
						} else {
							return false
						}
					}
				}
			}
		}
	}
	return ok
}

// R-apply-before-rotate: within one logged operation the memstore mutation precedes any rotation, so the record and
// its effect belong to the same WAL segment / memstore generation.
func ruleApplyBeforeRotate(r *Report) {
	const rule = "apply-before-rotate"
	r.Rule(rule, 1, "in a function that logs a mutation and may rotate the WAL/memstore, no rotation is reachable between the successful WAL append and the memstore mutation (otherwise the record sits in the old segment, which the flusher deletes, while its effect lives only in the new memstore)")
	p := r.P
	n := 0
	for _, fn := range loggingFuncs(p) {
		rot := CallsIn(fn, Keys("simpledb.DB.rotateWalAndFlushMemstore"))
		// … or a call of a module helper that rotates
		eachInstr(fn, func(s Site) {
			c, ok := s.Instr.(*ssa.Call)
			if !ok {
				return
			}
			sc := c.Call.StaticCallee()
			if sc == nil || !inModule(sc) || FuncKey(sc) == "simpledb.DB.rotateWalAndFlushMemstore" {
				return
			}
			if pk := fnPkg(sc); pk == nil || shortPkg(pk.Path()) != "simpledb" {
				return
			}
			for _, g := range moduleReach(p, []*ssa.Function{sc}) {
				if len(CallsIn(g, Keys("simpledb.DB.rotateWalAndFlushMemstore"))) > 0 {
					rot = append(rot, s)
					return
				}
			}
		})
		if len(rot) == 0 {
			continue
		}
		n++
		r.Saw(fn)
		muts := CallsIn(fn, memMutate)
		key := rule + "/" + FuncKey(fn)
		bad := false
		for _, a := range CallsIn(fn, walAnyAppend) {
			succ, _ := errorEdges(a)
			removed := map[Edge]bool{}
			for _, m := range muts {
				for _, su := range m.Block.Succs {
					removed[Edge{m.Block, su}] = true
				}
			}
			for _, e := range succ {
				reach := reachFrom(e.To, removed)
				for _, ro := range rot {
					after := false
					for _, m := range muts {
						if m.Block == ro.Block && m.Idx < ro.Idx {
							after = true
						}
					}
					if reach[ro.Block] && !after {
						bad = true
					}
				}
			}
		}
		if bad {
			r.Bad(rule, key, rot[0].Pos(), "the rotation can run after the WAL append but before the memstore mutation: the acknowledged write's log record is deleted with the old segment while its effect exists only in memory")
		} else {
			r.OK(rule, key, rot[0].Pos(), "rotation only after the mutation was applied")
		}
		// the rotation replaces DB.memStore: what is read from the field in front of the rotation is the store that was
		// handed to the flusher when it is used behind it — a mutation applied to it is acknowledged, logged in the new
		// WAL file, and lives in a store that is written out and dropped without it
		skey := key + "/memstore-read-after-rotation"
		stale := ""
		eachInstr(fn, func(l Site) {
			ld, ok := l.Instr.(*ssa.UnOp)
			if !ok || ld.Op != token.MUL {
				return
			}
			if ty, fld, _, isF := fieldAddrName(ld.X); !isF || ty != "simpledb.DB" || fld != "memStore" {
				return
			}
			for _, ro := range rot {
				if !reachableFromSite(l, ro) {
					continue
				}
				// a use of the loaded pointer that the rotation can reach
				uses := map[ssa.Value]bool{ld: true}
				for changed := true; changed; {
					changed = false
					eachInstr(fn, func(u Site) {
						if ph, isPhi := u.Instr.(*ssa.Phi); isPhi && !uses[ph] {
							for _, e := range ph.Edges {
								if uses[e] {
									uses[ph] = true
									changed = true
								}
							}
						}
					})
				}
				eachInstr(fn, func(u Site) {
					ci, isC := u.Instr.(ssa.CallInstruction)
					if !isC || u.Instr == ro.Instr {
						return
					}
					for _, a := range ci.Common().Args {
						if uses[a] && reachableFromSite(ro, u) {
							stale = fmt.Sprintf("DB.memStore is read at %s, the rotation at %s replaces it, and the value read before is used at %s", p.Pos(l.Pos()), p.Pos(ro.Pos()), p.Pos(u.Pos()))
						}
					}
				})
			}
		})
		if stale != "" {
			r.Bad(rule, skey, rot[0].Pos(), "the memstore pair is taken from the database in front of a rotation and used behind it ("+stale+"): a Put that triggers the rotation goes into the store that is being flushed — it is acknowledged and logged in the new WAL file, a Get after the flush does not find it, and only a restart brings it back")
		} else {
			r.OK(rule, skey, rot[0].Pos(), "nothing read from DB.memStore in front of the rotation is used behind it")
		}
	}
	if n == 0 {
		r.Missing(rule, rule+"/sites", "no logging function rotates the WAL")
	}
}

// R-finish-only-verified-flag: recovery rolls a compaction forward only when its flag file was read successfully.
func ruleFinishOnlyVerified(r *Report) {
	const rule = "finish-only-verified-flag"
	r.Rule(rule, 1, "recovery queues a compaction for roll-forward (which deletes the inputs) only on the success edge of reading the metadata record from its flag file")
	p := r.P
	found := false
	isGrow := func(s Site) bool {
		st, ok := s.Instr.(*ssa.Store)
		if !ok || !isCell(st.Addr) {
			return false
		}
		if c, ok := st.Val.(*ssa.Call); ok && CalleeKey(c) == "builtin.append" {
			if sl, ok := c.Type().Underlying().(*types.Slice); ok && strings.HasSuffix(typeShort(sl.Elem()), "CompactionMetadata") {
				return true
			}
		}
		return false
	}
	root := p.Func("simpledb.DB.repairCompactions")
	var scope []*ssa.Function
	if root != nil {
		for _, fn := range moduleReach(p, closuresOf(root)) {
			if pk := fnPkg(fn); pk != nil && shortPkg(pk.Path()) == "simpledb" {
				scope = append(scope, fn)
			}
		}
	}
	for _, fn := range scope {
		var grows []Site
		eachInstr(fn, func(s Site) {
			if isGrow(s) {
				grows = append(grows, s)
			}
		})
		rd := CallsIn(fn, Suffix("ReaderI.ReadNext"))
		o := &order{r, p}
		switch {
		case len(grows) > 0 && len(rd) > 0:
			found = true
			r.Saw(fn)
			o.OnlyAfterSuccess(rule, rule+"/"+FuncKey(fn), fn, "reading the flag record", rd, "queueing the compaction for roll-forward", grows, nil)
			o2 := CallsIn(fn, Suffix("OpenableI.Open", "ReaderI.Open"))
			o.OnlyAfterSuccess(rule, rule+"/"+FuncKey(fn)+"/after-open", fn, "opening the flag file", o2, "queueing the compaction for roll-forward", grows, nil)
		case len(grows) > 0:
			// the record is read by a helper: queueing only on the success edge of that helper's call …
			var helperCalls []Site
			var helpers []*ssa.Function
			eachInstr(fn, func(s Site) {
				c, ok := s.Instr.(*ssa.Call)
				if !ok {
					return
				}
				sc := c.Call.StaticCallee()
				if sc == nil || !inModule(sc) {
					return
				}
				for _, g := range moduleReach(p, []*ssa.Function{sc}) {
					if len(CallsIn(g, Suffix("ReaderI.ReadNext"))) > 0 {
						helperCalls = append(helperCalls, s)
						helpers = append(helpers, sc)
						return
					}
				}
			})
			if len(helperCalls) == 0 {
				continue
			}
			found = true
			r.Saw(fn)
			o.OnlyAfterSuccess(rule, rule+"/"+FuncKey(fn), fn, "reading the flag record (helper)", helperCalls, "queueing the compaction for roll-forward", grows, nil)
			// … and the helper succeeds only after it opened the file and read the record
			for _, h := range helpers {
				r.Saw(h)
				hrd := CallsIn(h, Suffix("ReaderI.ReadNext"))
				hop := CallsIn(h, Suffix("OpenableI.Open", "ReaderI.Open"))
				o.OnlyAfterSuccess(rule, rule+"/"+FuncKey(h)+"/success-after-read", h, "reading the flag record", hrd, "returning success", nilReturns(h), nil)
				o.OnlyAfterSuccess(rule, rule+"/"+FuncKey(h)+"/after-open", h, "opening the flag file", hop, "returning success", nilReturns(h), nil)
			}
		}
	}
	if !found {
		r.Missing(rule, rule+"/repairCompactions", "flag read not found in repairCompactions")
	}
	// … and the two verdicts exclude each other: nothing fallible may still run (a deferred Close of the flag file that
	// writes the function's error) after a folder was queued for roll-forward, otherwise the same folder is also queued
	// for deletion — the output is deleted first and the inputs after it
	for _, fn := range p.FuncsOfPkg("simpledb") {
		if !strings.HasPrefix(FuncKey(fn), "simpledb.DB.repairCompactions") {
			continue
		}
		var grows, dels []Site
		eachInstr(fn, func(s Site) {
			st, ok := s.Instr.(*ssa.Store)
			if !ok || !isCell(st.Addr) {
				return
			}
			if c, ok := st.Val.(*ssa.Call); ok && CalleeKey(c) == "builtin.append" {
				if sl, ok := c.Type().Underlying().(*types.Slice); ok {
					if strings.HasSuffix(typeShort(sl.Elem()), "CompactionMetadata") {
						grows = append(grows, s)
					} else if bt, isB := sl.Elem().Underlying().(*types.Basic); isB && bt.Kind() == types.String {
						dels = append(dels, s)
					}
				}
			}
		})
		if len(grows) > 0 {
			key := rule + "/" + FuncKey(fn) + "/verdicts-exclusive"
			late := ""
			eachInstr(fn, func(s Site) {
				d, ok := s.Instr.(*ssa.Defer)
				if !ok {
					return
				}
				var lit *ssa.Function
				if mc, isMC := d.Call.Value.(*ssa.MakeClosure); isMC {
					lit, _ = mc.Fn.(*ssa.Function)
				} else if f, isF := d.Call.Value.(*ssa.Function); isF {
					lit = f
				}
				if lit == nil {
					return
				}
				eachInstr(lit, func(t Site) {
					if st, isSt := t.Instr.(*ssa.Store); isSt && isErrorType(st.Val.Type()) {
						if _, isFree := st.Addr.(*ssa.FreeVar); isFree {
							late = p.Pos(d.Pos())
						}
					}
				})
			})
			if late != "" {
				r.Bad(rule, key, grows[0].Pos(), "the folder is queued for roll-forward inside a function whose deferred call (registered at "+late+") can still turn its result into an error: when closing the flag file fails (EIO), the same folder is queued for deletion as well — recovery deletes the compaction's output, then all of its inputs, and the rename fails: three tables and the compaction folder become an empty directory")
			} else {
				r.OK(rule, key, grows[0].Pos(), "queued for roll-forward only after everything that can fail has run")
			}
		}
		if len(dels) > 0 {
			key := rule + "/" + FuncKey(fn) + "/io-failure-is-not-malformed"
			classified := false
			for _, d := range dels {
				for _, b := range liveBlocks(fn) {
					if !dominates(b, d.Block) {
						continue
					}
					cnd, _, _, _, _, ok := effCond(b)
					if !ok {
						continue
					}
					if valueDependsOn(cnd, func(x ssa.Value) bool {
						c, isC := x.(*ssa.Call)
						if !isC {
							return false
						}
						switch CalleeKey(c) {
						case "errors.As", "os.IsNotExist", "errors.Is":
							return true
						}
						if sc := c.Call.StaticCallee(); sc != nil && inModule(sc) && sc.Blocks != nil {
							return len(CallsIn(sc, Keys("errors.As", "os.IsNotExist", "errors.Is"))) > 0
						}
						return false
					}) {
						classified = true
					}
				}
			}
			if classified {
				r.OK(rule, key, dels[0].Pos(), "a folder is queued for deletion only after the failure was classified (absent / unreadable content vs. I/O failure)")
			} else {
				r.Bad(rule, key, dels[0].Pos(), "any failure to read the success flag (EMFILE or EIO on open / read / stat) counts as \"folder corrupted\" and deletes a finished compaction: when its install had already removed an input, that input's records are gone (28 of 284 keys in the demonstration) and Open returns nil")
			}
		}
	}
	if !found {
		r.Missing(rule, rule+"/repairCompactions", "flag read not found in repairCompactions")
	}
}

// R-fresh-wal-dir: the appender restarts numbering at 000000 and replay tolerates a torn tail only in the newest
// file, so recovery must hand the new WAL an empty directory on every path.
func ruleFreshWalDir(r *Report) {
	const rule = "fresh-wal-dir"
	r.Rule(rule, 2, "recovery creates the new write-ahead log only after the WAL directory was removed and recreated successfully, on every path (the appender restarts numbering at zero; a surviving higher-numbered file would be taken for the newest one)")
	fn := r.NeedFunc(rule, "simpledb.DB.replayAndSetupWriteAheadLog")
	if fn == nil {
		return
	}
	o := &order{r, r.P}
	W := CallsIn(fn, Keys("wal.NewWriteAheadLog", "wal.NewAppender"))
	R := walDirRemovals(r.P, fn)
	M := CallsIn(fn, Keys("os.MkdirAll", "os.Mkdir"))
	// only the MkdirAll calls that come after a RemoveAll count for the second obligation
	var M2 []Site
	for _, m := range M {
		for _, rm := range R {
			if precedes(rm, m) {
				M2 = append(M2, m)
			}
		}
	}
	o.OnlyAfterSuccess(rule, rule+"/simpledb.DB.replayAndSetupWriteAheadLog/wipe-before-new-wal", fn, "removing the WAL directory", R, "creating the new WAL", W, nil)
	o.OnlyAfterSuccess(rule, rule+"/simpledb.DB.replayAndSetupWriteAheadLog/recreate-before-new-wal", fn, "recreating the WAL directory", M2, "creating the new WAL", W, nil)
}

// R-inputs-validated: nobody inside simpledb switches off the load-time validation of the tables it opens
// (compaction inputs are read with per-read checking off, so load-time validation is their only integrity check).
func ruleInputsValidated(r *Report) {
	const rule = "inputs-validated"
	r.Rule(rule, 3, "every table reader simpledb opens (recovery, flush, compaction inputs, swap) keeps load-time validation on: SkipHashCheckOnLoad is never used inside simpledb")
	p := r.P
	n := 0
	for _, fn := range p.FuncsOfPkg("simpledb") {
		opens := CallsIn(fn, Keys("sstables.NewSSTableReader"))
		if len(opens) == 0 {
			continue
		}
		r.Saw(fn)
		for _, o := range opens {
			n++
			key := ef0uniq(rule + "/" + FuncKey(fn))
			skip := false
			for _, v := range varargValues(o.Call()) {
				if c, ok := v.(*ssa.Call); ok && CalleeKey(c) == "sstables.SkipHashCheckOnLoad" {
					skip = true
				}
			}
			// any call of the option in this function at all
			if len(CallsIn(fn, Keys("sstables.SkipHashCheckOnLoad"))) > 0 {
				skip = true
			}
			if skip {
				r.Bad(rule, key, o.Pos(), "a table is opened with load-time validation switched off: a damaged input record is merged / served without any integrity check")
			} else {
				r.OK(rule, key, o.Pos(), "opened with load-time validation")
			}
		}
	}
	if n == 0 {
		r.Missing(rule, rule+"/sites", "simpledb opens no table reader")
	}
}

// removesFiles: fn (or a module function it calls, two levels) calls os.Remove / os.RemoveAll.
func removesFiles(p *Prog, fn *ssa.Function, depth int) bool {
	if fn == nil || fn.Blocks == nil || depth > 2 {
		return false
	}
	if len(CallsIn(fn, Keys("os.Remove", "os.RemoveAll"))) > 0 {
		return true
	}
	res := false
	eachInstr(fn, func(s Site) {
		if c, ok := s.Instr.(*ssa.Call); ok {
			if sc := c.Call.StaticCallee(); sc != nil && inModule(sc) && sc != fn && removesFiles(p, sc, depth+1) {
				res = true
			}
		}
	})
	return res
}

// removalSites: calls in fn that remove files, directly or through a module helper.
func removalSites(p *Prog, fn *ssa.Function) []Site {
	var out []Site
	eachInstr(fn, func(s Site) {
		c, ok := s.Instr.(*ssa.Call)
		if !ok {
			return
		}
		k := CalleeKey(c)
		if k == "os.Remove" || k == "os.RemoveAll" {
			out = append(out, s)
			return
		}
		if sc := c.Call.StaticCallee(); sc != nil && inModule(sc) && fnPkg(sc) == fnPkg(fn) && removesFiles(p, sc, 0) {
			out = append(out, s)
		}
	})
	return out
}

// R-wal-reclaim: when the configured WAL can rotate on its own, a flush must reclaim every WAL file up to the
// rotated one — otherwise an auto-rotated file survives its memstore's flush and is replayed over newer tables
// at the next Open.
func ruleWalReclaim(r *Report) {
	const rule = "wal-reclaim"
	r.Rule(rule, 1, "the appender can rotate by itself (size limit) and does not report those files; so the flusher must remove every WAL file up to the one returned by the manual rotation (directory sweep with a name comparison), or auto-rotation must be impossible by construction (limit = max uint64)")
	p := r.P
	key := rule + "/simpledb.executeFlush"
	// (1) can the appender rotate on its own, dropping the path?
	auto := false
	for _, fn := range p.FuncsOfPkg("wal") {
		for _, s := range CallsIn(fn, Keys("wal.Appender.Rotate")) {
			if FuncKey(fn) == "wal.Appender.Rotate" {
				continue
			}
			used := false
			for _, rf := range *s.Instr.(ssa.Value).Referrers() {
				if ex, ok := rf.(*ssa.Extract); ok && ex.Index == 0 && len(*ex.Referrers()) > 0 {
					used = true
				}
			}
			if !used {
				auto = true
			}
		}
	}
	// (1b) the limit simpledb configures
	unlimited := false
	for _, fn := range p.FuncsOfPkg("simpledb") {
		for _, s := range CallsIn(fn, Keys("wal.MaximumWalFileSizeBytes")) {
			if c, ok := s.Call().Common().Args[0].(*ssa.Const); ok && c.Uint64() == ^uint64(0) {
				unlimited = true
			}
		}
	}
	if !auto || unlimited {
		r.OK(rule, key, 0, "the WAL cannot create files the flusher does not know about")
		return
	}
	// (2) how does the flusher remove WAL files?
	fn := r.NeedFunc(rule, "simpledb.executeFlush")
	if fn == nil {
		return
	}
	sweep := false
	var pos Site
	for _, f := range moduleReach(p, []*ssa.Function{fn}) {
		pk := fnPkg(f)
		if pk == nil || shortPkg(pk.Path()) != "simpledb" {
			continue
		}
		rm := CallsIn(f, Keys("os.Remove", "os.RemoveAll"))
		if len(rm) == 0 {
			continue
		}
		pos = rm[0]
		lists := CallsIn(f, Keys("os.ReadDir", "path/filepath.Glob", "path/filepath.Walk", "path/filepath.WalkDir", "os.File.Readdirnames", "os.File.ReadDir"))
		if len(lists) == 0 {
			continue
		}
		for _, x := range rm {
			// in a loop, guarded by a string ordering comparison
			inLoop := reachFrom(x.Block, nil)[x.Block] && func() bool {
				for _, su := range x.Block.Succs {
					if reachFrom(su, nil)[x.Block] {
						return true
					}
				}
				return false
			}()
			ordered := false
			for _, b := range liveBlocks(f) {
				if len(b.Instrs) == 0 || !dominates(b, x.Block) {
					continue
				}
				if iff, ok := b.Instrs[len(b.Instrs)-1].(*ssa.If); ok {
					if bo, ok := iff.Cond.(*ssa.BinOp); ok {
						if bt, ok := bo.X.Type().Underlying().(*types.Basic); ok && bt.Info()&types.IsString != 0 {
							switch bo.Op {
							case token.LEQ, token.LSS, token.GEQ, token.GTR:
								ordered = true
							}
						}
					}
				}
			}
			if !ordered {
				// `bound == "" || name <= bound`: the comparison is passed on every way to the removal except where the
				// bound is empty (everything is swept)
				for _, b := range liveBlocks(f) {
					if len(b.Instrs) == 0 {
						continue
					}
					iff, ok := b.Instrs[len(b.Instrs)-1].(*ssa.If)
					if !ok {
						continue
					}
					bo, ok := iff.Cond.(*ssa.BinOp)
					if !ok {
						continue
					}
					if bt, ok := bo.X.Type().Underlying().(*types.Basic); !ok || bt.Info()&types.IsString == 0 {
						continue
					}
					switch bo.Op {
					case token.LEQ, token.LSS, token.GEQ, token.GTR:
					default:
						continue
					}
					removed := map[Edge]bool{}
					for _, su := range b.Succs {
						removed[Edge{b, su}] = true
					}
					for _, e := range liveBlocks(f) {
						for _, v := range ifCmpForms(e) {
							if v.Op != token.EQL || (v.X != bo.X && v.X != bo.Y) {
								continue
							}
							if k, isK := stringConst(v.Y); isK && k == "" {
								removed[Edge{e, v.T}] = true
							}
						}
					}
					if !reachFrom(f.Blocks[0], removed)[x.Block] {
						ordered = true
					}
				}
			}
			if inLoop && ordered {
				sweep = true
			}
		}
		// the sweep is the whole reclaim on its path: a file removed in front of the listing is removed out of order (the
		// newest of the files first — a kill behind it leaves older log files next to the new table, the next Open
		// replays them over it and an acknowledged delete or overwrite is undone)
		for _, x := range rm {
			for _, l := range lists {
				if x.Block != l.Block && reachFrom(x.Block, nil)[l.Block] || x.Block == l.Block && precedes(x, l) {
					r.Bad(rule, rule+"/"+FuncKey(f)+"/sweep-oldest-first", x.Pos(), "a log file is removed before the directory is listed and swept in name order: the file the rotation returned goes first and its older siblings after it — killed in between, the older files stay next to the table that already holds their records, the next Open replays them as the newest data and an acknowledged Delete or overwrite is undone (wal/{000000.wal: a=1, 000001.wal: delete a}, flush, kill after the first unlink → Get(a) = 1)")
				}
			}
		}
		// a guard in front of the sweep that compares the directory part of the path: filepath.Split leaves the trailing
		// separator on it, so a raw comparison with a joined path never holds and the sweep is dead code
		isSplitDir := func(x ssa.Value) bool {
			ex, ok := x.(*ssa.Extract)
			if !ok || ex.Index != 0 {
				return false
			}
			c, ok := ex.Tuple.(*ssa.Call)
			return ok && c.Call.StaticCallee() != nil && FuncKey(c.Call.StaticCallee()) == "path/filepath.Split"
		}
		eachInstr(f, func(x Site) {
			bo, ok := x.Instr.(*ssa.BinOp)
			if !ok || (bo.Op != token.EQL && bo.Op != token.NEQ) {
				return
			}
			if bt, ok := bo.X.Type().Underlying().(*types.Basic); !ok || bt.Info()&types.IsString == 0 {
				return
			}
			// the value itself (through phis, slicing and concatenation — not what a call makes of it)
			var rawDir func(v ssa.Value, d int) bool
			rawDir = func(v ssa.Value, d int) bool {
				if d > 6 {
					return false
				}
				if isSplitDir(v) {
					return true
				}
				switch y := v.(type) {
				case *ssa.Phi:
					for _, e := range y.Edges {
						if rawDir(e, d+1) {
							return true
						}
					}
				case *ssa.Slice:
					return rawDir(y.X, d+1)
				case *ssa.BinOp:
					return y.Op == token.ADD && (rawDir(y.X, d+1) || rawDir(y.Y, d+1))
				case *ssa.ChangeType:
					return rawDir(y.X, d+1)
				case *ssa.Call:
					for _, a := range y.Call.Args {
						if rawDir(a, d+1) && y.Call.StaticCallee() != nil {
							switch FuncKey(y.Call.StaticCallee()) {
							case "path/filepath.Clean", "path/filepath.Dir", "strings.TrimSuffix", "strings.TrimRight":
								return true
							}
						}
					}
				}
				return false
			}
			for _, o := range []ssa.Value{bo.X, bo.Y} {
				if !rawDir(o, 0) {
					continue
				}
				ckey := rule + "/" + FuncKey(f) + "/split-dir-compared-clean"
				norm := false
				if c, ok := o.(*ssa.Call); ok && c.Call.StaticCallee() != nil {
					switch FuncKey(c.Call.StaticCallee()) {
					case "path/filepath.Clean", "path/filepath.Dir", "strings.TrimSuffix", "strings.TrimRight":
						norm = true
					}
				}
				if norm {
					r.OK(rule, ckey, x.Pos(), "the directory part of the split path is normalised before it is compared")
				} else {
					r.Bad(rule, ckey, x.Pos(), "the directory part filepath.Split returns keeps its trailing separator; compared raw with a joined path it is always different, the sweep over the older WAL files never runs and an auto-rotated file is replayed over newer tables after the next start")
				}
			}
		})
	}
	if sweep {
		r.OK(rule, key, pos.Pos(), "the flush sweeps every WAL file up to the rotated one")
	} else {
		r.Bad(rule, key, fn.Pos(), "the WAL rotates on its own when a file reaches its size limit (the path is dropped in checkSizeAndRotate) but the flush removes only the one path its own rotation returned: an auto-rotated file survives the flush of its memstore and is replayed over newer tables at the next Open — overwritten values come back, deleted keys reappear (input: more than limit bytes logged while the memstore estimate does not grow, e.g. same-size overwrites of one key)")
	}
}

// tableNamePath: v is filepath.Join(base, fmt.Sprintf(<table name pattern>, …)) — a directory recovery would load.
func tableNamePath(v ssa.Value) bool {
	c, ok := v.(*ssa.Call)
	if !ok {
		return false
	}
	// a module helper all of whose returns build a table name
	if sc := c.Call.StaticCallee(); sc != nil && inModule(sc) && sc.Blocks != nil {
		rets := returnsOf(sc)
		all := len(rets) > 0
		for _, rs := range rets {
			res := rs.Instr.(*ssa.Return).Results
			if len(res) != 1 || !tableNamePath(res[0]) {
				all = false
			}
		}
		return all
	}
	if CalleeKey(c) != "path/filepath.Join" {
		return false
	}
	vals := varargValues(c)
	if len(vals) == 0 {
		return false
	}
	last := vals[len(vals)-1]
	sp, ok := last.(*ssa.Call)
	if !ok || CalleeKey(sp) != "fmt.Sprintf" {
		return false
	}
	f, ok := stringConst(sp.Call.Args[0])
	return ok && strings.HasPrefix(f, "sstable")
}

// atomicTablePublish: in executeFlush the table is written into a directory whose name recovery does not load, and
// only a successful flush is followed by a rename onto the table name; recovery removes leftovers of that prefix.
// Returns a description, or "" when the shape is not present.
func atomicTablePublish(p *Prog) string {
	fn := p.Func("simpledb.executeFlush")
	if fn == nil {
		return ""
	}
	// the directory the writer is pointed at
	var writeBase ssa.Value
	for _, s := range CallsIn(fn, Keys("sstables.WriteBasePath")) {
		writeBase = s.Call().Common().Args[0]
	}
	if writeBase == nil || tableNamePath(writeBase) {
		return ""
	}
	// a rename of that directory onto a table name, only after the flush succeeded
	F := CallsIn(fn, Suffix("MemStoreI.FlushWithTombstones", "MemStoreI.Flush"))
	var ren []Site
	for _, s := range CallsIn(fn, Keys("os.Rename")) {
		a := s.Call().Common().Args
		if a[0] == writeBase && tableNamePath(a[1]) {
			ren = append(ren, s)
		}
	}
	if len(ren) == 0 || len(F) == 0 {
		return ""
	}
	removed := map[Edge]bool{}
	for _, f := range F {
		succ, _ := errorEdges(f)
		for _, e := range succ {
			removed[e] = true
		}
	}
	for _, rn := range ren {
		if siteReachable(rn, removed) {
			return ""
		}
	}
	// nobody creates a table-named directory in place
	for _, f := range p.FuncsOfPkg("simpledb") {
		for _, s := range CallsIn(f, Keys("os.MkdirAll", "os.Mkdir")) {
			if tableNamePath(s.Call().Common().Args[0]) {
				return ""
			}
		}
	}
	// recovery removes leftovers: a RemoveAll in reconstructSSTables / repairCompactions
	rec := p.Func("simpledb.DB.reconstructSSTables")
	if rec == nil || len(CallsIn(rec, Keys("os.RemoveAll"))) == 0 {
		return ""
	}
	return "executeFlush writes into a non-table directory and renames it after the flush succeeded; reconstructSSTables removes leftovers"
}

// freshGenerationName: the table name is formatted from a fresh increment of the generation counter (never existed).
func freshGenerationName(v ssa.Value) bool {
	c, ok := v.(*ssa.Call)
	if !ok {
		return false
	}
	if sc := c.Call.StaticCallee(); sc != nil && inModule(sc) {
		for _, a := range c.Call.Args {
			if isGenIncrement(stripIface(a)) {
				return true
			}
		}
		return false
	}
	vals := varargValues(c)
	if len(vals) == 0 {
		return false
	}
	sp, ok := vals[len(vals)-1].(*ssa.Call)
	if !ok {
		return false
	}
	for _, g := range varargValues(sp) {
		if isGenIncrement(stripIface(g)) {
			return true
		}
	}
	return false
}

// R-wal-removal-order: after recovery has flushed the replayed log into a table, the log files are removed OLDEST
// FIRST. os.RemoveAll on the directory unlinks in directory order; a kill after a newer file went and before an older
// one did leaves the older file next to the new table, the next Open replays it over the table and overwritten values
// come back. Replaying a suffix of the log over the state of the whole log changes nothing, so oldest-first is safe.
func ruleWalRemovalOrder(r *Report) {
	const rule = "wal-removal-order"
	r.Rule(rule, 1, "recovery removes the files of the WAL directory through a sweep over a sorted listing (os.ReadDir) before the directory itself — never with a bare RemoveAll of a directory that can hold several log files")
	p := r.P
	fn := r.NeedFunc(rule, "simpledb.DB.replayAndSetupWriteAheadLog")
	if fn == nil {
		return
	}
	key := rule + "/simpledb.DB.replayAndSetupWriteAheadLog"
	sites := walDirRemovals(p, fn)
	if len(sites) == 0 {
		r.Missing(rule, key, "recovery never removes the WAL directory")
		return
	}
	inLoop := func(s Site) bool {
		for _, su := range s.Block.Succs {
			if reachFrom(su, nil)[s.Block] {
				return true
			}
		}
		return false
	}
	// orderedSweep: g lists a directory sorted (os.ReadDir) and removes inside a loop; every removal outside the loop
	// is dominated by the listing (it comes after the sweep)
	orderedSweep := func(g *ssa.Function) bool {
		lists := CallsIn(g, Keys("os.ReadDir"))
		if len(lists) == 0 {
			return false
		}
		loopRm := false
		for _, rm := range CallsIn(g, Keys("os.Remove", "os.RemoveAll")) {
			if inLoop(rm) {
				// the removed path is built from an element of the listing that is indexed by an ascending counter
				asc := false
				for _, a := range rm.Call().Common().Args {
					if valueDependsOn(a, func(v ssa.Value) bool {
						ia, ok := v.(*ssa.IndexAddr)
						if !ok || !valueDependsOn(ia.X, func(x ssa.Value) bool { return x == lists[0].Instr.(ssa.Value) }) {
							return false
						}
						return ascendingCounter(ia.Index)
					}) {
						asc = true
					}
				}
				if !asc {
					return false
				}
				// everything goes: the removal in the loop is not picked by the entry's name. (The flush reclaims by name,
				// `name <= last`; the same loop used for the whole folder with an empty bound must not compare names —
				// an extension compared with the extension of "" matches nothing, the sweep removes nothing and the
				// RemoveAll behind it unlinks in directory order again.) Branches that a constant decides are followed
				// on the side the constant takes.
				constOff := map[Edge]bool{}
				for _, b := range g.Blocks {
					if len(b.Instrs) == 0 || len(b.Succs) != 2 {
						continue
					}
					if iff, isIf := b.Instrs[len(b.Instrs)-1].(*ssa.If); isIf {
						if val, isK := constCondition(iff.Cond); isK {
							if val {
								constOff[Edge{b, b.Succs[1]}] = true
							} else {
								constOff[Edge{b, b.Succs[0]}] = true
							}
						}
					}
				}
				pruneStoredConditions(g, constOff)
				live := reachFrom(g.Blocks[0], constOff)
				for _, b := range g.Blocks {
					if !live[b] || len(b.Instrs) == 0 || !reachFrom(b, constOff)[rm.Block] || !reachFrom(rm.Block, constOff)[b] {
						continue
					}
					iff, isIf := b.Instrs[len(b.Instrs)-1].(*ssa.If)
					if !isIf {
						continue
					}
					bo, isB := iff.Cond.(*ssa.BinOp)
					if !isB {
						continue
					}
					if bt, isBasic := bo.X.Type().Underlying().(*types.Basic); !isBasic || bt.Info()&types.IsString == 0 {
						continue
					}
					fromName := func(v ssa.Value) bool {
						return valueDependsOn(v, func(x ssa.Value) bool {
							c, isC := x.(*ssa.Call)
							return isC && c.Call.IsInvoke() && c.Call.Method.Name() == "Name"
						})
					}
					if fromName(bo.X) || fromName(bo.Y) {
						return false
					}
				}
				loopRm = true
			} else if !precedes(lists[0], rm) {
				return false
			}
		}
		return loopRm
	}
	bad := ""
	for _, s := range sites {
		c := s.Instr.(*ssa.Call)
		switch CalleeKey(c) {
		case "os.Remove", "os.RemoveAll":
			if orderedSweep(fn) && (inLoop(s) || precedes(CallsIn(fn, Keys("os.ReadDir"))[0], s)) {
				continue
			}
			// renamed away first?
			renamed := false
			for _, rn := range CallsIn(fn, Keys("os.Rename")) {
				if precedes(rn, s) {
					renamed = true
				}
			}
			if renamed {
				continue
			}
			bad = p.Pos(s.Pos())
		default:
			if sc := c.Call.StaticCallee(); sc == nil || !orderedSweep(sc) {
				bad = p.Pos(s.Pos())
			}
		}
	}
	if bad != "" {
		r.Bad(rule, key, sites[0].Pos(), "the WAL directory is removed with a bare RemoveAll at "+bad+": the files are unlinked in directory order, so a kill can leave an older log file without the newer ones next to the table recovery just flushed; the next Open replays the older file over that table and an overwritten value is back (image: wal/{000000.wal: k=v1, 000001.wal: k=v2}, first recovery killed after unlinking 000001.wal → Get(k) = v1)")
	} else {
		r.OK(rule, key, sites[0].Pos(), "log files are removed oldest first")
	}
}

// walDirRemovals: the removal sites of recovery other than the flush itself (which reclaims nothing when it is called
// without a WAL path).
func walDirRemovals(p *Prog, fn *ssa.Function) []Site {
	var out []Site
	for _, s := range removalSites(p, fn) {
		if CalleeKey(s.Call()) == "simpledb.executeFlush" {
			continue
		}
		// a newly extracted helper around the flush: it removes files only through executeFlush
		if sc := s.Call().Common().StaticCallee(); sc != nil && isFresh(sc) && len(CallsIn(sc, Keys("simpledb.executeFlush"))) > 0 {
			other := false
			for _, t := range removalSites(p, sc) {
				if CalleeKey(t.Call()) != "simpledb.executeFlush" {
					other = true
				}
			}
			if !other {
				continue
			}
		}
		out = append(out, s)
	}
	return out
}

// ascendingCounter: idx is a loop counter that only ever grows by one (range loop or `for i := 0; …; i++`).
func ascendingCounter(idx ssa.Value) bool {
	var phi *ssa.Phi
	switch x := idx.(type) {
	case *ssa.Phi:
		phi = x
	case *ssa.BinOp:
		// rotated range loops index with phi+1
		if c, ok := constInt(x.Y); ok && c == 1 && x.Op == token.ADD {
			phi, _ = x.X.(*ssa.Phi)
		}
	}
	if phi == nil {
		return false
	}
	for _, e := range phi.Edges {
		if _, isC := constInt(e); isC {
			continue
		}
		bo, ok := e.(*ssa.BinOp)
		if !ok || bo.Op != token.ADD || bo.X != ssa.Value(phi) {
			return false
		}
		if c, ok := constInt(bo.Y); !ok || c != 1 {
			return false
		}
	}
	return true
}

// onSuccessPath keeps the sites from which a success (nil error) return of fn is reachable. A handle that is closed on
// an error exit, next to the error being reported, is not part of the success ordering.
func onSuccessPath(fn *ssa.Function, sites []Site) []Site {
	var out []Site
	for _, s := range sites {
		for _, nr := range nilReturns(fn) {
			if reachableFromSite(s, nr) {
				out = append(out, s)
				break
			}
		}
	}
	return out
}

// R-finish-rename-last: finishing an interrupted compaction at Open removes the inputs and moves the merged table into
// the oldest input's slot. The success flag — the only record of which inputs still have to go — lives inside the
// compaction folder, so the rename that moves that folder away must be the LAST step: a kill after the rename and
// inside the removal of a remaining input leaves a half-deleted table and nothing that says so; every later Open then
// tries to load it and fails (or loads it as a legacy table and serves parse errors).
func ruleFinishRenameLast(r *Report) {
	const rule = "finish-rename-last"
	r.Rule(rule, 1, "in repairCompactions no removal of a compaction input is reachable from the rename of the compaction folder within the handling of one compaction (the flag file travels with the rename; inputs are removed first, the rename comes last, as in the online path)")
	p := r.P
	fn := r.NeedFunc(rule, "simpledb.DB.repairCompactions")
	if fn == nil {
		return
	}
	key := rule + "/simpledb.DB.repairCompactions"
	renames := CallsIn(fn, Keys("os.Rename"))
	if len(renames) == 0 {
		r.Missing(rule, key, "repairCompactions does not rename the compaction folder")
		return
	}
	bad := ""
	for _, rn := range renames {
		// the outermost loop around the rename: remove its back edges so that "reachable" means "in the same iteration"
		removed := map[Edge]bool{}
		var hdr *ssa.BasicBlock
		for _, b := range liveBlocks(fn) {
			if dominates(b, rn.Block) && b != rn.Block && reachFrom(rn.Block, nil)[b] {
				if hdr == nil || dominates(b, hdr) {
					hdr = b
				}
			}
		}
		if hdr != nil {
			for _, pr := range hdr.Preds {
				if reachFrom(hdr, nil)[pr] && dominates(hdr, pr) {
					removed[Edge{pr, hdr}] = true
				}
			}
		}
		after := map[*ssa.BasicBlock]bool{}
		for _, su := range rn.Block.Succs {
			if removed[Edge{rn.Block, su}] {
				continue
			}
			for b := range reachFrom(su, removed) {
				after[b] = true
			}
		}
		for _, rm := range removalSites(p, fn) {
			if rm.Block == rn.Block && rm.Idx > rn.Idx || after[rm.Block] {
				bad = fmt.Sprintf("the removal at %s is reachable after the rename at %s", p.Pos(rm.Pos()), p.Pos(rn.Pos()))
			}
		}
	}
	if bad != "" {
		r.Bad(rule, key, renames[0].Pos(), bad+": the rename takes the success flag out of the place the next Open looks for it; a kill inside the removal of a remaining input (one unlink per file, then rmdir) leaves a half-deleted table that no recovery step knows about — every later Open fails on it (EOF reading index.rio), or loads it as a legacy table when meta.pb.bin went first")
	} else {
		r.OK(rule, key, renames[0].Pos(), "the rename is the last step of finishing a compaction")
	}
}

// leadingConst: the constant text a path's last element is known to start with ("" when it starts with something
// dynamic): filepath.Join(…, x) → x; "lit" + y → "lit"; fmt.Sprintf("lit%d", …) → "lit"; cells through their stores.
func leadingConst(v ssa.Value, depth int) string {
	if depth > 8 || v == nil {
		return ""
	}
	switch x := v.(type) {
	case *ssa.Const:
		if x.Value != nil && x.Value.Kind() == constant.String {
			return constant.StringVal(x.Value)
		}
	case *ssa.BinOp:
		if x.Op == token.ADD {
			l := leadingConst(x.X, depth+1)
			if _, isC := x.X.(*ssa.Const); isC {
				return l + leadingConst(x.Y, depth+1)
			}
			return l
		}
	case *ssa.Call:
		if sc := x.Call.StaticCallee(); sc != nil {
			switch FuncKey(sc) {
			case "path/filepath.Join":
				// variadic: the elements sit in a slice built just before the call
				if sl, ok := x.Call.Args[0].(*ssa.Slice); ok {
					if al, isA := sl.X.(*ssa.Alloc); isA {
						var last ssa.Value
						lastIdx := int64(-1)
						for _, rf := range *al.Referrers() {
							ia, isI := rf.(*ssa.IndexAddr)
							if !isI {
								continue
							}
							idx, isK := constInt(ia.Index)
							if !isK {
								continue
							}
							for _, rr := range *ia.Referrers() {
								if st, isS := rr.(*ssa.Store); isS && idx > lastIdx {
									last, lastIdx = st.Val, idx
								}
							}
						}
						return leadingConst(last, depth+1)
					}
				}
			case "fmt.Sprintf":
				if c, ok := x.Call.Args[0].(*ssa.Const); ok && c.Value != nil && c.Value.Kind() == constant.String {
					f := constant.StringVal(c.Value)
					if i := strings.Index(f, "%"); i >= 0 {
						f = f[:i]
					}
					return f
				}
			}
		}
	case *ssa.UnOp:
		if x.Op == token.MUL && isCell(x.X) {
			vals, unknown := reachingStores(x)
			if unknown || len(vals) != 1 {
				return ""
			}
			return leadingConst(vals[0], depth+1)
		}
	}
	return ""
}

// R-staging-name-recognised (C10, C02): a flush writes its table into a staging folder and renames it into place; a kill
// in between leaves the staging folder behind, and the next Open has to recognise it as a leftover — by its name. So
// the name the flush gives the folder starts with a prefix the recovery walk tests for *and skips* before it takes
// folders for tables; likewise the compaction's folder and the prefix repairCompactions looks for.
func ruleStagingNameRecognised(r *Report) {
	const rule = "staging-name-recognised"
	r.Rule(rule, 2, "the staging folder of a flush (MkdirAll in executeFlush) and of a compaction (MkdirTemp in executeCompaction) is named with a constant prefix that the recovery walk tests with strings.HasPrefix (the flush prefix before the table prefix, the compaction prefix in repairCompactions)")
	p := r.P
	prefixesTested := func(fk string) []string {
		var out []string
		fn := p.Func(fk)
		if fn == nil {
			return nil
		}
		for _, g := range closuresOf(fn) {
			for _, s := range CallsIn(g, Keys("strings.HasPrefix")) {
				if c, ok := s.Call().Common().Args[1].(*ssa.Const); ok && c.Value != nil && c.Value.Kind() == constant.String {
					out = append(out, constant.StringVal(c.Value))
				}
			}
		}
		return out
	}
	type pair struct{ producer, callee, consumer, what string }
	for _, pr := range []pair{
		{"simpledb.executeFlush", "os.MkdirAll", "simpledb.DB.reconstructSSTables", "flush"},
		{"simpledb.executeCompaction", "os.MkdirTemp", "simpledb.DB.repairCompactions", "compaction"},
	} {
		fn := r.NeedFunc(rule, pr.producer)
		if fn == nil {
			continue
		}
		key := rule + "/" + pr.producer
		tested := prefixesTested(pr.consumer)
		sites := CallsIn(fn, Keys(pr.callee))
		if len(sites) == 0 || len(tested) == 0 {
			r.Unk(rule, key, fn.Pos(), "staging folder creation or the recovery's prefix tests not found")
			continue
		}
		good := true
		lead := ""
		for _, s := range sites {
			a := s.Call().Common().Args
			nameArg := a[0]
			if pr.callee == "os.MkdirTemp" {
				nameArg = a[1]
			}
			lead = leadingConst(nameArg, 0)
			hit := false
			for _, t := range tested {
				// the recovery's test must hold for every name the producer can make: its prefix is a prefix of ours
				if t != "" && strings.HasPrefix(lead, t) && t != "sstable" {
					hit = true
				}
			}
			if !hit {
				good = false
			}
		}
		// … and the test that recognises the leftover is not standing behind one that takes the same name for a table
		if good && pr.what == "flush" {
			tableLead := "sstable_"
			for path, pk := range p.All {
				if shortPkg(path) == "simpledb" && strings.HasPrefix(path, modPath) && pk.Types != nil {
					if c, ok := pk.Types.Scope().Lookup("SSTablePattern").(*types.Const); ok && c.Val().Kind() == constant.String {
						tableLead = constant.StringVal(c.Val())
						if i := strings.Index(tableLead, "%"); i >= 0 {
							tableLead = tableLead[:i]
						}
					}
				}
			}
			type ptest struct {
				b *ssa.BasicBlock
				t string
			}
			shadow := ""
			if cf := p.Func(pr.consumer); cf != nil {
				for _, g := range closuresOf(cf) {
					var tests []ptest
					for _, b := range liveBlocks(g) {
						cnd, _, _, _, _, ok := effCond(b)
						if !ok {
							continue
						}
						valueDependsOn(cnd, func(x ssa.Value) bool {
							if c, isC := x.(*ssa.Call); isC && CalleeKey(c) == "strings.HasPrefix" {
								if k, isK := c.Call.Args[1].(*ssa.Const); isK && k.Value != nil && k.Value.Kind() == constant.String {
									tests = append(tests, ptest{b, constant.StringVal(k.Value)})
								}
							}
							return false
						})
					}
					for _, tt := range tests {
						// a test that accepts the staging name and table names alike
						if tt.t == "" || !strings.HasPrefix(lead, tt.t) || !strings.HasPrefix(tableLead, tt.t) {
							continue
						}
						guarded := false
						for _, st := range tests {
							if st.t != "" && strings.HasPrefix(lead, st.t) && !strings.HasPrefix(tableLead, st.t) && st.b != tt.b && dominates(st.b, tt.b) {
								guarded = true
							}
						}
						if !guarded {
							shadow = tt.t
						}
					}
				}
			}
			if shadow != "" {
				r.Bad(rule, key, sites[0].Pos(), fmt.Sprintf("the flush staging folder's name starts with %q, and the recovery walk reaches its test for the table prefix %q without having tested for the leftover first: the folder a killed flush leaves behind is taken for a table (its name does not parse as a table number), and every later Open fails", lead, shadow))
				continue
			}
		}
		if good {
			r.OK(rule, key, sites[0].Pos(), "staging folder names start with \""+lead+"\", which the recovery tests for")
		} else {
			r.Bad(rule, key, sites[0].Pos(), fmt.Sprintf("the %s staging folder's name starts with %q, which is none of the leftovers the recovery walk recognises %v: after a kill inside the %s window the folder is taken for a table (or not found) and every later Open fails", pr.what, lead, tested, pr.what))
		}
	}
}

// R-open-runs-recovery (C10, C02): what the directory needs depends on the process that died, not on the options of the
// process that opens it: every way to a successful Open passes all three recovery steps.
func ruleOpenRunsRecovery(r *Report) {
	const rule = "open-runs-recovery"
	r.Rule(rule, 3, "every success return of simpledb.DB.Open is reached only through successful calls of repairCompactions, reconstructSSTables and replayAndSetupWriteAheadLog — none of them is conditional on an option")
	fn := r.NeedFunc(rule, "simpledb.DB.Open")
	if fn == nil {
		return
	}
	o := &order{r, r.P}
	for _, k := range []string{"simpledb.DB.repairCompactions", "simpledb.DB.reconstructSSTables", "simpledb.DB.replayAndSetupWriteAheadLog"} {
		A := CallsIn(fn, Keys(k))
		key := rule + "/" + k
		if len(A) == 0 {
			// through a helper that runs the recovery steps: Open succeeds only behind the helper, the helper only behind k
			var via []Site
			var helper *ssa.Function
			eachInstr(fn, func(s Site) {
				if c, ok := s.Instr.(*ssa.Call); ok {
					if sc := c.Call.StaticCallee(); sc != nil && inModule(sc) && len(CallsIn(sc, Keys(k))) > 0 {
						via, helper = append(via, s), sc
					}
				}
			})
			if helper == nil {
				r.Bad(rule, key, fn.Pos(), "Open never calls "+k)
				continue
			}
			o.OnlyAfterSuccess(rule, key, fn, FuncKey(helper), via, "the success return of Open", nilReturns(fn), nil)
			// the helper's success exits: its nil returns, and returns that forward the result of another step as it is
			// (`return db.replayAndSetupWriteAheadLog()` succeeds exactly when that step does)
			B := nilReturns(helper)
			hidx := errorResultIndex(helper)
			for _, rs := range returnsOf(helper) {
				ret := rs.Instr.(*ssa.Return)
				if hidx < 0 || hidx >= len(ret.Results) {
					continue
				}
				if c, isC := ret.Results[hidx].(*ssa.Call); isC && c.Call.StaticCallee() != nil && FuncKey(c.Call.StaticCallee()) != k {
					// returned untested (a tested error that is returned is the failure exit, not a success exit)
					if su, fa := errorEdges(siteOf(c)); len(su) == 0 && len(fa) == 0 {
						B = append(B, rs)
					}
				}
			}
			if len(B) == 0 {
				r.OK(rule, key+"/in-helper", helper.Pos(), "the helper returns this step's own result")
			} else {
				o.OnlyAfterSuccess(rule, key+"/in-helper", helper, k, CallsIn(helper, Keys(k)), "the success return of "+FuncKey(helper), B, nil)
			}
			continue
		}
		o.OnlyAfterSuccess(rule, key, fn, k, A, "the success return of Open", nilReturns(fn), nil)
	}
}

// R-replay-counts-every-mutation (C17, C02, C10, C13): after the replay the memstore is flushed into a table before the
// WAL folder is removed — but only when the replay counted something. A counter that is not moved by every kind of record
// (deletes as well as puts) lets a delete-only log be removed with its tombstones in memory only: a second crash and the
// deleted keys are back.
func ruleReplayCountsEveryMutation(r *Report) {
	const rule = "replay-counts-every-mutation"
	r.Rule(rule, 1, "in the replay callback of replayAndSetupWriteAheadLog every call that applies a record to the memstore (Upsert, Tombstone, Delete…) is dominated by the increment of the counter whose test guards the flush before the WAL removal")
	p := r.P
	fn := r.NeedFunc(rule, "simpledb.DB.replayAndSetupWriteAheadLog")
	if fn == nil {
		return
	}
	key := rule + "/simpledb.DB.replayAndSetupWriteAheadLog"
	// the counter cell: tested against 0 in a block that dominates the executeFlush call
	flushes := CallsIn(fn, Keys("simpledb.executeFlush"))
	var counter ssa.Value
	for _, b := range liveBlocks(fn) {
		cnd, _, _, _, _, ok := effCond(b)
		if !ok {
			continue
		}
		var sides []ssa.Value
		if bo, isB := cnd.(*ssa.BinOp); isB {
			sides = []ssa.Value{bo.X, bo.Y}
		} else {
			sides = []ssa.Value{cnd} // a flag instead of a count
		}
		for _, f := range flushes {
			if !dominates(b, f.Block) {
				continue
			}
			for _, side := range sides {
				if u, isU := side.(*ssa.UnOp); isU && u.Op == token.MUL && isCell(u.X) {
					counter = rootCell(u.X)
				}
			}
		}
	}
	if counter == nil || len(flushes) == 0 {
		r.Unk(rule, key, fn.Pos(), "the counter that guards the flush after the replay was not recognised")
		return
	}
	bad := ""
	n := 0
	for _, g := range closuresOf(fn) {
		if g == fn || !isReplayCallback(g) {
			continue
		}
		var incs []Site
		eachInstr(g, func(s Site) {
			if st, ok := s.Instr.(*ssa.Store); ok && isCell(st.Addr) && rootCell(st.Addr) == counter {
				incs = append(incs, s)
			}
		})
		applies := func(ck string) bool {
			if !strings.Contains(ck, "RWMemstore.") && !strings.Contains(ck, "MemStoreI.") {
				return false
			}
			switch ck[strings.LastIndex(ck, ".")+1:] {
			case "Upsert", "Add", "Tombstone", "Delete", "DeleteIfExists":
				return true
			}
			return false
		}
		// (the call of a newly extracted helper that applies the record counts as the applying call)
		for _, s := range CallsIn(g, applies) {
			c := s.Instr.(ssa.CallInstruction)
			ck := CalleeKey(c)
			n++
			dom := false
			for _, inc := range incs {
				if inc.Block == s.Block && precedes(inc, s) || inc.Block != s.Block && dominates(inc.Block, s.Block) {
					dom = true
				}
			}
			if !dom {
				bad = ck + " at " + p.Pos(s.Pos())
			}
		}
	}
	if n == 0 {
		r.Unk(rule, key, fn.Pos(), "no memstore mutation found in the replay callback")
	} else if bad != "" {
		r.Bad(rule, key, fn.Pos(), "the record applied by "+bad+" does not move the counter that decides whether the replayed memstore is flushed before the WAL folder is removed: a log that holds only such records is removed with its effects in memory only — after a second crash deleted keys read as their old values again")
	} else {
		r.OK(rule, key, fn.Pos(), fmt.Sprintf("%d applying call(s), each behind the counter's increment", n))
	}
}

// constCondition: the value of a condition that is a boolean constant or a comparison of two constants (go/ssa does not
// fold `"" == ""`, which is what is left of `bound == ""` once an inlined helper's parameter is the literal).
func constCondition(v ssa.Value) (bool, bool) {
	switch x := v.(type) {
	case *ssa.Const:
		if x.Value != nil && x.Value.Kind() == constant.Bool {
			return constant.BoolVal(x.Value), true
		}
	case *ssa.BinOp:
		a, okA := x.X.(*ssa.Const)
		b, okB := x.Y.(*ssa.Const)
		if !okA || !okB || a.Value == nil || b.Value == nil {
			return false, false
		}
		switch x.Op {
		case token.EQL, token.NEQ, token.LSS, token.LEQ, token.GTR, token.GEQ:
			if a.Value.Kind() != b.Value.Kind() || (a.Value.Kind() != constant.String && a.Value.Kind() != constant.Int && a.Value.Kind() != constant.Bool) {
				return false, false
			}
			if a.Value.Kind() == constant.Bool && x.Op != token.EQL && x.Op != token.NEQ {
				return false, false
			}
			return constant.Compare(a.Value, x.Op, b.Value), true
		}
	}
	return false, false
}
