package main

func init() {
	register("C06",
		"Static rules for compaction: (E-REDUCER) a tombstone-dropping reduce function reaches the merge only on paths control-dependent on 'the oldest live table is among the inputs', that fact is element 0 of the flood-filled selection, and every other reducer provably returns non-nil values (small nilness analysis of the reduce functions); the merge iterator decides emission by nil-ness only (value opacity) and never nil-tests keys; the selection used to collect paths is the flood-filled one; inputs are sorted before the merge and each iterator's merge context is its index in that order; the result takes the slot of the oldest input; the swap happens under both locks (E-LOCK, via C05 rules) and deletions precede the rename. Decides these shapes on all paths; flood-fill arithmetic and before/after equality of reads are not decided.",
		[]string{"the merge iterator drops a key exactly when the reducer returns a nil value (checked by value-opaque)", "table age = directory name order (C01 names rule)"},
		func(r *Report) {
			ruleReducer(r)
			ruleValueOpaque(r)
			ruleHeapShape(r)
			ruleKeyNil(r)
			ruleCtxAge(r, []string{"simpledb.executeCompaction"})
			ruleNames(r, []string{"sorted-compaction"})
			ruleDeleteAfterFlag(r)
			ruleFlagAfterClose(r)
			c11FlagRules(r)
			ruleLocks(r)
			ruleNewestFirst(r)
			// (a map index that answers with another key's entry changes what the stack returns for the key)
			ruleMapLookupVerified(r)
			ruleEmptyIsAbsent(r)
			ruleReaderRebuilt(r)
			ruleLatestWinsArgmax(r)
			ruleInputsValidated(r)
			ruleBloomSizePositive(r)
			ruleSlotInList(r)
			ruleReaderPath(r)
			ruleFinishRenameLast(r)
			ruleCompactionNeedsInput(r)
			ruleMergeAlwaysReduces(r)
			ruleLastGroupEmitted(r)
		})
	register("C08",
		"Static rules for merging and stacking: (E-KEYNIL) no key-carrying value is compared with nil on the merge path; the merge iterator treats values as opaque except for nil-ness and nil-tests the reducer's value result at both emission sites; the merge context of every input is its index in the oldest-first reader slice in all three stacked scans; the iterator adapter and the stacked point lookups forward every error that is not the reviewed not-found / exhaustion sentinel (E-ERRFLOW). Decides these shapes; heap order, reducer arithmetic and scan bounds are value-level and not decided.",
		[]string{"index loaders return the empty key as a nil slice (proto3 bytes default)"},
		func(r *Report) {
			ruleKeyNil(r)
			ruleValueOpaque(r)
			ruleValuePassthrough(r)
			ruleLoaderMapping(r)
			ruleIteratorEndMarker(r)
			ruleStackKeepsEveryReader(r)
			ruleCtxAge(r, []string{"sstables.SuperSSTableReader.Scan", "sstables.SuperSSTableReader.ScanStartingAt", "sstables.SuperSSTableReader.ScanRange"})
			ruleStackErrflow(r)
			ruleNewestFirst(r)
			// (a map index that answers with another key's entry changes what the stack returns for the key)
			ruleMapLookupVerified(r)
			ruleLatestWinsArgmax(r)
			ruleHeapShape(r)
			ruleSentinelForm(r, "pq", "sstables")
			ruleSentinelProducible(r, "sstables", "pq")
			ruleMergeAlwaysReduces(r)
			ruleLastGroupEmitted(r)
			ruleErrorIsLooksAtTarget(r)
			ruleMergeAcceptsAnyCount(r)
		})
	register("C01",
		"Static necessary conditions of map equivalence across flushes, compactions and restarts: age-encoding names are fixed-width and every listing is sorted before use; the rotation hands the old write store to the flusher, keeps it as read store and installs a fresh write store; a flushed table is visible before the flush reports success; merged readers are always built from the oldest-first list; lock order and hand-off discipline admit no deadlock (E-LOCK); compaction may drop tombstones only when anchored at the oldest table, uses the flood-filled selection, age-ordered merge contexts and the oldest input's slot. Decides these shapes on all paths; the equivalence itself (over operation sequences and schedules) is not decided.",
		[]string{"sync.RWMutex semantics", "lexicographic order of fixed-width decimal names equals numeric order"},
		func(r *Report) {
			ruleNames(r, []string{"sstable-format", "wal-format", "sorted-recovery", "sorted-compaction", "sorted-replay"})
			ruleHandoff(r)
			ruleSwapAfterRotate(r)
			rulePrecedenceShape(r)
			ruleLocks(r)
			ruleReducer(r)
			ruleReaderPath(r)
			ruleWalkSkipsRoot(r)
			ruleReaderBufferMinimum(r)
			ruleBufferSizesBounded(r)
			ruleCompactionNeedsInput(r)
			ruleCtxAge(r, []string{"simpledb.executeCompaction", "sstables.SuperSSTableReader.Scan", "sstables.SuperSSTableReader.ScanStartingAt", "sstables.SuperSSTableReader.ScanRange"})
			ruleGetPrecedence(r)
			ruleSentinelProducible(r, "simpledb", "sstables", "memstore")
			ruleNewestFirst(r)
			ruleApplyBeforeRotate(r)
			ruleTableBeforeWalRemove(r)
			ruleWalDirAfterFlush(r)
			ruleLogBeforeApply(r)
			ruleGeneration(r)
			ruleEmptyIsAbsent(r)
			ruleHeapShape(r)
			ruleValueOpaque(r)
			ruleRWMemstore(r)
			ruleReaderRebuilt(r)
			ruleCloseFlushes(r)
			ruleLatestWinsArgmax(r)
			ruleWalReclaim(r)
			ruleBloomSizePositive(r)
			ruleSlotInList(r)
			ruleJoin(r)
			ruleMergeAlwaysReduces(r)
		})
}

// errors of the stacked reader and the adapter are forwarded (shared engine with C11)
func ruleStackErrflow(r *Report) {
	r.Rule("stack-errflow", 8, "the stacked reader and the merge adapter forward every error except the reviewed not-found / exhaustion sentinels")
	ef := newErrflow(r, "stack-errflow")
	ef.extraClass = map[string]map[string]bool{
		// newest-first lookup: NotFound in a newer table means "ask the next older table"
		"sstables.SuperSSTableReader.Get": {"sstables.NotFound": true},
	}
	for _, k := range []string{"sstables.SuperSSTableReader.Get", "sstables.SuperSSTableReader.Contains", "sstables.SuperSSTableReader.Scan",
		"sstables.SuperSSTableReader.ScanStartingAt", "sstables.SuperSSTableReader.ScanRange", "sstables.SSTableMergeIteratorContext.Next",
		"sstables.MergeCompactionIterator.Next", "sstables.SSTableMerger.Merge", "sstables.SSTableMerger.MergeCompact", "sstables.SSTableMerger.MergeCompactIterator"} {
		if fn := r.NeedFunc("stack-errflow", k); fn != nil {
			ef.Check(fn)
		}
	}
}
