package main

import (
	"fmt"
	"go/token"
	"go/types"
	"sort"
	"strings"

	"golang.org/x/tools/go/ssa"
)

func init() {
	register("C03",
		"Static writer↔reader agreement and boundary-shape rules for SSTables: the bloom filter is fed fnv64 of exactly the key on both sides; the value checksum uses one CRC table; the index entry stores the offset returned by the data writer for that value, the CRC of that value and the key; every index loader maps (ValueOffset, Checksum, Key) of the index record into its entries; every IteratorBetween rejects lower > upper before building an iterator, and (E-SIGN) the comparator tests that implement inclusive upper bounds and binary-search steps react to exactly the right sign set; (E-WRAP) no unsigned subtraction in the index code can wrap unguarded; every full scan gets its own freshly opened sequential data reader and pairs one index step with one data record; index/data records are decoded without merging into a reused message. the disk index's offset binary search holds no success return inside its loop, turns a probe that finds no entry into 'greater than the target' and caches only successful probes (D12a/D18); SeekNext skips a candidate whose header fails to parse, whatever the failure (typed header failure, D19); index entries are complete triples wherever they are constructed or converted; the buffered writer forwards bytes in order. Decides these shapes for all index kinds; lookup results for all inputs (probe arithmetic in general) are value-level and not decided.",
		[]string{"comparators honour the sign contract", "proto.Unmarshal resets the target message"},
		runC03)
}

func runC03(r *Report) {
	p := r.P
	// ---- bloom-agree
	const rb = "bloom-agree"
	r.Rule(rb, 2, "writer and reader hash exactly the key with fnv.New64 before adding to / probing the bloom filter")
	for _, k := range []string{"sstables.SSTableStreamWriter.WriteNext", "sstables.SSTableReader.Contains"} {
		fn := r.NeedFunc(rb, k)
		if fn == nil {
			continue
		}
		key := rb + "/" + k
		nw := CallsIn(fn, Keys("hash/fnv.New64"))
		other := CallsIn(fn, func(c string) bool { return strings.HasPrefix(c, "hash/fnv.New") && c != "hash/fnv.New64" })
		if len(nw) != 1 || len(other) != 0 {
			r.Bad(rb, key, fn.Pos(), "the bloom filter hash is not a single fnv.New64()")
			continue
		}
		h := nw[0].Instr.(ssa.Value)
		fed, okFed := 0, true
		var used bool
		eachInstr(fn, func(s Site) {
			c, ok := s.Instr.(*ssa.Call)
			if !ok {
				return
			}
			if c.Call.IsInvoke() && c.Call.Value == h && c.Call.Method.Name() == "Write" {
				fed++
				if po := paramOrigin(c.Call.Args[0]); po == nil || refName(po) != "key" {
					okFed = false
				}
			}
			ck := CalleeKey(c)
			if strings.HasSuffix(ck, "bloomfilter.Filter.Add") || strings.HasSuffix(ck, "bloomfilter.Filter.Contains") {
				for _, a := range argsOf(c) {
					if stripIface(a) == h {
						used = true
					}
				}
			}
		})
		if fed == 1 && okFed && used {
			r.OK(rb, key, nw[0].Pos(), "fnv64(key) → filter")
		} else {
			r.Bad(rb, key, nw[0].Pos(), "the bloom filter is not fed/probed with fnv64 of exactly the key: written keys are reported absent (false negatives)")
		}
	}
	// Contains: a negative filter answer returns false; otherwise falls through to the index
	if fn := p.Func("sstables.SSTableReader.Contains"); fn != nil {
		key := rb + "/sstables.SSTableReader.Contains/fallthrough-to-index"
		ix := CallsIn(fn, Suffix("SortedKeyIndex.Contains"))
		if len(ix) == 1 {
			r.OK(rb, key, ix[0].Pos(), "a positive / absent filter falls through to the index")
		} else {
			r.Bad(rb, key, fn.Pos(), "Contains does not consult the index after the filter")
		}
	}
	ruleCrcAgree(r)

	// ---- offset-flow
	const rof = "offset-flow"
	r.Rule(rof, 1, "the index entry written for a key holds the offset the data writer returned for that key's value, the CRC of that value and the key itself")
	if fn := r.NeedFunc(rof, "sstables.SSTableStreamWriter.WriteNext"); fn != nil {
		key := rof + "/sstables.SSTableStreamWriter.WriteNext/IndexEntry"
		dw := CallsIn(fn, dataWrite)
		var off ssa.Value
		if len(dw) == 1 {
			for _, rf := range *dw[0].Instr.(ssa.Value).Referrers() {
				if ex, ok := rf.(*ssa.Extract); ok && ex.Index == 0 {
					off = ex
				}
			}
			// the data write receives the value parameter
			if po := paramOrigin(argsOf(dw[0].Call())[0]); po == nil || refName(po) != "value" {
				off = nil
			}
		}
		okO, okC, okK := false, false, false
		eachInstr(fn, func(s Site) {
			st, ok := s.Instr.(*ssa.Store)
			if !ok {
				return
			}
			t, f, _, ok := fieldAddrName(st.Addr)
			if !ok || t != "sstables/proto.IndexEntry" {
				return
			}
			switch f {
			case "ValueOffset":
				okO = off != nil && st.Val == off
			case "Checksum":
				sum := st.Val
				// the sum may pass through the shared zero-avoiding helper together with the value it was computed from
				if sm, val, ok := zeroMappedSum(sum); ok {
					if po := paramOrigin(val); po != nil && refName(po) == "value" {
						sum = sm
					}
				}
				if rc := readerChecksumOfValue(fn); rc != nil && sum == rc {
					okC = true
				}
				if c, ok := sum.(*ssa.Call); ok && c.Call.IsInvoke() && c.Call.Method.Name() == "Sum64" {
					if nc, ok := c.Call.Value.(*ssa.Call); ok && CalleeKey(nc) == "hash/crc64.New" {
						okC = true
					}
				}
			case "Key":
				if po := paramOrigin(st.Val); po != nil && refName(po) == "key" {
					okK = true
				}
			}
		})
		if okO && okC && okK {
			r.OK(rof, key, fn.Pos(), "IndexEntry{Key: key, ValueOffset: offset of this value, Checksum: crc64(value)}")
		} else {
			r.Bad(rof, key, fn.Pos(), fmt.Sprintf("index entry fields do not come from this write (offset ok=%v, checksum ok=%v, key ok=%v): lookups return another key's value", okO, okC, okK))
		}
	}
	ruleLoaderMapping(r)

	ruleBoundsSign(r)
	ruleSkiplistShape(r)
	ruleNewestFirst(r)
	ruleWrap(r)
	ruleFreshScanReader(r)
	ruleNoMergeDecode(r)
	ruleDiskSearch(r)
	ruleIndexEntryComplete(r)
	ruleMapLookupVerified(r)
	ruleDiskIndexBoundaries(r)
	ruleSeekTrial(r)
	ruleBufferedOrder(r)
	ruleCompressor(r)
	rulePoolPutOnce(r)
	ruleBloomEveryKey(r)
	ruleBloomSizeValidated(r)
	ruleCreateTruncates(r)
}

// compareOperands: for a Compare-like call, which argument position is which parameter/field?
func isCompareCall(c *ssa.Call) bool {
	k := CalleeKey(c)
	return k == "bytes.Compare" || strings.HasSuffix(k, "Comparator.Compare") || strings.HasSuffix(k, "BytesComparator.Compare")
}

// ruleBoundsSign: E-SIGN instances for range bounds and search steps.
func ruleBoundsSign(r *Report) {
	p := r.P
	const rule = "bounds"
	r.Rule(rule, 6, "IteratorBetween of every index kind returns an error exactly when lower > upper; the inclusive upper bound of the skip-list iterator and of the slice index, and the binary-search step of the disk index, react to exactly the intended signs of the comparator result")
	// (1) lower > upper rejected
	for _, k := range []string{"sstables.SliceKeyIndex.IteratorBetween", "sstables.DiskKeyIndex.IteratorBetween", "skiplist.Map.IteratorBetween"} {
		fn := r.NeedFunc(rule, k)
		if fn == nil {
			continue
		}
		key := rule + "/" + k + "/rejects-inverted"
		var cmp *Site
		swapped := false
		eachInstr(fn, func(s Site) {
			c, ok := s.Instr.(*ssa.Call)
			if !ok || !isCompareCall(c) {
				return
			}
			a := argsOf(c)
			p0, p1 := paramOrigin(a[0]), paramOrigin(a[1])
			if p0 == nil || p1 == nil {
				return
			}
			lo := func(n string) bool { return strings.Contains(strings.ToLower(n), "low") }
			hi := func(n string) bool { return strings.Contains(strings.ToLower(n), "high") }
			if lo(p0.Name()) && hi(p1.Name()) {
				ss := s
				cmp = &ss
			} else if hi(p0.Name()) && lo(p1.Name()) {
				ss := s
				cmp, swapped = &ss, true
			}
		})
		if cmp == nil {
			r.Bad(rule, key, fn.Pos(), "the bounds are never compared: an inverted range is not rejected")
			continue
		}
		want := "RRR--"
		if swapped {
			want = "--RRR"
		}
		got := signProfile(*cmp, nilReturns(fn), nil)
		// no iterator is handed out on a path that never compared the bounds (an "empty range" short cut in front of it)
		unchecked := ""
		for _, rs := range nilReturns(fn) {
			if rs.Block != cmp.Block && !dominates(cmp.Block, rs.Block) {
				unchecked = r.P.Pos(rs.Pos())
			}
		}
		if unchecked != "" {
			r.Bad(rule, key, cmp.Pos(), "the success return at "+unchecked+" is reachable without the bounds having been compared: an inverted range is accepted on that path (e.g. when nothing lies at or after the lower bound, or on an empty map)")
		} else if got == want {
			r.OK(rule, key, cmp.Pos(), "iterator built for comparator results "+got)
		} else {
			r.Bad(rule, key, cmp.Pos(), fmt.Sprintf("an iterator is returned for comparator results %s (expected %s): inverted ranges are accepted or equal bounds rejected", got, want))
		}
	}
	// (2) skip-list iterator: inclusive upper bound
	if fn := r.NeedFunc(rule, "skiplist.Iterator.Next"); fn != nil {
		key := rule + "/skiplist.Iterator.Next/upper-inclusive"
		var cmp *Site
		eachInstr(fn, func(s Site) {
			if c, ok := s.Instr.(*ssa.Call); ok && isCompareCall(c) {
				ss := s
				cmp = &ss
			}
		})
		if cmp == nil {
			r.Bad(rule, key, fn.Pos(), "the range iterator never compares the current key with the upper bound")
		} else {
			// argument order: (current key, upper)
			a := argsOf(cmp.Call())
			_, f1, _, ok1 := loadOfField(a[0])
			isUpper := func(v ssa.Value) bool {
				if u, ok := v.(*ssa.UnOp); ok && u.Op == token.MUL {
					_, f, _, ok := loadOfField(u.X)
					return ok && f == "keyHigher"
				}
				return false
			}
			want, wantDone := "RRR--", "--R--"
			if ok1 && f1 == "key" && isUpper(a[1]) {
			} else if isUpper(a[0]) {
				want = "--RRR"
			} else {
				r.Unk(rule, key, cmp.Pos(), "comparator operands are not (current key, upper bound)")
				cmp = nil
			}
			if cmp != nil {
				got := signProfile(*cmp, nilReturns(fn), nil)
				var doneStores []Site
				eachInstr(fn, func(s Site) {
					if st, ok := s.Instr.(*ssa.Store); ok {
						if _, f, _, ok := fieldAddrName(st.Addr); ok && f == "doneNext" {
							doneStores = append(doneStores, s)
						}
					}
				})
				gotDone := signProfile(*cmp, doneStores, nil)
				if got == want && gotDone == wantDone {
					r.OK(rule, key, cmp.Pos(), "entry returned for results "+got+", iteration ends after an exact match")
				} else {
					r.Bad(rule, key, cmp.Pos(), fmt.Sprintf("entry returned for comparator results %s (expected %s), end-after-match for %s (expected %s): the upper bound is not inclusive or the scan overruns it", got, want, gotDone, wantDone))
				}
			}
		}
	}
	// (3) slice index: endIdx+1 exactly when index[endIdx].key <= upper
	if fn := p.Func("sstables.SliceKeyIndex.IteratorBetween"); fn != nil {
		key := rule + "/sstables.SliceKeyIndex.IteratorBetween/upper-inclusive"
		var cmp *Site
		eachInstr(fn, func(s Site) {
			c, ok := s.Instr.(*ssa.Call)
			if !ok || !isCompareCall(c) {
				return
			}
			a := argsOf(c)
			if po := paramOrigin(a[1]); po != nil && strings.Contains(strings.ToLower(refName(po)), "high") && paramOrigin(a[0]) == nil {
				ss := s
				cmp = &ss
			}
		})
		if cmp == nil {
			r.Bad(rule, key, fn.Pos(), "the end position is not adjusted by comparing the entry at the end position with the upper bound")
		} else {
			var incs []Site
			eachInstr(fn, func(s Site) {
				if bo, ok := s.Instr.(*ssa.BinOp); ok && bo.Op == token.ADD {
					if k, ok := constInt(bo.Y); ok && k == 1 && reachableFromSite(*cmp, s) {
						incs = append(incs, s)
					}
				}
			})
			got := signProfile(*cmp, incs, nil)
			if got == "RRR--" {
				r.OK(rule, key, cmp.Pos(), "end index extended for entry <= upper")
			} else {
				r.Bad(rule, key, cmp.Pos(), "end index extended for comparator results "+got+" (expected RRR--): an entry equal to the upper bound is excluded or a greater one included")
			}
		}
	}
	// (4) disk index binary search: i = h+1 exactly when entry < target; found exactly when == 0
	if fn := r.NeedFunc(rule, "sstables.DiskKeyIndex.binarySearch"); fn != nil {
		var cmps []Site
		eachInstr(fn, func(s Site) {
			if c, ok := s.Instr.(*ssa.Call); ok && isCompareCall(c) {
				a := argsOf(c)
				if po := paramOrigin(a[1]); po != nil && refName(po) == "target" {
					cmps = append(cmps, s)
				}
			}
		})
		key := rule + "/sstables.DiskKeyIndex.binarySearch/step"
		okStep, okFound := false, false
		for _, c := range cmps {
			// step: a BinOp ADD h+1 reachable only for negative results
			var incs []Site
			eachInstr(fn, func(s Site) {
				if bo, ok := s.Instr.(*ssa.BinOp); ok && bo.Op == token.ADD {
					if k, ok := constInt(bo.Y); ok && k == 1 && s.Block != c.Block && reachableFromSite(c, s) && dominates(c.Block, s.Block) {
						incs = append(incs, s)
					}
				}
			})
			if len(incs) > 0 && signProfile(c, incs, nil) == "RR---" {
				okStep = true
			}
			// found flag: BinOp EQL (cmp, 0) feeding the return
			for _, rf := range *c.Instr.(ssa.Value).Referrers() {
				if bo, ok := rf.(*ssa.BinOp); ok && bo.Op == token.EQL {
					if k, ok := constInt(bo.Y); ok && k == 0 {
						okFound = true
					}
				}
			}
		}
		if okStep && okFound {
			r.OK(rule, key, fn.Pos(), "lower half discarded exactly for entry < target; found = (compare == 0)")
		} else {
			r.Bad(rule, key, fn.Pos(), fmt.Sprintf("binary search step / found test have the wrong sign set (step ok=%v, found ok=%v)", okStep, okFound))
		}
	}
	// (5) slice index search closure compares (entry.key, target) in this order
	for _, fn := range p.FuncsOfPkg("sstables") {
		if !strings.HasPrefix(FuncKey(fn), "sstables.SliceKeyIndex.search$") {
			continue
		}
		r.Saw(fn)
		key := rule + "/" + FuncKey(fn) + "/operand-order"
		ok := false
		eachInstr(fn, func(s Site) {
			if c, isC := s.Instr.(*ssa.Call); isC && isCompareCall(c) {
				a := argsOf(c)
				_, f0, b0, ok0 := loadOfFieldOrField(a[0])
				if ok0 && f0 == "key" && (paramOrigin(b0) == fn.Params[0] || allocParam(b0) == fn.Params[0]) && paramOrigin(a[1]) == fn.Params[1] {
					ok = true
				}
			}
		})
		if ok {
			r.OK(rule, key, fn.Pos(), "compare(entry.key, target)")
		} else {
			r.Bad(rule, key, fn.Pos(), "the binary-search callback does not compare (entry key, target) in this order: the search descends into the wrong half")
		}
	}
}

// ruleNewestFirst: the stacked reader answers point lookups from the newest table down.
func ruleNewestFirst(r *Report) {
	const rule = "newest-first"
	r.Rule(rule, 2, "the stacked reader walks its readers from the last (newest) to the first (oldest) for point lookups")
	p := r.P
	_ = p
	for _, k := range []string{"sstables.SuperSSTableReader.Get", "sstables.SuperSSTableReader.Contains"} {
		fn := r.NeedFunc(rule, k)
		if fn == nil {
			continue
		}
		key := rule + "/" + k + "/newest-first"
		ok := false
		eachInstr(fn, func(s Site) {
			ph, isP := s.Instr.(*ssa.Phi)
			if !isP || len(ph.Edges) != 2 {
				return
			}
			init, step := false, false
			for _, e := range ph.Edges {
				bo, isB := e.(*ssa.BinOp)
				if !isB || bo.Op != token.SUB {
					continue
				}
				if k, okk := constInt(bo.Y); !okk || k != 1 {
					continue
				}
				if bo.X == ssa.Value(ph) {
					step = true
				} else if c, isC := bo.X.(*ssa.Call); isC {
					if b, isB2 := c.Call.Value.(*ssa.Builtin); isB2 && b.Name() == "len" {
						if _, f, _, okF := loadOfFieldOrField(c.Call.Args[0]); okF && f == "readers" {
							init = true
						}
					}
				}
			}
			if init && step {
				// used as the index into readers
				for _, rf := range *ph.Referrers() {
					if ia, isI := rf.(*ssa.IndexAddr); isI {
						if _, f, _, okF := loadOfFieldOrField(ia.X); okF && f == "readers" {
							ok = true
						}
					}
				}
			}
		})
		if ok {
			r.OK(rule, key, fn.Pos(), "index runs from len(readers)-1 down")
		} else {
			r.Bad(rule, key, fn.Pos(), "the point lookup does not walk the readers from newest (last) to oldest: an older table's value can win")
		}
	}
}

func loadOfFieldOrField(v ssa.Value) (string, string, ssa.Value, bool) {
	if f, ok := v.(*ssa.Field); ok {
		return fieldAddrName(f)
	}
	return loadOfField(v)
}

// E-WRAP: unsigned subtractions in the index code need a dominating guard.
func ruleWrap(r *Report) {
	const rule = "unsigned"
	r.Rule(rule, 1, "every subtraction on an unsigned offset in the SSTable index code is dominated by a guard that excludes wrap-around (x != 0 / x > 0 for x-1, a >= b for a-b)")
	p := r.P
	n := 0
	for _, fn := range p.FuncsOfPkg("sstables") {
		eachInstr(fn, func(s Site) {
			bo, ok := s.Instr.(*ssa.BinOp)
			if !ok || bo.Op != token.SUB {
				return
			}
			bt, ok := bo.Type().Underlying().(*types.Basic)
			if !ok || bt.Info()&types.IsUnsigned == 0 {
				return
			}
			n++
			r.Saw(fn)
			key := ef0uniq(rule + "/" + FuncKey(fn))
			if guardedSub(s, bo) {
				r.OK(rule, key, bo.Pos(), "guarded unsigned subtraction")
			} else if k, isK := constInt(bo.Y); isK && k == 1 && !reachableAssuming(fn, bo.X, 0, s.Block) {
				// the guard is a test correlated with another condition (`if !found && x == 0 { return }` … `if !found { x-1 }`)
				r.OK(rule, key, bo.Pos(), "the subtraction is unreachable with the minuend equal to zero (path-sensitive over repeated conditions)")
			} else {
				r.Bad(rule, key, bo.Pos(), "unsigned subtraction without a dominating guard: it wraps to a huge offset (e.g. a range whose upper bound precedes the first key covers the whole table)")
			}
		})
	}
	if n == 0 {
		r.Missing(rule, rule+"/sites", "no unsigned subtraction found in the index code (rule instance vanished)")
	}
	// the disk index' range: when the upper bound is absent and nothing precedes it (the search answers offset 0, not
	// found) the range is empty — that case must not run into the general iterator with end offset 0, which seeks once and
	// returns the first entry
	if fn := p.Func("sstables.DiskKeyIndex.IteratorBetween"); fn != nil {
		key := rule + "/sstables.DiskKeyIndex.IteratorBetween/upper-before-first-is-empty"
		var hi *ssa.Call
		for _, s := range CallsIn(fn, Suffix("DiskKeyIndex.binarySearch")) {
			a := s.Call().Common().Args
			if po := paramOrigin(a[len(a)-1]); po != nil && strings.Contains(strings.ToLower(refName(po)), "high") {
				hi = s.Instr.(*ssa.Call)
			}
		}
		var off, found ssa.Value
		if hi != nil {
			for _, rf := range *hi.Referrers() {
				if ex, ok := rf.(*ssa.Extract); ok {
					switch ex.Index {
					case 0:
						off = ex
					case 2:
						found = ex
					}
				}
			}
		}
		if hi == nil || off == nil || found == nil {
			r.Unk(rule, key, fn.Pos(), "the search for the upper bound (offset, found) was not recognised")
		} else {
			// explore with off == 0 and found == false
			seen := map[*ssa.BasicBlock]bool{}
			var work []*ssa.BasicBlock
			push := func(b *ssa.BasicBlock) {
				if !seen[b] {
					seen[b] = true
					work = append(work, b)
				}
			}
			push(hi.Block())
			for len(work) > 0 {
				b := work[len(work)-1]
				work = work[:len(work)-1]
				if t, ok := branchOn(b, off, 0); ok {
					push(t)
					continue
				}
				if cnd, tS, fS, _, _, ok := effCond(b); ok && cnd == found {
					_ = tS
					push(fS)
					continue
				}
				for _, su := range b.Succs {
					push(su)
				}
			}
			bad := ""
			for _, s := range CallsIn(fn, Suffix("DiskKeyIndex.newIterator")) {
				if !seen[s.Block] {
					continue
				}
				a := s.Call().Common().Args
				if _, isC := a[len(a)-1].(*ssa.Const); !isC {
					bad = r.P.Pos(s.Pos())
				}
			}
			if bad != "" {
				r.Bad(rule, key, hi.Pos(), "with the upper bound absent and sorting before the first entry (offset 0, not found) the general iterator at "+bad+" is reached with end offset 0: ScanRange(lo, hi) with hi below the smallest key returns the smallest key")
			} else {
				r.OK(rule, key, hi.Pos(), "an upper bound before the first entry yields the empty iterator")
			}
		}
	}
}

func guardedSub(s Site, bo *ssa.BinOp) bool {
	fn := s.Fn
	for _, b := range liveBlocks(fn) {
		if len(b.Instrs) == 0 || !dominates(b, s.Block) || b == s.Block {
			continue
		}
		iff, ok := b.Instrs[len(b.Instrs)-1].(*ssa.If)
		if !ok {
			continue
		}
		c, ok := iff.Cond.(*ssa.BinOp)
		if !ok {
			continue
		}
		// which successor leads to s?
		var viaTrue, viaFalse bool
		if b.Succs[0] == s.Block || dominates(b.Succs[0], s.Block) {
			viaTrue = true
		}
		if b.Succs[1] == s.Block || dominates(b.Succs[1], s.Block) {
			viaFalse = true
		}
		if viaTrue == viaFalse {
			continue
		}
		// x - k with constant k: need x >= k  (x != 0 / x > 0 for k == 1)
		if k, isK := constInt(bo.Y); isK {
			if c.X != bo.X {
				continue
			}
			ck, isCK := constInt(c.Y)
			if !isCK {
				continue
			}
			implied := func(op token.Token, onTrue bool) bool {
				// does (x op ck) == onTrue imply x >= k ?
				for x := int64(0); x < k; x++ {
					res, _ := evalCmp(op, x, ck)
					if res == onTrue {
						return false
					}
				}
				return true
			}
			if implied(c.Op, viaTrue) {
				return true
			}
			continue
		}
		// a - b: need a >= b
		type rel struct {
			op   token.Token
			x, y ssa.Value
		}
		rr := rel{c.Op, c.X, c.Y}
		if !viaTrue {
			// negate
			neg := map[token.Token]token.Token{token.LSS: token.GEQ, token.GEQ: token.LSS, token.GTR: token.LEQ, token.LEQ: token.GTR, token.EQL: token.NEQ, token.NEQ: token.EQL}
			rr.op = neg[c.Op]
		}
		if (rr.x == bo.X && rr.y == bo.Y && (rr.op == token.GEQ || rr.op == token.GTR)) ||
			(rr.x == bo.Y && rr.y == bo.X && (rr.op == token.LEQ || rr.op == token.LSS)) {
			return true
		}
	}
	return false
}

// R-fresh-scan-reader: every full scan reads the data file through a reader opened by that Scan call.
func ruleFreshScanReader(r *Report) {
	const rule = "fresh-scan-reader"
	r.Rule(rule, 2, "each full scan pairs the index with a sequential data reader opened by that Scan call (never a reader shared between scans), and one Next consumes exactly one index step and one data record")
	fn := r.NeedFunc(rule, "sstables.SSTableReader.Scan")
	if fn == nil {
		return
	}
	for _, c := range CallsIn(fn, Keys("sstables.newSStableFullScanIterator", "sstables.newV0SStableFullScanIterator")) {
		key := ef0uniq(rule + "/sstables.SSTableReader.Scan/data-reader")
		dr := c.Call().Common().Args[1]
		fresh := false
		v := stripIface(dr)
		if ex, ok := v.(*ssa.Extract); ok {
			if cc, ok := ex.Tuple.(*ssa.Call); ok && creates(r.P, cc) {
				fresh = true
			}
		}
		if fresh {
			r.OK(rule, key, c.Pos(), "sequential reader created by this call")
		} else {
			r.Bad(rule, key, c.Pos(), "the scan iterator reads the data file through a reader that was not opened by this Scan call: a second scan continues where the first stopped and pairs keys with other keys' values")
		}
	}
	if it := r.NeedFunc(rule, "sstables.SSTableFullScanIterator.Next"); it != nil {
		o := &order{r, r.P}
		K := CallsIn(it, Suffix("IteratorI.Next"))
		D := CallsIn(it, Suffix("ReaderI.ReadNext"))
		key := rule + "/sstables.SSTableFullScanIterator.Next/pairing"
		if len(K) != 1 || len(D) != 1 {
			r.Bad(rule, key, it.Pos(), "one scan step must consume exactly one index entry and one data record")
		} else {
			o.OnlyAfterSuccess(rule, key, it, "the index step", K, "the data record read", D, nil)
			o.OnlyAfterSuccess(rule, key+"/success", it, "the data record read", D, "the success return", nilReturns(it), nil)
		}
	}
}

// R-no-merge-decode
func ruleNoMergeDecode(r *Report) {
	const rule = "no-merge-decode"
	r.Rule(rule, 3, "records are decoded with proto.Unmarshal (which resets the target) — never with UnmarshalOptions{Merge: true} — because callers reuse one message across records and absent (zero) fields must not inherit the previous record's values")
	p := r.P
	n := 0
	for _, pk := range []string{"recordio/proto", "sstables", "simpledb", "wal/proto"} {
		for _, fn := range p.FuncsOfPkg(pk) {
			for _, s := range AllCallsIn(fn, func(k string) bool {
				return k == "google.golang.org/protobuf/proto.Unmarshal" || strings.HasSuffix(k, "proto.UnmarshalOptions.Unmarshal")
			}) {
				n++
				r.Saw(fn)
				key := ef0uniq(rule + "/" + FuncKey(fn))
				if CalleeKey(s.Call()) == "google.golang.org/protobuf/proto.Unmarshal" {
					r.OK(rule, key, s.Pos(), "proto.Unmarshal")
				} else if mergeNeverSet(p) {
					r.OK(rule, key, s.Pos(), "UnmarshalOptions whose Merge field is never set in the module (default: reset before decode)")
				} else {
					r.Bad(rule, key, s.Pos(), "decoding through UnmarshalOptions with Merge set: a reused message keeps fields of the previous record when the new record omits them (e.g. checksum 0 of a nil value)")
				}
			}
		}
	}
	if n == 0 {
		r.Missing(rule, rule+"/sites", "no proto decoding site found")
	}
}

// allocParam: base is a local cell initialised exactly once from a parameter.
func allocParam(v ssa.Value) *ssa.Parameter {
	al, ok := v.(*ssa.Alloc)
	if !ok {
		return nil
	}
	var p *ssa.Parameter
	n := 0
	for _, rf := range *al.Referrers() {
		if st, ok := rf.(*ssa.Store); ok && st.Addr == ssa.Value(al) {
			n++
			p, _ = st.Val.(*ssa.Parameter)
		}
	}
	if n == 1 {
		return p
	}
	return nil
}

// mergeNeverSet: no code of the module (package initialisers included) stores anything but constant false into
// proto.UnmarshalOptions.Merge.
func mergeNeverSet(p *Prog) bool {
	ok := true
	for _, fn := range p.modFns {
		eachInstr(fn, func(s Site) {
			st, isS := s.Instr.(*ssa.Store)
			if !isS {
				return
			}
			if t, f, _, isF := fieldAddrName(st.Addr); isF && f == "Merge" && strings.HasSuffix(t, "proto.UnmarshalOptions") {
				if b, isC := constBool(st.Val); !isC || b {
					ok = false
				}
			}
		})
	}
	return ok
}

// R-disk-search: the offset binary search of the disk index decides nothing from a single probe.
// (D12a) A probe that lands behind the start of the last entry finds no entry (io.EOF); that only says "everything from
// here on is greater than the target". Returning "not found" from inside the loop makes present keys absent as soon as
// the last entry is larger than the first probe distance.
func ruleDiskSearch(r *Report) {
	const rule = "disk-search"
	r.Rule(rule, 3, "DiskKeyIndex.binarySearch: no success return is reachable from inside the search loop (only through the loop condition); a probe that finds no entry (io.EOF) lowers the upper bound to the probe offset and leaves the lower bound alone; findAt caches a probe result only after the read succeeded")
	p := r.P
	fn := r.NeedFunc(rule, "sstables.DiskKeyIndex.binarySearch")
	if fn != nil {
		// the loop header: an If on `phi < phi` that one successor can reach again
		var hdr, hdrBody, hdrExit *ssa.BasicBlock
		var iPhi, jPhi *ssa.Phi
		for _, b := range liveBlocks(fn) {
			if len(b.Instrs) == 0 {
				continue
			}
			iff, ok := b.Instrs[len(b.Instrs)-1].(*ssa.If)
			if !ok {
				continue
			}
			_ = iff
			for _, v := range ifCmpForms(b) {
				if v.Op != token.LSS {
					continue
				}
				x, okX := v.X.(*ssa.Phi)
				y, okY := v.Y.(*ssa.Phi)
				if !okX || !okY || x.Block() != b || y.Block() != b {
					continue
				}
				if reachFrom(v.T, nil)[b] && !reachFrom(v.F, nil)[b] {
					hdr, iPhi, jPhi = b, x, y
					hdrBody, hdrExit = v.T, v.F
				}
			}
		}
		key := rule + "/sstables.DiskKeyIndex.binarySearch/no-verdict-inside-loop"
		if hdr == nil {
			r.Missing(rule, key, "search loop `for i < j` not found")
		} else {
			removed := map[Edge]bool{{hdr, hdrExit}: true}
			var early []Site
			for _, nr := range nilReturns(fn) {
				if siteReachable(nr, removed) {
					early = append(early, nr)
				}
			}
			if len(early) == 0 {
				r.OK(rule, key, hdr.Instrs[len(hdr.Instrs)-1].Pos(), "every success return lies behind the loop condition")
			} else {
				r.Bad(rule, key, early[0].Pos(), "a success return is reachable from inside the search loop: one probe that finds no entry behind it (it landed behind the start of the last index entry) ends the search with \"not found\", although the target may lie before the probe (input: table {\"a\", 500×\"z\"} through DiskIndexLoader: Contains and Get miss both keys)")
			}
			// the EOF edge inside the loop: j = probe, i unchanged
			key = rule + "/sstables.DiskKeyIndex.binarySearch/eof-probe-lowers-upper-bound"
			loop := map[*ssa.BasicBlock]bool{}
			for b := range reachFrom(hdrBody, nil) {
				if reachFrom(b, nil)[hdr] {
					loop[b] = true
				}
			}
			loop[hdrBody] = true
			var probe ssa.Value
			var probeSite Site
			for _, s := range CallsIn(fn, Keys("sstables.DiskKeyIndex.findAt")) {
				if loop[s.Block] {
					a := argsOf(s.Call())
					if len(a) >= 1 {
						probe, probeSite = a[len(a)-1], s
					}
				}
			}
			if probe == nil {
				r.Missing(rule, key, "no findAt probe inside the search loop")
			} else {
				al := errAliases(probeSite)
				verdict, detail := "", ""
				for b := range loop {
					v, g, isS, _, ok := sentinelTest(b)
					if !ok || !al[v] || g != "io.EOF" {
						continue
					}
					// follow the EOF side through jumps back to the header
					cur, prev := isS, b
					seen := map[*ssa.BasicBlock]bool{}
					for cur != hdr && !seen[cur] && len(cur.Succs) == 1 {
						seen[cur] = true
						prev, cur = cur, cur.Succs[0]
					}
					if cur != hdr {
						verdict, detail = "bad", "the io.EOF side of the probe does not continue the search"
						continue
					}
					pi := -1
					for k, pb := range hdr.Preds {
						if pb == prev {
							pi = k
						}
					}
					if pi < 0 {
						continue
					}
					if iPhi.Edges[pi] == ssa.Value(iPhi) && jPhi.Edges[pi] == probe {
						if verdict == "" {
							verdict = "ok"
						}
					} else {
						verdict, detail = "bad", "after a probe that found no entry the lower bound moves or the upper bound is not set to the probe offset: keys before the probe are skipped"
					}
				}
				switch verdict {
				case "ok":
					r.OK(rule, key, probeSite.Pos(), "io.EOF from a probe: j = h, i unchanged")
				case "bad":
					r.Bad(rule, key, probeSite.Pos(), detail)
				default:
					r.Bad(rule, key, probeSite.Pos(), "a probe that finds no entry (io.EOF) is not turned into \"greater than the target\" inside the loop")
				}
			}
		}
	}
	if fa := r.NeedFunc(rule, "sstables.DiskKeyIndex.findAt"); fa != nil {
		o := &order{r, p}
		A := CallsIn(fa, Suffix("ReadAtI.SeekNext", "MMapProtoReader.SeekNext"))
		var B []Site
		eachInstr(fa, func(s Site) {
			if _, ok := s.Instr.(*ssa.MapUpdate); ok {
				B = append(B, s)
			}
		})
		key := rule + "/sstables.DiskKeyIndex.findAt/cache-only-success"
		if len(B) == 0 {
			r.OK(rule, key, fa.Pos(), "findAt does not cache")
		} else {
			o.OnlyAfterSuccess(rule, key, fa, "SeekNext", A, "the offset cache update", B, nil)
		}
	}
}

// R-index-entry-complete: an index entry is the triple (key, value offset, value checksum). Every place that
// constructs one either leaves it empty as a decode target or sets all three fields; every place that turns an entry into
// an IndexVal copies offset and checksum. A copy that drops the checksum yields 0, which the reader takes for
// "legacy entry, nothing to verify": a damaged value is then served without an error.
func ruleIndexEntryComplete(r *Report) {
	const rule = "index-entry-complete"
	r.Rule(rule, 6, "every sstables/proto.IndexEntry constructed outside the generated code is either an empty decode target or carries Key, ValueOffset and Checksum; every IndexVal built from an entry (loaders, disk index Get and iterator) takes Offset from ValueOffset and Checksum from Checksum")
	p := r.P
	for _, fn := range p.ModuleFuncs() {
		pk := fnPkg(fn)
		if pk == nil || strings.HasSuffix(pk.Path(), "/proto") || fn.Blocks == nil {
			continue
		}
		// (1) constructions
		n := 0
		eachInstr(fn, func(s Site) {
			al, ok := s.Instr.(*ssa.Alloc)
			if !ok {
				return
			}
			pt, ok := al.Type().(*types.Pointer)
			if !ok || typeShort(pt.Elem()) != "sstables/proto.IndexEntry" {
				return
			}
			set := map[string]bool{}
			for _, ref := range *al.Referrers() {
				fa, ok := ref.(*ssa.FieldAddr)
				if !ok {
					continue
				}
				for _, rr := range *fa.Referrers() {
					if sto, ok := rr.(*ssa.Store); ok && sto.Addr == ssa.Value(fa) {
						set[refField(fa.X.Type(), fa.Field)] = true
					}
				}
			}
			key := fmt.Sprintf("%s/%s/construct", rule, FuncKey(fn))
			if n > 0 {
				key = fmt.Sprintf("%s#%d", key, n+1)
			}
			n++
			r.Saw(fn)
			switch {
			case len(set) == 0:
				r.OK(rule, key, al.Pos(), "empty decode target")
			case set["Key"] && set["ValueOffset"] && set["Checksum"]:
				r.OK(rule, key, al.Pos(), "Key, ValueOffset and Checksum set")
			default:
				r.Bad(rule, key, al.Pos(), "an index entry is built with only part of (Key, ValueOffset, Checksum): the missing checksum reads as 0 = \"nothing to verify\", so a damaged value found through this entry is returned without error")
			}
		})
		// (2) conversions to IndexVal outside Load (Load is covered by loader-mapping)
		if shortPkg(pk.Path()) != "sstables" || fnName(fn) == "Load" {
			continue
		}
		okOff, okCk, m, bad := false, false, 0, false
		eachInstr(fn, func(s Site) {
			st, ok := s.Instr.(*ssa.Store)
			if !ok {
				return
			}
			t, f, _, ok := fieldAddrName(st.Addr)
			if !ok || t != "sstables.IndexVal" {
				return
			}
			st2, src, _, ok2 := loadOfField(st.Val)
			if !ok2 || st2 != "sstables/proto.IndexEntry" {
				return
			}
			m++
			switch {
			case f == "Offset" && src == "ValueOffset":
				okOff = true
			case f == "Checksum" && src == "Checksum":
				okCk = true
			default:
				bad = true
			}
		})
		if m == 0 {
			continue
		}
		r.Saw(fn)
		key := fmt.Sprintf("%s/%s/to-index-val", rule, FuncKey(fn))
		if okOff && okCk && !bad {
			r.OK(rule, key, fn.Pos(), "IndexVal{Offset: ValueOffset, Checksum: Checksum}")
		} else {
			r.Bad(rule, key, fn.Pos(), "an IndexVal is built from an index entry without both ValueOffset→Offset and Checksum→Checksum")
		}
	}
}

// R-map-lookup-verified: the map index maps a key through a fixed-width mapper that pads short keys with zero bytes, so
// different keys ("", {0}, {0,0}; "a", "a\x00") share one slot. A hit in the map is only an answer for the requested key
// after the stored key was compared with it.
func ruleMapLookupVerified(r *Report) {
	const rule = "map-lookup-verified"
	r.Rule(rule, 2, "MapKeyIndex.Get and Contains trust a map hit only after comparing the stored key with the requested key (bytes.Equal / bytes.Compare on the key parameter), or delegate to the slice index")
	p := r.P
	ruleMapFallbackScope(r)
	ruleMapLoaderLongKeys(r)
	for _, k := range []string{"sstables.MapKeyIndex.Get", "sstables.MapKeyIndex.Contains"} {
		fn := r.NeedFunc(rule, k)
		if fn == nil {
			continue
		}
		key := rule + "/" + k
		var lookups []Site
		eachInstr(fn, func(s Site) {
			if l, ok := s.Instr.(*ssa.Lookup); ok {
				if _, isMap := l.X.Type().Underlying().(*types.Map); isMap {
					lookups = append(lookups, s)
				}
			}
		})
		if len(lookups) == 0 {
			// delegates entirely
			if len(CallsIn(fn, Suffix("MapKeyIndex.Get", "SliceKeyIndex.Get", "SliceKeyIndex.Contains"))) > 0 {
				r.OK(rule, key, fn.Pos(), "delegates to a verified lookup")
			} else {
				r.Unk(rule, key, fn.Pos(), "neither a map lookup nor a delegation found")
			}
			continue
		}
		cmp := false
		for _, c := range CallsIn(fn, Keys("bytes.Equal", "bytes.Compare")) {
			for _, a := range c.Call().Common().Args {
				if po := paramOrigin(a); po != nil && refName(po) == "key" {
					cmp = true
				}
			}
		}
		// … and the comparison stands between the hit and its use: with the "stored key is the requested key" edges
		// removed, no return that hands out the slot's entry is reachable from the lookup
		if cmp {
			removed := map[Edge]bool{}
			for _, b := range liveBlocks(fn) {
				cnd, tS, fS, tE, fE, ok := effCond(b)
				if !ok {
					continue
				}
				isKeyCmp := func(c *ssa.Call) bool {
					if c == nil || c.Call.StaticCallee() == nil {
						return false
					}
					fk := FuncKey(c.Call.StaticCallee())
					if fk != "bytes.Equal" && fk != "bytes.Compare" {
						return false
					}
					for _, a := range c.Call.Args {
						if po := paramOrigin(a); po != nil && refName(po) == "key" {
							return true
						}
					}
					return false
				}
				if c, isC := cnd.(*ssa.Call); isC && isKeyCmp(c) && FuncKey(c.Call.StaticCallee()) == "bytes.Equal" && tE {
					removed[Edge{b, tS}] = true
				}
				if bo, isB := cnd.(*ssa.BinOp); isB {
					if c, isC := bo.X.(*ssa.Call); isC && isKeyCmp(c) {
						if z, isZ := constInt(bo.Y); isZ && z == 0 {
							if bo.Op == token.EQL && tE {
								removed[Edge{b, tS}] = true
							}
							if bo.Op == token.NEQ && fE {
								removed[Edge{b, fS}] = true
							}
						}
					}
				}
			}
			for _, l := range lookups {
				var pos ssa.Value
				for _, rf := range *l.Instr.(ssa.Value).Referrers() {
					if ex, ok := rf.(*ssa.Extract); ok && ex.Index == 0 {
						pos = ex
					}
				}
				if pos == nil {
					pos = l.Instr.(ssa.Value)
				}
				reach := reachFrom(l.Block, removed)
				for _, rs := range nilReturns(fn) {
					ret := rs.Instr.(*ssa.Return)
					if reach[rs.Block] && len(ret.Results) > 0 && valueDependsOn(ret.Results[0], func(x ssa.Value) bool { return x == pos }) {
						cmp = false
					}
				}
			}
		}
		// a probe the mapper cannot map (longer than its width: MapBytes panics) is absent, not a reason to panic
		if k == "sstables.MapKeyIndex.Get" {
			gkey := rule + "/" + k + "/probe-length-guarded"
			var maps []Site
			eachInstr(fn, func(s Site) {
				if c, ok := s.Instr.(*ssa.Call); ok && c.Call.IsInvoke() && c.Call.Method.Name() == "MapBytes" {
					maps = append(maps, s)
				}
			})
			guarded := len(maps) > 0
			for _, m := range maps {
				g := false
				for _, b := range liveBlocks(fn) {
					if b == m.Block || !reachFrom(b, nil)[m.Block] {
						continue
					}
					cnd, tS, fS, _, _, ok := effCond(b)
					if !ok {
						continue
					}
					// one side of the test leaves the function (the probe is answered without being mapped)
					leaves := false
					for _, su := range []*ssa.BasicBlock{tS, fS} {
						if _, isRet := su.Instrs[len(su.Instrs)-1].(*ssa.Return); isRet && !reachFrom(su, nil)[m.Block] {
							leaves = true
						}
					}
					if !leaves {
						continue
					}
					if valueDependsOn(cnd, func(x ssa.Value) bool {
						c, isC := x.(*ssa.Call)
						if !isC {
							return false
						}
						bi, isB := c.Call.Value.(*ssa.Builtin)
						if !isB || bi.Name() != "len" {
							return false
						}
						po := paramOrigin(c.Call.Args[0])
						return po != nil && refName(po) == "key"
					}) {
						g = true
					}
					// … or a helper is asked that looks at the length of the probe it is handed
					valueDependsOn(cnd, func(x ssa.Value) bool {
						c, isC := x.(*ssa.Call)
						if !isC {
							return false
						}
						sc := genericBody(c.Call.StaticCallee())
						if sc == nil || !inModule(sc) || len(sc.Blocks) == 0 {
							return false
						}
						for i, a := range c.Call.Args {
							po := paramOrigin(a)
							if po == nil || refName(po) != "key" || po.Parent() != fn || i >= len(sc.Params) {
								continue
							}
							hp := sc.Params[i]
							for _, rs := range returnsOf(sc) {
								for _, rv := range rs.Instr.(*ssa.Return).Results {
									if valueDependsOn(rv, func(y ssa.Value) bool {
										lc, isL := y.(*ssa.Call)
										if !isL {
											return false
										}
										bi, isB := lc.Call.Value.(*ssa.Builtin)
										return isB && bi.Name() == "len" && paramOrigin(lc.Call.Args[0]) == hp
									}) {
										g = true
									}
								}
							}
						}
						return false
					})
				}
				if !g {
					guarded = false
				}
			}
			if guarded {
				r.OK(rule, gkey, maps[0].Pos(), "the probe's length is tested before it is mapped")
			} else {
				r.Bad(rule, gkey, fn.Pos(), "the probe key is handed to the fixed-width mapper unchecked: Get(\"abcde\") on a Byte4KeyMapper table panics (data length is too large) where the other loaders answer not-found; Contains panics whenever the bloom filter lets such a probe through")
			}
		}
		if cmp {
			r.OK(rule, key, lookups[0].Pos(), "the stored key is compared with the requested key")
		} else {
			r.Bad(rule, key, lookups[0].Pos(), "a map hit is returned without comparing the stored key: the mapper pads short keys, so the empty key, {0x00} and {0x00,0x00} share one slot — with tables {0x00 -> old-zero} and {empty key -> new-empty} Get({0x00}) returns new-empty and Get({0x00,0x00}) returns a value instead of not-found")
		}
	}
	_ = p
}

// R-disk-index-boundaries (known finding): the disk index has no table of record boundaries; it finds entries by
// scanning for the record marker from arbitrary byte offsets (binary-search probes, and "offset of the last entry + 1"
// in the iterator). A key that contains the bytes of a complete, valid record (header with a correct CRC plus an encoded
// index entry) is indistinguishable from an entry when the scan starts inside it.
func ruleDiskIndexBoundaries(r *Report) {
	const rule = "disk-index-boundaries"
	r.Rule(rule, 2, "the disk index reads index entries only at offsets known to be record boundaries (a boundary table, or the previous boundary plus the record's length) — not by SeekNext from a probe offset or from the previous entry's offset plus one")
	for _, k := range []string{"sstables.DiskKeyIndex.findAt", "sstables.DiskKeyIndexIterator.Next"} {
		fn := r.NeedFunc(rule, k)
		if fn == nil {
			continue
		}
		key := rule + "/" + k
		seeks := CallsIn(fn, Suffix("ReadAtI.SeekNext", "MMapProtoReader.SeekNext"))
		if len(seeks) == 0 {
			r.OK(rule, key, fn.Pos(), "does not scan for markers")
		} else {
			r.Bad(rule, key, seeks[0].Pos(), "entries are located by scanning for the record marker from an offset that is not known to be a record boundary; with the disk index a key built as \"c\" + 5000×'x' + <bytes of a valid index record for key \"zzzz\"> makes Contains/Get of the written keys \"d\" and \"e\" report not found, Get(\"zzzz\") succeed and ScanStartingAt(\"a\") return a, b, c, zzzz, d, e (the other three loaders answer correctly on the same table)")
		}
	}
}

// reachableAssuming explores fn from its entry with the value x fixed to val: comparisons of x with constants are decided,
// every other condition is explored both ways but consistently — once a condition value has been taken as true (false)
// on a path, a later test of the same value on that path goes the same way. It answers whether target can be reached.
func reachableAssuming(fn *ssa.Function, x ssa.Value, val int64, target *ssa.BasicBlock) bool {
	type state struct {
		b   *ssa.BasicBlock
		dec string
	}
	seen := map[state]bool{}
	var walk func(b *ssa.BasicBlock, dec map[ssa.Value]bool, depth int) bool
	encode := func(dec map[ssa.Value]bool) string {
		var parts []string
		for v, t := range dec {
			parts = append(parts, fmt.Sprintf("%s=%v", v.Name(), t))
		}
		sort.Strings(parts)
		return strings.Join(parts, ",")
	}
	walk = func(b *ssa.BasicBlock, dec map[ssa.Value]bool, depth int) bool {
		if b == target {
			return true
		}
		st := state{b, encode(dec)}
		if seen[st] || depth > 400 {
			return false
		}
		seen[st] = true
		// x is defined somewhere: before its definition nothing is decided by it, which is conservative (both ways)
		if t, ok := branchOn(b, x, val); ok {
			return walk(t, dec, depth+1)
		}
		if cnd, tS, fS, tE, fE, ok := effCond(b); ok && tE && fE {
			if d, known := dec[cnd]; known {
				if d {
					return walk(tS, dec, depth+1)
				}
				return walk(fS, dec, depth+1)
			}
			for _, way := range []bool{true, false} {
				nd := map[ssa.Value]bool{}
				for k2, v2 := range dec {
					nd[k2] = v2
				}
				nd[cnd] = way
				nxt := fS
				if way {
					nxt = tS
				}
				if walk(nxt, nd, depth+1) {
					return true
				}
			}
			return false
		}
		for _, su := range b.Succs {
			if walk(su, dec, depth+1) {
				return true
			}
		}
		return false
	}
	if len(fn.Blocks) == 0 {
		return true
	}
	return walk(fn.Blocks[0], map[ssa.Value]bool{}, 0)
}

// R-loader-mapping (C03, C08)
func ruleLoaderMapping(r *Report) {
	p := r.P
	// loaders map the index record into their entries field by field
	const rl = "loader-mapping"
	r.Rule(rl, 3, "every index loader builds its entries from (Key, ValueOffset → Offset, Checksum → Checksum) of the decoded index record")
	for _, fn := range p.FuncsOfPkg("sstables") {
		if fnName(fn) != "Load" || fn.Signature.Recv() == nil {
			continue
		}
		okOff, okCk, n, bad := false, false, 0, false
		eachInstr(fn, func(s Site) {
			st, ok := s.Instr.(*ssa.Store)
			if !ok {
				return
			}
			t, f, _, ok := fieldAddrName(st.Addr)
			if !ok || t != "sstables.IndexVal" {
				return
			}
			_, src, _, ok2 := loadOfField(st.Val)
			if !ok2 {
				return
			}
			n++
			switch {
			case f == "Offset" && src == "ValueOffset":
				okOff = true
			case f == "Checksum" && src == "Checksum":
				okCk = true
			default:
				bad = true
			}
		})
		if n == 0 {
			continue // loader that does not build IndexVal itself (disk index)
		}
		r.Saw(fn)
		key := rl + "/" + FuncKey(fn)
		if okOff && okCk && !bad && n%2 == 0 {
			r.OK(rl, key, fn.Pos(), "IndexVal{Offset: ValueOffset, Checksum: Checksum}")
		} else {
			r.Bad(rl, key, fn.Pos(), "the loader does not map ValueOffset→Offset and Checksum→Checksum")
		}
		// every record that was read becomes an entry: from the success edge of the read, the loop does not come back to
		// the read without having built one (no filter — a table's full scan pairs the n-th index entry with the n-th
		// data record, one entry less shifts every later value to the wrong key)
		{
			ekey := rl + "/" + FuncKey(fn) + "/every-record-loaded"
			var reads []Site
			eachInstr(fn, func(s Site) {
				if c, ok := s.Instr.(*ssa.Call); ok && c.Call.IsInvoke() && c.Call.Method.Name() == "ReadNext" {
					reads = append(reads, s)
				}
			})
			builds := map[*ssa.BasicBlock]bool{}
			eachInstr(fn, func(s Site) {
				if st, ok := s.Instr.(*ssa.Store); ok {
					if t, _, _, isF := fieldAddrName(st.Addr); isF && t == "sstables.IndexVal" {
						builds[s.Block] = true
					}
				}
			})
			if len(reads) != 1 {
				r.Unk(rl, ekey, fn.Pos(), "the loader's read loop was not recognised")
			} else {
				removed := map[Edge]bool{}
				for b := range builds {
					for _, su := range b.Succs {
						removed[Edge{b, su}] = true
					}
				}
				succ, _ := errorEdges(reads[0])
				skips := false
				for _, e := range succ {
					if !builds[e.To] && reachFrom(e.To, removed)[reads[0].Block] {
						skips = true
					}
				}
				if len(succ) == 0 {
					r.Unk(rl, ekey, reads[0].Pos(), "the read's error is not tested")
				} else if skips {
					r.Bad(rl, ekey, reads[0].Pos(), "a record that was read successfully can be skipped (the loop returns to the read without building an entry): with the empty key in a table — it decodes to nil, the same as 'no previous key' — the full scan is one index entry short and attributes every value to the next key; Get and Contains miss the skipped key")
				} else {
					r.OK(rl, ekey, reads[0].Pos(), "every successfully read record becomes an entry")
				}
			}
		}
	}

}
