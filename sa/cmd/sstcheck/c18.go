package main

func init() {
	register("C18",
		"Static effect analysis (E-EFFECT) of the documented concurrent read APIs: starting from the table reader's Contains/Get/ScanStartingAt/ScanRange (default index) and the range iterator's Next, the memory-mapped reader's ReadNextAt/SeekNext/Size and the stacked reader's Get/Contains, the module call graph is walked and every store, map update or copy whose target is reachable from the shared handle (interprocedural sharedness propagation through fields, parameters, results and 'field holds shared' facts) is a violation; shared state may leave the module only into reviewed thread-safe callees. The SimpleDB handle is covered by the lock-discipline analysis (E-LOCK). Decides absence of writes to shared state on these call graphs — a necessary condition of race freedom; absence of races over schedules and result equality are not decided.",
		[]string{"reviewed external callees are read-only / internally synchronised (table in the checker)", "user-supplied comparators and key mappers are pure"},
		func(r *Report) {
			ruleEffect(r)
			ruleDBIndexThreadSafe(r)
			ruleGuardedEscape(r)
			ruleRWMemstore(r)
			ruleLocks(r)
			ruleByteAPICopies(r)
			ruleAllocBounded(r)
			ruleFitsWithoutSum(r)
			ruleValueBuffersImmutable(r)
			rulePoolPutOnce(r)
		})
}
