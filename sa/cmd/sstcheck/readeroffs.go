package main

import (
	"fmt"
	"go/token"
	"go/types"
	"sort"
	"strings"

	"golang.org/x/tools/go/ssa"
)

// R-byte-count / R-reader-offsets (C04): the sequential reader's position bookkeeping.
// The counting reader advances its count by exactly the bytes it delivered; ReadNext advances the current offset by the
// bytes counted since the record started; SkipNext seeks to current + payload length + header bytes and then adopts
// that position — which is what makes "skip" equivalent to "read and discard".
func ruleReaderOffsets(r *Report) {
	const rule = "reader-offsets"
	r.Rule(rule, 5, "CountingBufferedReader counts exactly the bytes it delivered (on the nil-error edge only); FileReader.ReadNext advances currentOffset by (Count() − Count() at record start) on both the nil-record and the payload path; SkipNext seeks to currentOffset + payload length + counted header bytes and sets currentOffset to the reached offset")
	p := r.P
	// (1) counting reader
	for _, k := range []string{"recordio.CountingBufferedReader.ReadByte", "recordio.CountingBufferedReader.Read"} {
		fn := r.NeedFunc(rule, k)
		if fn == nil {
			continue
		}
		key := rule + "/" + k
		var inner *Site
		eachInstr(fn, func(s Site) {
			if c, ok := s.Instr.(*ssa.Call); ok && c.Call.IsInvoke() && (c.Call.Method.Name() == "ReadByte" || c.Call.Method.Name() == "Read") {
				ss := s
				inner = &ss
			}
		})
		if inner == nil {
			r.Bad(rule, key, fn.Pos(), "the counting reader does not delegate to the wrapped reader")
			continue
		}
		succ, _ := errorEdges(*inner)
		ok := false
		n := 0
		eachInstr(fn, func(s Site) {
			st, isS := s.Instr.(*ssa.Store)
			if !isS {
				return
			}
			if _, f, _, isF := fieldAddrName(st.Addr); !isF || f != "count" {
				return
			}
			n++
			bo, isB := st.Val.(*ssa.BinOp)
			if !isB || bo.Op != token.ADD {
				return
			}
			_, fx, _, okx := loadOfField(bo.X)
			if !okx || fx != "count" {
				return
			}
			good := false
			if strings.HasSuffix(k, "ReadByte") {
				c, isC := constInt(bo.Y)
				good = isC && c == 1
			} else {
				// + uint64(n) where n is the count returned by the inner Read
				y := stripConvert(bo.Y)
				if ex, isE := y.(*ssa.Extract); isE && ex.Index == 0 && ex.Tuple == inner.Instr.(ssa.Value) {
					good = true
				}
			}
			// only on the success edge
			rem := map[Edge]bool{}
			for _, e := range succ {
				rem[e] = true
			}
			if good && len(succ) > 0 && !siteReachable(s, rem) {
				ok = true
			}
		})
		if ok && n == 1 {
			r.OK(rule, key, fn.Pos(), "count advances by the delivered bytes on success only")
		} else {
			r.Bad(rule, key, fn.Pos(), "the byte count does not advance by exactly the bytes delivered (on the nil-error edge): record offsets and skips drift")
		}
	}
	// (2) FileReader.ReadNext: currentOffset += Count() - start
	isCount := func(v ssa.Value) (*ssa.Call, bool) {
		c, ok := v.(*ssa.Call)
		if ok && c.Call.IsInvoke() && c.Call.Method.Name() == "Count" {
			if _, f, _, okF := loadOfField(c.Call.Value); okF && f == "reader" {
				return c, true
			}
		}
		return nil, false
	}
	type leaf struct {
		kind string
		v    ssa.Value
		sign int
	}
	var flatten func(v ssa.Value, sign int, out *[]leaf)
	flatten = func(v ssa.Value, sign int, out *[]leaf) {
		switch x := v.(type) {
		case *ssa.BinOp:
			if x.Op == token.ADD {
				flatten(x.X, sign, out)
				flatten(x.Y, sign, out)
				return
			}
			if x.Op == token.SUB {
				flatten(x.X, sign, out)
				flatten(x.Y, -sign, out)
				return
			}
		case *ssa.Convert:
			flatten(x.X, sign, out)
			return
		}
		k := "other"
		if _, f, _, ok := loadOfField(v); ok && f == "currentOffset" {
			k = "cur"
		} else if _, ok := isCount(v); ok {
			k = "count"
		}
		*out = append(*out, leaf{k, v, sign})
	}
	checkAdvance := func(fn *ssa.Function, hdr Site, val ssa.Value, allowSkip bool) (bool, string) {
		var ls []leaf
		flatten(val, 1, &ls)
		cur, cntAfter, cntStart, other := 0, 0, 0, 0
		for _, l := range ls {
			switch l.kind {
			case "cur":
				if l.sign > 0 {
					cur++
				} else {
					return false, "current offset subtracted"
				}
			case "count":
				c, _ := isCount(l.v)
				var cs Site
				eachInstr(fn, func(s Site) {
					if s.Instr == ssa.Instruction(c) {
						cs = s
					}
				})
				if l.sign > 0 && precedes(hdr, cs) {
					cntAfter++
				} else if l.sign < 0 && precedes(cs, hdr) {
					cntStart++
				} else {
					return false, "Count() term with the wrong sign / position relative to the header read"
				}
			default:
				other++
			}
		}
		if cur != 1 || cntAfter != 1 || cntStart != 1 {
			return false, fmt.Sprintf("expected current + Count()after − Count()start, found cur=%d after=%d start=%d", cur, cntAfter, cntStart)
		}
		if !allowSkip && other != 0 {
			return false, "unexpected extra term"
		}
		if allowSkip && other != 1 {
			return false, "expected exactly one payload-length term"
		}
		return true, ""
	}
	if fn := r.NeedFunc(rule, "recordio.FileReader.ReadNext"); fn != nil {
		hdr := CallsIn(fn, Keys("recordio.readRecordHeaderV4"))
		if len(hdr) == 1 {
			n := 0
			eachInstr(fn, func(s Site) {
				st, isS := s.Instr.(*ssa.Store)
				if !isS {
					return
				}
				if t, f, _, isF := fieldAddrName(st.Addr); !isF || t != "recordio.FileReader" || f != "currentOffset" {
					return
				}
				n++
				key := ef0uniq(rule + "/recordio.FileReader.ReadNext/advance")
				if ok, why := checkAdvance(fn, hdr[0], st.Val, false); ok {
					r.OK(rule, key, st.Pos(), "currentOffset += bytes counted since the record started")
				} else {
					r.Bad(rule, key, st.Pos(), "the sequential reader's offset is not advanced by exactly the bytes consumed: "+why)
				}
			})
			if n < 2 {
				r.Bad(rule, rule+"/recordio.FileReader.ReadNext/advance-sites", fn.Pos(), "expected an offset update on the nil-record path and on the payload path")
			}
		} else {
			r.Missing(rule, rule+"/recordio.FileReader.ReadNext/header", "v4 header read not found")
		}
	}
	if fn := r.NeedFunc(rule, "recordio.FileReader.SkipNext"); fn != nil {
		hdr := CallsIn(fn, Keys("recordio.readRecordHeaderV4"))
		seeks := CallsIn(fn, Keys("os.File.Seek"))
		key := rule + "/recordio.FileReader.SkipNext/seek-target"
		if len(hdr) == 1 && len(seeks) == 1 {
			arg := argsOf(seeks[0].Call())[0]
			if ok, why := checkAdvance(fn, hdr[0], arg, true); ok {
				r.OK(rule, key, seeks[0].Pos(), "seek to current + payload length + counted header bytes")
			} else {
				r.Bad(rule, key, seeks[0].Pos(), "SkipNext does not seek to exactly the end of the record: "+why)
			}
			// the payload-length term is the header's compressed / uncompressed length or 0 for nil records
			key = rule + "/recordio.FileReader.SkipNext/adopts-position"
			okSet := false
			var newOff ssa.Value
			for _, rf := range *seeks[0].Instr.(ssa.Value).Referrers() {
				if ex, isE := rf.(*ssa.Extract); isE && ex.Index == 0 {
					newOff = ex
				}
			}
			eachInstr(fn, func(s Site) {
				if st, isS := s.Instr.(*ssa.Store); isS {
					if t, f, _, isF := fieldAddrName(st.Addr); isF && t == "recordio.FileReader" && f == "currentOffset" {
						if stripConvert(st.Val) == newOff && precedes(seeks[0], s) {
							okSet = true
						}
					}
				}
			})
			resets := CallsIn(fn, Suffix("ByteReaderResetCount.Reset", "Reset.Reset", "ByteReaderReset.Reset"))
			if okSet && len(resets) >= 1 {
				r.OK(rule, key, fn.Pos(), "buffer reset and currentOffset = reached offset")
			} else {
				r.Bad(rule, key, fn.Pos(), "after the seek the buffered reader is not reset or currentOffset is not set to the reached offset")
			}
		} else {
			r.Missing(rule, key, "v4 skip path not recognised")
		}
	}
	_ = p
}

// R-seek-trial: SeekNext's trial reads. A marker inside a payload makes SeekNext parse a header that is none; whatever
// that parse fails with (wrong checksum, truncated or overflowing varint, …) only means "no record starts here".
// The parse failures cannot be listed by sentinel (encoding/binary's overflow error is not exported), so the header
// parse error must travel in a module-defined error type that SeekNext recognises with errors.As.
func ruleSeekTrial(r *Report) {
	const rule = "seek-trial"
	r.Rule(rule, 2, "the random-access reader wraps every failure of parsing a record header (v2, v3, v4 — every version SeekNext works on) in one module-defined error type, and SeekNext treats a trial read that failed with that type as \"no record starts here\" and keeps scanning; only file read failures abort the seek")
	var marker types.Type
	for _, k := range []string{"recordio.MMapReader.ReadNextAt", "recordio.readNextAtV3", "recordio.readNextAtV2"} {
		fn := r.NeedFunc(rule, k)
		if fn == nil {
			continue
		}
		key := rule + "/" + k + "/header-failure-typed"
		sites := CallsIn(fn, Keys("recordio.readRecordHeaderV4", "recordio.readRecordHeaderV3", "recordio.readRecordHeaderV2"))
		if len(sites) == 0 {
			r.Missing(rule, key, "no record header parse in "+k)
			continue
		}
		var found types.Type
		for _, s := range sites {
			al := errAliases(s)
			eachInstr(fn, func(t Site) {
				st, ok := t.Instr.(*ssa.Store)
				if !ok || !al[st.Val] {
					return
				}
				fa, ok := st.Addr.(*ssa.FieldAddr)
				if !ok {
					return
				}
				pt, ok := fa.X.Type().(*types.Pointer)
				if !ok {
					return
				}
				nt, ok := pt.Elem().(*types.Named)
				if !ok || nt.Obj().Pkg() == nil || !strings.HasPrefix(nt.Obj().Pkg().Path(), modPath) {
					return
				}
				if types.Implements(pt, errorIface()) || types.Implements(nt, errorIface()) {
					found = nt
				}
			})
		}
		if found == nil {
			r.Bad(rule, key, sites[0].Pos(), "a header parse failure is returned as a plain wrapped error: SeekNext cannot tell it from a file read failure, so a payload that contains the record marker followed by bytes that fail to parse with anything but a marker/checksum mismatch or io.EOF (e.g. marker, 0x00, 12×0xff: \"varint overflows\") aborts the seek; a table with such a key cannot be opened through the disk index")
		} else {
			marker = found
			r.OK(rule, key, sites[0].Pos(), "header parse failures carry "+types.TypeString(found, nil))
		}
	}
	// the plausibility checks of the parsed sizes belong to the header parse: a marker inside a payload followed by a
	// well-formed header (its CRC can be made to match) with sizes no writer produces is no record either
	for _, k := range []string{"recordio.MMapReader.ReadNextAt", "recordio.readNextAtV3", "recordio.readNextAtV2", "recordio.readNextAtV1"} {
		fn := r.P.Func(k)
		if fn == nil || marker == nil {
			continue
		}
		for _, s := range CallsIn(fn, Keys("recordio.checkRecordSizes", "recordio.MMapReader.checkRecordFits")) {
			key := rule + "/" + k + "/size-failure-typed/" + CalleeKey(s.Call())
			al := errAliases(s)
			typed := false
			eachInstr(fn, func(t Site) {
				st, ok := t.Instr.(*ssa.Store)
				if !ok || !al[st.Val] {
					return
				}
				if fa, ok := st.Addr.(*ssa.FieldAddr); ok {
					if pt, ok := fa.X.Type().(*types.Pointer); ok {
						if nt, ok := pt.Elem().(*types.Named); ok && types.Identical(nt, marker) {
							typed = true
						}
					}
				}
			})
			// or: every failure of the helper carries a sentinel that SeekNext tests for, and it is wrapped with %w here
			viaSentinel := ""
			if !typed {
				if sc := s.Call().Common().StaticCallee(); sc != nil {
					must := mustWrapSentinels(sc)
					car := errCarriers(fn, func(v ssa.Value) bool { return al[v] })
					kept := false
					for _, rs := range returnsOf(fn) {
						ret := rs.Instr.(*ssa.Return)
						if idx := errorResultIndex(fn); idx >= 0 && idx < len(ret.Results) && (car[ret.Results[idx]] || al[ret.Results[idx]]) {
							kept = true
						}
					}
					if sk := r.P.Func("recordio.MMapReader.SeekNext"); sk != nil && kept {
						for g := range seekSkippedSentinels(sk) {
							if must[g] {
								viaSentinel = g
							}
						}
					}
				}
			}
			if typed {
				r.OK(rule, key, s.Pos(), "implausible sizes travel as "+types.TypeString(marker, nil))
			} else if viaSentinel != "" {
				r.OK(rule, key, s.Pos(), "every failure of the check wraps "+viaSentinel+", it is passed on with %w and SeekNext passes over that sentinel")
			} else {
				r.Bad(rule, key, s.Pos(), "the failure of the size check behind a parsed header is returned as a plain wrapped error: SeekNext recognises trial failures by their type, so a key or value that contains the record marker followed by a well-formed header (valid CRC) with sizes no writer produces aborts the seek instead of being passed over — a table with such a key cannot be opened with the disk index")
			}
		}
	}
	// a candidate whose header parses (its CRC can be made to match: RecordIO bytes stored inside a record) but whose
	// payload does not decompress is no record either — unless the decompression failure travels typed as well, SeekNext
	// gives up on it (known finding F-SEEK-1: not repaired, because treating it as "no record here" would also make
	// SeekNext pass silently over a genuinely damaged record)
	if rn := r.P.Func("recordio.MMapReader.ReadNextAt"); rn != nil {
		dkey := rule + "/recordio.MMapReader.ReadNextAt/decompress-failure-typed"
		typed := false
		for _, s := range CallsIn(rn, Suffix("CompressionI.DecompressWithBuf", "CompressionI.Decompress")) {
			al := errAliases(s)
			eachInstr(rn, func(t Site) {
				st, ok := t.Instr.(*ssa.Store)
				if !ok || !al[st.Val] {
					return
				}
				if fa, ok := st.Addr.(*ssa.FieldAddr); ok {
					if pt, ok := fa.X.Type().(*types.Pointer); ok {
						if nt, ok := pt.Elem().(*types.Named); ok && marker != nil && types.Identical(nt, marker) {
							typed = true
						}
					}
				}
			})
		}
		if typed {
			r.OK(rule, dkey, rn.Pos(), "decompression failures of a trial read are typed like header failures")
		} else {
			r.Bad(rule, dkey, rn.Pos(), "a decompression failure is returned as a plain error: in a compressed file a payload that contains the marker and a checksummed record header (14 bytes, e.g. RecordIO bytes stored inside a record) makes SeekNext from inside that record fail with \"snappy: corrupt input\" instead of returning the next record")
		}
	}
	fn := r.NeedFunc(rule, "recordio.MMapReader.SeekNext")
	if fn == nil {
		return
	}
	key := rule + "/recordio.MMapReader.SeekNext/typed-failure-skipped"
	trials := CallsIn(fn, Keys("recordio.MMapReader.ReadNextAt"))
	if len(trials) == 0 {
		r.Missing(rule, key, "no trial read in SeekNext")
		return
	}
	if marker == nil {
		r.Bad(rule, key, trials[0].Pos(), "SeekNext has no typed header failure to recognise (see header-failure-typed)")
		return
	}
	ok := false
	for _, tr := range trials {
		al := errAliases(tr)
		for _, b := range liveBlocks(fn) {
			cnd, tS, _, tE, _, is := effCond(b)
			if !is || !tE {
				continue
			}
			c, isC := cnd.(*ssa.Call)
			if !isC || CalleeKey(c) != "errors.As" || len(c.Call.Args) != 2 || !al[stripIface(c.Call.Args[0])] {
				continue
			}
			// target: pointer to *marker
			tt := stripIface(c.Call.Args[1]).Type()
			pp, isP := tt.(*types.Pointer)
			if !isP {
				continue
			}
			inner := pp.Elem()
			if ip, isIP := inner.(*types.Pointer); isIP {
				inner = ip.Elem()
			}
			if !types.Identical(inner, marker) {
				continue
			}
			if !endsInFailingReturn(tS) && reachFrom(tS, nil)[tr.Block] {
				ok = true
			}
		}
	}
	if ok {
		r.OK(rule, key, trials[0].Pos(), "errors.As(err, *"+types.TypeString(marker, nil)+") → keep scanning")
	} else {
		r.Bad(rule, key, trials[0].Pos(), "SeekNext does not skip a candidate whose header failed to parse (typed failure not recognised, or the recognised side gives up)")
	}
}

func errorIface() *types.Interface {
	return types.Universe.Lookup("error").Type().Underlying().(*types.Interface)
}

// R-skip-bounded: skipping a record moves the file position with Seek, and seeking behind the end of a file succeeds.
// A record whose payload was cut off is then "skipped" without an error although reading it fails — skip is no longer
// read-and-discard, and counting with SkipNext sees one record more than the file contains. Every skip must check the
// target against the file size first.
func ruleSkipBounded(r *Report) {
	const rule = "skip-bounded"
	r.Rule(rule, 4, "in every SkipNext flavour the seek to the end of the skipped record happens only after a successful check of that offset against the file size (os.File.Stat)")
	p := r.P
	o := &order{r, p}
	for _, k := range []string{"recordio.FileReader.SkipNext", "recordio.SkipNextV1", "recordio.SkipNextV2", "recordio.SkipNextV3"} {
		fn := r.NeedFunc(rule, k)
		if fn == nil {
			continue
		}
		B := CallsIn(fn, Keys("os.File.Seek"))
		if len(B) == 0 {
			continue // delegates to a version-specific flavour
		}
		var A []Site
		eachInstr(fn, func(s Site) {
			c, ok := s.Instr.(*ssa.Call)
			if !ok {
				return
			}
			if CalleeKey(c) == "os.File.Stat" {
				A = append(A, s)
				return
			}
			if sc := c.Call.StaticCallee(); sc != nil && inModule(sc) {
				for _, g := range moduleReach(p, []*ssa.Function{sc}) {
					if len(CallsIn(g, Keys("os.File.Stat"))) > 0 {
						A = append(A, s)
						return
					}
				}
			}
		})
		key := rule + "/" + k
		if len(A) == 0 {
			r.Bad(rule, key, B[0].Pos(), "the skip seeks to the computed end of the record without comparing it with the file size: on a file cut inside a payload SkipNext returns nil (seeking past the end succeeds) where ReadNext fails, and the record counts as present")
			continue
		}
		o.OnlyAfterSuccess(rule, key, fn, "the size check", A, "the seek", B, nil)
		// what is checked is what is sought: the offset handed to the check helper and the one handed to Seek are one value
		// (a check of the payload end without the header passes for a file cut inside the last few bytes of the record)
		for _, a := range A {
			c := a.Instr.(*ssa.Call)
			if CalleeKey(c) == "os.File.Stat" {
				continue // inline check: the comparison itself is not pinned here
			}
			args := argsOf(c)
			if len(args) == 0 {
				continue
			}
			// the check helper itself (it asks the file for its size), not a version-specific flavour that is delegated to
			if sc := c.Call.StaticCallee(); sc == nil || len(CallsIn(sc, Keys("os.File.Stat"))) == 0 {
				continue
			}
			ckey := rule + "/" + k + "/checked-is-sought"
			same := true
			for _, b := range B {
				sa := b.Call().Common().Args
				if stripConvert(sa[len(sa)-2]) != stripConvert(args[len(args)-1]) {
					same = false
				}
			}
			if same {
				r.OK(rule, ckey, a.Pos(), "the checked offset is the seek target")
			} else {
				r.Bad(rule, ckey, a.Pos(), "the offset that is checked against the file size is not the offset that is sought (the header length is added afterwards): a file cut within the last bytes of a record lets SkipNext succeed on a record that is not completely contained")
			}
		}
	}
}

// R-skip-read-siblings: SkipNext is "read and discard", so the two flavours must treat a header parse failure alike.
// ReadNext takes a marker mismatch followed only by zero bytes for the end of a block-aligned (direct-I/O) file;
// a SkipNext that does not reports "magic number mismatch" at the end of every such file.
func ruleSkipReadSiblings(r *Report) {
	const rule = "skip-read-siblings"
	r.Rule(rule, 3, "each SkipNext flavour classifies the same sentinels of the record header parse as its ReadNext sibling (in particular the marker mismatch that the zero padding of block-aligned files produces)")
	classified := func(fn *ssa.Function) map[string]bool {
		out := map[string]bool{}
		for _, hs := range CallsIn(fn, func(k string) bool { return strings.HasPrefix(k, "recordio.readRecordHeaderV") }) {
			al := errAliases(hs)
			for _, b := range liveBlocks(fn) {
				if v, g, _, _, ok := sentinelTest(b); ok && al[v] {
					out[g] = true
				}
			}
			// one level of helper that receives the error
			eachInstr(fn, func(s Site) {
				c, ok := s.Instr.(*ssa.Call)
				if !ok {
					return
				}
				sc := c.Call.StaticCallee()
				if sc == nil || !inModule(sc) || sc.Blocks == nil {
					return
				}
				for i, a := range c.Call.Args {
					if !al[a] && !al[stripIface(a)] {
						continue
					}
					if i >= len(sc.Params) {
						continue
					}
					for _, b := range liveBlocks(sc) {
						if v, g, _, _, ok := sentinelTest(b); ok && paramOrigin(v) == sc.Params[i] {
							out[g] = true
						}
					}
				}
			})
		}
		return out
	}
	for _, pair := range [][2]string{{"recordio.FileReader.ReadNext", "recordio.FileReader.SkipNext"}, {"recordio.readNextV2", "recordio.SkipNextV2"}, {"recordio.readNextV3", "recordio.SkipNextV3"}} {
		rd, sk := r.NeedFunc(rule, pair[0]), r.NeedFunc(rule, pair[1])
		if rd == nil || sk == nil {
			continue
		}
		key := rule + "/" + pair[1]
		cr, cs := classified(rd), classified(sk)
		var missing []string
		for g := range cr {
			if !cs[g] {
				missing = append(missing, g)
			}
		}
		sort.Strings(missing)
		if len(missing) > 0 {
			r.Bad(rule, key, sk.Pos(), fmt.Sprintf("%s classifies %s of the header parse, %s does not: at the zero-padded end of a file written with DirectIO ReadNext returns io.EOF and SkipNext returns \"magic number mismatch\"", pair[0], strings.Join(missing, ", "), pair[1]))
		} else {
			r.OK(rule, key, sk.Pos(), fmt.Sprintf("same header-failure classification as %s (%d sentinel(s))", pair[0], len(cr)))
		}
	}
}

// R-alloc-bounded: SeekNext parses a header wherever it sees the marker bytes, also inside a payload. The sizes of such
// a "header" (its CRC can be made to match, e.g. RecordIO bytes stored inside a record) must not be believed before
// they were compared with what the file can hold: allocating 2^50 bytes panics (makeslice) and 2^44 kills the process
// (out of memory) — from a read.
func ruleAllocBounded(r *Report) {
	const rule = "alloc-bounded"
	r.Rule(rule, 4, "in MMapReader.ReadNextAt (v4) every allocation that is sized from the parsed record header happens only after a successful comparison of those sizes with the size of the mapped file; the legacy random-access readers (v1, v2, v3) call the same check before they allocate")
	p := r.P
	// siblings: the three legacy readers allocate from header sizes as well (a v1 header is 20 raw bytes with two 64 bit
	// sizes and no checksum at all: ReadNextAt at an offset that is not a record start takes whatever it finds for sizes)
	{
		o := &order{r, p}
		for _, k := range []string{"recordio.readNextAtV1", "recordio.readNextAtV2", "recordio.readNextAtV3"} {
			lf := r.NeedFunc(rule, k)
			if lf == nil {
				continue
			}
			lkey := rule + "/" + k + "/fits-before-alloc"
			checks := CallsIn(lf, Keys("recordio.MMapReader.checkRecordFits"))
			allocs := CallsIn(lf, Keys("recordio.allocateRecordBuffer", "recordio.allocateRecordBufferPooled"))
			if len(allocs) == 0 {
				r.Unk(rule, lkey, lf.Pos(), "no allocation from the header sizes found")
				continue
			}
			if len(checks) == 0 {
				r.Bad(rule, lkey, allocs[0].Pos(), "the payload buffer is allocated from the sizes in the record header before they were compared with the file: on a legal v1 file whose payload contains the v1 marker followed by ff bytes, ReadNextAt(31) panics (makeslice: len out of range) where the v2-v4 readers return an error")
				continue
			}
			o.OnlyAfterSuccess(rule, lkey, lf, "checkRecordFits", checks, "the allocation", allocs, nil)
		}
	}
	fn := r.NeedFunc(rule, "recordio.MMapReader.ReadNextAt")
	if fn == nil {
		return
	}
	key := rule + "/recordio.MMapReader.ReadNextAt"
	hdr := CallsIn(fn, Keys("recordio.readRecordHeaderV4"))
	if len(hdr) == 0 {
		r.Missing(rule, key, "no v4 header parse in ReadNextAt")
		return
	}
	fromHeader := func(v ssa.Value) bool {
		return valueDependsOn(v, func(x ssa.Value) bool {
			ex, ok := x.(*ssa.Extract)
			return ok && ex.Tuple == hdr[0].Instr.(ssa.Value) && (ex.Index == 0 || ex.Index == 1)
		})
	}
	// allocations sized from the header
	var allocs []Site
	eachInstr(fn, func(s Site) {
		c, ok := s.Instr.(*ssa.Call)
		if !ok {
			return
		}
		k := CalleeKey(c)
		if strings.HasSuffix(k, "Pool.Get") || k == "recordio.allocateRecordBufferPooled" {
			for _, a := range c.Call.Args {
				if fromHeader(a) {
					allocs = append(allocs, s)
					return
				}
			}
		}
	})
	if len(allocs) == 0 {
		r.Missing(rule, key, "no allocation sized from the header found")
		return
	}
	// the bound check: a call of a module function (error result) that receives header sizes and (transitively)
	// consults the mapped length, or an inline comparison with it
	var checks []Site
	eachInstr(fn, func(s Site) {
		c, ok := s.Instr.(*ssa.Call)
		if !ok {
			return
		}
		sc := c.Call.StaticCallee()
		if sc == nil || !inModule(sc) || CalleeKey(c) == "recordio.readRecordHeaderV4" || CalleeKey(c) == "recordio.allocateRecordBufferPooled" {
			return
		}
		if _, hasErr, _ := errResults(c); !hasErr {
			return
		}
		usesSizes := false
		for _, a := range c.Call.Args {
			if fromHeader(a) {
				usesSizes = true
			}
		}
		if !usesSizes {
			return
		}
		for _, g := range moduleReach(p, []*ssa.Function{sc}) {
			if len(CallsIn(g, Suffix("ReaderAt.Len", "MMapReader.Size"))) > 0 {
				checks = append(checks, s)
				return
			}
		}
	})
	if len(checks) == 0 {
		r.Bad(rule, key, allocs[0].Pos(), "buffers are allocated with the sizes of the parsed header before anything compares them with the file: a payload that contains the marker and a checksummed header claiming 2^50 bytes makes SeekNext (which probes inside payloads) panic with makeslice: len out of range, 2^44 dies with out of memory")
		return
	}
	o := &order{r, p}
	o.OnlyAfterSuccess(rule, key, fn, "the size check against the file", checks, "allocating from header sizes", allocs, nil)
}

// R-header-sizes-checked: the two sizes of a v4 header are related by what the writer can produce: in a file without
// compression the compressed size is always 0, and with compression no supported codec expands a payload beyond a fixed
// ratio. A header that says otherwise is no header. Without the check an altered compressed-size byte (0x00 → 0x80|x in
// an uncompressed file) swallows the stored checksum while staying a shortest-form varint, the "checksum" is then read
// from the payload, and a payload that starts with the right five bytes makes the altered header pass.
func ruleHeaderSizesChecked(r *Report) {
	const rule = "header-sizes-checked"
	r.Rule(rule, 6, "each v4 consumer (ReadNext, SkipNext, ReadNextAt) passes both parsed sizes to one plausibility check (compressed size 0 without compression; bounded expansion with it) on the success edge of the header parse, before it allocates, reads or seeks")
	p := r.P
	o := &order{r, p}
	for _, k := range []string{"recordio.FileReader.ReadNext", "recordio.FileReader.SkipNext", "recordio.MMapReader.ReadNextAt"} {
		fn := r.NeedFunc(rule, k)
		if fn == nil {
			continue
		}
		key := rule + "/" + k
		hdr := CallsIn(fn, Keys("recordio.readRecordHeaderV4"))
		if len(hdr) == 0 {
			r.Missing(rule, key, "no v4 header parse")
			continue
		}
		sizeArg := func(v ssa.Value, idx int) bool {
			return valueDependsOn(v, func(x ssa.Value) bool {
				ex, ok := x.(*ssa.Extract)
				return ok && ex.Tuple == hdr[0].Instr.(ssa.Value) && ex.Index == idx
			})
		}
		var checks []Site
		eachInstr(fn, func(s Site) {
			c, ok := s.Instr.(*ssa.Call)
			if !ok {
				return
			}
			sc := c.Call.StaticCallee()
			if sc == nil || !inModule(sc) || CalleeKey(c) == "recordio.allocateRecordBufferPooled" {
				return
			}
			if _, hasErr, _ := errResults(c); !hasErr {
				return
			}
			u, cz := false, false
			for _, a := range c.Call.Args {
				if sizeArg(a, 0) {
					u = true
				}
				if sizeArg(a, 1) {
					cz = true
				}
			}
			if u && cz {
				checks = append(checks, s)
			}
		})
		// what must come after the check: allocations, payload reads, seeks
		var uses []Site
		eachInstr(fn, func(s Site) {
			c, ok := s.Instr.(*ssa.Call)
			if !ok {
				return
			}
			ck := CalleeKey(c)
			if ck == "recordio.allocateRecordBufferPooled" || ck == "os.File.Seek" || ck == "io.ReadFull" {
				if reachableFromSite(hdr[0], s) {
					uses = append(uses, s)
				}
			}
		})
		if len(checks) == 0 {
			r.Bad(rule, key, hdr[0].Pos(), "the parsed sizes are used without a plausibility check: in an uncompressed file the compressed-size byte 0x00 → 0x80|x swallows the stored checksum (still a shortest-form varint), the checksum is read from the payload, and a payload built for it makes both readers return bytes that start 5 bytes into the payload and end with 5 bytes of the next header")
			continue
		}
		o.OnlyAfterSuccess(rule, key, fn, "the size plausibility check", checks, "using the sizes", uses, nil)
	}
	ruleUncompressedSizeRule(r)
	// the bound on the expansion must admit everything the supported codecs can produce: deflate reaches 1032:1 on long
	// runs, 12 bit LZW about 1340:1 at 8 MiB and more beyond (the reader must accept what the writer wrote)
	if fn := p.Func("recordio.checkRecordSizes"); fn != nil {
		key := rule + "/recordio.checkRecordSizes/expansion-bound-admits-codecs"
		const need = 2800
		bound := int64(-1)
		eachInstr(fn, func(s Site) {
			bo, ok := s.Instr.(*ssa.BinOp)
			if !ok {
				return
			}
			po := paramOrigin(stripConvert(bo.X))
			if po == nil || po.Parent() != fn {
				return
			}
			k, isK := constInt(bo.Y)
			if !isK {
				return
			}
			switch bo.Op {
			case token.QUO:
				bound = k
			case token.SHR:
				if k < 62 {
					bound = int64(1) << uint(k)
				}
			}
		})
		switch {
		case bound < 0:
			r.Unk(rule, key, fn.Pos(), "the expansion bound (a division or shift of the uncompressed size by a constant) was not recognised")
		case bound < need:
			r.Bad(rule, key, fn.Pos(), fmt.Sprintf("the expansion bound is %d:1, below what the supported codecs reach on highly compressible records (deflate ≈1030:1, LZW ≈1340:1 and more): a record the writer wrote — 4 MiB of one byte with LZW, 16 MiB with gzip — is rejected by the native reader while the schema reader decodes it", bound))
		default:
			r.OK(rule, key, fn.Pos(), fmt.Sprintf("expansion bound %d:1", bound))
		}
	}
}

// inlineEOFConversion: ph merges the error errv with io.ErrUnexpectedEOF such that errv arrives only over the "is not
// io.EOF" edge of a test of errv — the inline form of `if err == io.EOF { err = io.ErrUnexpectedEOF }`.
func inlineEOFConversion(ph *ssa.Phi, errv ssa.Value) bool {
	sawConv, sawErr := false, false
	for i, e := range ph.Edges {
		pred := ph.Block().Preds[i]
		switch {
		case globalLoad(e) == "io.ErrUnexpectedEOF":
			sawConv = true
		case e == errv || stripIface(e) == errv:
			x, g, _, notS, ok := sentinelTest(pred)
			if !ok || g != "io.EOF" || (x != errv && stripIface(x) != errv) || notS != ph.Block() {
				return false
			}
			sawErr = true
		default:
			return false
		}
	}
	return sawConv && sawErr
}

// convertsEOF: sc maps io.EOF to io.ErrUnexpectedEOF (and passes everything else on).
func convertsEOF(sc *ssa.Function) bool {
	if sc == nil || len(sc.Blocks) == 0 || !inModule(sc) {
		return false
	}
	for _, b := range liveBlocks(sc) {
		if _, g, isS, _, ok := sentinelTest(b); ok && g == "io.EOF" && returnedSentinel(isS) == "io.ErrUnexpectedEOF" {
			return true
		}
	}
	return false
}

// R-torn-record-is-not-eof (C20, C12, C07, C13): io.EOF is what the readers' callers take for the regular end of the
// records. Once the first byte of a record has been read, the end of the file is not that: a file that ends between two
// header fields, or right behind a header whose payload is missing, holds a record that was cut off (a writer that was
// killed, a flush that failed half way). Reported as a plain EOF the native reader sees a complete, shorter file — where
// the schema reader fails, an index loader loads a shorter table, and a WAL file that is not the last one ends early
// without an error.
func ruleTornRecordIsNotEOF(r *Report) {
	const rule = "torn-record-is-not-eof"
	r.Rule(rule, 6, "in readRecordHeaderV4 every read behind the marker hands its error to a conversion that turns io.EOF into io.ErrUnexpectedEOF before it is returned, and FileReader.ReadNext does the same with the error of the payload read")
	p := r.P
	check := func(fn *ssa.Function, site Site, label string) {
		key := uniqKey(r, rule+"/"+FuncKey(fn)+"/"+label)
		r.Saw(fn)
		c := site.Instr.(*ssa.Call)
		var errv ssa.Value = c
		if _, isT := c.Type().(*types.Tuple); isT {
			errv = nil
			for _, rf := range *c.Referrers() {
				if ex, ok := rf.(*ssa.Extract); ok && isErrorType(ex.Type()) {
					errv = ex
				}
			}
		}
		if errv == nil {
			r.Unk(rule, key, site.Pos(), "the read's error result is not used")
			return
		}
		// every return that carries this error carries it through a converter
		raw := false
		conv := false
		car := errCarriers(fn, func(v ssa.Value) bool { return v == errv })
		idx := errorResultIndex(fn)
		for _, rs := range returnsOf(fn) {
			ret := rs.Instr.(*ssa.Return)
			if idx < 0 || idx >= len(ret.Results) {
				continue
			}
			res := ret.Results[idx]
			cands := []ssa.Value{res}
			if k, vals := returnErrOperand(ret, idx); k == "val" {
				// a spilled result (functions with defer): what this return stored, not the cell all returns share
				if u, isU := res.(*ssa.UnOp); isU && u.Op == token.MUL && isCell(u.X) && len(vals) > 0 {
					cands = nil
				}
				cands = append(cands, vals...)
			}
			for _, cv := range cands {
				if cv == errv || stripIface(cv) == errv {
					raw = true
				}
				if !car[cv] && !car[stripIface(cv)] {
					continue
				}
				// a load of the spilled result cell carries this error only if a store that reaches it does
				if u, isU := cv.(*ssa.UnOp); isU && u.Op == token.MUL && isCell(u.X) {
					if svs, unk := reachingStores(u); !unk {
						any := false
						for _, sv := range svs {
							if sv == errv || car[sv] || car[stripIface(sv)] {
								any = true
							}
						}
						if !any {
							continue
						}
					}
				}
				// carried: is there a converter between the read and the return?
				through := valueDependsOn(cv, func(x ssa.Value) bool {
					ph, isPhi := x.(*ssa.Phi)
					return isPhi && inlineEOFConversion(ph, errv)
				}) || valueDependsOn(cv, func(x ssa.Value) bool {
					cl, isC := x.(*ssa.Call)
					if !isC || !convertsEOF(cl.Call.StaticCallee()) {
						return false
					}
					for _, a := range cl.Call.Args {
						if a == errv || car[a] {
							return true
						}
					}
					return false
				})
				if through {
					conv = true
				} else if cv != errv {
					// wrapped without conversion (fmt.Errorf("%w", err))
					raw = true
				}
			}
		}
		// errors turned into something else by a call (fmt.Errorf) are carriers as well: look at calls that take the raw error
		eachInstr(fn, func(s Site) {
			cl, ok := s.Instr.(*ssa.Call)
			if !ok {
				return
			}
			if convertsEOF(cl.Call.StaticCallee()) {
				for _, a := range cl.Call.Args {
					// (the error itself, or the variable in which it meets the errors of the other reads)
					if _, isPhi := a.(*ssa.Phi); a == errv || (isPhi && car[a]) {
						conv = true
					}
				}
			}
		})
		eachInstr(fn, func(s Site) {
			if ph, ok := s.Instr.(*ssa.Phi); ok && inlineEOFConversion(ph, errv) {
				// … and every use of the error behind the test goes through the merged value
				onlyTest := true
				for _, rf := range *errv.Referrers() {
					switch y := rf.(type) {
					case *ssa.Phi:
						if y != ph {
							onlyTest = false
						}
					case *ssa.BinOp, *ssa.DebugRef:
					case *ssa.Call:
						if CalleeKey(y) != "errors.Is" {
							onlyTest = false
						}
					case *ssa.MakeInterface, *ssa.ChangeInterface:
					default:
						onlyTest = false
					}
				}
				if onlyTest {
					conv = true
				}
			}
		})
		if conv && !raw {
			r.OK(rule, key, site.Pos(), "a file that ends here is reported as io.ErrUnexpectedEOF")
		} else {
			r.Bad(rule, key, site.Pos(), "the end of the file behind the first byte of a record is passed on as io.EOF, the readers' signal for a regular end: a writer killed behind the length fields of its third record leaves a 40 byte file that the native reader reads as two records and a clean end, while the schema reader fails on it; an index cut there loads as a shorter table; a WAL file that is not the newest ends early without an error")
		}
	}
	if fn := r.NeedFunc(rule, "recordio.readRecordHeaderV4"); fn != nil {
		// the marker comparison: first If on the result of the first varint read
		var reads []Site
		eachInstr(fn, func(s Site) {
			if c, ok := s.Instr.(*ssa.Call); ok {
				ck := CalleeKey(c)
				if ck == "encoding/binary.ReadUvarint" || strings.HasSuffix(ck, ".ReadByte") || strings.HasSuffix(ck, "checksumByteReader.Checksum") {
					reads = append(reads, s)
				}
			}
		})
		if len(reads) < 2 {
			r.Missing(rule, rule+"/recordio.readRecordHeaderV4/reads", "the header reads were not recognised")
		}
		for i, rd := range reads {
			if i == 0 {
				// the first byte of the marker: the end of the file in front of it is the regular end — unless the read
				// stands in a loop (the marker taken byte by byte): from its second round on it is behind the first byte
				again := false
				for _, su := range rd.Block.Succs {
					if reachFrom(su, nil)[rd.Block] {
						again = true
					}
				}
				if !again {
					continue
				}
			}
			check(fn, rd, "field")
		}
	}
	if fn := r.NeedFunc(rule, "recordio.FileReader.ReadNext"); fn != nil {
		hdr := CallsIn(fn, Keys("recordio.readRecordHeaderV4"))
		for _, s := range CallsIn(fn, Keys("io.ReadFull")) {
			if len(hdr) > 0 && reachableFromSite(hdr[0], s) {
				check(fn, s, "payload")
			}
		}
	}
	_ = p
}

// mustWrapSentinels: the module sentinels that every non-nil error result of fn wraps (fmt.Errorf with %w of a load of the
// sentinel, or the sentinel itself). Empty when some failing exit carries none.
func mustWrapSentinels(fn *ssa.Function) map[string]bool {
	idx := errorResultIndex(fn)
	if idx < 0 || fn.Blocks == nil {
		return nil
	}
	cands := map[string][]ssa.Value{}
	eachInstr(fn, func(s Site) {
		if u, ok := s.Instr.(*ssa.UnOp); ok {
			if g := globalLoad(u); g != "" && isErrorType(u.Type()) {
				cands[g] = append(cands[g], u)
			}
		}
	})
	out := map[string]bool{}
	for g, vals := range cands {
		set := map[ssa.Value]bool{}
		for _, v := range vals {
			set[v] = true
		}
		car := errCarriers(fn, func(v ssa.Value) bool { return set[v] })
		all, any := true, false
		for _, rs := range returnsOf(fn) {
			ret := rs.Instr.(*ssa.Return)
			if idx >= len(ret.Results) || isNilConst(ret.Results[idx]) {
				continue
			}
			any = true
			v := ret.Results[idx]
			if !(set[v] || car[v] || set[stripIface(v)] || car[stripIface(v)]) {
				all = false
			}
		}
		if all && any {
			out[g] = true
		}
	}
	return out
}

// seekSkippedSentinels: the sentinels for which SeekNext keeps scanning after a failed trial read.
func seekSkippedSentinels(fn *ssa.Function) map[string]bool {
	out := map[string]bool{}
	for _, b := range liveBlocks(fn) {
		_, g, isS, _, ok := sentinelTest(b)
		if ok && isS != nil && !endsInFailingReturn(isS) {
			out[g] = true
		}
	}
	return out
}
