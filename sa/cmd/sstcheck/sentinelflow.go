package main

import (
	"fmt"
	"go/token"
	"sort"
	"strings"

	"golang.org/x/tools/go/ssa"
)

// E-SENTINEL-FLOW: which module-declared sentinel errors can a function return with their identity intact?
// A sentinel S reaches a function's error result when the function returns a load of S, an error built with
// fmt.Errorf("…%w…", …S…) / errors.Join(…S…) / a module error type that stores it, or the error result of a callee that
// may return S — carried by value, through local cells, phis and %w wrapping only. Reformatting with %v / %s or
// replacing the error cuts the identity. The analysis is a least fix point over the module's call graph.
//
// R-sentinel-producible: every classification `errors.Is(err, S)` / `err == S` of the error of a module call, for a
// module-declared S, must be able to match: S must be in the may-return set of at least one callee. A classification
// that cannot match is a contradiction between two places of the code: either the producer lost the identity
// (wrapped with %v, replaced), or the consumer tests for the wrong sentinel; in both cases the branch that handles the
// regular end / absence is dead and the condition is handled as a failure (or the other way round).

type sentinelFlow struct {
	p   *Prog
	may map[string]map[string]bool // by FuncKey: generic origins and their instantiations share one entry
}

// errCarriers: the values in fn that carry (with identity) one of the seed error values.
func errCarriers(fn *ssa.Function, seed func(v ssa.Value) bool) map[ssa.Value]bool {
	car := map[ssa.Value]bool{}
	changed := true
	has := func(v ssa.Value) bool {
		return v != nil && (car[v] || car[stripIface(v)] || seed(v) || seed(stripIface(v)))
	}
	mark := func(v ssa.Value) {
		if !car[v] {
			car[v] = true
			changed = true
		}
	}
	for changed {
		changed = false
		for _, f := range closuresOf(fn) {
			eachInstr(f, func(s Site) {
				switch x := s.Instr.(type) {
				case *ssa.Phi:
					for _, e := range x.Edges {
						if has(e) {
							mark(x)
						}
					}
				case *ssa.Extract:
					if has(x.Tuple) && isErrorType(x.Type()) {
						mark(x)
					}
				case *ssa.MakeInterface:
					if has(x.X) {
						mark(x)
					}
				case *ssa.ChangeInterface:
					if has(x.X) {
						mark(x)
					}
				case *ssa.Store:
					if has(x.Val) {
						switch a := x.Addr.(type) {
						case *ssa.Alloc:
							mark(a)
						case *ssa.FreeVar:
							mark(a)
						case *ssa.FieldAddr:
							// error stored into a freshly built module error value (wrapper type with Unwrap)
							if al, ok := a.X.(*ssa.Alloc); ok {
								mark(al)
							}
						case *ssa.IndexAddr:
							if al, ok := a.X.(*ssa.Alloc); ok {
								mark(al) // varargs packaging
							}
						}
					}
				case *ssa.UnOp:
					if x.Op == token.MUL && has(x.X) {
						mark(x)
					}
				case *ssa.Slice:
					if has(x.X) {
						mark(x)
					}
				case *ssa.MakeClosure:
					// a captured variable is one cell seen from both sides
					if cf, ok := x.Fn.(*ssa.Function); ok {
						for i, b := range x.Bindings {
							if i < len(cf.FreeVars) {
								if has(cf.FreeVars[i]) {
									mark(b)
								}
								if has(b) {
									mark(cf.FreeVars[i])
								}
							}
						}
					}
				case *ssa.Call:
					ck := CalleeKey(x)
					switch ck {
					case "fmt.Errorf":
						if wrapsWithW(x, has) {
							for _, a := range x.Call.Args {
								if has(a) {
									mark(x)
								}
							}
						}
					case "errors.Join":
						for _, a := range x.Call.Args {
							if has(a) {
								mark(x)
							}
						}
					}
				}
			})
		}
	}
	return car
}

func newSentinelFlow(p *Prog) *sentinelFlow {
	sf := &sentinelFlow{p: p, may: map[string]map[string]bool{}}
	fns := p.ModuleFuncs()
	add := func(fn *ssa.Function, s string) bool {
		k := FuncKey(fn)
		if sf.may[k] == nil {
			sf.may[k] = map[string]bool{}
		}
		if sf.may[k][s] {
			return false
		}
		sf.may[k][s] = true
		return true
	}
	changed := true
	for round := 0; changed && round < 40; round++ {
		changed = false
		for _, fn := range fns {
			idx := errorResultIndex(fn)
			if idx < 0 || fn.Blocks == nil {
				continue
			}
			// candidate sentinels: direct loads of module sentinels in fn, and may-sets of callees
			type src struct {
				v ssa.Value
				s string
			}
			var srcs []src
			for _, f := range closuresOf(fn) {
				eachInstr(f, func(s Site) {
					if u, ok := s.Instr.(*ssa.UnOp); ok {
						if g := globalLoad(u); g != "" && isErrorType(u.Type()) && trackedSentinel(p, g) {
							srcs = append(srcs, src{u, g})
						}
					}
					if c, ok := s.Instr.(*ssa.Call); ok {
						cals := p.Callees(c)
						for _, g := range stdlibSentinels(CalleeKey(c)) {
							srcs = append(srcs, src{c, g})
						}
						for _, cal := range cals {
							for g := range sf.may[FuncKey(cal)] {
								srcs = append(srcs, src{c, g})
							}
						}
						// an error from code we cannot see (a dynamic callee, a type-parameter method in a generic
						// body): it may be anything, including a sentinel handed in by the caller's iterator
						if _, hasErr, _ := errResults(c); hasErr && len(cals) == 0 && c.Call.StaticCallee() == nil {
							srcs = append(srcs, src{c, "*"})
						}
					}
				})
			}
			if len(srcs) == 0 {
				continue
			}
			bySent := map[string][]ssa.Value{}
			for _, s := range srcs {
				bySent[s.s] = append(bySent[s.s], s.v)
			}
			for g, vals := range bySent {
				if sf.may[FuncKey(fn)][g] {
					continue
				}
				set := map[ssa.Value]bool{}
				for _, v := range vals {
					set[v] = true
				}
				car := errCarriers(fn, func(v ssa.Value) bool { return set[v] })
				has := func(v ssa.Value) bool { return set[v] || car[v] || set[stripIface(v)] || car[stripIface(v)] }
				hit := false
				for _, rs := range returnsOf(fn) {
					ret := rs.Instr.(*ssa.Return)
					if idx < len(ret.Results) && has(ret.Results[idx]) {
						hit = true
					}
					// named results with defer: the operand is a load of the result cell
					if idx < len(ret.Results) {
						if u, ok := ret.Results[idx].(*ssa.UnOp); ok && u.Op == token.MUL && has(u.X) {
							hit = true
						}
					}
				}
				if hit && add(fn, g) {
					changed = true
				}
			}
		}
	}
	return sf
}

func ruleSentinelProducible(r *Report, pkgs ...string) {
	const rule = "sentinel-producible"
	r.Rule(rule, 8, "every test for a module-declared sentinel on the error of a module call can match: at least one callee may return that sentinel with its identity intact (directly, through %w / errors.Join / a wrapping error type, through its own callees); a test that can never match means the identity was lost on the way up or the wrong sentinel is tested")
	p := r.P
	if p.sentFlow == nil {
		p.sentFlow = newSentinelFlow(p)
	}
	sf := p.sentFlow
	want := map[string]bool{}
	for _, k := range pkgs {
		want[k] = true
	}
	for _, fn := range p.ModuleFuncs() {
		pk := fnPkg(fn)
		if pk == nil || fn.Blocks == nil || !want[shortPkg(pk.Path())] {
			continue
		}
		n := map[string]int{}
		for _, b := range liveBlocks(fn) {
			v, g, _, _, ok := sentinelTest(b)
			if !ok || !trackedSentinel(p, g) {
				continue
			}
			// the call(s) whose error this is
			var calls []*ssa.Call
			seen := map[ssa.Value]bool{}
			var back func(x ssa.Value)
			back = func(x ssa.Value) {
				if x == nil || seen[x] {
					return
				}
				seen[x] = true
				switch y := x.(type) {
				case *ssa.Extract:
					back(y.Tuple)
				case *ssa.Call:
					calls = append(calls, y)
				case *ssa.Phi:
					for _, e := range y.Edges {
						back(e)
					}
				case *ssa.MakeInterface:
					back(y.X)
				case *ssa.ChangeInterface:
					back(y.X)
				case *ssa.UnOp:
					if y.Op == token.MUL && isCell(y.X) {
						vals, _ := reachingStores(y)
						for _, sv := range vals {
							back(sv)
						}
					}
				}
			}
			back(v)
			if len(calls) == 0 {
				continue // a parameter or a field: not decidable here
			}
			key := fmt.Sprintf("%s/%s/%s", rule, FuncKey(fn), g)
			n[g]++
			if n[g] > 1 {
				key = fmt.Sprintf("%s#%d", key, n[g])
			}
			r.Saw(fn)
			can, external := false, false
			var names []string
			for _, c := range calls {
				cals := p.Callees(c)
				if len(cals) == 0 {
					external = true
				}
				for _, cal := range cals {
					if !inModule(cal) || cal.Blocks == nil {
						external = true
						continue
					}
					names = append(names, FuncKey(cal))
					if sf.may[FuncKey(cal)][g] {
						can = true
					}
					if sf.may[FuncKey(cal)]["*"] {
						external = true
					}
				}
			}
			sort.Strings(names)
			cond := b.Instrs[len(b.Instrs)-1].(*ssa.If).Cond
			switch {
			case can:
				r.OK(rule, key, cond.Pos(), g+" can arrive from "+strings.Join(uniqStrings(names), ", "))
			case external:
				r.OK(rule, key, cond.Pos(), "error of a callee outside the module / a dynamic callee: not decided")
			default:
				r.Bad(rule, key, cond.Pos(), fmt.Sprintf("%s is tested here but none of the callees (%s) can return it with its identity intact: the branch for the regular end / absence is dead and the condition is treated as a failure (or a failure as regular)", g, strings.Join(uniqStrings(names), ", ")))
			}
		}
	}
}

func uniqStrings(in []string) []string {
	var out []string
	for i, s := range in {
		if i == 0 || s != in[i-1] {
			out = append(out, s)
		}
	}
	return out
}

// trackedSentinel: module-declared sentinels plus the two end-of-input errors of package io.
func trackedSentinel(p *Prog, g string) bool {
	return g == "io.EOF" || g == "io.ErrUnexpectedEOF" || moduleSentinel(p, g)
}

// stdlibSentinels: documented end-of-input errors of the library calls the readers are built on.
func stdlibSentinels(calleeKey string) []string {
	switch calleeKey {
	case "io.ReadFull", "io.ReadAtLeast", "encoding/binary.ReadUvarint", "encoding/binary.ReadVarint", "encoding/binary.Read":
		return []string{"io.EOF", "io.ErrUnexpectedEOF"}
	}
	i := strings.LastIndex(calleeKey, ".")
	if i >= 0 {
		switch calleeKey[i+1:] {
		case "Read", "ReadAt", "ReadByte", "ReadRune", "ReadString", "ReadBytes", "ReadLine", "Next":
			if !strings.Contains(calleeKey, "go-sstables") && !isModuleKey(calleeKey) {
				return []string{"io.EOF"}
			}
		}
	}
	return nil
}

// isModuleKey: short keys of module functions start with a module package name.
func isModuleKey(k string) bool {
	for _, pk := range []string{"simpledb.", "sstables.", "sstables/", "memstore.", "pq.", "skiplist.", "recordio.", "recordio/", "wal.", "wal/", "kaitai/", "benchmark."} {
		if strings.HasPrefix(k, pk) {
			return true
		}
	}
	return false
}

// R-iterator-end-marker (C08, C11): the merge adapter turns exactly sstables.Done into the queue's end marker. An
// implementation of the table iterator that ends with another package's marker of the same text (skiplist.Done, pq.Done)
// is not recognised: a scan or merge over it fails with "no more items" instead of ending.
func ruleIteratorEndMarker(r *Report) {
	const rule = "iterator-end-marker"
	r.Rule(rule, 4, "no implementation of the table iterator's Next ([]byte, []byte, error) in packages sstables and memstore returns another package's end marker (skiplist.Done, pq.Done) as it is: the end is sstables.Done")
	p := r.P
	n := 0
	for _, fn := range p.ModuleFuncs() {
		pk := fnPkg(fn)
		if pk == nil || fn.Blocks == nil || fnName(fn) != "Next" || fn.Signature.Recv() == nil || fn.Parent() != nil {
			continue
		}
		if sp := shortPkg(pk.Path()); sp != "sstables" && sp != "memstore" {
			continue
		}
		res := fn.Signature.Results()
		if res.Len() != 3 || typeShort(res.At(0).Type()) != "[]byte" || typeShort(res.At(1).Type()) != "[]byte" || !isErrorType(res.At(2).Type()) {
			continue
		}
		// the adapter towards the priority queue speaks the queue's language on purpose
		if ms := p.SSA.MethodSets.MethodSet(fn.Signature.Recv().Type()); ms.Lookup(pk, "Context") != nil {
			continue
		}
		n++
		r.Saw(fn)
		key := rule + "/" + FuncKey(fn)
		var foreign []string
		for _, rs := range returnsOf(fn) {
			ret := rs.Instr.(*ssa.Return)
			cands := []ssa.Value{ret.Results[2]}
			if k, vals := returnErrOperand(ret, 2); k == "val" {
				cands = append(cands, vals...)
			}
			for _, v := range cands {
				if g := globalLoad(v); g == "skiplist.Done" || g == "pq.Done" {
					foreign = append(foreign, g)
				}
			}
		}
		foreign = uniqStrings(foreign)
		sort.Strings(foreign)
		if len(foreign) > 0 {
			r.Bad(rule, key, fn.Pos(), "this table iterator can end with "+strings.Join(foreign, ", ")+" instead of sstables.Done: the merge adapter translates only sstables.Done, so a stacked scan or a merge over it fails (\"couldn't fill next heap entry: no more items in iterator\") instead of returning the union")
		} else {
			r.OK(rule, key, fn.Pos(), "ends with sstables.Done only")
		}
	}
	if n == 0 {
		r.Missing(rule, rule+"/none", "no table iterator implementation found")
	}
}
