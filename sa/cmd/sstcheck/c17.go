package main

import (
	"fmt"
	"go/token"
	"go/types"

	"golang.org/x/tools/go/ssa"
)

func init() {
	register("C17",
		"Static rules that a rejected call cannot have touched durable state and that the two API flavours cannot disagree: in every function that appends to the WAL, each byte-slice argument that later reaches the memstore mutation is tested for emptiness before the append (the append is unreachable once the non-empty edges of those tests are removed, followed through immediately-invoked closures), the empty edges return the same ErrEmptyKeyValue sentinel as the string flavour, and nothing that can reject on its arguments runs between the append and the memstore mutation (the memstore's own argument rejections are nil-tests, implied by non-emptiness); Put/Delete/Get are pure delegations to the byte flavours. Decides these shapes, not no-effect over programs and crash images.",
		[]string{"a non-empty slice is non-nil", "the WAL append is the durability point"},
		runC17)
}

func runC17(r *Report) {
	p := r.P
	r.Rule("handoff-unbuffered", 1, "the memstore hand-off channel is unbuffered, so a key never becomes temporarily unreadable merely because a flush is in progress")
	const rv = "validate-before-log"
	r.Rule(rv, 3, "every key/value byte slice that reaches the memstore mutation is checked for emptiness before the WAL append; the empty edge returns ErrEmptyKeyValue without reaching the append")
	lf := loggingFuncs(p)
	if len(lf) == 0 {
		r.Missing(rv, rv+"/logging-functions", "no function in simpledb appends to the WAL")
	}
	for _, fn := range lf {
		r.Saw(fn)
		appends := CallsIn(fn, walAnyAppend)
		muts := CallsIn(fn, memMutate)
		// parameters that reach the mutation
		params := map[*ssa.Parameter]bool{}
		for _, m := range muts {
			for _, a := range argsOf(m.Call()) {
				if po := contentOrigin(a); po != nil {
					if _, isSlice := po.Type().Underlying().(*types.Slice); isSlice {
						params[po] = true
					}
				}
			}
		}
		if len(muts) == 0 && isFresh(fn) {
			continue // a newly extracted helper that only logs: its callers hold the append (as its call) and the mutation
		}
		if len(params) == 0 {
			r.Unk(rv, rv+"/"+FuncKey(fn)+"/arguments", fn.Pos(), "could not trace the memstore mutation's arguments to API parameters")
			continue
		}
		for po := range params {
			key := fmt.Sprintf("%s/%s/%s", rv, FuncKey(po.Parent()), refName(po))
			// the sites to protect: the appends, lifted to the function that owns the parameter
			owner := po.Parent()
			sites := liftSites(appends, owner)
			if sites == nil {
				r.Unk(rv, key, fn.Pos(), "the WAL append is not in the parameter's function nor in a closure invoked immediately from it")
				continue
			}
			zeroEdges, nonZero := lenTestsOn(owner, po)
			if len(nonZero) == 0 {
				r.Bad(rv, key, sites[0].Pos(), fmt.Sprintf("%s is logged to the WAL before %s is validated: an empty or nil %s is made durable (or poisons the log) although the call is rejected or reads differently after a flush", refName(po), refName(po), refName(po)))
				continue
			}
			removed := map[Edge]bool{}
			for _, e := range nonZero {
				removed[e] = true
			}
			bad := false
			for _, s := range sites {
				if siteReachable(s, removed) {
					bad = true
				}
			}
			if bad {
				r.Bad(rv, key, sites[0].Pos(), fmt.Sprintf("the WAL append is reachable without passing the non-empty edge of a test of len(%s)", refName(po)))
				continue
			}
			// empty edges: failing return of ErrEmptyKeyValue, append unreachable
			okRet := true
			for _, e := range zeroEdges {
				if !endsInFailingReturn(e.To) || returnedSentinel(e.To) != "simpledb.ErrEmptyKeyValue" {
					okRet = false
				}
			}
			if okRet {
				r.OK(rv, key, sites[0].Pos(), "validated before the WAL append; empty → ErrEmptyKeyValue")
			} else {
				r.Bad(rv, key, sites[0].Pos(), "the empty-argument edge does not return ErrEmptyKeyValue (the string flavour's error): flavours disagree")
			}
		}
		// nothing between append and mutation that can reject: between success of append and the mutation call
		// there is no failing return
		key := rv + "/" + FuncKey(fn) + "/no-reject-after-log"
		bad := false
		for _, a := range appends {
			succ, _ := errorEdges(a)
			for _, e := range succ {
				// blocks reachable from the success edge without passing a mutation block
				removed := map[Edge]bool{}
				for _, m := range muts {
					for _, su := range m.Block.Succs {
						removed[Edge{m.Block, su}] = true
					}
				}
				reach := reachFrom(e.To, removed)
				idx := errorResultIndex(fn)
				for _, rs := range returnsOf(fn) {
					isMutBlock := false
					for _, m := range muts {
						if m.Block == rs.Block && m.Idx < rs.Idx {
							isMutBlock = true
						}
					}
					if reach[rs.Block] && !isMutBlock {
						if k, _ := returnErrOperand(rs.Instr.(*ssa.Return), idx); k != "nil" {
							bad = true
						}
					}
				}
			}
		}
		if bad {
			r.Bad(rv, key, fn.Pos(), "a failing return lies between the successful WAL append and the memstore mutation: the call is rejected after it became durable")
		} else {
			r.OK(rv, key, fn.Pos(), "no rejection between the WAL append and the memstore mutation")
		}
		// … and none after the mutation either: once logged and applied, the call has happened
		key = rv + "/" + FuncKey(fn) + "/no-fail-after-apply"
		late := ""
		for _, m := range muts {
			succ, _ := errorEdges(m)
			for _, e := range succ {
				reach := reachFrom(e.To, nil)
				idx := errorResultIndex(fn)
				for _, rs := range returnsOf(fn) {
					if !reach[rs.Block] {
						continue
					}
					if k, _ := returnErrOperand(rs.Instr.(*ssa.Return), idx); k != "nil" {
						late = p.Pos(rs.Pos())
					}
				}
			}
		}
		if late != "" {
			r.Bad(rv, key, fn.Pos(), "an error return at "+late+" is reachable after the mutation was logged and applied (the memstore rotation that follows can fail: no descriptor left for the next WAL file, rotation limit): the call reports an error, yet its effect is visible at once and after recovery")
		} else {
			r.OK(rv, key, fn.Pos(), "nothing can fail once the mutation is logged and applied")
		}
	}

	// R-implies: the memstore's argument rejections are nil tests of parameters
	const ri = "memstore-rejections-implied"
	r.Rule(ri, 2, "the only argument-caused rejections of the memstore mutations are nil tests of the key / value parameter, which the pre-log emptiness validation implies")
	for _, k := range []string{"memstore.upsertInternal", "memstore.MemStore.Tombstone", "memstore.deleteInternal", "memstore.MemStore.Delete", "memstore.MemStore.Upsert", "memstore.MemStore.Add", "memstore.MemStore.DeleteIfExists"} {
		fn := p.Func(k)
		if fn == nil || fn.Blocks == nil {
			continue
		}
		r.Saw(fn)
		for _, b := range liveBlocks(fn) {
			if len(b.Instrs) == 0 {
				continue
			}
			iff, ok := b.Instrs[len(b.Instrs)-1].(*ssa.If)
			if !ok {
				continue
			}
			// does the condition depend only on parameters (not the receiver)?
			deps, onlyArgs := condParams(iff.Cond, fn)
			if !onlyArgs || len(deps) == 0 {
				continue
			}
			if _, isSlice := deps[0].Type().Underlying().(*types.Slice); !isSlice {
				continue // mode flags passed as constants by the wrappers, not API arguments
			}
			rejects := false
			for _, su := range b.Succs {
				if endsInFailingReturn(su) {
					rejects = true
				}
			}
			if !rejects {
				continue
			}
			key := ef0uniq(fmt.Sprintf("%s/%s/%s", ri, k, deps[0].Name()))
			if v, _, _, ok := nilTest(b); ok && paramOrigin(v) != nil {
				r.OK(ri, key, iff.Pos(), "nil test of "+deps[0].Name()+" (implied by non-emptiness)")
			} else {
				r.Bad(ri, key, iff.Pos(), "the memstore rejects on an argument condition that the pre-log validation does not imply: an error can follow the durability point")
			}
		}
	}

	// R-delegate
	const rd = "delegate"
	r.Rule(rd, 3, "the string flavours are pure delegations (argument validation, conversion, one call of the byte flavour whose result is returned)")
	for _, pr := range [][2]string{{"simpledb.DB.Put", "simpledb.DB.PutBytes"}, {"simpledb.DB.Delete", "simpledb.DB.DeleteBytes"}, {"simpledb.DB.Get", "simpledb.DB.GetBytes"}} {
		fn := r.NeedFunc(rd, pr[0])
		if fn == nil {
			continue
		}
		key := rd + "/" + pr[0]
		var calls []Site
		other := ""
		eachInstr(fn, func(s Site) {
			c, ok := s.Instr.(ssa.CallInstruction)
			if !ok {
				return
			}
			ck := CalleeKey(c)
			switch {
			case ck == pr[1]:
				calls = append(calls, s)
			case ck == "builtin.len":
			default:
				other = ck
			}
		})
		if len(calls) != 1 || other != "" {
			r.Bad(rd, key, fn.Pos(), fmt.Sprintf("%s is not a pure delegation to %s (calls: %d, other callee %q)", pr[0], pr[1], len(calls), other))
			continue
		}
		// arguments are conversions of the own parameters, in order
		okArgs := true
		for i, a := range argsOf(calls[0].Call()) {
			cv, isC := a.(*ssa.Convert)
			if !isC {
				okArgs = false
				continue
			}
			po := paramOrigin(cv.X)
			if po == nil || i+1 >= len(fn.Params) || fn.Params[i+1] != po {
				okArgs = false
			}
		}
		// error of the byte flavour propagated
		ef := newErrflowLite(r)
		verdict, _ := ef.explore(fn, calls[0], func() []ssa.Value { v, _, _ := errResults(calls[0].Call()); return v }())
		if okArgs && verdict == Discharged {
			r.OK(rd, key, calls[0].Pos(), "conversion + call + propagated result")
		} else {
			r.Bad(rd, key, calls[0].Pos(), "the string flavour alters the arguments or the error of the byte flavour")
		}
	}
	ruleLogBeforeApply(r)
	ruleWalReclaim(r)
	ruleUnbuffered(r, "handoff-unbuffered")
	ruleHandoff(r)
	ruleOpenFlag(r, "simpledb")
	ruleWalkSkipsRoot(r)
	ruleByteAPICopies(r)
	ruleSyncFailureRollsBack(r)
	ruleStickyWriteError(r)
	ruleReplayCountsEveryMutation(r)
	ruleCloseKeepsAcknowledged(r)
	// (a Put that has to rotate and cannot: the rotation's failure must leave the appender as it was)
	ruleRotate(r)
	// the string flavour's own validation returns the same sentinel
	if fn := p.Func("simpledb.DB.Put"); fn != nil {
		key := rd + "/simpledb.DB.Put/same-sentinel"
		okS := true
		n := 0
		for _, pa := range fn.Params[1:] {
			z, _ := lenTestsOn(fn, pa)
			for _, e := range z {
				n++
				if returnedSentinel(e.To) != "simpledb.ErrEmptyKeyValue" {
					okS = false
				}
			}
		}
		if okS {
			r.OK(rd, key, fn.Pos(), fmt.Sprintf("%d empty-argument edge(s) return ErrEmptyKeyValue", n))
		} else {
			r.Bad(rd, key, fn.Pos(), "Put rejects empty arguments with a different error than PutBytes")
		}
	}
}

func newErrflowLite(r *Report) *errflow {
	return &errflow{p: r.P, r: r, rule: "delegate", infallible: map[*ssa.Function]bool{}, maxStates: 5000}
}

// liftSites maps sites inside closures that are invoked immediately up to their call site in `owner`.
func liftSites(sites []Site, owner *ssa.Function) []Site {
	var out []Site
	for _, s := range sites {
		cur := s
		for cur.Fn != owner {
			cs, ok := immediateCallOf(cur.Fn)
			if !ok {
				return nil
			}
			cur = cs
		}
		out = append(out, cur)
	}
	return out
}

// lenTestsOn: edges of `len(p) == 0`-style tests on parameter p in fn: (edges taken when empty, edges taken when non-empty).
func lenTestsOn(fn *ssa.Function, p *ssa.Parameter) (zero, nonZero []Edge) {
	isP := func(v ssa.Value) bool { return contentOrigin(v) == p }
	for _, b := range liveBlocks(fn) {
		if len(b.Instrs) == 0 {
			continue
		}
		iff, ok := b.Instrs[len(b.Instrs)-1].(*ssa.If)
		if !ok {
			continue
		}
		if zi, ok := lenZeroTest(iff.Cond, isP); ok {
			zero = append(zero, Edge{b, b.Succs[zi]})
			nonZero = append(nonZero, Edge{b, b.Succs[1-zi]})
			continue
		}
		// a validation helper that returns an error: `if err := validate(k, v); err != nil { return err }`
		if x, nilS, nonNilS, nE, nnE, isN := nilTest2(b); isN && nE && nnE {
			if c, isC := x.(*ssa.Call); isC {
				if sc := c.Call.StaticCallee(); sc != nil && inModule(sc) && sc.Blocks != nil && sc.Signature.Results().Len() == 1 && isErrorType(sc.Signature.Results().At(0).Type()) {
					for i, a := range c.Call.Args {
						if !isP(a) || i >= len(sc.Params) {
							continue
						}
						whenEmpty, ok1 := evalLenPredicate(sc, i, true)
						whenFull, ok2 := evalLenPredicate(sc, i, false)
						if ok1 && ok2 && whenEmpty && !whenFull {
							zero = append(zero, Edge{b, nonNilS})
							nonZero = append(nonZero, Edge{b, nilS})
						}
					}
				}
			}
		}
		// a validation helper: bool function of the arguments built from len(...) tests
		if c, ok := iff.Cond.(*ssa.Call); ok {
			if sc := c.Call.StaticCallee(); sc != nil && inModule(sc) && sc.Blocks != nil {
				for i, a := range c.Call.Args {
					if !isP(a) || i >= len(sc.Params) {
						continue
					}
					whenEmpty, ok1 := evalLenPredicate(sc, i, true)
					whenFull, ok2 := evalLenPredicate(sc, i, false)
					if ok1 && ok2 && whenEmpty != whenFull {
						zi := 1
						if whenEmpty {
							zi = 0
						}
						zero = append(zero, Edge{b, b.Succs[zi]})
						nonZero = append(nonZero, Edge{b, b.Succs[1-zi]})
					}
				}
			}
		}
	}
	return
}

// returnedSentinel: following jumps from b to a Return, the error operand is a load of which package variable?
func returnedSentinel(b *ssa.BasicBlock) string {
	fn := b.Parent()
	idx := errorResultIndex(fn)
	seen := map[*ssa.BasicBlock]bool{}
	for !seen[b] {
		seen[b] = true
		switch x := b.Instrs[len(b.Instrs)-1].(type) {
		case *ssa.Return:
			if idx < 0 || idx >= len(x.Results) {
				return ""
			}
			if g := globalLoad(x.Results[idx]); g != "" {
				return g
			}
			// the error of a module helper that is forwarded as it is: what that helper returns when it fails
			if c, isC := x.Results[idx].(*ssa.Call); isC {
				if sc := c.Call.StaticCallee(); sc != nil && inModule(sc) && sc.Blocks != nil && sc.Signature.Results().Len() == 1 {
					only := ""
					for _, rs := range returnsOf(sc) {
						v := rs.Instr.(*ssa.Return).Results[0]
						if isNilConst(v) {
							continue
						}
						g := globalLoad(v)
						if g == "" || (only != "" && only != g) {
							return ""
						}
						only = g
					}
					return only
				}
			}
			// functions with defer spill the result into a cell: look through it
			if k, vals := returnErrOperand(x, idx); k == "val" && len(vals) == 1 {
				return globalLoad(vals[0])
			}
			return ""
		case *ssa.Jump:
			b = b.Succs[0]
		default:
			return ""
		}
	}
	return ""
}

// condParams: the parameters a condition depends on, and whether it depends on nothing else (no receiver field, no call on state).
func condParams(c ssa.Value, fn *ssa.Function) ([]*ssa.Parameter, bool) {
	var ps []*ssa.Parameter
	only := true
	seen := map[ssa.Value]bool{}
	var walk func(v ssa.Value)
	walk = func(v ssa.Value) {
		if v == nil || seen[v] {
			return
		}
		seen[v] = true
		switch x := v.(type) {
		case *ssa.Parameter:
			if len(fn.Params) > 0 && x == fn.Params[0] && fn.Signature.Recv() != nil {
				only = false
			} else {
				ps = append(ps, x)
			}
		case *ssa.Const:
		case *ssa.BinOp:
			walk(x.X)
			walk(x.Y)
		case *ssa.UnOp:
			if po := contentOrigin(x); po != nil {
				walk(po)
			} else {
				only = false
			}
		case *ssa.Call:
			if b, ok := x.Call.Value.(*ssa.Builtin); ok && b.Name() == "len" {
				walk(x.Call.Args[0])
			} else {
				only = false
			}
		default:
			only = false
		}
	}
	walk(c)
	return ps, only
}

// evalLenPredicate abstractly runs a bool helper whose branches are len(param)==0 style tests:
// parameter `idx` is empty iff `empty`, all other parameters are non-empty. Returns the helper's result.
func evalLenPredicate(f *ssa.Function, idx int, empty bool) (bool, bool) {
	if f.Signature.Results().Len() != 1 {
		return false, false
	}
	isEmpty := func(pa *ssa.Parameter) bool {
		for i, q := range f.Params {
			if q == pa {
				return i == idx && empty
			}
		}
		return false
	}
	evalCond := func(c ssa.Value, vals map[ssa.Value]bool) (bool, bool) {
		if v, ok := vals[c]; ok {
			return v, true
		}
		if b, ok := constBool(c); ok {
			return b, true
		}
		for _, pa := range f.Params {
			pp := pa
			if zi, ok := lenZeroTest(c, func(v ssa.Value) bool { return contentOrigin(v) == pp }); ok {
				// condition true on successor 0; zero-length takes successor zi
				if isEmpty(pp) {
					return zi == 0, true
				}
				return zi != 0, true
			}
		}
		return false, false
	}
	vals := map[ssa.Value]bool{}
	b := f.Blocks[0]
	var pred *ssa.BasicBlock
	for steps := 0; steps < 100; steps++ {
		for _, ins := range b.Instrs {
			switch x := ins.(type) {
			case *ssa.Phi:
				for i, p := range b.Preds {
					if p == pred {
						if v, ok := evalCond(x.Edges[i], vals); ok {
							vals[x] = v
						}
					}
				}
			case *ssa.BinOp:
				if v, ok := evalCond(x, vals); ok {
					vals[x] = v
				}
			case *ssa.UnOp:
				if x.Op == token.NOT {
					if v, ok := evalCond(x.X, vals); ok {
						vals[x] = !v
					}
				}
			case *ssa.If:
				v, ok := evalCond(x.Cond, vals)
				if !ok {
					return false, false
				}
				pred = b
				if v {
					b = b.Succs[0]
				} else {
					b = b.Succs[1]
				}
			case *ssa.Jump:
				pred = b
				b = b.Succs[0]
			case *ssa.Return:
				if isErrorType(x.Results[0].Type()) {
					// an error-returning validation helper: "true" stands for "rejects" (a non-nil error)
					return !isNilConst(x.Results[0]), true
				}
				return evalCond(x.Results[0], vals)
			}
		}
	}
	return false, false
}

// R-byte-api-copies: the byte flavour of the API hands slices across the boundary of the database. The memstore keeps
// what it is given until the next flush and GetBytes answers from it, while the WAL gets a marshalled copy: a caller
// that reuses its key/value buffers after PutBytes returned, or writes into the slice GetBytes returned, changes what
// the database holds without any call — the two API flavours disagree, and what a key reads as changes with a flush or
// a restart. So PutBytes / DeleteBytes pass copies to the memstore, and GetBytes returns a copy of the memstore's value.
func ruleByteAPICopies(r *Report) {
	const rule = "byte-api-copies"
	r.Rule(rule, 3, "PutBytes and DeleteBytes hand the memstore copies of their slice arguments (bytes.Clone / append to a fresh slice), and GetBytes returns a copy of the value it found in the memstore")
	p := r.P
	for _, k := range []string{"simpledb.DB.PutBytes", "simpledb.DB.DeleteBytes"} {
		fn := r.NeedFunc(rule, k)
		if fn == nil {
			continue
		}
		key := rule + "/" + k
		bad := ""
		n := 0
		for _, f := range closuresOf(fn) {
			for _, m := range CallsIn(f, memMutate) {
				for _, a := range argsOf(m.Call()) {
					if _, isSl := a.Type().Underlying().(*types.Slice); !isSl {
						continue
					}
					n++
					if !isCopy(a) && !isCopy(boundValue(a)) {
						bad = p.Pos(m.Pos())
					}
				}
			}
		}
		switch {
		case n == 0:
			r.Missing(rule, key, "no memstore mutation with slice arguments found")
		case bad != "":
			r.Bad(rule, key, fn.Pos(), "a slice argument reaches the memstore mutation at "+bad+" without being copied: PutBytes(k=\"key-1\", v), refill the same buffers with \"key-2\", PutBytes again → Get(\"key-1\") is not found (the string flavour has both); after a crash and recovery both are there, because the WAL got private copies")
		default:
			r.OK(rule, key, fn.Pos(), fmt.Sprintf("%d slice argument(s), all copies", n))
		}
	}
	if fn := r.NeedFunc(rule, "simpledb.DB.GetBytes"); fn != nil {
		key := rule + "/simpledb.DB.GetBytes"
		mg := CallsIn(fn, Suffix("RWMemstore.Get", "MemStoreI.Get"))
		if len(mg) == 0 {
			r.Missing(rule, key, "no memstore lookup in GetBytes")
			return
		}
		var mv ssa.Value
		for _, rf := range *mg[0].Instr.(ssa.Value).Referrers() {
			if ex, ok := rf.(*ssa.Extract); ok && ex.Index == 0 {
				mv = ex
			}
		}
		leaks := false
		for _, rs := range returnsOf(fn) {
			v := rs.Instr.(*ssa.Return).Results[0]
			cands := []ssa.Value{v}
			if u, ok := v.(*ssa.UnOp); ok && u.Op == token.MUL && isCell(u.X) {
				vals, _ := reachingStores(u)
				cands = vals
			}
			for _, c := range cands {
				if c == mv {
					leaks = true
				}
			}
		}
		if leaks {
			r.Bad(rule, key, mg[0].Pos(), "GetBytes returns the memstore's own slice: writing into the result changes what Get returns (\"value\" → \"Xalue\") until a restart brings the logged value back — or, if a flush comes first, the scribbled bytes are what gets persisted")
		} else {
			r.OK(rule, key, mg[0].Pos(), "the memstore's value is copied before it is returned")
		}
	}
}

// boundValue: for a FreeVar, the cell it is bound to in the enclosing function (so that stores made there are seen).
func boundValue(v ssa.Value) ssa.Value {
	u, ok := v.(*ssa.UnOp)
	if !ok || u.Op != token.MUL {
		return v
	}
	fv, ok := u.X.(*ssa.FreeVar)
	if !ok {
		return v
	}
	fn := fv.Parent()
	par := fn.Parent()
	if par == nil {
		return v
	}
	idx := -1
	for i, f := range fn.FreeVars {
		if f == fv {
			idx = i
		}
	}
	var out ssa.Value = v
	eachInstr(par, func(s Site) {
		if mc, ok := s.Instr.(*ssa.MakeClosure); ok && mc.Fn == fn && idx >= 0 && idx < len(mc.Bindings) {
			if al, isAl := mc.Bindings[idx].(*ssa.Alloc); isAl {
				// all stores into the cell in the enclosing function
				allCopy, n := true, 0
				for _, ref := range *al.Referrers() {
					if st, isSt := ref.(*ssa.Store); isSt && st.Addr == ssa.Value(al) {
						n++
						if _, isPar := st.Val.(*ssa.Parameter); isPar {
							continue // the initial spill of the parameter, overwritten by the copy before the closure runs
						}
						if !isCopy(st.Val) {
							allCopy = false
						}
					}
				}
				if n > 1 && allCopy {
					// represent "is a copy" by returning any copying store value
					for _, ref := range *al.Referrers() {
						if st, isSt := ref.(*ssa.Store); isSt && st.Addr == ssa.Value(al) && isCopy(st.Val) {
							out = st.Val
						}
					}
				}
			}
		}
	})
	return out
}
