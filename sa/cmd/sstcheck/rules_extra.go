package main

// Second-generation rules: more of the behaviour behind C01, C05, C06, C08, C14, C15, C19.

import (
	"fmt"
	"go/constant"
	"go/token"
	"go/types"
	"strings"

	"golang.org/x/tools/go/ssa"
)

// R-generation (C01): table numbering continues above every existing table after a restart and each flush uses a
// freshly incremented number.
func ruleGeneration(r *Report) {
	const rule = "generation"
	r.Rule(rule, 2, "recovery raises the generation counter to the largest existing table number (guarded store of the parsed suffix); every flush names its table with the result of an atomic increment of that counter")
	p := r.P
	if fn := r.NeedFunc(rule, "simpledb.DB.reconstructSSTables"); fn != nil {
		key := rule + "/simpledb.DB.reconstructSSTables/max-of-existing"
		ok := false
		eachInstr(fn, func(s Site) {
			st, isS := s.Instr.(*ssa.Store)
			if !isS {
				return
			}
			if _, f, _, isF := fieldAddrName(st.Addr); !isF || f != "currentGeneration" {
				return
			}
			// stored value = Extract#0 of strconv.ParseUint, and the store is on the true edge of `i > currentGeneration`
			if errSource(st.Val) != "strconv.ParseUint" {
				return
			}
			for _, b := range liveBlocks(fn) {
				if len(b.Instrs) == 0 {
					continue
				}
				cur := isFieldLoad("simpledb.DB", "currentGeneration")
				for _, v := range ifCmpForms(b) {
					if (v.Op == token.GTR || v.Op == token.GEQ) && v.X == st.Val && cur(v.Y) && (v.T == s.Block || dominates(v.T, s.Block)) {
						ok = true
					}
				}
			}
		})
		if ok {
			r.OK(rule, key, fn.Pos(), "currentGeneration = max(currentGeneration, parsed table number)")
		} else {
			r.Bad(rule, key, fn.Pos(), "recovery does not raise the generation counter to the largest existing table number: after a restart new tables get numbers below existing ones and read as older")
		}
	}
	// every Sprintf of the table name pattern receives the result of atomic.AddUint64(&db.currentGeneration, 1)
	key := rule + "/simpledb/flush-uses-incremented-generation"
	found, okAll := 0, true
	for _, fn := range p.FuncsOfPkg("simpledb") {
		for _, s := range CallsIn(fn, Keys("fmt.Sprintf")) {
			f, isC := stringConst(s.Call().Common().Args[0])
			if !isC || !strings.Contains(f, "sstable") || !strings.Contains(f, "%") {
				continue
			}
			found++
			// the varargs array holds the generation value
			gen := varargValues(s.Call())
			good := false
			for _, g := range gen {
				v := stripIface(g)
				if pa, isP := v.(*ssa.Parameter); isP {
					// helper: all callers must pass the increment result
					good = allCallersPassIncrement(p, fn, pa)
				}
				if isGenIncrement(v) {
					good = true
				}
			}
			if !good {
				okAll = false
			}
		}
	}
	if found == 0 {
		r.Missing(rule, key, "no table-name Sprintf found")
	} else if okAll {
		r.OK(rule, key, 0, "table names are built from atomic.AddUint64(&currentGeneration, 1)")
	} else {
		r.Bad(rule, key, 0, "a table directory name is not built from a fresh increment of the generation counter: two flushes can write into one directory or numbering goes backwards")
	}
}

func isGenIncrement(v ssa.Value) bool {
	c, ok := v.(*ssa.Call)
	if !ok || CalleeKey(c) != "sync/atomic.AddUint64" {
		return false
	}
	if _, f, _, isF := fieldAddrName(c.Call.Args[0]); !isF || f != "currentGeneration" {
		return false
	}
	k, isK := constInt(c.Call.Args[1])
	return isK && k == 1
}

func allCallersPassIncrement(p *Prog, fn *ssa.Function, pa *ssa.Parameter) bool {
	idx := -1
	for i, q := range fn.Params {
		if q == pa {
			idx = i
		}
	}
	n := 0
	ok := true
	for _, caller := range p.FuncsOfPkg("simpledb") {
		for _, cs := range CallsIn(caller, Keys(FuncKey(fn))) {
			n++
			a := cs.Call().Common().Args
			if idx < 0 || idx >= len(a) || !isGenIncrement(stripIface(a[idx])) {
				ok = false
			}
		}
	}
	return n > 0 && ok
}

// varargValues: the values stored into the varargs array of a call like fmt.Sprintf(format, a...).
func varargValues(c ssa.CallInstruction) []ssa.Value {
	args := c.Common().Args
	if len(args) == 0 {
		return nil
	}
	sl, ok := args[len(args)-1].(*ssa.Slice)
	if !ok {
		return nil
	}
	al, ok := sl.X.(*ssa.Alloc)
	if !ok {
		return nil
	}
	var out []ssa.Value
	for _, rf := range *al.Referrers() {
		if ia, ok := rf.(*ssa.IndexAddr); ok {
			for _, rr := range *ia.Referrers() {
				if st, ok := rr.(*ssa.Store); ok {
					out = append(out, st.Val)
				}
			}
		}
	}
	return out
}

// R-empty-is-absent (C01, C06): an empty table-layer value reads as not found (kept tombstones are empty values).
func ruleEmptyIsAbsent(r *Report) {
	const rule = "empty-is-absent"
	r.Rule(rule, 1, "GetBytes treats a nil or empty value from the table layer as not found (unanchored compactions keep tombstones as empty values)")
	fn := r.NeedFunc(rule, "simpledb.DB.GetBytes")
	if fn == nil {
		return
	}
	tg := CallsIn(fn, Suffix("SSTableReaderI.Get"))
	key := rule + "/simpledb.DB.GetBytes"
	if len(tg) != 1 {
		r.Bad(rule, key, fn.Pos(), "no single table-layer Get")
		return
	}
	var val ssa.Value
	for _, rf := range *tg[0].Instr.(ssa.Value).Referrers() {
		if ex, ok := rf.(*ssa.Extract); ok && ex.Index == 0 {
			val = ex
		}
	}
	ok := false
	for _, b := range liveBlocks(fn) {
		if len(b.Instrs) == 0 {
			continue
		}
		iff, isI := b.Instrs[len(b.Instrs)-1].(*ssa.If)
		if !isI {
			continue
		}
		if _, isZ := lenZeroTest(iff.Cond, func(v ssa.Value) bool { return v == val }); isZ {
			ok = true
		}
	}
	// the test kept in a variable (found := err == nil && len(v) > 0) and branched on later: the value is handed out only
	// where that variable decides — every return of the table value is control dependent on a block that tests a value
	// computed from the length comparison
	if !ok {
		var cmps []ssa.Value
		eachInstr(fn, func(s Site) {
			if bo, isB := s.Instr.(*ssa.BinOp); isB {
				if _, isZ := lenZeroTest(bo, func(v ssa.Value) bool { return v == val }); isZ {
					cmps = append(cmps, bo)
				}
			}
		})
		if len(cmps) > 0 {
			guarded, n := true, 0
			for _, rs := range returnsOf(fn) {
				ret := rs.Instr.(*ssa.Return)
				if len(ret.Results) == 0 || !valueDependsOn(ret.Results[0], func(x ssa.Value) bool { return x == val }) {
					continue
				}
				n++
				dep := false
				for _, b := range liveBlocks(fn) {
					cnd, _, _, _, _, isIf := effCond(b)
					if !isIf || !dominates(b, rs.Block) || b == rs.Block {
						continue
					}
					if valueDependsOn(cnd, func(x ssa.Value) bool {
						for _, c := range cmps {
							if x == c {
								return true
							}
						}
						return false
					}) {
						dep = true
					}
				}
				if !dep {
					guarded = false
				}
			}
			if guarded && n > 0 {
				ok = true
			}
		}
	}
	if ok {
		r.OK(rule, key, tg[0].Pos(), "len(table value) == 0 → not found")
	} else {
		r.Bad(rule, key, tg[0].Pos(), "an empty table-layer value is served as a value: a tombstone kept by a partial compaction reads as \"\" instead of not-found")
	}
}

// R-rwmemstore (C01, C05): the write store shadows the read store; deleting a key unknown to the write store
// records a tombstone.
func ruleRWMemstore(r *Report) {
	const rule = "rwmemstore"
	r.Rule(rule, 2, "RWMemstore.Get asks the write store first and falls back to the read store only on KeyNotFound; RWMemstore.Delete tombstones a key the write store does not know")
	p := r.P
	if fn := r.NeedFunc(rule, "simpledb.RWMemstore.Get"); fn != nil {
		key := rule + "/simpledb.RWMemstore.Get"
		gets := CallsIn(fn, Suffix("MemStoreI.Get"))
		var w, rd *Site
		for i := range gets {
			if _, f, _, ok := loadOfField(gets[i].Call().Common().Value); ok {
				if f == "writeStore" {
					w = &gets[i]
				} else if f == "readStore" {
					rd = &gets[i]
				}
			}
		}
		ok := w != nil && rd != nil && precedes(*w, *rd)
		if ok {
			// the read-store call is reachable only through the KeyNotFound edge of the write store's error
			al := errAliases(*w)
			var edges []Edge
			for _, b := range liveBlocks(fn) {
				if v, g, isS, _, okT := sentinelTest(b); okT && al[v] && g == "memstore.KeyNotFound" {
					edges = append(edges, Edge{b, isS})
				}
			}
			removed := map[Edge]bool{}
			for _, e := range edges {
				removed[e] = true
			}
			if len(edges) == 0 || siteReachable(*rd, removed) {
				ok = false
			}
		}
		if ok {
			r.OK(rule, key, fn.Pos(), "write store first; read store only on KeyNotFound")
		} else {
			r.Bad(rule, key, fn.Pos(), "the read store is not consulted strictly after, and only on KeyNotFound of, the write store: a value being flushed can shadow a newer write or tombstone")
		}
	}
	if fn := r.NeedFunc(rule, "simpledb.RWMemstore.Delete"); fn != nil {
		key := rule + "/simpledb.RWMemstore.Delete"
		del := CallsIn(fn, Suffix("MemStoreI.Delete"))
		tomb := CallsIn(fn, Keys("simpledb.RWMemstore.Tombstone"))
		tomb = append(tomb, CallsIn(fn, Suffix("MemStoreI.Tombstone"))...)
		ok := len(del) == 1 && len(tomb) >= 1
		if ok {
			al := errAliases(del[0])
			hit := false
			for _, b := range liveBlocks(fn) {
				if v, g, isS, _, okT := sentinelTest(b); okT && al[v] && g == "memstore.KeyNotFound" {
					for _, t := range tomb {
						if isS == t.Block || dominates(isS, t.Block) {
							hit = true
						}
					}
				}
			}
			ok = hit
		}
		if ok {
			r.OK(rule, key, fn.Pos(), "KeyNotFound in the write store → Tombstone")
		} else {
			r.Bad(rule, key, fn.Pos(), "deleting a key that only exists in the read store or in tables does not record a tombstone: the delete is lost")
		}
	}
	// the read store is frozen: it was handed to the flusher, which iterates it without a lock and flushes it exactly once.
	// No method of RWMemstore calls a mutating method on it
	{
		key := rule + "/simpledb.RWMemstore/read-store-frozen"
		bad := ""
		n := 0
		for _, fn := range p.FuncsOfPkg("simpledb") {
			if fn.Signature.Recv() == nil || !strings.HasSuffix(typeShort(fn.Signature.Recv().Type()), "simpledb.RWMemstore") {
				continue
			}
			n++
			eachInstr(fn, func(s Site) {
				c, ok := s.Instr.(ssa.CallInstruction)
				if !ok || !c.Common().IsInvoke() || !mutatingMethods[c.Common().Method.Name()] {
					return
				}
				if _, f, _, isF := loadOfField(c.Common().Value); isF && f == "readStore" {
					bad = FuncKey(fn) + " calls " + c.Common().Method.Name() + " on the read store (" + p.Pos(s.Pos()) + ")"
				}
			})
		}
		if bad != "" {
			r.Bad(rule, key, 0, bad+": the store is being iterated by the flusher without a lock (a data race), and what is written into it reaches the table only if the flusher has not passed that key yet — at the next rotation it is dropped")
		} else {
			r.OK(rule, key, 0, fmt.Sprintf("%d method(s), none mutates the read store", n))
		}
	}
}

// R-reader-rebuilt (C01, C05, C06): whoever changes the live reader list rebuilds the merged reader from it.
func ruleReaderRebuilt(r *Report) {
	const rule = "reader-rebuilt"
	r.Rule(rule, 2, "every function that changes the live reader list (field or element store, in-place removal) stores a merged reader rebuilt from that list afterwards, on every path to its success return")
	p := r.P
	n := 0
	for _, fn := range p.FuncsOfPkg("simpledb") {
		var changes []Site
		var rebuilds []Site
		eachInstr(fn, func(s Site) {
			switch x := s.Instr.(type) {
			case *ssa.Store:
				if t, f, base, ok := fieldAddrName(x.Addr); ok && t == "simpledb.SSTableManager" {
					if _, constructed := base.(*ssa.Alloc); constructed {
						return
					}
					if f == "allSSTableReaders" {
						changes = append(changes, s)
					}
					if f == "currentReader" {
						rebuilds = append(rebuilds, s)
					}
				}
				if ia, ok := x.Addr.(*ssa.IndexAddr); ok {
					if t, f, _, ok := loadOfField(ia.X); ok && t == "simpledb.SSTableManager" && f == "allSSTableReaders" {
						changes = append(changes, s)
					}
				}
			}
		})
		if len(changes) == 0 {
			continue
		}
		n++
		r.Saw(fn)
		key := rule + "/" + FuncKey(fn)
		if len(rebuilds) == 0 {
			r.Bad(rule, key, changes[0].Pos(), "the live reader list changes but the merged reader is not rebuilt: reads keep using closed or missing tables")
			continue
		}
		// no success return may be reached through a change without passing a rebuild somewhere in the function
		// (before or after the change: the rebuilt reader is checked to be built from the new list by precedence-shape)
		removed := map[Edge]bool{}
		inRebuildBlock := map[*ssa.BasicBlock]bool{}
		for _, rb := range rebuilds {
			inRebuildBlock[rb.Block] = true
			for _, su := range rb.Block.Succs {
				removed[Edge{rb.Block, su}] = true
			}
		}
		fromEntry := reachFrom(fn.Blocks[0], removed)
		bad := false
		for _, ch := range changes {
			if inRebuildBlock[ch.Block] || !fromEntry[ch.Block] {
				continue
			}
			after := reachFrom(ch.Block, removed)
			for _, nr := range nilReturns(fn) {
				if after[nr.Block] && !inRebuildBlock[nr.Block] {
					bad = true
				}
			}
		}
		// the rebuilt reader is built from the list (precedence-shape checks the argument)
		if bad {
			r.Bad(rule, key, changes[0].Pos(), "a success path changes the live reader list without rebuilding the merged reader afterwards")
		} else {
			r.OK(rule, key, changes[0].Pos(), "merged reader rebuilt after the list changed")
		}
	}
	if n == 0 {
		r.Missing(rule, rule+"/sites", "no function changes the live reader list")
	}
}

// R-close-flushes (C01, C19): Close rotates + hands off the last memstore before it closes the hand-off channel.
func ruleCloseFlushes(r *Report) {
	const rule = "close-flushes"
	r.Rule(rule, 2, "DB.Close attempts the final hand-off (rotateWalAndFlushMemstore) before it closes the hand-off channel and waits for the flusher, and reports the error of that hand-off from Close")
	cl := r.NeedFunc(rule, "simpledb.DB.Close")
	if cl == nil {
		return
	}
	for _, fn := range closuresOf(cl) {
		var closes []Site
		eachInstr(fn, func(s Site) {
			if c, ok := s.Instr.(*ssa.Call); ok {
				if b, ok := c.Call.Value.(*ssa.Builtin); ok && b.Name() == "close" {
					if _, f, _, ok := loadOfField(c.Call.Args[0]); ok && f == "storeFlushChannel" {
						closes = append(closes, s)
					}
				}
			}
		})
		if len(closes) == 0 {
			continue
		}
		o := &order{r, r.P}
		A := CallsIn(fn, Keys("simpledb.DB.rotateWalAndFlushMemstore"))
		// the hand-off is attempted before the channel is closed; whether it failed is reported at the end of Close
		// (the shutdown goes on either way: C19 demands that Close releases everything)
		o.Before(rule, rule+"/"+FuncKey(fn), fn, "the final rotation / hand-off", A, "closing the hand-off channel", closes)
		key := rule + "/" + FuncKey(fn) + "/error-reported"
		if len(A) == 0 {
			r.Missing(rule, key, "no final rotation in Close")
			return
		}
		al := errAliases(A[0])
		car := errCarriers(cl, func(v ssa.Value) bool { return al[v] })
		reported := false
		for _, rs := range returnsOf(cl) {
			for _, op := range rs.Instr.(*ssa.Return).Results {
				if car[op] || car[stripIface(op)] || al[op] {
					reported = true
				}
			}
		}
		for _, rs := range returnsOf(fn) {
			for _, op := range rs.Instr.(*ssa.Return).Results {
				if car[op] || car[stripIface(op)] || al[op] {
					reported = true
				}
			}
		}
		if reported {
			r.OK(rule, key, A[0].Pos(), "the error of the final rotation reaches a return of Close")
		} else {
			r.Bad(rule, key, A[0].Pos(), "the error of the final rotation / hand-off is dropped: Close reports success although the last memstore was not handed to the flusher")
		}
		return
	}
	r.Bad(rule, rule+"/simpledb.DB.Close", cl.Pos(), "Close never closes the hand-off channel")
}

// R-argmax (C08): latest-wins picks the value with the largest context.
func ruleLatestWinsArgmax(r *Report) {
	const rule = "latest-wins-argmax"
	r.Rule(rule, 2, "ScanReduceLatestWins returns the value at the position of the largest context (the running maximum is replaced exactly when an element is greater), and the tombstone-skipping variant drops exactly the empty latest value")
	fn := r.NeedFunc(rule, "sstables.ScanReduceLatestWins")
	if fn != nil {
		key := rule + "/sstables.ScanReduceLatestWins"
		ok := false
		// If (elem > runningMax) true-edge leads to the update of the index
		for _, b := range liveBlocks(fn) {
			if len(b.Instrs) == 0 {
				continue
			}
			isElem := func(v ssa.Value) bool {
				u, okU := v.(*ssa.UnOp)
				if !okU || u.Op != token.MUL {
					return false
				}
				ia, okI := u.X.(*ssa.IndexAddr)
				return okI && paramOrigin(ia.X) != nil && refName(paramOrigin(ia.X)) == "context"
			}
			isMax := func(v ssa.Value) bool { _, okP := v.(*ssa.Phi); return okP }
			for _, v := range ifCmpForms(b) {
				// the reading "element > running maximum" — its holds-side is where the index is replaced
				if v.Op == token.GTR && isElem(v.X) && isMax(v.Y) {
					ok = true
				}
			}
		}
		// result: values[maxIndex]
		okRes := false
		for _, rs := range returnsOf(fn) {
			ret := rs.Instr.(*ssa.Return)
			if u, okU := ret.Results[1].(*ssa.UnOp); okU && u.Op == token.MUL {
				if ia, okI := u.X.(*ssa.IndexAddr); okI {
					if po := paramOrigin(ia.X); po != nil && refName(po) == "values" {
						if _, isPhi := ia.Index.(*ssa.Phi); isPhi {
							okRes = true
						}
					}
				}
			}
			if po := paramOrigin(ret.Results[0]); po == nil || refName(po) != "key" {
				okRes = false
			}
		}
		if ok && okRes {
			r.OK(rule, key, fn.Pos(), "argmax over the contexts; returns (key, values[argmax])")
		} else {
			r.Bad(rule, key, fn.Pos(), "the reducer does not return the value of the largest context (newest table): an older table's value wins")
		}
	}
	// reducers of package simpledb (the tombstone-keeping one): they do not pick a value themselves, they take what the
	// canonical latest-wins reducer picks from the same (key, values, context) and only replace a nil by an empty value
	for _, fn := range r.P.FuncsOfPkg("simpledb") {
		sig := fn.Signature
		if fn.Parent() != nil || sig.Recv() != nil || sig.Params().Len() != 3 || sig.Results().Len() != 2 || len(fn.Params) != 3 {
			continue
		}
		if typeShort(sig.Params().At(1).Type()) != "[][]byte" || typeShort(sig.Params().At(2).Type()) != "[]int" {
			continue
		}
		key := rule + "/" + FuncKey(fn) + "/delegates"
		r.Saw(fn)
		calls := CallsIn(fn, Keys("sstables.ScanReduceLatestWins", "sstables.ScanReduceLatestWinsSkipTombstones"))
		good := len(calls) == 1
		if good {
			a := calls[0].Call().Common().Args
			for i := 0; i < 3 && i < len(a); i++ {
				if paramOrigin(a[i]) != fn.Params[i] {
					good = false
				}
			}
			c := calls[0].Instr.(ssa.Value)
			for _, rs := range returnsOf(fn) {
				if !valueDependsOn(rs.Instr.(*ssa.Return).Results[1], func(x ssa.Value) bool {
					ex, isE := x.(*ssa.Extract)
					return isE && ex.Tuple == c && ex.Index == 1
				}) {
					good = false
				}
			}
		}
		// … and never index the values by itself
		eachInstr(fn, func(s Site) {
			if ia, isI := s.Instr.(*ssa.IndexAddr); isI && paramOrigin(ia.X) == fn.Params[1] {
				good = false
			}
		})
		if good {
			r.OK(rule, key, fn.Pos(), "takes the value the canonical latest-wins reducer picks")
		} else {
			r.Bad(rule, key, fn.Pos(), "a reduce function of simpledb picks the value by itself instead of taking the canonical reducer's choice for the same (key, values, context): an own arg-max that mixes context values and positions lets an older table's value win in runs of three or more tables")
		}
	}
	if fn := r.NeedFunc(rule, "sstables.ScanReduceLatestWinsSkipTombstones"); fn != nil {
		key := rule + "/sstables.ScanReduceLatestWinsSkipTombstones"
		calls := CallsIn(fn, Keys("sstables.ScanReduceLatestWins"))
		ok := len(calls) == 1
		if ok {
			var val ssa.Value
			for _, rf := range *calls[0].Instr.(ssa.Value).Referrers() {
				if ex, isE := rf.(*ssa.Extract); isE && ex.Index == 1 {
					val = ex
				}
			}
			hit := false
			for _, b := range liveBlocks(fn) {
				if len(b.Instrs) == 0 {
					continue
				}
				iff, isI := b.Instrs[len(b.Instrs)-1].(*ssa.If)
				if !isI {
					continue
				}
				if zi, isZ := lenZeroTest(iff.Cond, func(v ssa.Value) bool { return v == val }); isZ {
					// the empty edge returns (nil, nil); the other returns the pair
					em := b.Succs[zi]
					if ret, isR := em.Instrs[len(em.Instrs)-1].(*ssa.Return); isR && isNilConst(ret.Results[0]) && isNilConst(ret.Results[1]) {
						hit = true
					}
				}
			}
			ok = hit
		}
		if ok {
			r.OK(rule, key, fn.Pos(), "drops exactly the empty latest value")
		} else {
			r.Bad(rule, key, fn.Pos(), "the tombstone-skipping reducer does not drop exactly the groups whose latest value is empty")
		}
	}
}

// R-tombstone-semantics (C14)
func ruleTombstoneSemantics(r *Report) {
	const rule = "tombstone-semantics"
	r.Rule(rule, 3, "Get answers KeyTombstoned, Contains false and IsTombstoned true exactly on the nil edge of a test of the stored value")
	type spec struct {
		fn       string
		nilWant  string // what the nil edge must yield
		liveWant string
	}
	for _, sp := range []spec{{"memstore.MemStore.Get", "memstore.KeyTombstoned", ""}, {"memstore.MemStore.Contains", "false", "true"}, {"memstore.MemStore.IsTombstoned", "true", "false"}} {
		fn := r.NeedFunc(rule, sp.fn)
		if fn == nil {
			continue
		}
		key := rule + "/" + sp.fn
		ok := false
		for _, b := range liveBlocks(fn) {
			v, nilS, nonNil, isT := nilTest(b)
			if !isT {
				continue
			}
			u, isU := v.(*ssa.UnOp)
			if !isU || u.Op != token.MUL {
				continue
			}
			if _, isV := valueCellOf(u.X); !isV {
				continue
			}
			retOf := func(bl *ssa.BasicBlock) *ssa.Return {
				seen := map[*ssa.BasicBlock]bool{}
				for bl != nil && !seen[bl] {
					seen[bl] = true
					if ret, isR := bl.Instrs[len(bl.Instrs)-1].(*ssa.Return); isR {
						return ret
					}
					if len(bl.Succs) == 1 {
						bl = bl.Succs[0]
					} else {
						return nil
					}
				}
				return nil
			}
			rn, rl := retOf(nilS), retOf(nonNil)
			if rn == nil || rl == nil {
				continue
			}
			switch sp.nilWant {
			case "true", "false":
				bn, okN := constBool(rn.Results[0])
				bl2, okL := constBool(rl.Results[0])
				if okN && okL && fmt.Sprint(bn) == sp.nilWant && fmt.Sprint(bl2) == sp.liveWant {
					ok = true
				}
			default:
				if returnedSentinel(nilS) == sp.nilWant && isNilConst(rl.Results[len(rl.Results)-1]) && rl.Results[0] == v {
					ok = true
				}
			}
		}
		if !ok && (sp.nilWant == "true" || sp.nilWant == "false") {
			// the test returned as it is: `return *element.value != nil` (Contains), `return *element.value == nil`
			// (IsTombstoned)
			for _, rs := range returnsOf(fn) {
				ret := rs.Instr.(*ssa.Return)
				if len(ret.Results) == 0 {
					continue
				}
				bo, isB := ret.Results[0].(*ssa.BinOp)
				if !isB || (bo.Op != token.EQL && bo.Op != token.NEQ) {
					continue
				}
				var v ssa.Value
				if isNilConst(bo.Y) {
					v = bo.X
				} else if isNilConst(bo.X) {
					v = bo.Y
				}
				u, isU := v.(*ssa.UnOp)
				if !isU || u.Op != token.MUL {
					continue
				}
				if _, isV := valueCellOf(u.X); !isV {
					continue
				}
				// the value of the expression when the stored value is nil
				if onNil := bo.Op == token.EQL; fmt.Sprint(onNil) == sp.nilWant {
					ok = true
				}
			}
		}
		if ok {
			r.OK(rule, key, fn.Pos(), "nil stored value ↔ tombstone")
		} else {
			r.Bad(rule, key, fn.Pos(), "the answer for a tombstoned key is not decided by the nil test of the stored value (expected "+sp.nilWant+" on the nil edge)")
		}
	}
}

// R-metadata (C15): Close records truthful metadata after both writers were closed, and writes it last.
func ruleMetadata(r *Report) {
	const rule = "metadata"
	r.Rule(rule, 5, "SSTableStreamWriter.Close records MaxKey = last accepted key, DataBytes / IndexBytes = the writers' sizes, TotalBytes = their sum, after both writers were closed, and writes the metadata file after the bloom filter (metadata is written last)")
	fn := r.NeedFunc(rule, "sstables.SSTableStreamWriter.Close")
	if fn == nil {
		return
	}
	want := map[string]func(v ssa.Value) bool{
		"MaxKey": isFieldLoad("sstables.SSTableStreamWriter", "lastKey"),
		"DataBytes": func(v ssa.Value) bool {
			c, ok := v.(*ssa.Call)
			if !ok || !Suffix("SizeI.Size", "WriterI.Size")(CalleeKey(c)) {
				return false
			}
			_, f, _, okF := loadOfField(c.Call.Value)
			return okF && f == "dataWriter"
		},
		"IndexBytes": func(v ssa.Value) bool {
			c, ok := v.(*ssa.Call)
			if !ok || !Suffix("SizeI.Size", "WriterI.Size")(CalleeKey(c)) {
				return false
			}
			_, f, _, okF := loadOfField(c.Call.Value)
			return okF && f == "indexWriter"
		},
		"TotalBytes": func(v ssa.Value) bool {
			bo, ok := v.(*ssa.BinOp)
			if !ok || bo.Op != token.ADD {
				return false
			}
			_, f1, _, ok1 := loadOfField(bo.X)
			_, f2, _, ok2 := loadOfField(bo.Y)
			return ok1 && ok2 && ((f1 == "DataBytes" && f2 == "IndexBytes") || (f1 == "IndexBytes" && f2 == "DataBytes"))
		},
	}
	got := map[string]bool{}
	var firstStore *Site
	eachInstr(fn, func(s Site) {
		st, ok := s.Instr.(*ssa.Store)
		if !ok {
			return
		}
		t, f, _, ok := fieldAddrName(st.Addr)
		if !ok || t != "sstables/proto.MetaData" {
			return
		}
		if chk, has := want[f]; has {
			if firstStore == nil {
				ss := s
				firstStore = &ss
			}
			got[f] = chk(st.Val)
		}
	})
	for _, f := range []string{"MaxKey", "DataBytes", "IndexBytes", "TotalBytes"} {
		key := rule + "/sstables.SSTableStreamWriter.Close/" + f
		if got[f] {
			r.OK(rule, key, fn.Pos(), f+" recorded from the writer state")
		} else {
			r.Bad(rule, key, fn.Pos(), "metadata field "+f+" is not recorded from the corresponding writer state")
		}
	}
	// ordering: both Close calls precede the metadata stores; the metadata file write comes after the bloom filter write
	key := rule + "/sstables.SSTableStreamWriter.Close/order"
	cl := CallsIn(fn, Suffix("CloseableI.Close", "WriterI.Close"))
	mw := CallsIn(fn, Keys("os.File.Write"))
	bf := CallsIn(fn, func(k string) bool { return strings.HasSuffix(k, "bloomfilter.Filter.WriteFile") })
	ok := len(cl) >= 2 && len(mw) == 1 && firstStore != nil
	if ok {
		for _, c := range cl {
			if !precedes(c, *firstStore) {
				ok = false
			}
		}
		if !precedes(*firstStore, mw[0]) {
			ok = false
		}
		for _, b := range bf {
			if reachableFromSite(mw[0], b) {
				ok = false
			}
		}
	}
	if ok {
		r.OK(rule, key, fn.Pos(), "writers closed → sizes recorded → bloom filter → metadata written last")
	} else {
		r.Bad(rule, key, fn.Pos(), "metadata is recorded before the writers were closed (sizes of unflushed files) or is not the last file written")
	}
}

// R-bloom-size-positive (C01): the stream writer rejects an expected element count of zero, and the background
// goroutines turn any error into a process stop — so every count simpledb passes must be provably positive.
func ruleBloomSizePositive(r *Report) {
	const rule = "bloom-size-positive"
	r.Rule(rule, 2, "every expected-element count simpledb hands to the table writer is provably positive (guarded by a zero test that leaves, or clamped to at least 1): the writer rejects 0 and a rejected flush / compaction terminates the process")
	p := r.P
	n := 0
	for _, fn := range p.FuncsOfPkg("simpledb") {
		// (the call of a newly extracted helper that sets the count is judged in the helper)
		for _, s := range directOnly(CallsIn(fn, Keys("sstables.BloomExpectedNumberOfElements"))) {
			n++
			r.Saw(fn)
			key := ef0uniq(rule + "/" + FuncKey(fn))
			x := s.Call().Common().Args[0]
			if positiveValue(fn, s, x, 0) {
				r.OK(rule, key, s.Pos(), "count is guarded / clamped to be positive")
			} else {
				r.Bad(rule, key, s.Pos(), "the expected element count can be zero (e.g. a compaction whose selected tables hold no records any more): the writer returns an error and the background goroutine stops the process")
			}
		}
	}
	if n == 0 {
		r.Missing(rule, rule+"/sites", "no BloomExpectedNumberOfElements call in simpledb")
	}
}

func positiveValue(fn *ssa.Function, at Site, x ssa.Value, depth int) bool {
	if depth > 4 {
		return false
	}
	if k, ok := constInt(x); ok {
		return k > 0
	}
	switch v := x.(type) {
	case *ssa.Convert:
		return positiveValue(fn, at, v.X, depth+1)
	case *ssa.Phi:
		for i, e := range v.Edges {
			// an edge is fine if its value is positive, or if the edge is the non-zero edge of a zero test of that value
			if positiveValue(fn, at, e, depth+1) {
				continue
			}
			pred := v.Block().Preds[i]
			if !nonZeroOnEdge(pred, v.Block(), e) {
				return false
			}
		}
		return true
	case *ssa.Call:
		if b, ok := v.Call.Value.(*ssa.Builtin); ok && b.Name() == "max" {
			for _, a := range v.Call.Args {
				if positiveValue(fn, at, a, depth+1) {
					return true
				}
			}
		}
	}
	// dominated by a zero test of x (or of a call of the same method on the same receiver) whose zero edge leaves
	for _, b := range liveBlocks(fn) {
		if len(b.Instrs) == 0 || !dominates(b, at.Block) || b == at.Block {
			continue
		}
		iff, ok := b.Instrs[len(b.Instrs)-1].(*ssa.If)
		if !ok {
			continue
		}
		bo, ok := iff.Cond.(*ssa.BinOp)
		if !ok {
			continue
		}
		k, isK := constInt(bo.Y)
		if !isK || k != 0 {
			continue
		}
		if !sameQuantity(stripConvert(bo.X), stripConvert(x)) {
			continue
		}
		var zeroSucc, otherSuccB *ssa.BasicBlock
		switch bo.Op {
		case token.EQL, token.LEQ:
			zeroSucc, otherSuccB = b.Succs[0], b.Succs[1]
		case token.NEQ, token.GTR:
			zeroSucc, otherSuccB = b.Succs[1], b.Succs[0]
		default:
			continue
		}
		_ = zeroSucc
		if otherSuccB == at.Block || dominates(otherSuccB, at.Block) {
			return true
		}
	}
	return false
}

func nonZeroOnEdge(from, to *ssa.BasicBlock, v ssa.Value) bool {
	if len(from.Instrs) == 0 {
		return false
	}
	iff, ok := from.Instrs[len(from.Instrs)-1].(*ssa.If)
	if !ok {
		return false
	}
	bo, ok := iff.Cond.(*ssa.BinOp)
	if !ok || stripConvert(bo.X) != stripConvert(v) {
		return false
	}
	k, isK := constInt(bo.Y)
	if !isK || k != 0 {
		return false
	}
	switch bo.Op {
	case token.EQL, token.LEQ:
		return from.Succs[1] == to
	case token.NEQ, token.GTR:
		return from.Succs[0] == to
	}
	return false
}

// sameQuantity: the same SSA value, or two invocations of the same method on the same receiver value (e.g. Size()).
func sameQuantity(a, b ssa.Value) bool {
	if a == b {
		return true
	}
	ca, ok1 := a.(*ssa.Call)
	cb, ok2 := b.(*ssa.Call)
	if ok1 && ok2 && ca.Call.IsInvoke() && cb.Call.IsInvoke() && ca.Call.Method == cb.Call.Method && ca.Call.Value == cb.Call.Value && len(ca.Call.Args) == 0 {
		return true
	}
	return false
}

// R-slot-in-list (C06, C01): in the live list the merged table takes exactly the position of the replacement path.
func ruleSlotInList(r *Report) {
	const rule = "slot-in-list"
	r.Rule(rule, 2, "the compaction swap stores the re-opened merged table into the list element found by looking up the replacement path, and otherwise only removes input elements in place: relative order (= read precedence) of all other tables is untouched")
	p := r.P
	var fn *ssa.Function
	for _, f := range p.FuncsOfPkg("simpledb") {
		if strings.HasPrefix(FuncKey(f), "simpledb.SSTableManager.reflectCompactionResult") && len(CallsIn(f, Keys("os.Rename"))) > 0 {
			fn = f
		}
	}
	if fn == nil {
		r.Missing(rule, rule+"/reflectCompactionResult", "swap function not found")
		return
	}
	r.Saw(fn)
	// (1) element store at index-of(ReplacementPath) of the reader opened in this function
	key := rule + "/" + FuncKey(fn) + "/element-store"
	ok := false
	eachInstr(fn, func(s Site) {
		st, isS := s.Instr.(*ssa.Store)
		if !isS {
			return
		}
		ia, isI := st.Addr.(*ssa.IndexAddr)
		if !isI {
			return
		}
		if _, f, _, isF := loadOfField(ia.X); !isF || f != "allSSTableReaders" {
			return
		}
		// index = lookup(list, m.ReplacementPath)
		c, isC := ia.Index.(*ssa.Call)
		if !isC {
			return
		}
		byRepl := false
		for _, a := range c.Call.Args {
			if _, f, _, isF := loadOfField(a); isF && f == "ReplacementPath" {
				byRepl = true
			}
		}
		// value = reader opened in this function
		opened := false
		v := stripIface(st.Val)
		if ex, isE := v.(*ssa.Extract); isE {
			if cc, isCC := ex.Tuple.(*ssa.Call); isCC && CalleeKey(cc) == "sstables.NewSSTableReader" {
				opened = true
			}
		}
		if byRepl && opened {
			ok = true
		}
	})
	if ok {
		r.OK(rule, key, fn.Pos(), "list[indexOf(ReplacementPath)] = re-opened merged table")
	} else {
		r.Bad(rule, key, fn.Pos(), "the merged table is not stored into the list position of the replacement path (the oldest input): it may end up older than unselected tables and be shadowed by, or shadow, the wrong tables")
	}
	// (2) the list field is only reassigned from in-place removals of the same list
	key = rule + "/" + FuncKey(fn) + "/list-only-shrinks-in-place"
	bad := false
	n := 0
	eachInstr(fn, func(s Site) {
		st, isS := s.Instr.(*ssa.Store)
		if !isS {
			return
		}
		if t, f, _, isF := fieldAddrName(st.Addr); !isF || t != "simpledb.SSTableManager" || f != "allSSTableReaders" {
			return
		}
		n++
		c, isC := st.Val.(*ssa.Call)
		if !isC {
			bad = true
			return
		}
		okc := false
		for _, t := range p.Callees(c) {
			if inPlaceSliceMutator(t) {
				for _, a := range argsOf(c) {
					if _, f, _, isF := loadOfField(a); isF && f == "allSSTableReaders" {
						okc = true
					}
				}
			}
		}
		if !okc {
			bad = true
		}
	})
	if bad {
		r.Bad(rule, key, fn.Pos(), "the live list is rebuilt instead of shrunk in place: the order of the remaining tables (their read precedence) is no longer the old order")
	} else {
		r.OK(rule, key, fn.Pos(), fmt.Sprintf("%d reassignment(s), all in-place removals from the same list", n))
	}
}

// R-value-buffers-immutable (C05, C14, C18): a value slice stored in the memstore is handed out by Get and may be in
// use by a reader that already left the lock; it must never be written again.
func ruleValueBuffersImmutable(r *Report) {
	const rule = "value-buffers-immutable"
	r.Rule(rule, 1, "the memstore never writes into the backing array of a stored value (no append/copy into, or element store through, a slice loaded from a value cell): values handed out by Get stay unchanged while later writes happen")
	p := r.P
	n := 0
	for _, pk := range []string{"memstore", "simpledb"} {
		for _, fn := range p.FuncsOfPkg(pk) {
			// taint: loads of value cells
			var seeds []ssa.Value
			eachInstr(fn, func(s Site) {
				if u, ok := s.Instr.(*ssa.UnOp); ok && u.Op == token.MUL {
					if _, isV := valueCellOf(u.X); isV {
						seeds = append(seeds, u)
					}
				}
			})
			if len(seeds) == 0 {
				continue
			}
			n++
			r.Saw(fn)
			t := taintClosure(fn, seeds, nil)
			bad := ""
			eachInstr(fn, func(s Site) {
				switch x := s.Instr.(type) {
				case *ssa.Call:
					if b, ok := x.Call.Value.(*ssa.Builtin); ok && (b.Name() == "append" || b.Name() == "copy") && len(x.Call.Args) > 0 && t[x.Call.Args[0]] {
						bad = p.Pos(x.Pos())
					}
				case *ssa.Store:
					if ia, ok := x.Addr.(*ssa.IndexAddr); ok && t[ia.X] {
						bad = p.Pos(x.Pos())
					}
				}
			})
			key := rule + "/" + FuncKey(fn)
			if bad != "" {
				r.Bad(rule, key, fn.Pos(), "a stored value's buffer is written in place at "+bad+": a Get that returned it earlier (and already left the lock) observes a torn or changed value")
			} else {
				r.OK(rule, key, fn.Pos(), "stored value buffers are only replaced, never written")
			}
		}
	}
	if n == 0 {
		r.Missing(rule, rule+"/sites", "no function loads a stored value")
	}
}

// R-pool-put-once (C03, C04, C18): a pooled buffer goes back to the pool at most once per call.
func rulePoolPutOnce(r *Report) {
	const rule = "pool-put-once"
	r.Rule(rule, 6, "every buffer obtained from the pool is returned to it by exactly one Put (deferred or direct) per path: a buffer put twice is handed to two later Get calls at once, which then alias (e.g. decompression output over its own input)")
	p := r.P
	n := 0
	for _, fn := range p.FuncsOfPkg("recordio") {
		for _, g := range CallsIn(fn, func(k string) bool { return strings.HasSuffix(k, "bufferpool.Pool.Get") }) {
			n++
			r.Saw(fn)
			key := ef0uniq(rule + "/" + FuncKey(fn))
			v := g.Instr.(ssa.Value)
			var defers, directs []Site
			// values derived from v (through extract/phi/tuple results of allocate helpers)
			eachInstr(fn, func(s Site) {
				c, ok := s.Instr.(ssa.CallInstruction)
				if !ok || !strings.HasSuffix(CalleeKey(c), "bufferpool.Pool.Put") {
					return
				}
				a := argsOf(c)
				if len(a) == 0 || a[0] != v {
					return
				}
				if _, isD := c.(*ssa.Defer); isD {
					defers = append(defers, s)
				} else {
					directs = append(directs, s)
				}
			})
			switch {
			case len(defers) > 1, len(defers) == 1 && len(directs) > 0:
				r.Bad(rule, key, g.Pos(), "a pooled buffer is put back more than once on some path (deferred Put plus another Put): two later Get calls receive the same backing array")
			case len(defers) == 0 && len(directs) > 1:
				// several direct puts are fine only if no two are on one path
				dup := false
				for i := range directs {
					for j := range directs {
						if i != j && reachableFromSite(directs[i], directs[j]) {
							dup = true
						}
					}
				}
				if dup {
					r.Bad(rule, key, g.Pos(), "a pooled buffer is put back twice on one path")
				} else {
					r.OK(rule, key, g.Pos(), "one Put per path")
				}
			default:
				r.OK(rule, key, g.Pos(), "at most one Put")
			}
		}
	}
	if n == 0 {
		r.Missing(rule, rule+"/sites", "no pooled buffer found")
	}
}

// R-bloom-every-key (C03): every accepted key is added to the bloom filter (only the enable flag may skip it).
func ruleBloomEveryKey(r *Report) {
	const rule = "bloom-every-key"
	r.Rule(rule, 1, "with the bloom filter enabled, every path of WriteNext that reaches the appends has added the key to the filter: no other condition may skip the add (a written key missing from the filter is reported absent)")
	fn := r.NeedFunc(rule, "sstables.SSTableStreamWriter.WriteNext")
	if fn == nil {
		return
	}
	key := rule + "/sstables.SSTableStreamWriter.WriteNext"
	adds := CallsIn(fn, func(k string) bool { return strings.HasSuffix(k, "bloomfilter.Filter.Add") })
	enT, _ := condEdges(fn, isFieldLoad("sstables.SSTableWriterOptions", "enableBloomFilter"))
	if len(adds) == 0 || len(enT) == 0 {
		r.Bad(rule, key, fn.Pos(), "keys are not added to the bloom filter under the enableBloomFilter switch")
		return
	}
	removed := map[Edge]bool{}
	for _, a := range adds {
		for _, su := range a.Block.Succs {
			removed[Edge{a.Block, su}] = true
		}
	}
	bad := false
	for _, e := range enT {
		reach := reachFrom(e.To, removed)
		for _, w := range CallsIn(fn, dataWrite) {
			inAddBlock := false
			for _, a := range adds {
				if a.Block == w.Block && a.Idx < w.Idx {
					inAddBlock = true
				}
			}
			if reach[w.Block] && !inAddBlock {
				bad = true
			}
		}
	}
	if bad {
		r.Bad(rule, key, adds[0].Pos(), "with the filter enabled a key can reach the data append without having been added to the filter (an extra condition guards the add): Contains reports written keys as absent")
	} else {
		r.OK(rule, key, adds[0].Pos(), "filter enabled ⇒ every appended key was added")
	}
}

// R-no-glob-on-user-path (C07, C10): file listings must not interpret a user-supplied directory as a pattern.
func ruleNoGlob(r *Report) {
	const rule = "no-glob-on-user-path"
	r.Rule(rule, 1, "WAL / table listings walk or read the directory; they never pass a path built from the user-supplied base path to a pattern API (filepath.Glob / Match), which would misread legal directory names containing [, ? or *")
	p := r.P
	bad := ""
	lists := 0
	for _, pk := range []string{"wal", "simpledb", "sstables"} {
		for _, fn := range p.FuncsOfPkg(pk) {
			lists += len(CallsIn(fn, Keys("path/filepath.Walk", "path/filepath.WalkDir", "os.ReadDir")))
			for _, s := range CallsIn(fn, Keys("path/filepath.Glob", "path/filepath.Match", "path.Match")) {
				if _, isConst := s.Call().Common().Args[0].(*ssa.Const); !isConst {
					bad = FuncKey(fn) + "@" + p.Pos(s.Pos())
				}
			}
		}
	}
	key := rule + "/listings"
	if bad != "" {
		r.Bad(rule, key, 0, "a pattern API receives a path derived from user input ("+bad+"): a base directory whose name contains pattern characters yields no (or wrong) files — replay silently delivers nothing")
	} else if lists == 0 {
		r.Missing(rule, key, "no directory listing found")
	} else {
		r.OK(rule, key, 0, fmt.Sprintf("%d directory listing(s), none through a pattern API", lists))
	}
}

// R-sentinel-form: one belief per sentinel. Within a package every test for a module-declared sentinel error uses the
// same form — errors.Is (sees through wrapping) or == (identity only). Mixed forms are a contradiction (Engler): a value
// that passes `!errors.Is(err, Done)` as "real error" three lines above and is then compared with `== Done` treats a
// wrapped Done as neither an error nor the end.
func ruleSentinelForm(r *Report, pkgs ...string) {
	const rule = "sentinel-form"
	r.Rule(rule, 3, "within a package, all tests for one module-declared sentinel error use one form (errors.Is or ==); within a function the same holds for every sentinel")
	p := r.P
	want := map[string]bool{}
	for _, k := range pkgs {
		want[k] = true
	}
	type use struct {
		form string
		pos  token.Pos
		root ssa.Value // the tested error value (cell or SSA value)
	}
	perPkg := map[string]map[string][]use{} // pkg → sentinel → uses
	for _, fn := range p.ModuleFuncs() {
		pk := fnPkg(fn)
		if pk == nil || fn.Blocks == nil || !want[shortPkg(pk.Path())] {
			continue
		}
		perFn := map[string][]use{}
		for _, b := range liveBlocks(fn) {
			cnd, _, _, _, _, ok := effCond(b)
			if !ok {
				continue
			}
			var g, form string
			var tested ssa.Value
			switch c := cnd.(type) {
			case *ssa.Call:
				if CalleeKey(c) == "errors.Is" && len(c.Call.Args) == 2 {
					g, form, tested = globalLoad(c.Call.Args[1]), "errors.Is", c.Call.Args[0]
				}
			case *ssa.BinOp:
				if (c.Op == token.EQL || c.Op == token.NEQ) && isErrorType(c.X.Type()) {
					if g = globalLoad(c.Y); g != "" {
						tested = c.X
					} else {
						g, tested = globalLoad(c.X), c.Y
					}
					form = "=="
				}
			}
			if g == "" {
				continue
			}
			root := stripIface(tested)
			if ld, isLd := root.(*ssa.UnOp); isLd && ld.Op == token.MUL && isCell(ld.X) {
				root = rootCell(ld.X)
			}
			u := use{form, cnd.Pos(), root}
			perFn[g] = append(perFn[g], u)
			pkName := shortPkg(pk.Path())
			if perPkg[pkName] == nil {
				perPkg[pkName] = map[string][]use{}
			}
			perPkg[pkName][g] = append(perPkg[pkName][g], u)
		}
		for g, us := range perFn {
			key := fmt.Sprintf("%s/%s/%s", rule, FuncKey(fn), g)
			mixed := false
			first := map[ssa.Value]use{}
			for _, u := range us {
				// module sentinels: one form per function; foreign ones (io.EOF): one form per tested value, since raw
				// and wrapped sources legitimately differ
				grp := u.root
				if moduleSentinel(p, g) {
					grp = nil
				}
				f0, seen := first[grp]
				if !seen {
					first[grp] = u
					continue
				}
				if u.form != f0.form {
					mixed = true
					r.Bad(rule, key, u.pos, fmt.Sprintf("%s is tested with %s here and with %s elsewhere in the same function on the same error: a wrapped %s passes one test and fails the other", g, u.form, f0.form, g))
					break
				}
			}
			if !mixed {
				r.Saw(fn)
				r.OK(rule, key, us[0].pos, fmt.Sprintf("%d test(s), all %s", len(us), us[0].form))
			}
		}
	}
	for pkName, m := range perPkg {
		for g, us := range m {
			if !strings.HasPrefix(g, pkName+".") && !moduleSentinel(p, g) {
				continue // foreign sentinel (io.EOF): raw and wrapped sources legitimately differ between functions
			}
			key := fmt.Sprintf("%s/pkg:%s/%s", rule, pkName, g)
			mixed := false
			for _, u := range us {
				if u.form != us[0].form {
					mixed = true
					r.Bad(rule, key, u.pos, fmt.Sprintf("package %s tests %s with %s here and with %s elsewhere", pkName, g, u.form, us[0].form))
					break
				}
			}
			if !mixed {
				r.OK(rule, key, us[0].pos, fmt.Sprintf("%d test(s), all %s", len(us), us[0].form))
			}
		}
	}
}

// moduleSentinel: g ("pkg.Name") is a package-level error variable declared in the module.
func moduleSentinel(p *Prog, g string) bool {
	i := strings.LastIndex(g, ".")
	if i < 0 {
		return false
	}
	for _, fn := range p.FuncsOfPkg(g[:i]) {
		if fn.Pkg != nil {
			if m, ok := fn.Pkg.Members[g[i+1:]]; ok {
				_, isG := m.(*ssa.Global)
				return isG
			}
		}
	}
	return false
}

// R-open-flag: the "open" flag says that Open succeeded. In every Open method of the module that sets a boolean field
// named open/opened to true, no failing return is reachable after the store: a handle whose Open returned an error
// must still answer "not opened yet" and must be openable again once the cause is gone.
func ruleOpenFlag(r *Report, pkgs ...string) {
	const rule = "open-flag"
	r.Rule(rule, 1, "in every Open method that sets its receiver's open flag, no error return is reachable after the flag is set (the flag is set only when Open succeeds)")
	p := r.P
	want := map[string]bool{}
	for _, k := range pkgs {
		want[k] = true
	}
	for _, fn := range p.ModuleFuncs() {
		pk := fnPkg(fn)
		if pk == nil || fn.Blocks == nil || fnName(fn) != "Open" || fn.Signature.Recv() == nil || fn.Parent() != nil || !want[shortPkg(pk.Path())] {
			continue
		}
		idx := errorResultIndex(fn)
		if idx < 0 {
			continue
		}
		var sets []Site
		eachInstr(fn, func(s Site) {
			st, ok := s.Instr.(*ssa.Store)
			if !ok {
				return
			}
			_, f, base, ok := fieldAddrName(st.Addr)
			if !ok || (f != "open" && f != "opened" && f != "isOpen") || len(fn.Params) == 0 || base != ssa.Value(fn.Params[0]) {
				return
			}
			if c, isC := constBool(st.Val); isC && c {
				sets = append(sets, s)
			}
		})
		if len(sets) == 0 {
			continue
		}
		r.Saw(fn)
		key := rule + "/" + FuncKey(fn)
		bad := ""
		for _, s := range sets {
			for _, rs := range returnsOf(fn) {
				ret := rs.Instr.(*ssa.Return)
				if k, _ := returnErrOperand(ret, idx); k == "nil" {
					continue
				}
				if reachableFromSite(s, rs) {
					bad = fmt.Sprintf("the error return at %s is reachable after the open flag was set at %s: a failed Open leaves a handle that claims to be open (reads answer from a half-initialised state, a retry reports \"already open\")", p.Pos(rs.Pos()), p.Pos(s.Pos()))
				}
			}
		}
		if bad != "" {
			r.Bad(rule, key, sets[0].Pos(), bad)
		} else {
			r.OK(rule, key, sets[0].Pos(), "open flag set on the success path only")
		}
	}
}

// R-reader-path: a table reader that the database keeps is opened on the table's published name. The reader remembers
// its base path (compaction re-opens its inputs through BasePath()); a reader opened on the temporary flush or
// compaction directory keeps working after the rename (open descriptors and mappings survive) but names a path that no
// longer exists, so the first compaction that includes the table fails and stops the process.
func ruleReaderPath(r *Report) {
	const rule = "reader-path"
	r.Rule(rule, 2, "every sstables.NewSSTableReader call in simpledb opens a path that is not derived from the temporary flush / compaction locations (SSTableFlushPathPrefix, os.MkdirTemp)")
	p := r.P
	flushPrefix := ""
	if pk := p.All[modPath+"/simpledb"]; pk != nil {
		if o, ok := pk.Types.Scope().Lookup("SSTableFlushPathPrefix").(*types.Const); ok {
			flushPrefix = constant.StringVal(o.Val())
		}
	}
	for _, fn := range p.FuncsOfPkg("simpledb") {
		n := 0
		for _, s := range directOnly(CallsIn(fn, Keys("sstables.NewSSTableReader"))) {
			// the ReadBasePath option among the variadic arguments
			var pathArg ssa.Value
			eachInstr(fn, func(t Site) {
				if c, ok := t.Instr.(*ssa.Call); ok && CalleeKey(c) == "sstables.ReadBasePath" && precedes(t, s) && len(c.Call.Args) == 1 {
					// the nearest preceding one wins
					pathArg = c.Call.Args[0]
				}
			})
			key := fmt.Sprintf("%s/%s", rule, FuncKey(fn))
			if n > 0 {
				key = fmt.Sprintf("%s#%d", key, n+1)
			}
			n++
			r.Saw(fn)
			if pathArg == nil {
				r.Unk(rule, key, s.Pos(), "no ReadBasePath option found for this reader")
				continue
			}
			temp := valueDependsOn(pathArg, func(v ssa.Value) bool {
				switch x := v.(type) {
				case *ssa.Const:
					if x.Value != nil && x.Value.Kind() == constant.String && flushPrefix != "" && strings.HasPrefix(constant.StringVal(x.Value), flushPrefix) {
						return true
					}
				case *ssa.Call:
					if CalleeKey(x) == "os.MkdirTemp" {
						return true
					}
				}
				return false
			})
			if temp {
				r.Bad(rule, key, s.Pos(), "the reader is opened on a temporary directory (flush / compaction staging): after the rename its BasePath() names a directory that no longer exists, and the next compaction that re-opens the table through it fails with \"no such file or directory\" and stops the process")
			} else {
				r.OK(rule, key, s.Pos(), "opened on a published table path")
			}
		}
	}
}

// R-walk-complete: recovery enumerates directories with filepath.Walk; a callback that returns filepath.SkipAll ends
// the enumeration at that entry, and everything that sorts after it (tables, WAL files) is never seen. SkipDir (skip
// this directory's content) is fine.
func ruleWalkComplete(r *Report) {
	const rule = "walk-complete"
	r.Rule(rule, 3, "no filepath.Walk / WalkDir callback in simpledb or wal returns filepath.SkipAll: every entry of the database and WAL directories is visited by recovery")
	p := r.P
	for _, pkg := range []string{"simpledb", "wal"} {
		for _, fn := range p.FuncsOfPkg(pkg) {
			for _, s := range CallsIn(fn, Keys("path/filepath.Walk", "path/filepath.WalkDir")) {
				args := s.Call().Common().Args
				if len(args) < 2 {
					continue
				}
				var cb *ssa.Function
				cbv := args[1]
				for {
					if ct, ok := cbv.(*ssa.ChangeType); ok {
						cbv = ct.X
						continue
					}
					break
				}
				switch x := cbv.(type) {
				case *ssa.MakeClosure:
					cb, _ = x.Fn.(*ssa.Function)
				case *ssa.Function:
					cb = x
				}
				key := fmt.Sprintf("%s/%s", rule, FuncKey(fn))
				key = uniqKey(r, key)
				if cb == nil {
					r.Unk(rule, key, s.Pos(), "walk callback is not a function literal")
					continue
				}
				r.Saw(cb)
				bad := false
				eachInstr(cb, func(t Site) {
					if u, ok := t.Instr.(*ssa.UnOp); ok {
						if g := globalLoad(u); strings.HasSuffix(g, ".SkipAll") {
							bad = true
							r.Bad(rule, key, u.Pos(), "the walk callback can return SkipAll: the enumeration ends at this entry and every entry that sorts after it (e.g. all sstable_* directories after a leftover flush_sstable_* directory) is never seen: no table is loaded, the generation restarts at 0 and the next flush collides with an existing table")
						}
					}
				})
				if !bad {
					r.OK(rule, key, s.Pos(), "callback never ends the walk early")
				}
			}
		}
	}
}

// uniqKey appends #n when the key was already used in this report.
func uniqKey(r *Report, key string) string {
	n := 0
	for _, o := range r.Obls {
		if o.Key == key || strings.HasPrefix(o.Key, key+"#") {
			n++
		}
	}
	if n == 0 {
		return key
	}
	return fmt.Sprintf("%s#%d", key, n+1)
}

// R-panic-not-parked: "or the process stops" has to be true. log.Panic* unwinds the goroutine and runs its deferred
// calls first; a deferred send on an unbuffered channel that only Close receives from blocks for ever, the panic never
// leaves the goroutine, the process keeps running without its flusher / compactor, and the next rotation hangs the
// database under its write lock. So: in every function that can panic deliberately, no deferred call blocks on a channel
// that has no buffer.
func rulePanicNotParked(r *Report) {
	const rule = "panic-not-parked"
	r.Rule(rule, 2, "in every simpledb function that stops the process with log.Panic* / panic, no deferred function performs a send on a channel created without capacity (or a receive): the deferred calls run before the panic leaves the goroutine, and a blocked one parks it for ever")
	p := r.P
	// capacity of the channel fields of DB, from their make sites
	capOf := map[string]int64{}
	for _, fn := range p.FuncsOfPkg("simpledb") {
		eachInstr(fn, func(s Site) {
			st, ok := s.Instr.(*ssa.Store)
			if !ok {
				return
			}
			t, f, _, ok := fieldAddrName(st.Addr)
			if !ok || t != "simpledb.DB" {
				return
			}
			if mc, ok := st.Val.(*ssa.MakeChan); ok {
				if n, isC := constInt(mc.Size); isC {
					capOf[f] = n
				} else {
					capOf[f] = -1
				}
			}
		})
	}
	for _, fn := range p.FuncsOfPkg("simpledb") {
		if fn.Parent() != nil {
			continue
		}
		var panics []Site
		for _, f := range closuresOf(fn) {
			eachInstr(f, func(s Site) {
				switch x := s.Instr.(type) {
				case *ssa.Panic:
					panics = append(panics, s)
				case *ssa.Call:
					if k := CalleeKey(x); strings.HasPrefix(k, "log.Panic") {
						panics = append(panics, s)
					}
				}
			})
		}
		if len(panics) == 0 {
			continue
		}
		r.Saw(fn)
		key := rule + "/" + FuncKey(fn)
		bad := ""
		eachInstr(fn, func(s Site) {
			d, ok := s.Instr.(*ssa.Defer)
			if !ok {
				return
			}
			var body *ssa.Function
			switch v := d.Call.Value.(type) {
			case *ssa.MakeClosure:
				body, _ = v.Fn.(*ssa.Function)
			case *ssa.Function:
				body = v
			}
			if body == nil {
				return
			}
			for _, g := range moduleReach(p, []*ssa.Function{body}) {
				eachInstr(g, func(t Site) {
					switch x := t.Instr.(type) {
					case *ssa.Send:
						if _, f, _, ok := loadOfField(x.Chan); ok {
							if c, known := capOf[f]; !known || c == 0 {
								bad = fmt.Sprintf("the deferred function sends on %s (created without capacity) at %s", f, p.Pos(x.Pos()))
							}
						} else {
							bad = "the deferred function sends on a channel whose capacity is unknown at " + p.Pos(x.Pos())
						}
					case *ssa.UnOp:
						if x.Op == token.ARROW {
							bad = "the deferred function receives from a channel at " + p.Pos(x.Pos())
						}
					}
				})
			}
		})
		if bad != "" {
			r.Bad(rule, key, panics[0].Pos(), bad+": when the flush / compaction fails, log.Panicf runs this deferred call before the panic can leave the goroutine; nobody receives until Close, so the process does not stop, the goroutine is gone, and the next memstore rotation blocks for ever while holding the database lock (every Get/Put/Close hangs) — the failure is neither returned nor fatal")
		} else {
			r.OK(rule, key, panics[0].Pos(), "deferred calls cannot block the panic")
		}
	}
}

// R-walk-skips-root: filepath.Walk calls the callback for the root itself. Recovery recognises its own folders by
// name prefix (sstable_…, sstable_compaction…, flush_sstable…); a database directory whose own name starts with one of
// them is then treated as one: it is wiped as an "unfinished flush", removed as a "malformed compaction", or Open fails
// parsing its name as a table number. The callbacks must look at the root's children only.
func ruleWalkSkipsRoot(r *Report) {
	const rule = "walk-skips-root"
	r.Rule(rule, 2, "in every filepath.Walk callback of simpledb that classifies entries by a name prefix, the classification is unreachable for the walk root (the path parameter is compared with the root first)")
	p := r.P
	for _, fn := range p.FuncsOfPkg("simpledb") {
		for _, s := range CallsIn(fn, Keys("path/filepath.Walk", "path/filepath.WalkDir")) {
			args := s.Call().Common().Args
			if len(args) < 2 {
				continue
			}
			cbv := args[1]
			for {
				if ct, ok := cbv.(*ssa.ChangeType); ok {
					cbv = ct.X
					continue
				}
				break
			}
			var cb *ssa.Function
			switch x := cbv.(type) {
			case *ssa.MakeClosure:
				cb, _ = x.Fn.(*ssa.Function)
			case *ssa.Function:
				cb = x
			}
			if cb == nil || len(cb.Params) == 0 {
				continue
			}
			classify := CallsIn(cb, Keys("strings.HasPrefix"))
			if len(classify) == 0 {
				continue
			}
			key := uniqKey(r, rule+"/"+FuncKey(fn))
			r.Saw(cb)
			// edges on which path == root is known to be false
			removed := map[Edge]bool{}
			found := false
			for _, b := range liveBlocks(cb) {
				cnd, tS, fS, tE, fE, ok := effCond(b)
				if !ok {
					continue
				}
				bo, isB := cnd.(*ssa.BinOp)
				if !isB || (bo.Op != token.EQL && bo.Op != token.NEQ) {
					continue
				}
				if paramOrigin(bo.X) != cb.Params[0] && paramOrigin(bo.Y) != cb.Params[0] {
					continue
				}
				// the "is the root" side
				if bo.Op == token.EQL && tE {
					removed[Edge{b, fS}] = true // keep only the root side reachable
					found = true
				}
				if bo.Op == token.NEQ && fE {
					removed[Edge{b, tS}] = true
					found = true
				}
			}
			if !found {
				r.Bad(rule, key, classify[0].Pos(), "the callback classifies entries by name prefix without excluding the walk root: a database directory named flush_sstable… is wiped by every Open (Put, Close, Open, Get → not found), one named sstable_compaction… is removed, one named sstable… makes Open fail (ParseUint) or panic (slice bounds)")
				continue
			}
			// with only the root side left, no classification may be reachable
			bad := false
			for _, c := range classify {
				if siteReachable(c, removed) {
					bad = true
				}
			}
			if bad {
				r.Bad(rule, key, classify[0].Pos(), "the name-prefix classification is still reachable for the walk root")
			} else {
				r.OK(rule, key, classify[0].Pos(), "the root is skipped before entries are classified by name")
			}
		}
	}
}

// R-create-truncates: every writer of the library starts writing at offset 0 of the file it creates and reports its own
// byte count as the file's size; it only truncates what it wrote itself past its final offset. A file that already
// exists and is longer (an earlier table in a reused folder, the remains of a killed attempt) keeps its old tail: the
// reader then serves the old records behind the new ones, or fails on the first stale byte, and the metadata's byte
// sizes do not match the files. So files opened for writing with O_CREATE are truncated on open.
func ruleCreateTruncates(r *Report) {
	const rule = "create-truncates"
	r.Rule(rule, 4, "every os.OpenFile / directio.OpenFile of the module that creates a file for writing (O_CREATE with O_WRONLY or O_RDWR) also passes O_TRUNC (or O_EXCL / O_APPEND); named exception: the direct-I/O probe on a fresh temp file")
	p := r.P
	exempt := map[string]string{"recordio.IsDirectIOAvailable": "probe on a file just created by os.CreateTemp"}
	const (
		oWRONLY = 0x1
		oRDWR   = 0x2
		oAPPEND = 0x400
		oCREATE = 0x40
		oEXCL   = 0x80
		oTRUNC  = 0x200
	)
	for _, fn := range p.ModuleFuncs() {
		for _, s := range CallsIn(fn, func(k string) bool { return k == "os.OpenFile" || strings.HasSuffix(k, "directio.OpenFile") }) {
			args := s.Call().Common().Args
			if len(args) < 2 {
				continue
			}
			fl, ok := constInt(args[1])
			if !ok {
				continue
			}
			if fl&oCREATE == 0 || fl&(oWRONLY|oRDWR) == 0 {
				continue
			}
			key := uniqKey(r, rule+"/"+FuncKey(fn))
			r.Saw(fn)
			if why, ex := exempt[FuncKey(outermost(fn))]; ex {
				r.OK(rule, key, s.Pos(), "exempt (named): "+why)
				continue
			}
			if fl&(oTRUNC|oEXCL|oAPPEND) != 0 {
				r.OK(rule, key, s.Pos(), "an existing file is truncated (or refused / appended to) on open")
			} else {
				r.Bad(rule, key, s.Pos(), "a file is created for writing without O_TRUNC: when it already exists and is longer than what this writer writes (a folder that held a larger table before, the remains of a killed attempt), the old tail stays — the table then serves old records behind the new ones or cannot be opened, and DataBytes / IndexBytes disagree with the file sizes")
			}
		}
	}
}

// R-reader-buffer-minimum: the vendored buffered reader takes its buffer from outside and has lost the minimum size that
// bufio.NewReaderSize enforces. With an empty buffer ReadByte panics ("tried to fill full buffer"); the buffer size is
// an ordinary option (ReadBufferSizeBytes(0), an index loader's zero value), and in a database session the panic is
// raised in the flusher goroutine or inside Open and terminates the process.
func ruleReaderBufferMinimum(r *Report) {
	const rule = "reader-buffer-minimum"
	r.Rule(rule, 1, "recordio.NewReaderBuf never installs a buffer shorter than a positive minimum: the length of the given buffer is compared with a positive constant and a too small one is replaced")
	fn := r.NeedFunc(rule, "recordio.NewReaderBuf")
	if fn == nil {
		return
	}
	key := rule + "/recordio.NewReaderBuf"
	ok := false
	for _, b := range liveBlocks(fn) {
		cnd, _, _, _, _, is := effCond(b)
		if !is {
			continue
		}
		bo, isB := cnd.(*ssa.BinOp)
		if !isB {
			continue
		}
		lenOfParam := func(v ssa.Value) bool {
			c, isC := v.(*ssa.Call)
			if !isC {
				return false
			}
			bi, isBi := c.Call.Value.(*ssa.Builtin)
			return isBi && bi.Name() == "len" && paramOrigin(c.Call.Args[0]) != nil
		}
		posConst := func(v ssa.Value) bool { c, isC := constInt(v); return isC && c > 0 }
		if (lenOfParam(bo.X) && posConst(bo.Y)) || (lenOfParam(bo.Y) && posConst(bo.X)) {
			// and a fresh buffer is made somewhere
			eachInstr(fn, func(s Site) {
				if _, isM := s.Instr.(*ssa.MakeSlice); isM {
					ok = true
				}
				// make with a constant size is an array allocation that is sliced
				if al, isA := s.Instr.(*ssa.Alloc); isA {
					if pt, isP := al.Type().(*types.Pointer); isP {
						if _, isArr := pt.Elem().Underlying().(*types.Array); isArr {
							ok = true
						}
					}
				}
			})
		}
	}
	if ok {
		r.OK(rule, key, fn.Pos(), "a too small buffer is replaced by one of the minimum size")
	} else {
		r.Bad(rule, key, fn.Pos(), "the reader uses whatever buffer it is given: with ReadBufferSizeBytes(0) (or an index loader left at its zero value) the first ReadByte panics with \"bufio: tried to fill full buffer\" — in the flusher goroutine at the first flush, or inside Open when tables exist — and the process terminates")
	}
}

// R-compaction-needs-input: a compaction cycle that selected no table must do nothing. The only guard is the comparison
// with the configured threshold, which is an ordinary option: with a negative threshold an empty selection passes it, the
// cycle merges nothing and then indexes the first path of an empty list — an index-out-of-range panic in the
// compaction goroutine, which terminates the process.
func ruleCompactionNeedsInput(r *Report) {
	const rule = "compaction-needs-input"
	r.Rule(rule, 1, "in executeCompaction every indexing of the selected path list with a constant is reachable only when the list was tested to be non-empty (len(paths) compared with zero), whatever the threshold option is")
	fn := r.NeedFunc(rule, "simpledb.executeCompaction")
	if fn == nil {
		return
	}
	key := rule + "/simpledb.executeCompaction"
	var idxSites []Site
	eachInstr(fn, func(s Site) {
		if ia, ok := s.Instr.(*ssa.IndexAddr); ok {
			if _, isC := constInt(ia.Index); isC {
				if _, isSl := ia.X.Type().Underlying().(*types.Slice); isSl && strings.Contains(ia.X.Type().String(), "string") {
					idxSites = append(idxSites, s)
				}
			}
		}
	})
	if len(idxSites) == 0 {
		r.OK(rule, key, fn.Pos(), "no constant index into the path list")
		return
	}
	// edges on which len(x) == 0 is excluded
	removed := map[Edge]bool{}
	found := false
	for _, b := range liveBlocks(fn) {
		cnd, tS, fS, tE, fE, ok := effCond(b)
		if !ok {
			continue
		}
		bo, isB := cnd.(*ssa.BinOp)
		if !isB {
			continue
		}
		isLen := func(v ssa.Value) bool {
			c, isC := v.(*ssa.Call)
			if !isC {
				return false
			}
			bi, isBi := c.Call.Value.(*ssa.Builtin)
			return isBi && bi.Name() == "len"
		}
		zero := func(v ssa.Value) bool { c, isC := constInt(v); return isC && c == 0 }
		// the side on which the list is known to be EMPTY is kept, everything else removed: indexing must then be unreachable
		switch {
		case isLen(bo.X) && zero(bo.Y) && bo.Op == token.EQL && tE:
			removed[Edge{b, fS}] = true
			found = true
		case isLen(bo.X) && zero(bo.Y) && (bo.Op == token.NEQ || bo.Op == token.GTR) && fE:
			removed[Edge{b, tS}] = true
			found = true
		case isLen(bo.X) && zero(bo.Y) && bo.Op == token.LEQ && tE:
			removed[Edge{b, fS}] = true
			found = true
		}
	}
	bad := !found
	for _, s := range idxSites {
		if found && siteReachable(s, removed) {
			bad = true
		}
	}
	if bad {
		r.Bad(rule, key, idxSites[0].Pos(), "the first selected path is indexed although nothing guarantees that a table was selected: with CompactionFileThreshold(-1) an empty selection passes the threshold test and the compaction goroutine dies with index out of range [0] at the first tick, even on an empty database")
	} else {
		r.OK(rule, key, idxSites[0].Pos(), "an empty selection returns before anything is indexed")
	}
}

// R-sync-failure-rolls-back: WriteSync buffers the record, flushes it into the file and then syncs. When the sync fails
// the caller is told that the record was not written — but it sits in the file, complete and readable: a WAL replay
// after a crash (or after a clean restart that had nothing to flush) applies a Put/Delete that was rejected. The failed
// record has to be taken back (truncate to the offset before it), or the writer must refuse everything after it.
func ruleSyncFailureRollsBack(r *Report) {
	const rule = "sync-failure-rolls-back"
	r.Rule(rule, 1, "in FileWriter.WriteSync every error return reachable from the failure edge of file.Sync passes a Truncate of the file, directly or in a helper (the record is taken back), so that a record whose write was reported as failed cannot be read later")
	p := r.P
	fn := r.NeedFunc(rule, "recordio.FileWriter.WriteSync")
	if fn == nil {
		return
	}
	key := rule + "/recordio.FileWriter.WriteSync"
	syncs := CallsIn(fn, Keys("os.File.Sync"))
	if len(syncs) == 0 {
		r.Missing(rule, key, "WriteSync does not sync")
		return
	}
	trunc := CallsIn(fn, Keys("os.File.Truncate"))
	// … or a module helper that truncates
	eachInstr(fn, func(s Site) {
		c, ok := s.Instr.(*ssa.Call)
		if !ok {
			return
		}
		sc := c.Call.StaticCallee()
		if sc == nil || !inModule(sc) || sc == fn {
			return
		}
		for _, g := range moduleReach(p, []*ssa.Function{sc}) {
			if len(CallsIn(g, Keys("os.File.Truncate"))) > 0 {
				trunc = append(trunc, s)
				return
			}
		}
	})
	// (marking the writer unusable alone does not count: the record would still be replayed)
	removed := map[Edge]bool{}
	for _, t := range trunc {
		for _, su := range t.Block.Succs {
			removed[Edge{t.Block, su}] = true
		}
	}
	// an undo step that fails before the Truncate (the Seek of the buffered writer) may skip it: only the success edges
	// of the other calls are followed
	isSync := map[ssa.Instruction]bool{}
	for _, s := range syncs {
		isSync[s.Instr] = true
	}
	eachInstr(fn, func(s Site) {
		if _, ok := s.Instr.(*ssa.Call); !ok || isSync[s.Instr] {
			return
		}
		_, fail := errorEdges(s)
		for _, e := range fail {
			removed[e] = true
		}
	})
	bad := false
	for _, s := range syncs {
		_, fail := errorEdges(s)
		for _, e := range fail {
			reach := reachFrom(e.To, removed)
			for _, rs := range returnsOf(fn) {
				inTrunc := false
				for _, t := range trunc {
					if t.Block == rs.Block {
						inTrunc = true
					}
				}
				if reach[rs.Block] && !inTrunc {
					bad = true
				}
			}
		}
	}
	// the writer continues where it truncated: wherever the Truncate is, the success path behind it resets currentOffset
	// to the offset that was handed to Truncate (the next rollback starts from currentOffset)
	for _, f := range append([]*ssa.Function{fn}, moduleReach(p, []*ssa.Function{fn})...) {
		if pk := fnPkg(f); pk == nil || shortPkg(pk.Path()) != "recordio" {
			continue
		}
		for _, t := range CallsIn(f, Keys("os.File.Truncate")) {
			if f != fn && !strings.Contains(strings.ToLower(fnName(f)), "trunc") && fnName(f) != "WriteSync" {
				continue // Close truncates too, with nothing to continue
			}
			if f == fn || reachesFromSyncFailure(fn, f) {
				okey := rule + "/" + FuncKey(f) + "/offset-reset"
				arg := stripConvert(t.Call().Common().Args[len(t.Call().Common().Args)-1])
				reset := false
				eachInstr(f, func(x Site) {
					st, isS := x.Instr.(*ssa.Store)
					if !isS {
						return
					}
					if ty, fld, _, isF := fieldAddrName(st.Addr); isF && ty == "recordio.FileWriter" && fld == "currentOffset" && stripConvert(st.Val) == arg && reachableFromSite(t, x) {
						reset = true
					}
				})
				// … or a method of the writer that is handed the same offset and sets currentOffset from it (the
				// writer's own Seek, which takes the position the buffered writer reports for that offset)
				if !reset {
					eachInstr(f, func(x Site) {
						c, isC := x.Instr.(*ssa.Call)
						if !isC {
							return
						}
						g := c.Call.StaticCallee()
						if g == nil || !inModule(g) || g.Signature.Recv() == nil || len(g.Blocks) == 0 {
							return
						}
						for ai, a := range c.Call.Args {
							if ai == 0 || ai >= len(g.Params) || stripConvert(a) != arg {
								continue
							}
							pa := g.Params[ai]
							eachInstr(g, func(y Site) {
								st, isS := y.Instr.(*ssa.Store)
								if !isS {
									return
								}
								ty, fld, _, isF := fieldAddrName(st.Addr)
								if !isF || ty != "recordio.FileWriter" || fld != "currentOffset" {
									return
								}
								v := stripConvert(st.Val)
								if v == ssa.Value(pa) {
									reset = true
									return
								}
								if ex, isE := v.(*ssa.Extract); isE {
									v = ex.Tuple
								}
								if sc, isCall := v.(*ssa.Call); isCall {
									nm := ""
									if sc.Call.IsInvoke() {
										nm = sc.Call.Method.Name()
									} else if h := sc.Call.StaticCallee(); h != nil {
										nm = fnName(h)
									}
									if as := argsOf(sc); nm == "Seek" && len(as) > 0 && stripConvert(as[0]) == ssa.Value(pa) {
										reset = true
									}
								}
							})
						}
					})
				}
				// the position of the buffered writer goes where the file was cut: a Seek of the undo that targets
				// anything else (the writer's Size(), which is still the old offset at that point) leaves the position
				// behind a hole of zeros — the next record lands there and replay stops at the hole
				skey := rule + "/" + FuncKey(f) + "/position-follows-truncation"
				var seeks []Site
				eachInstr(f, func(x Site) {
					c, isC := x.Instr.(*ssa.Call)
					if !isC {
						return
					}
					name := ""
					if c.Call.IsInvoke() {
						name = c.Call.Method.Name()
					} else if sc := c.Call.StaticCallee(); sc != nil {
						name = fnName(sc)
					}
					if name != "Seek" {
						return
					}
					if _, fld, _, isF := loadOfField(argsRecv(c)); isF && fld == "bufWriter" {
						seeks = append(seeks, x)
					}
				})
				if len(seeks) > 0 {
					same := true
					for _, sk := range seeks {
						a := argsOf(sk.Call())
						if len(a) == 0 {
							continue
						}
						tgt := stripConvert(a[0])
						if tgt != arg && !(paramOrigin(tgt) != nil && paramOrigin(tgt) == paramOrigin(arg)) {
							same = false
						}
					}
					if same {
						r.OK(rule, skey, t.Pos(), "the writer's position is moved to the truncation point")
					} else {
						r.Bad(rule, skey, seeks[0].Pos(), "the undo truncates the file at one offset and moves the writer's position to another (the writer's size before the undo, not the start of the rejected record): the next record is written behind a hole of zeros, and replay of that file fails with a magic number mismatch")
					}
				}
				if reset {
					r.OK(rule, okey, t.Pos(), "currentOffset is set back to the truncation point")
				} else {
					r.Bad(rule, okey, t.Pos(), "the file is truncated but the writer's currentOffset keeps the old value: the next rollback target is taken from it, so a second failing fsync in the same file truncates at the wrong place and leaves (part of) a rejected record in front of the next accepted one — recovery fails with a magic number mismatch or replays the rejected call")
				}
			}
		}
	}
	// when the record cannot be taken back either (the undo fails as well), the failure is kept where Close finds it:
	// a log rotation closes this file and continues in the next one when Close returns nil — the rejected record would sit
	// in front of records that were acknowledged after it
	{
		ukey := rule + "/recordio.FileWriter.WriteSync/undo-failure-reaches-close"
		field := ""
		// in WriteSync itself, or in a helper it hands the undo to (newly extracted, or the truncating helper)
		scope := []*ssa.Function{fn}
		for _, g := range moduleReach(p, []*ssa.Function{fn}) {
			if pk := fnPkg(g); pk != nil && shortPkg(pk.Path()) == "recordio" && g != fn && (isFresh(g) || strings.Contains(strings.ToLower(fnName(g)), "trunc")) {
				scope = append(scope, g)
			}
		}
		for _, g := range scope {
			ts := trunc
			if g != fn {
				ts = CallsIn(g, func(k string) bool {
					return k == "os.File.Truncate" || strings.Contains(strings.ToLower(k), "trunc")
				})
			}
			for _, t := range ts {
				if t.Fn != g {
					continue
				}
				_, fail := errorEdges(t)
				for _, e := range fail {
					reach := reachFrom(e.To, nil)
					eachInstr(g, func(x Site) {
						st, isS := x.Instr.(*ssa.Store)
						if !isS || !reach[x.Block] || !isErrorType(st.Val.Type()) {
							return
						}
						if ty, f, _, isF := fieldAddrName(st.Addr); isF && ty == "recordio.FileWriter" {
							field = f
						}
					})
				}
			}
		}
		cl := p.Func("recordio.FileWriter.Close")
		okClose := field != "" && cl != nil
		if okClose {
			isF := isFieldLoad("recordio.FileWriter", field)
			uses := false
			for _, rs := range returnsOf(cl) {
				res := rs.Instr.(*ssa.Return).Results[0]
				if isNilConst(res) {
					okClose = false // a plain success return forgets the rejected record
				}
				if valueDependsOn(res, func(x ssa.Value) bool { return isF(x) }) {
					uses = true
				}
			}
			okClose = okClose && uses
		}
		if okClose {
			r.OK(rule, ukey, syncs[0].Pos(), "a failed undo is kept in "+field+" and Close returns it")
		} else {
			r.Bad(rule, ukey, syncs[0].Pos(), "when the undo of a rejected record fails too (fsync EIO, then ftruncate EIO) the writer only refuses further writes; Close still returns nil, so a WAL rotation goes on in the next file: appends A, C, D acknowledged, B rejected — replay delivers ABCD")
		}
	}
	if bad {
		r.Bad(rule, key, syncs[0].Pos(), "when fsync fails the error is returned but the record stays in the file, complete: Put(k,v1) ok, Put(k,v2) fails with EIO at fsync, Get(k) = v1 — after a crash and Open Get(k) = v2; a rejected Delete deletes the key after recovery; and since an empty memstore is not flushed at Close, the same happens after a clean restart")
	} else {
		r.OK(rule, key, syncs[0].Pos(), "a record whose sync failed is truncated away before the error is returned")
	}
	_ = p
}

// R-size-is-append-position (C15, C04): the stream writer takes FileWriter.Size() for the place it rolls back to when an
// index append fails, and for the DataBytes it publishes. Both mean "where the next record goes" — after a Seek back that
// is the current offset, not the largest offset ever written.
func ruleSizeIsAppendPosition(r *Report) {
	const rule = "size-is-append-position"
	r.Rule(rule, 1, "recordio.FileWriter.Size returns exactly the field the next Write starts at (currentOffset): the table writer uses it as roll-back target and as the published DataBytes")
	fn := r.NeedFunc(rule, "recordio.FileWriter.Size")
	if fn == nil {
		return
	}
	key := rule + "/recordio.FileWriter.Size"
	isCur := isFieldLoad("recordio.FileWriter", "currentOffset")
	ok := true
	rets := returnsOf(fn)
	for _, rs := range rets {
		ret := rs.Instr.(*ssa.Return)
		if len(ret.Results) != 1 || !isCur(ret.Results[0]) {
			ok = false
		}
	}
	if ok && len(rets) > 0 {
		r.OK(rule, key, fn.Pos(), "Size() is the current offset")
	} else {
		r.Bad(rule, key, fn.Pos(), "Size() is not the append position: after a failed index append the table writer seeks \"back\" to it — two failures in a row leave an orphan record in data.rio that shifts every later value of a full scan, and a failed write followed by a shorter one makes DataBytes overstate the file")
	}
}

// R-read-check-option-honoured (C09): whether values are verified on every read is the caller's choice
// (skipHashCheckOnRead). Every consumer must get that choice as it is — not a combination with other options.
func ruleReadCheckOptionHonoured(r *Report) {
	const rule = "read-check-option-honoured"
	r.Rule(rule, 2, "every argument bound to a parameter called skipHashCheck in package sstables is the constant false (always verify), the option field skipHashCheckOnRead loaded as it is, or a forwarded skipHashCheck parameter / field — never an expression over other options")
	p := r.P
	n := 0
	for _, fn := range p.FuncsOfPkg("sstables") {
		eachInstr(fn, func(s Site) {
			c, ok := s.Instr.(*ssa.Call)
			if !ok {
				return
			}
			sc := c.Call.StaticCallee()
			if sc == nil || !inModule(sc) || len(sc.Params) != len(c.Call.Args) {
				return
			}
			for i, pr := range sc.Params {
				if refName(pr) != "skipHashCheck" {
					continue
				}
				n++
				key := uniqKey(r, rule+"/"+FuncKey(fn)+"/"+FuncKey(sc))
				r.Saw(fn)
				a := c.Call.Args[i]
				good := false
				if cb, isC := constBool(a); isC && !cb {
					good = true
				}
				if _, f, _, isF := loadOfField(a); isF && (f == "skipHashCheckOnRead" || f == "skipHashCheck") {
					good = true
				}
				if pa, isP := a.(*ssa.Parameter); isP && refName(pa) == "skipHashCheck" {
					good = true
				}
				if good {
					r.OK(rule, key, s.Pos(), "the per-read verification choice is passed on unchanged")
				} else {
					r.Bad(rule, key, s.Pos(), "the per-read verification switch handed to "+FuncKey(sc)+" is not the caller's option as it is: with EnableHashCheckOnReads (load check left on) a byte altered after the table was opened is returned as a different, plausible value without an error")
				}
			}
		})
	}
	// the same for a field an iterator keeps the choice in
	for _, fn := range p.FuncsOfPkg("sstables") {
		eachInstr(fn, func(s Site) {
			st, ok := s.Instr.(*ssa.Store)
			if !ok {
				return
			}
			_, f, _, isF := fieldAddrName(st.Addr)
			if !isF || f != "skipHashCheck" {
				return
			}
			n++
			key := uniqKey(r, rule+"/"+FuncKey(fn)+"/field")
			r.Saw(fn)
			good := false
			if cb, isC := constBool(st.Val); isC && !cb {
				good = true
			}
			if _, lf, _, isL := loadOfField(st.Val); isL && (lf == "skipHashCheckOnRead" || lf == "skipHashCheck") {
				good = true
			}
			if pa, isP := st.Val.(*ssa.Parameter); isP && refName(pa) == "skipHashCheck" {
				good = true
			}
			if good {
				r.OK(rule, key, s.Pos(), "the per-read verification choice is kept unchanged")
			} else {
				r.Bad(rule, key, s.Pos(), "the per-read verification switch an iterator keeps is not the caller's option as it is (a sibling option, or an expression): with SkipHashCheckOnLoad + EnableHashCheckOnReads this scan serves damaged payloads while the other read paths of the same reader fail properly")
			}
		})
	}
	if n == 0 {
		r.Missing(rule, rule+"/none", "no consumer of a skipHashCheck parameter found")
	}
}

// reachesFromSyncFailure: g is called (directly) in fn on a path that starts at the failure edge of file.Sync.
func reachesFromSyncFailure(fn, g *ssa.Function) bool {
	res := false
	for _, s := range CallsIn(fn, Keys("os.File.Sync")) {
		_, fail := errorEdges(s)
		for _, e := range fail {
			reach := reachFrom(e.To, nil)
			eachInstr(fn, func(x Site) {
				if c, ok := x.Instr.(*ssa.Call); ok && c.Call.StaticCallee() == g && reach[x.Block] {
					res = true
				}
			})
		}
	}
	return res
}

// R-bloom-size-validated (C03, C01): NewSSTableStreamWriter rejects an expected element count of zero, because
// bloomfilter.NewOptimal(0, p) panics in Open (makeslice: len out of range). The check runs once, in the constructor:
// a later assignment to the option (a "dimension it from what we are about to write") escapes it.
func ruleBloomSizeValidated(r *Report) {
	const rule = "bloom-size-validated"
	r.Rule(rule, 1, "the option field bloomExpectedNumberOfElements is assigned only in the option function and in the constructor's defaults — nowhere after the constructor's positivity check")
	p := r.P
	key := rule + "/sstables.SSTableWriterOptions.bloomExpectedNumberOfElements"
	bad := ""
	n := 0
	for _, fn := range p.FuncsOfPkg("sstables") {
		eachInstr(fn, func(s Site) {
			st, ok := s.Instr.(*ssa.Store)
			if !ok {
				return
			}
			_, f, base, isF := fieldAddrName(st.Addr)
			if !isF || f != "bloomExpectedNumberOfElements" {
				return
			}
			n++
			// the constructor's literal (a fresh allocation), or the option closure writing into the options it is handed
			if _, fresh := base.(*ssa.Alloc); fresh {
				return
			}
			if po := paramOrigin(base); po != nil && fn.Parent() != nil && fn.Signature.Params().Len() == 1 && fn.Signature.Results().Len() == 0 {
				return // func(args *SSTableWriterOptions) { args.x = n }
			}
			bad = FuncKey(fn) + " at " + p.Pos(s.Pos())
		})
	}
	if n == 0 {
		r.Missing(rule, key, "no assignment of the option found")
	} else if bad != "" {
		r.Bad(rule, key, 0, "the expected element count of the bloom filter is assigned behind the constructor's check ("+bad+"): writing an empty input (length 0 is a legal table) sets it to 0 and Open panics in bloomfilter.NewOptimal instead of producing an empty table")
	} else {
		r.OK(rule, key, 0, fmt.Sprintf("%d assignment(s), all before the constructor's check", n))
	}
}

// R-guarded-escape (C18, C05): a guarded slice or map must not leave its critical section by reference. The live reader
// list is changed in place (elements are overwritten and shifted when a compaction is reflected), so a function that
// returns the field itself under a deferred unlock hands its caller a view that changes under it; two such calls give two
// lists of different length.
func ruleGuardedEscape(r *Report) {
	const rule = "guarded-escape"
	r.Rule(rule, 1, "no function of package simpledb returns a guarded slice or map field itself (SSTableManager.allSSTableReaders): whoever needs the elements reads them inside one critical section or gets a copy")
	p := r.P
	n := 0
	bad := ""
	var pos Site
	for _, fn := range p.FuncsOfPkg("simpledb") {
		for _, rs := range returnsOf(fn) {
			for _, res := range rs.Instr.(*ssa.Return).Results {
				switch res.Type().Underlying().(type) {
				case *types.Slice, *types.Map:
				default:
					continue
				}
				cands := []ssa.Value{res}
				// a function with a defer spills its result into a cell before the deferred calls run
				if u, isU := res.(*ssa.UnOp); isU && u.Op == token.MUL && isCell(u.X) {
					if vals, _ := reachingStores(u); len(vals) > 0 {
						cands = append(cands, vals...)
					}
				}
				for _, cv := range cands {
					if cv == nil || cv == zeroMarker {
						continue
					}
					t, f, _, ok := loadOfField(cv)
					if !ok {
						continue
					}
					for _, g := range guardTable {
						if g.typ == t && g.field == f {
							bad = fmt.Sprintf("%s returns %s.%s itself (%s)", FuncKey(fn), t, f, p.Pos(rs.Pos()))
							pos = rs
						}
					}
				}
			}
		}
		n++
	}
	key := rule + "/simpledb"
	if bad != "" {
		r.Bad(rule, key, pos.Pos(), bad+": the caller iterates the live list outside the lock while the flusher appends to it and a reflected compaction rewrites it in place — two reads give lists of different length (index out of range in the compaction goroutine, the process ends)")
	} else {
		r.OK(rule, key, 0, fmt.Sprintf("%d function(s) examined, none returns a guarded slice or map", n))
	}
}

// R-swap-after-rotate (C05, C01, C02): the rotation first starts the next WAL file, then takes the write store out of
// service and hands it to the flusher in one go. A swap in front of a Rotate that can fail leaves a full memstore as
// read store that nobody was told to flush: the next successful rotation drops it and the flush after that removes its WAL
// files — acknowledged writes are gone without a Delete.
func ruleSwapAfterRotate(r *Report) {
	const rule = "swap-after-rotate"
	r.Rule(rule, 1, "in rotateWalAndFlushMemstore the memstore swap is reached only through the success edge of wal.Rotate, and no return is reachable after the swap without the hand-over to the flusher")
	fn := r.NeedFunc(rule, "simpledb.DB.rotateWalAndFlushMemstore")
	if fn == nil {
		return
	}
	o := &order{r, r.P}
	rot := CallsIn(fn, Suffix("WriteAheadLogI.Rotate", "WriteAheadLogAppendI.Rotate", "Appender.Rotate"))
	swaps := CallsIn(fn, Keys("simpledb.swapMemstore"))
	// the inline form of the swap: a store into the memStore field of the database
	eachInstr(fn, func(s Site) {
		if st, ok := s.Instr.(*ssa.Store); ok {
			if t, f, _, ok := fieldAddrName(st.Addr); ok && f == "memStore" && strings.HasSuffix(t, "simpledb.DB") {
				swaps = append(swaps, s)
			}
		}
	})
	key := rule + "/simpledb.DB.rotateWalAndFlushMemstore"
	if len(rot) == 0 || len(swaps) == 0 {
		r.Unk(rule, key, fn.Pos(), "rotation or swap not found")
		return
	}
	o.OnlyAfterSuccess(rule, key, fn, "wal.Rotate", rot, "the memstore swap", swaps, nil)
	// hand-over: every return behind the swap passes the send
	var sends []Site
	eachInstr(fn, func(s Site) {
		if _, ok := s.Instr.(*ssa.Send); ok {
			sends = append(sends, s)
		}
	})
	hkey := key + "/handed-over"
	removed := map[Edge]bool{}
	for _, sd := range sends {
		for _, su := range sd.Block.Succs {
			removed[Edge{sd.Block, su}] = true
		}
	}
	bad := false
	for _, sw := range swaps {
		for _, rs := range returnsOf(fn) {
			inSend := false
			for _, sd := range sends {
				if sd.Block == rs.Block {
					inSend = true
				}
			}
			if inSend || rs.Block == sw.Block && len(sends) > 0 && sends[0].Block == sw.Block {
				continue
			}
			reach := false
			for _, su := range sw.Block.Succs {
				if reachFrom(su, removed)[rs.Block] {
					reach = true
				}
			}
			if rs.Block == sw.Block {
				reach = true
			}
			if reach {
				bad = true
			}
		}
	}
	if bad || len(sends) == 0 {
		r.Bad(rule, hkey, swaps[0].Pos(), "a return is reachable behind the memstore swap without the hand-over to the flusher: the swapped-out memstore is dropped unflushed by the next rotation")
	} else {
		r.OK(rule, hkey, swaps[0].Pos(), "swap and hand-over are inseparable")
	}
}

// R-fits-without-sum (C04, C18): the sizes of a record header are not trustworthy before they were compared with the
// file (the random-access reader parses a header wherever it sees the marker, also inside a payload). A sum with such a
// size can wrap around 2^64 and pass a "<= file size" test; the comparison has to keep the untrusted size alone on one
// side (size > fileSize - start).
func ruleFitsWithoutSum(r *Report) {
	const rule = "fits-without-sum"
	r.Rule(rule, 1, "in MMapReader.checkRecordFits no payload size taken from the record header is an operand of an addition: it is compared as it is with what is left of the file")
	fn := r.NeedFunc(rule, "recordio.MMapReader.checkRecordFits")
	if fn == nil {
		return
	}
	key := rule + "/recordio.MMapReader.checkRecordFits"
	isSize := func(v ssa.Value) bool {
		return valueDependsOn(v, func(x ssa.Value) bool {
			pa, ok := x.(*ssa.Parameter)
			return ok && pa.Parent() == fn && strings.HasPrefix(refName(pa), "payloadSize")
		})
	}
	bad := ""
	eachInstr(fn, func(s Site) {
		bo, ok := s.Instr.(*ssa.BinOp)
		if !ok || (bo.Op != token.ADD && bo.Op != token.MUL && bo.Op != token.SHL) {
			return
		}
		if bt, isB := bo.Type().Underlying().(*types.Basic); !isB || bt.Info()&types.IsInteger == 0 {
			return
		}
		if isSize(bo.X) || isSize(bo.Y) {
			bad = r.P.Pos(bo.Pos())
		}
	})
	if bad != "" {
		r.Bad(rule, key, fn.Pos(), "a payload size from the record header is added up before it was bounded ("+bad+"): a header embedded in a payload with a size near 2^64 makes the sum wrap, the check passes, and SeekNext from inside that record panics (makeslice: len out of range) instead of returning the next record")
	} else {
		r.OK(rule, key, fn.Pos(), "the header's sizes are only compared, never summed")
	}
}

// R-stack-keeps-every-reader (C19, C08): the stacked reader is the owner view of the live tables — DB.Close releases the
// tables through it. A constructor that leaves readers out (tables without records) leaves them open for good.
func ruleStackKeepsEveryReader(r *Report) {
	const rule = "stack-keeps-every-reader"
	r.Rule(rule, 1, "NewSuperSSTableReader keeps the slice of readers it is given as it is (its Close and the owner's Close go through it)")
	fn := r.NeedFunc(rule, "sstables.NewSuperSSTableReader")
	if fn == nil {
		return
	}
	key := rule + "/sstables.NewSuperSSTableReader"
	ok := false
	n := 0
	eachInstr(fn, func(s Site) {
		st, isS := s.Instr.(*ssa.Store)
		if !isS {
			return
		}
		if t, f, _, isF := fieldAddrName(st.Addr); isF && t == "sstables.SuperSSTableReader" && f == "readers" {
			n++
			if len(fn.Params) > 0 && paramOrigin(st.Val) == fn.Params[0] {
				ok = true
			} else {
				ok = false
			}
		}
	})
	if n == 1 && ok {
		r.OK(rule, key, fn.Pos(), "readers: the parameter itself")
	} else {
		r.Bad(rule, key, fn.Pos(), "the stacked reader does not keep the readers it was given as they are (a filtered or rebuilt list): DB.Close closes the tables through this view, a table that was left out — e.g. one without records after a compaction dropped everything — keeps its mapping after Close")
	}
}

// R-buffer-sizes-bounded (C01): the buffer size options are uint64 values that the background goroutines convert to int and
// hand to make([]byte, n) at the first flush. A value no slice can have panics there (makeslice: len out of range) and
// stops the process on a valid workload — NewSimpleDB, Open and every Put had returned nil. The constructor rejects them.
func ruleBufferSizesBounded(r *Report) {
	const rule = "buffer-sizes-bounded"
	r.Rule(rule, 2, "NewSimpleDB compares each of the two buffer size options with a constant upper bound that fits an int and returns an error on the too-large side, before the database object is built")
	fn := r.NeedFunc(rule, "simpledb.NewSimpleDB")
	if fn == nil {
		return
	}
	for _, f := range []string{"writeBufferSizeBytes", "readBufferSizeBytes"} {
		key := rule + "/simpledb.NewSimpleDB/" + f
		ok := false
		var pos token.Pos
		for _, b := range liveBlocks(fn) {
			for _, v := range ifCmpForms(b) {
				if v.Op != token.GTR && v.Op != token.GEQ {
					continue
				}
				if _, lf, _, isF := loadOfField(v.X); !isF || lf != f {
					continue
				}
				k, isK := constInt(v.Y)
				if c, isC := v.Y.(*ssa.Const); isC && c.Value != nil && !isK {
					// a constant that does not fit int64 bounds nothing
					continue
				}
				if !isK || k <= 0 || k > 1<<40 {
					continue
				}
				if endsInFailingReturn(v.T) {
					ok, pos = true, b.Instrs[len(b.Instrs)-1].Pos()
				}
			}
		}
		if ok {
			r.OK(rule, key, pos, "rejected above a constant bound")
		} else {
			r.Bad(rule, key, fn.Pos(), "the option "+f+" reaches make([]byte, int(n)) unchecked: with 1<<62, 1<<63 or math.MaxUint64 NewSimpleDB, Open and Put return nil and the flusher goroutine panics at the first flush (makeslice: len out of range) — the process ends on a valid workload")
		}
	}
}

// argsRecv: the receiver of a method call (the interface value of an invoke, the first argument of a static method call).
func argsRecv(c *ssa.Call) ssa.Value {
	if c.Call.IsInvoke() {
		return c.Call.Value
	}
	if sc := c.Call.StaticCallee(); sc != nil && sc.Signature.Recv() != nil && len(c.Call.Args) > 0 {
		return c.Call.Args[0]
	}
	return nil
}
