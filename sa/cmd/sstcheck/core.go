package main

// E-LOAD: loader, naming of functions and callees, obligation bookkeeping.
// Everything here works on the type-checked program and its SSA form; nothing is
// matched on source text or line numbers (positions are carried for diagnostics only).

import (
	_ "embed"
	"encoding/json"
	"fmt"
	"go/ast"
	"go/constant"
	"go/parser"
	"go/token"
	"go/types"
	"os"
	"path/filepath"
	"sort"
	"strings"

	"golang.org/x/tools/go/callgraph"
	"golang.org/x/tools/go/callgraph/cha"
	"golang.org/x/tools/go/callgraph/vta"
	"golang.org/x/tools/go/packages"
	"golang.org/x/tools/go/ssa"
	"golang.org/x/tools/go/ssa/ssautil"
)

const modPath = "github.com/thomasjungblut/go-sstables"

type Prog struct {
	RepoDir  string
	Fset     *token.FileSet
	Pkgs     []*packages.Package
	All      map[string]*packages.Package // by import path, whole import graph
	SSA      *ssa.Program
	NumPkgs  int
	cg       *callgraph.Graph
	chaG     *callgraph.Graph
	useCHA   bool
	funcs    map[string]*ssa.Function // by short key (module functions incl. closures)
	allFns   map[*ssa.Function]bool
	modFns   []*ssa.Function // every module function with a body, instantiations included
	sentFlow *sentinelFlow
	// Forwarders lists the outlined pairs the loader collapsed (see collapseForwarders)
	Forwarders []string
	// Renamed lists the helpers that were recognised under a new name (see resolveRenamed)
	Renamed   []string
	callerIdx map[*ssa.Function]map[string]bool
	// Inlined: what the loader did about helpers that are new since the reference tree (see inlinefresh.go)
	Inlined []string
	// Threaded: number of result merges of inlined helpers that were given back their direct edges (normphi.go)
	Threaded int
	OrigDir  string
}

// Load type-checks /repo from source (no tests), builds SSA with generics instantiated.
// Fails closed: zero packages or any error is fatal for the caller.
func Load(repo string, env []string) (*Prog, error) {
	p, err := loadTree(repo, env)
	if err != nil || len(freshFuncs) == 0 || os.Getenv("SSTCHECK_NOINLINE") != "" {
		return p, err
	}
	// helpers that were extracted since the reference tree: analyse the program with their calls inlined (inlinefresh.go)
	keys := map[string]bool{}
	for fn := range freshFuncs {
		o, ok := fn.Object().(*types.Func)
		if !ok {
			continue
		}
		// helpers that cannot be called from outside the module: an unexported name, or a method of an unexported type
		internal := !o.Exported()
		if sig, isSig := o.Type().(*types.Signature); isSig && sig.Recv() != nil {
			rt := sig.Recv().Type()
			if pt, isP := rt.(*types.Pointer); isP {
				rt = pt.Elem()
			}
			if nt, isN := rt.(*types.Named); isN && !nt.Obj().Exported() {
				internal = true
			}
		}
		if internal {
			keys[ObjKey(o)] = true
		}
	}
	if len(keys) == 0 {
		return p, nil
	}
	dir, n, notes, ierr := inlineFresh(repo, env, keys)
	if dir != "" {
		scratchDirs = append(scratchDirs, dir) // removed by main when the rules are done (they read files of the tree)
	}
	if ierr != nil || n == 0 {
		p.Inlined = append(notes, "no call of a new helper could be inlined")
		return p, nil
	}
	// a second load, of the normalised copy: every table that is keyed by SSA functions starts afresh
	fwdAlias, fwdTarget = map[*ssa.Function]*ssa.Function{}, map[*ssa.Function]*ssa.Function{}
	renamedKey, renamedType = map[*ssa.Function]string{}, map[*types.TypeName]string{}
	freshFuncs = map[*ssa.Function]bool{}
	domCache = map[*ssa.Function]map[*ssa.BasicBlock]*ssa.BasicBlock{}
	loadingNormalised = true
	p2, err2 := loadTree(dir, env)
	loadingNormalised = false
	if err2 != nil {
		// the normalised copy does not build (it should): fall back to the tree as it is
		fwdAlias, fwdTarget = map[*ssa.Function]*ssa.Function{}, map[*ssa.Function]*ssa.Function{}
		renamedKey, renamedType = map[*ssa.Function]string{}, map[*types.TypeName]string{}
		freshFuncs = map[*ssa.Function]bool{}
		domCache = map[*ssa.Function]map[*ssa.BasicBlock]*ssa.BasicBlock{}
		p, err = loadTree(repo, env)
		if p != nil {
			p.Inlined = append(notes, "the copy with the inlined helpers did not load: "+err2.Error())
		}
		return p, err
	}
	p2.Inlined = notes
	p2.OrigDir = repo
	return p2, nil
}

// scratchDirs: directories the loader made under TMPDIR; cleanScratch removes them.
var scratchDirs []string

func cleanScratch() {
	if os.Getenv("SSTCHECK_KEEPNORM") != "" {
		for _, d := range scratchDirs {
			fmt.Fprintln(os.Stderr, "kept", d)
		}
		return
	}
	for _, d := range scratchDirs {
		os.RemoveAll(d)
	}
	scratchDirs = nil
}

func loadTree(repo string, env []string) (*Prog, error) {
	cfg := &packages.Config{
		Mode:  packages.LoadAllSyntax,
		Dir:   repo,
		Tests: false,
		Env:   append(os.Environ(), env...),
	}
	pkgs, err := packages.Load(cfg, "./...")
	if err != nil {
		return nil, fmt.Errorf("packages.Load: %w", err)
	}
	if len(pkgs) == 0 {
		return nil, fmt.Errorf("no packages loaded from %s", repo)
	}
	p := &Prog{RepoDir: repo, Pkgs: pkgs, All: map[string]*packages.Package{}}
	var errs []string
	packages.Visit(pkgs, nil, func(pk *packages.Package) {
		p.All[pk.PkgPath] = pk
		for _, e := range pk.Errors {
			errs = append(errs, e.Error())
		}
	})
	if len(errs) > 0 {
		sort.Strings(errs)
		if len(errs) > 10 {
			errs = errs[:10]
		}
		return nil, fmt.Errorf("type-check / load errors: %s", strings.Join(errs, "; "))
	}
	p.NumPkgs = len(p.All)
	p.Fset = pkgs[0].Fset
	p.resolveRenamedTypes()
	prog, _ := ssautil.AllPackages(pkgs, ssa.InstantiateGenerics)
	prog.Build()
	p.SSA = prog
	p.allFns = ssautil.AllFunctions(prog)
	p.collapseForwarders()
	p.funcs = map[string]*ssa.Function{}
	for fn := range p.allFns {
		if k := FuncKey(fn); k != "" && inModule(fn) {
			if fn.Blocks != nil {
				p.modFns = append(p.modFns, fn)
			}
			// instantiations share a key with their generic origin; the origin represents the key
			if old, ok := p.funcs[k]; ok {
				oldInst, newInst := len(old.TypeArgs()) > 0, len(fn.TypeArgs()) > 0
				oldSyn, newSyn := old.Synthetic != "", fn.Synthetic != ""
				if old.Blocks != nil && (fn.Blocks == nil || (!oldSyn && newSyn) || (oldSyn == newSyn && ((!oldInst && newInst) || (oldInst == newInst && old.String() <= fn.String())))) {
					continue
				}
			}
			p.funcs[k] = fn
		}
	}
	// generic methods that are never instantiated in non-test code are not in AllFunctions: add every declared
	// function of the module packages through its types.Func
	var addFn func(fn *ssa.Function)
	addFn = func(fn *ssa.Function) {
		if fn == nil || p.allFns[fn] {
			return
		}
		p.allFns[fn] = true
		if k := FuncKey(fn); k != "" && inModule(fn) {
			if fn.Blocks != nil {
				p.modFns = append(p.modFns, fn)
			}
			if _, ok := p.funcs[k]; !ok {
				p.funcs[k] = fn
			}
		}
		for _, a := range fn.AnonFuncs {
			addFn(a)
		}
	}
	for path, pk := range p.All {
		if path != modPath && !strings.HasPrefix(path, modPath+"/") || pk.TypesInfo == nil {
			continue
		}
		for _, o := range pk.TypesInfo.Defs {
			if f, ok := o.(*types.Func); ok {
				addFn(prog.FuncValue(f))
			}
		}
	}
	p.resolveRenamed()
	sort.Slice(p.modFns, func(i, j int) bool { return p.modFns[i].String() < p.modFns[j].String() })
	p.threadStoredConditions()
	p.normalizeComparisons()
	p.Threaded = p.threadInlinedResults()
	theProg = p
	return p, nil
}

// theProg: the program that was loaded last (for helpers that need call sites and have no Report at hand).
var theProg *Prog

func inModule(fn *ssa.Function) bool {
	pk := fnPkg(fn)
	return pk != nil && (pk.Path() == modPath || strings.HasPrefix(pk.Path(), modPath+"/"))
}

func fnPkg(fn *ssa.Function) *types.Package {
	for f := fn; f != nil; f = f.Parent() {
		if f.Pkg != nil {
			return f.Pkg.Pkg
		}
		if o := f.Object(); o != nil && o.Pkg() != nil {
			return o.Pkg()
		}
		if f.Origin() != nil {
			if o := f.Origin().Object(); o != nil && o.Pkg() != nil {
				return o.Pkg()
			}
		}
	}
	return nil
}

func shortPkg(path string) string {
	if path == modPath {
		return "."
	}
	return strings.TrimPrefix(path, modPath+"/")
}

// typeShort renders a named receiver type as "pkg.Name" (pointer and type arguments stripped).
func typeShort(t types.Type) string {
	for {
		if pt, ok := t.(*types.Pointer); ok {
			t = pt.Elem()
			continue
		}
		break
	}
	t = types.Unalias(t)
	if n, ok := t.(*types.Named); ok {
		o := n.Obj()
		if o.Pkg() == nil {
			return o.Name()
		}
		if rn, ok := renamedType[n.Origin().Obj()]; ok {
			return shortPkg(o.Pkg().Path()) + "." + rn
		}
		return shortPkg(o.Pkg().Path()) + "." + o.Name()
	}
	return t.String()
}

// ObjKey names a function object: "pkg.Func" or "pkg.Recv.Method".
func ObjKey(f *types.Func) string {
	if f == nil {
		return ""
	}
	f = f.Origin()
	sig, _ := f.Type().(*types.Signature)
	if sig != nil && sig.Recv() != nil {
		return typeShort(sig.Recv().Type()) + "." + f.Name()
	}
	if f.Pkg() == nil {
		return f.Name()
	}
	return shortPkg(f.Pkg().Path()) + "." + f.Name()
}

// A pure forwarder F (`func (r T) M(a A) R { return r.m(a) }`, arguments = parameters in order, results returned as they
// come) whose target G is referenced by nothing else is the "outline the body" refactoring: the pair behaves like G under
// the name of F. The loader collapses it: G carries F's key and name, every call of F is redirected to G, and F is hidden
// from the function tables. The rules are anchored on names; without this, wrapping an anchored function would turn every
// rule on it into a report about the wrapper.
var (
	fwdAlias  = map[*ssa.Function]*ssa.Function{} // target -> the forwarder whose name it carries
	fwdTarget = map[*ssa.Function]*ssa.Function{} // hidden forwarder -> target
)

func pureForwardTarget(f *ssa.Function) *ssa.Function {
	if len(f.Blocks) != 1 || f.Parent() != nil || f.Synthetic != "" || f.Recover != nil || len(f.TypeArgs()) > 0 || f.TypeParams().Len() > 0 || len(f.AnonFuncs) > 0 || !inModule(f) {
		return nil
	}
	ins := f.Blocks[0].Instrs
	if len(ins) < 2 {
		return nil
	}
	call, ok := ins[0].(*ssa.Call)
	if !ok || call.Call.IsInvoke() {
		return nil
	}
	g := call.Call.StaticCallee()
	if g == nil || g == f || g.Blocks == nil || g.Parent() != nil || g.Synthetic != "" || g.Pkg != f.Pkg || len(g.TypeArgs()) > 0 || g.TypeParams().Len() > 0 {
		return nil
	}
	if len(call.Call.Args) != len(f.Params) || !types.Identical(f.Signature, g.Signature) {
		return nil
	}
	if (f.Signature.Recv() == nil) != (g.Signature.Recv() == nil) || f.Signature.Recv() != nil && !types.Identical(f.Signature.Recv().Type(), g.Signature.Recv().Type()) {
		return nil
	}
	for i, a := range call.Call.Args {
		if a != ssa.Value(f.Params[i]) {
			return nil
		}
	}
	ret, ok := ins[len(ins)-1].(*ssa.Return)
	if !ok {
		return nil
	}
	n := f.Signature.Results().Len()
	if len(ret.Results) != n {
		return nil
	}
	switch {
	case n == 0:
		if len(ins) != 2 {
			return nil
		}
	case n == 1:
		if len(ins) != 2 || ret.Results[0] != ssa.Value(call) {
			return nil
		}
	default:
		if len(ins) != 2+n {
			return nil
		}
		for i, rv := range ret.Results {
			ex, ok := rv.(*ssa.Extract)
			if !ok || ex.Tuple != ssa.Value(call) || ex.Index != i {
				return nil
			}
		}
	}
	return g
}

func (p *Prog) collapseForwarders() {
	refs := map[*ssa.Function]int{}
	var fns []*ssa.Function
	// AllFunctions leaves out the methods of types that no reachable code uses; the module's declared functions are added
	// to the tables further down in Load, so the forwarders among them count here too
	every := map[*ssa.Function]bool{}
	var walk func(fn *ssa.Function)
	walk = func(fn *ssa.Function) {
		if fn == nil || every[fn] {
			return
		}
		every[fn] = true
		for _, a := range fn.AnonFuncs {
			walk(a)
		}
	}
	for fn := range p.allFns {
		walk(fn)
	}
	for path, pk := range p.All {
		if path != modPath && !strings.HasPrefix(path, modPath+"/") || pk.TypesInfo == nil {
			continue
		}
		for _, o := range pk.TypesInfo.Defs {
			if f, ok := o.(*types.Func); ok {
				walk(p.SSA.FuncValue(f))
			}
		}
	}
	for fn := range every {
		fns = append(fns, fn)
		if strings.HasPrefix(fn.Synthetic, "wrapper for") {
			continue // the pointer-receiver wrapper every value method has: not a use in the source
		}
		for _, b := range fn.Blocks {
			for _, in := range b.Instrs {
				for _, op := range in.Operands(nil) {
					if g, ok := (*op).(*ssa.Function); ok {
						refs[g]++
					}
				}
			}
		}
	}
	sort.Slice(fns, func(i, j int) bool { return fns[i].String() < fns[j].String() })
	for _, f := range fns {
		if g := pureForwardTarget(f); g != nil && refs[g] == 1 && fwdAlias[g] == nil {
			fwdAlias[g] = f
			fwdTarget[f] = g
			p.Forwarders = append(p.Forwarders, f.String()+" -> "+g.String())
		}
	}
	if len(fwdTarget) == 0 {
		return
	}
	for _, fn := range fns {
		for _, b := range fn.Blocks {
			for _, in := range b.Instrs {
				if fwdTarget[fn] != nil {
					continue
				}
				// calls and function values alike
				for _, op := range in.Operands(nil) {
					if f, ok := (*op).(*ssa.Function); ok && fwdTarget[f] != nil {
						*op = forwardEnd(f)
					}
				}
			}
		}
	}
}

// forwardEnd follows hidden forwarders to the function that holds the body.
func forwardEnd(fn *ssa.Function) *ssa.Function {
	for i := 0; i < 8 && fwdTarget[fn] != nil; i++ {
		fn = fwdTarget[fn]
	}
	return fn
}

// fnName is the name a function goes by: its own, or that of the forwarder it was outlined from.
func fnName(fn *ssa.Function) string {
	for i := 0; i < 8 && fwdAlias[fn] != nil; i++ {
		fn = fwdAlias[fn]
	}
	if k, ok := renamedKey[fn]; ok {
		return k[strings.LastIndex(k, ".")+1:]
	}
	if o := fn.Origin(); o != nil {
		if k, ok := renamedKey[o]; ok {
			return k[strings.LastIndex(k, ".")+1:]
		}
	}
	return fn.Name()
}

// FuncKey names an SSA function; closures are "<parent>$n".
func FuncKey(fn *ssa.Function) string {
	if fn == nil || fwdTarget[fn] != nil {
		return ""
	}
	for i := 0; i < 8 && fwdAlias[fn] != nil; i++ {
		fn = fwdAlias[fn]
	}
	if k, ok := renamedKey[fn]; ok {
		return k
	}
	if o := fn.Origin(); o != nil {
		if k, ok := renamedKey[o]; ok {
			return k
		}
	}
	if fn.Parent() != nil {
		pk := FuncKey(fn.Parent())
		name := fn.Name()
		if i := strings.LastIndex(name, "$"); i >= 0 {
			return pk + name[i:]
		}
		return pk + "$" + name
	}
	if o, ok := fn.Object().(*types.Func); ok && o != nil {
		return ObjKey(o)
	}
	if fn.Origin() != nil {
		return FuncKey(fn.Origin())
	}
	if fn.Synthetic == "package initializer" && fn.Pkg != nil {
		return shortPkg(fn.Pkg.Pkg.Path()) + ".init"
	}
	if fn.Synthetic != "" {
		return ""
	}
	return fn.String()
}

// Func resolves a module function by key; nil when absent.
func (p *Prog) Func(key string) *ssa.Function { return p.funcs[key] }

// FuncsOfPkg lists module functions (with bodies, incl. closures) of a package short path.
func (p *Prog) FuncsOfPkg(short string) []*ssa.Function {
	var out []*ssa.Function
	for k, fn := range p.funcs {
		if fn.Blocks == nil {
			continue
		}
		pk := fnPkg(fn)
		if pk != nil && shortPkg(pk.Path()) == short {
			_ = k
			out = append(out, fn)
		}
	}
	sort.Slice(out, func(i, j int) bool { return FuncKey(out[i]) < FuncKey(out[j]) })
	return out
}

// threadStoredConditions undoes "extract variable" on a short-circuit condition. `c := a && b; if c {T} else {F}` builds a
// block that holds nothing but phi(false, b) and the If; `if a && b {T} else {F}` jumps from the test of a straight to F.
// Both behave alike; the rules are written against the second form, which shows in the control flow which operand decided.
// For every block that consists of one boolean phi and an If on it (the phi used by nothing else), each predecessor that
// contributes a constant is redirected to the successor that constant selects; a phi left with one edge is replaced by
// its value. Dominators are computed after this (ssautil.go: idoms).
func (p *Prog) threadStoredConditions() {
	for _, fn := range p.modFns {
		for changed := true; changed; {
			changed = false
			for _, b := range fn.Blocks {
				if len(b.Instrs) != 2 || len(b.Succs) != 2 {
					continue
				}
				c, isPhi := b.Instrs[0].(*ssa.Phi)
				iff, isIf := b.Instrs[1].(*ssa.If)
				if !isPhi || !isIf || iff.Cond != ssa.Value(c) {
					continue
				}
				if refs := c.Referrers(); refs == nil || len(*refs) != 1 {
					continue
				}
				for i := 0; i < len(b.Preds); i++ {
					k, isK := c.Edges[i].(*ssa.Const)
					if !isK || k.Value == nil || k.Value.Kind() != constant.Bool {
						continue
					}
					target := b.Succs[1]
					if constant.BoolVal(k.Value) {
						target = b.Succs[0]
					}
					pred := b.Preds[i]
					if target == b || pred == b {
						continue
					}
					// the value every phi of the target receives from b
					j := -1
					for x, tp := range target.Preds {
						if tp == b {
							j = x
						}
					}
					if j < 0 {
						continue
					}
					ok := true
					for _, ins := range target.Instrs {
						ph, isP := ins.(*ssa.Phi)
						if !isP {
							break
						}
						if ph.Edges[j] == ssa.Value(c) {
							ok = false
						}
					}
					if !ok {
						continue
					}
					for _, ins := range target.Instrs {
						ph, isP := ins.(*ssa.Phi)
						if !isP {
							break
						}
						ph.Edges = append(ph.Edges, ph.Edges[j])
						if rr := ph.Edges[j].Referrers(); rr != nil {
							*rr = append(*rr, ph)
						}
					}
					target.Preds = append(target.Preds, pred)
					for x, sx := range pred.Succs {
						if sx == b {
							pred.Succs[x] = target
							break
						}
					}
					b.Preds = append(b.Preds[:i:i], b.Preds[i+1:]...)
					c.Edges = append(c.Edges[:i:i], c.Edges[i+1:]...)
					changed = true
					i--
				}
				if len(b.Preds) == 1 && len(c.Edges) == 1 {
					v := c.Edges[0]
					iff.Cond = v
					if rr := v.Referrers(); rr != nil {
						*rr = append(*rr, iff)
					}
					*c.Referrers() = nil
					changed = true
				}
			}
		}
	}
}

func negateCmp(op token.Token) token.Token {
	switch op {
	case token.EQL:
		return token.NEQ
	case token.NEQ:
		return token.EQL
	case token.LSS:
		return token.GEQ
	case token.GEQ:
		return token.LSS
	case token.GTR:
		return token.LEQ
	case token.LEQ:
		return token.GTR
	}
	return op
}

func isFloatOperand(v ssa.Value) bool {
	if bt, ok := v.Type().Underlying().(*types.Basic); ok {
		return bt.Info()&(types.IsFloat|types.IsComplex) != 0
	}
	return false
}

// normalizeComparisons rewrites, in place, every comparison of the module whose left operand is a constant and whose
// right operand is not into the mirrored form with the constant on the right (`0 == len(x)` becomes `len(x) == 0`,
// `nil != err` becomes `err != nil`). The two forms mean the same; the rules are written against the second.
func (p *Prog) normalizeComparisons() {
	for _, fn := range p.modFns {
		// `c := !x; if c {A} else {B}` is `if x {B} else {A}` (what the builder makes of `if !x` anyway)
		for _, b := range fn.Blocks {
			if len(b.Instrs) == 0 || len(b.Succs) != 2 {
				continue
			}
			iff, ok := b.Instrs[len(b.Instrs)-1].(*ssa.If)
			if !ok {
				continue
			}
			for i := 0; i < 4; i++ {
				un, isU := iff.Cond.(*ssa.UnOp)
				if !isU || un.Op != token.NOT {
					break
				}
				iff.Cond = un.X
				b.Succs[0], b.Succs[1] = b.Succs[1], b.Succs[0]
				if rr := un.X.Referrers(); rr != nil {
					*rr = append(*rr, iff)
				}
				if ur := un.Referrers(); ur != nil {
					kept := (*ur)[:0]
					for _, u := range *ur {
						if u != ssa.Instruction(iff) {
							kept = append(kept, u)
						}
					}
					*ur = kept
				}
			}
		}
		for _, b := range fn.Blocks {
			for _, ins := range b.Instrs {
				bo, ok := ins.(*ssa.BinOp)
				if !ok {
					continue
				}
				switch bo.Op {
				case token.EQL, token.NEQ, token.LSS, token.GTR, token.LEQ, token.GEQ:
				default:
					continue
				}
				_, xc := bo.X.(*ssa.Const)
				_, yc := bo.Y.(*ssa.Const)
				// !(a < b) is a >= b (not for floating point operands: NaN): when the comparison is only used negated,
				// it becomes the negated comparison and takes the place of the negation
				if refs := bo.Referrers(); refs != nil && len(*refs) == 1 {
					if un, isU := (*refs)[0].(*ssa.UnOp); isU && un.Op == token.NOT && !isFloatOperand(bo.X) {
						if ur := un.Referrers(); ur != nil {
							bo.Op = negateCmp(bo.Op)
							users := append([]ssa.Instruction(nil), (*ur)...)
							for _, u := range users {
								for _, opnd := range u.Operands(nil) {
									if *opnd == ssa.Value(un) {
										*opnd = bo
									}
								}
							}
							*refs = users
							*ur = nil
						}
					}
				}
				// len(x) < 1, len(x) <= 0 are len(x) == 0; len(x) >= 1 is len(x) > 0
				if c, isCall := bo.X.(*ssa.Call); isCall && yc {
					if bi, isB := c.Call.Value.(*ssa.Builtin); isB && (bi.Name() == "len" || bi.Name() == "cap") {
						if k, isK := constInt(bo.Y); isK {
							zero := ssa.NewConst(constant.MakeInt64(0), bo.Y.Type())
							switch {
							case bo.Op == token.LSS && k == 1, bo.Op == token.LEQ && k == 0:
								bo.Op, bo.Y = token.EQL, zero
							case bo.Op == token.GEQ && k == 1:
								bo.Op, bo.Y = token.GTR, zero
							}
						}
					}
				}
				if xc && !yc {
					bo.X, bo.Y = bo.Y, bo.X
					switch bo.Op {
					case token.LSS:
						bo.Op = token.GTR
					case token.GTR:
						bo.Op = token.LSS
					case token.LEQ:
						bo.Op = token.GEQ
					case token.GEQ:
						bo.Op = token.LEQ
					}
				}
			}
		}
	}
}

func (p *Prog) ModuleFuncs() []*ssa.Function {
	var out []*ssa.Function
	for _, fn := range p.funcs {
		if fn.Blocks != nil {
			out = append(out, fn)
		}
	}
	sort.Slice(out, func(i, j int) bool { return FuncKey(out[i]) < FuncKey(out[j]) })
	return out
}

// CalleeKey names what a call instruction calls: static callee, interface method, or "" (dynamic value).
func CalleeKey(c ssa.CallInstruction) string {
	cc := c.Common()
	if cc.IsInvoke() {
		return ObjKey(cc.Method)
	}
	if sc := cc.StaticCallee(); sc != nil {
		return FuncKey(sc)
	}
	if b, ok := cc.Value.(*ssa.Builtin); ok {
		return "builtin." + b.Name()
	}
	return ""
}

// CallGraph builds (once) the VTA call graph seeded by CHA, or plain CHA in cross-check mode.
func (p *Prog) CallGraph() *callgraph.Graph {
	if p.cg == nil {
		c := cha.CallGraph(p.SSA)
		p.chaG = c
		if p.useCHA {
			p.cg = c
		} else {
			p.cg = vta.CallGraph(p.allFns, c)
		}
	}
	return p.cg
}

// Callees resolves the module-internal targets of a call (static, closure value, or interface via call graph).
func (p *Prog) Callees(c ssa.CallInstruction) []*ssa.Function {
	cc := c.Common()
	if sc := cc.StaticCallee(); sc != nil {
		return []*ssa.Function{sc}
	}
	if mc, ok := cc.Value.(*ssa.MakeClosure); ok {
		return []*ssa.Function{mc.Fn.(*ssa.Function)}
	}
	var out []*ssa.Function
	seen := map[*ssa.Function]bool{}
	collect := func(g *callgraph.Graph) {
		n := g.Nodes[c.Parent()]
		if n == nil {
			return
		}
		for _, e := range n.Out {
			if e.Site == c && e.Callee != nil && !seen[e.Callee.Func] {
				seen[e.Callee.Func] = true
				out = append(out, e.Callee.Func)
			}
		}
	}
	collect(p.CallGraph())
	if len(out) == 0 {
		// library entry points receive interface values from callers outside the program: VTA sees no
		// concrete type flowing in, so fall back to the class-hierarchy targets
		collect(p.chaG)
	}
	if len(out) == 0 && cc.IsInvoke() {
		// generic interface whose implementation is not instantiated with these type arguments anywhere in the
		// program (library API): resolve to the generic origin methods of the same package with the same name
		if n, ok := types.Unalias(cc.Value.Type()).(*types.Named); ok && n.TypeArgs().Len() > 0 && n.Obj().Pkg() != nil {
			for _, fn := range p.modFns {
				if len(fn.TypeArgs()) > 0 || fn.Signature.Recv() == nil || fnName(fn) != cc.Method.Name() {
					continue
				}
				if pk := fnPkg(fn); pk == nil || pk.Path() != n.Obj().Pkg().Path() {
					continue
				}
				if !seen[fn] {
					seen[fn] = true
					out = append(out, fn)
				}
			}
		}
	}
	for i, fn := range out {
		out[i] = forwardEnd(fn) // an interface call lands in a hidden forwarder: its body is the target's
	}
	sort.Slice(out, func(i, j int) bool { return out[i].String() < out[j].String() })
	return out
}

func (p *Prog) Pos(pos token.Pos) string {
	if !pos.IsValid() {
		return "-"
	}
	ps := p.Fset.Position(pos)
	f := strings.TrimPrefix(ps.Filename, p.RepoDir+"/")
	if p.OrigDir != "" {
		// the analysed tree is the copy with the inlined helpers: name the place in the tree the user has — the
		// declaration of the enclosing function there — and say which line of the copy is meant
		if name, line := p.origFuncLine(ps.Filename, f, pos); name != "" {
			return fmt.Sprintf("%s:%d (in %s; line %d of the copy with the inlined helpers)", f, line, name, ps.Line)
		}
		return fmt.Sprintf("%s:%d (line of the copy with the inlined helpers)", f, ps.Line)
	}
	return fmt.Sprintf("%s:%d", f, ps.Line)
}

// origFuncLine: the declared function of the analysed copy that contains pos, and the line of the declaration of the
// function with that name and receiver in the same file of the original tree.
func (p *Prog) origFuncLine(filename, rel string, pos token.Pos) (string, int) {
	declName := func(fd *ast.FuncDecl) string {
		n := fd.Name.Name
		if fd.Recv != nil && len(fd.Recv.List) == 1 {
			t := fd.Recv.List[0].Type
			if st, ok := t.(*ast.StarExpr); ok {
				t = st.X
			}
			if ix, ok := t.(*ast.IndexExpr); ok {
				t = ix.X
			}
			if id, ok := t.(*ast.Ident); ok {
				n = id.Name + "." + n
			}
		}
		return n
	}
	name := ""
	for _, pk := range p.All {
		for _, file := range pk.Syntax {
			tf := p.Fset.File(file.Pos())
			if tf == nil || tf.Name() != filename {
				continue
			}
			for _, d := range file.Decls {
				if fd, ok := d.(*ast.FuncDecl); ok && fd.Pos() <= pos && pos <= fd.End() {
					name = declName(fd)
				}
			}
		}
	}
	if name == "" {
		return "", 0
	}
	if origDecls == nil {
		origDecls = map[string]map[string]int{}
	}
	m, ok := origDecls[rel]
	if !ok {
		m = map[string]int{}
		fs := token.NewFileSet()
		if af, err := parser.ParseFile(fs, filepath.Join(p.OrigDir, rel), nil, parser.SkipObjectResolution); err == nil {
			for _, d := range af.Decls {
				if fd, ok := d.(*ast.FuncDecl); ok {
					m[declName(fd)] = fs.Position(fd.Pos()).Line
				}
			}
		}
		origDecls[rel] = m
	}
	if line, ok := m[name]; ok {
		return name, line
	}
	return "", 0
}

var origDecls map[string]map[string]int

// ---- obligations ----

type Verdict string

const (
	Discharged Verdict = "discharged"
	Violated   Verdict = "violated"
	Undecided  Verdict = "undecided"
	Unresolved Verdict = "unresolved"
)

type Obligation struct {
	Rule    string  `json:"rule"`
	Key     string  `json:"key"`
	Pos     string  `json:"pos"`
	Verdict Verdict `json:"verdict"`
	Detail  string  `json:"detail,omitempty"`
	Known   string  `json:"known_finding,omitempty"`
}

type Report struct {
	Prop      string
	P         *Prog
	Obls      []Obligation
	Notes     []string
	Funcs     map[string]bool
	CallSites int
	RuleText  map[string]string
	RuleMin   map[string]int
}

func NewReport(prop string, p *Prog) *Report {
	return &Report{Prop: prop, P: p, Funcs: map[string]bool{}, RuleText: map[string]string{}, RuleMin: map[string]int{}}
}

// Rule registers a rule's one-sentence text and the minimum number of instances it must find.
func (r *Report) Rule(name string, min int, text string) {
	r.RuleText[name] = text
	r.RuleMin[name] = min
}

func (r *Report) add(rule, key string, pos token.Pos, v Verdict, detail string) {
	ps := "-"
	if r.P != nil {
		ps = r.P.Pos(pos)
	}
	r.Obls = append(r.Obls, Obligation{Rule: rule, Key: key, Pos: ps, Verdict: v, Detail: detail})
}

func (r *Report) OK(rule, key string, pos token.Pos, detail string) {
	r.add(rule, key, pos, Discharged, detail)
}
func (r *Report) Bad(rule, key string, pos token.Pos, detail string) {
	r.add(rule, key, pos, Violated, detail)
}
func (r *Report) Unk(rule, key string, pos token.Pos, detail string) {
	r.add(rule, key, pos, Undecided, detail)
}
func (r *Report) Missing(rule, key string, detail string) {
	r.add(rule, key, token.NoPos, Unresolved, detail)
}
func (r *Report) Note(format string, a ...any) { r.Notes = append(r.Notes, fmt.Sprintf(format, a...)) }
func (r *Report) Saw(fn *ssa.Function) {
	if fn != nil {
		r.Funcs[FuncKey(fn)] = true
	}
}

// NeedFunc resolves a function or records an unresolved anchor.
func (r *Report) NeedFunc(rule, key string) *ssa.Function {
	fn := r.P.Func(key)
	if fn == nil || fn.Blocks == nil {
		r.Missing(rule, rule+"/"+key, "anchor function "+key+" not found in the type-checked program")
		return nil
	}
	r.Saw(fn)
	return fn
}

// CallSitesOf: the static call sites of fn in module functions (direct calls and go/defer of the function).
func (p *Prog) CallSitesOf(fn *ssa.Function) []Site {
	var out []Site
	for _, g := range p.ModuleFuncs() {
		eachInstr(g, func(s Site) {
			c, ok := s.Instr.(ssa.CallInstruction)
			if !ok {
				return
			}
			if sc := c.Common().StaticCallee(); sc == fn {
				out = append(out, s)
			}
		})
	}
	return out
}

// ---------- helpers that were renamed ----------
//
// The rules name the functions they speak about. For the exported API that is what the properties do too; for unexported
// helpers the name is an accident of today's tree, and renaming one changes no behaviour. funcs_ref.json lists the declared
// functions of the reference tree (key, package, receiver, signature, position among the declarations of its package).
// A reference key that no function carries any more is given to the one function of the same package and receiver with
// the same signature whose own key is not a reference key (several candidates: matched in declaration order, when the
// counts agree). FuncKey and fnName then answer with the reference name. Listed in a note of the evidence.

//go:embed funcs_ref.json
var funcsRefJSON []byte

type declFunc struct {
	Key     string   `json:"key"`
	Pkg     string   `json:"pkg"`
	Recv    string   `json:"recv"`
	Sig     string   `json:"sig"`
	Shape   string   `json:"shape"`   // the signature with the receiver as first parameter: f(t, a) and t.f(a) are one shape
	Callers []string `json:"callers"` // keys of the declared functions that call it statically
	Callees []string `json:"callees"` // keys of what it calls statically (module and library functions)
	Order   int      `json:"order"`
}

var renamedKey = map[*ssa.Function]string{}

func sigString(fn *ssa.Function) string {
	// types only: parameter and result names are not part of what identifies a helper
	q := func(p *types.Package) string { return shortPkg(p.Path()) }
	tuple := func(t *types.Tuple) string {
		var parts []string
		for i := 0; i < t.Len(); i++ {
			parts = append(parts, types.TypeString(t.At(i).Type(), q))
		}
		return "(" + strings.Join(parts, ", ") + ")"
	}
	s := "func" + tuple(fn.Signature.Params()) + " " + tuple(fn.Signature.Results())
	if fn.Signature.Variadic() {
		s += " variadic"
	}
	// types that were recognised under a new name appear under their reference name
	for tn, ref := range renamedType {
		if tn.Pkg() != nil {
			q := shortPkg(tn.Pkg().Path()) + "."
			s = replaceIdent(s, q+tn.Name(), q+ref)
		}
	}
	return s
}

// replaceIdent replaces old by new in s where old is not followed by an identifier character.
func replaceIdent(s, old, new string) string {
	var b strings.Builder
	for {
		i := strings.Index(s, old)
		if i < 0 {
			b.WriteString(s)
			return b.String()
		}
		j := i + len(old)
		b.WriteString(s[:i])
		if j < len(s) && (s[j] == '_' || s[j] >= '0' && s[j] <= '9' || s[j] >= 'a' && s[j] <= 'z' || s[j] >= 'A' && s[j] <= 'Z') {
			b.WriteString(old)
		} else {
			b.WriteString(new)
		}
		s = s[j:]
	}
}

func recvString(fn *ssa.Function) string {
	if r := fn.Signature.Recv(); r != nil {
		return typeShort(r.Type())
	}
	return ""
}

// declaredFuncs: the declared (not synthetic, not nested) module functions with a body.
func (p *Prog) declaredFuncs() []declFunc {
	var fns []*ssa.Function
	for _, fn := range p.modFns {
		if fn.Parent() != nil || fn.Synthetic != "" || len(fn.TypeArgs()) > 0 || fwdTarget[fn] != nil {
			continue
		}
		if _, ok := fn.Object().(*types.Func); !ok {
			continue
		}
		fns = append(fns, fn)
	}
	sort.Slice(fns, func(i, j int) bool {
		pi, pj := p.Fset.Position(fns[i].Pos()), p.Fset.Position(fns[j].Pos())
		if pi.Filename != pj.Filename {
			return pi.Filename < pj.Filename
		}
		return pi.Offset < pj.Offset
	})
	var out []declFunc
	seen := map[string]bool{}
	for i, fn := range fns {
		k := FuncKey(fn)
		if k == "" || seen[k] {
			continue
		}
		seen[k] = true
		pk := ""
		if pp := fnPkg(fn); pp != nil {
			pk = shortPkg(pp.Path())
		}
		shape := sigString(fn)
		if r := recvString(fn); r != "" {
			ptr := ""
			if _, isP := fn.Signature.Recv().Type().(*types.Pointer); isP {
				ptr = "*"
			}
			if strings.HasPrefix(shape, "func()") {
				shape = "func(" + ptr + r + ")" + shape[len("func()"):]
			} else {
				shape = "func(" + ptr + r + ", " + shape[len("func("):]
			}
		}
		out = append(out, declFunc{Key: k, Pkg: pk, Recv: recvString(fn), Sig: sigString(fn), Shape: shape, Callers: p.staticCallers(fn), Callees: staticCallees(fn), Order: i})
	}
	return out
}

// staticCallees: keys of the functions and interface methods fn (with its closures) calls.
func staticCallees(fn *ssa.Function) []string {
	set := map[string]bool{}
	for _, g := range closuresOf(fn) {
		eachInstr(g, func(s Site) {
			if c, ok := s.Instr.(ssa.CallInstruction); ok {
				if k := CalleeKey(c); k != "" && !strings.HasPrefix(k, "builtin.") {
					set[k] = true
				}
			}
		})
	}
	var out []string
	for k := range set {
		out = append(out, k)
	}
	sort.Strings(out)
	return out
}

// staticCallers: keys of the declared module functions (closures count for their outermost function) that call fn.
func (p *Prog) staticCallers(fn *ssa.Function) []string {
	if p.callerIdx == nil {
		p.callerIdx = map[*ssa.Function]map[string]bool{}
		for _, g := range p.modFns {
			o := g
			for o.Parent() != nil {
				o = o.Parent()
			}
			ok := FuncKey(o)
			if ok == "" {
				continue
			}
			for _, b := range g.Blocks {
				for _, in := range b.Instrs {
					for _, op := range in.Operands(nil) {
						f, isF := (*op).(*ssa.Function)
						if !isF || f == g {
							continue
						}
						if f.Origin() != nil {
							f = f.Origin()
						}
						if p.callerIdx[f] == nil {
							p.callerIdx[f] = map[string]bool{}
						}
						p.callerIdx[f][ok] = true
					}
				}
			}
		}
	}
	var out []string
	for k := range p.callerIdx[fn] {
		if k != FuncKey(fn) {
			out = append(out, k)
		}
	}
	sort.Strings(out)
	return out
}

func (p *Prog) resolveRenamed() {
	var ref []declFunc
	if err := json.Unmarshal(funcsRefJSON, &ref); err != nil || len(ref) == 0 {
		return
	}
	refKeys := map[string]bool{}
	for _, d := range ref {
		refKeys[d.Key] = true
	}
	cur := p.declaredFuncs()
	curByKey := map[string]*ssa.Function{}
	for _, fn := range p.modFns {
		if fn.Parent() == nil && fn.Synthetic == "" && len(fn.TypeArgs()) == 0 {
			if k := FuncKey(fn); k != "" {
				if _, ok := curByKey[k]; !ok {
					curByKey[k] = fn
				}
			}
		}
	}
	type group struct{ pkg, shape string }
	missing := map[group][]declFunc{}
	var missingAll []declFunc
	for _, d := range ref {
		if _, ok := p.funcs[d.Key]; !ok {
			// only unexported names: an exported function that is gone is a changed API, not a renamed helper
			name := d.Key[strings.LastIndex(d.Key, ".")+1:]
			if name == "" || !(name[0] >= 'a' && name[0] <= 'z') {
				continue
			}
			g := group{d.Pkg, d.Shape}
			missing[g] = append(missing[g], d)
			missingAll = append(missingAll, d)
		}
	}
	fresh := map[group][]declFunc{}
	var freshAll []declFunc
	for _, d := range cur {
		if !refKeys[d.Key] {
			g := group{d.Pkg, d.Shape}
			fresh[g] = append(fresh[g], d)
			freshAll = append(freshAll, d)
		}
	}
	defer func() {
		// what is left of the new functions: helpers that were extracted since the reference tree
		for _, d := range freshAll {
			if fn := curByKey[d.Key]; fn != nil {
				if _, renamed := renamedKey[fn]; !renamed {
					freshFuncs[fn] = true
				}
			}
		}
	}()
	if len(missing) == 0 {
		return
	}
	taken := map[string]bool{}
	give := func(from declFunc, to declFunc, how string) {
		fn := curByKey[from.Key]
		if fn == nil || taken[from.Key] {
			return
		}
		taken[from.Key] = true
		delete(p.funcs, from.Key)
		// closures of fn are keyed below their parent: re-key them
		var kids []*ssa.Function
		for k, f := range p.funcs {
			if strings.HasPrefix(k, from.Key+"$") && isAncestor(fn, f) {
				delete(p.funcs, k)
				kids = append(kids, f)
			}
		}
		renamedKey[fn] = to.Key
		p.funcs[to.Key] = fn
		for _, f := range kids {
			p.funcs[FuncKey(f)] = f
		}
		p.Renamed = append(p.Renamed, from.Key+" is "+to.Key+how)
	}
	resolved := map[string]bool{}
	// a function turned into a method or back keeps its name: same package, same shape (the receiver counts as the first
	// parameter), same bare name
	bare := func(k string) string { return k[strings.LastIndex(k, ".")+1:] }
	for g, ms := range missing {
		var restM []declFunc
		for _, m := range ms {
			var hit *declFunc
			n := 0
			for i := range fresh[g] {
				if f := fresh[g][i]; !taken[f.Key] && bare(f.Key) == bare(m.Key) {
					hit = &fresh[g][i]
					n++
				}
			}
			if n == 1 {
				give(*hit, m, " (same name and signature, the receiver taken as the first parameter)")
				resolved[m.Key] = true
			} else {
				restM = append(restM, m)
			}
		}
		if len(restM) != len(ms) {
			missing[g] = restM
			var restF []declFunc
			for _, f := range fresh[g] {
				if !taken[f.Key] {
					restF = append(restF, f)
				}
			}
			fresh[g] = restF
		}
	}
	for g, ms := range missing {
		fs := fresh[g]
		if len(fs) != len(ms) || len(ms) == 0 {
			continue
		}
		sort.Slice(ms, func(i, j int) bool { return ms[i].Order < ms[j].Order })
		sort.Slice(fs, func(i, j int) bool { return fs[i].Order < fs[j].Order })
		for i := range ms {
			give(fs[i], ms[i], "")
			resolved[ms[i].Key] = true
		}
	}
	// second chance, for a helper whose signature changed as well: the one new function of the package that is called
	// by a function that used to call the missing one, when that is the only missing function those callers had
	for _, m := range missingAll {
		if resolved[m.Key] || len(m.Callers) == 0 {
			continue
		}
		callers := map[string]bool{}
		for _, c := range m.Callers {
			callers[c] = true
		}
		var cands []declFunc
		for _, f := range freshAll {
			if f.Pkg != m.Pkg || taken[f.Key] {
				continue
			}
			for _, c := range f.Callers {
				if callers[c] {
					cands = append(cands, f)
					break
				}
			}
		}
		rivals := 0
		for _, o := range missingAll {
			if o.Key == m.Key || resolved[o.Key] || o.Pkg != m.Pkg {
				continue
			}
			for _, c := range o.Callers {
				if callers[c] {
					rivals++
					break
				}
			}
		}
		if len(cands) == 1 && rivals == 0 {
			give(cands[0], m, " (by its callers)")
			resolved[m.Key] = true
			continue
		}
		// several new functions below those callers (helpers were extracted in the same commit): the one that calls
		// what the missing function called
		if len(cands) > 1 && rivals == 0 && len(m.Callees) > 0 {
			want := map[string]bool{}
			for _, c := range m.Callees {
				want[c] = true
			}
			best, bestScore, second := -1, 0.0, 0.0
			for i, f := range cands {
				inter := 0
				for _, c := range f.Callees {
					if want[c] {
						inter++
					}
				}
				union := len(want) + len(f.Callees) - inter
				score := 0.0
				if union > 0 {
					score = float64(inter) / float64(union)
				}
				if score > bestScore {
					best, second, bestScore = i, bestScore, score
				} else if score > second {
					second = score
				}
			}
			if best >= 0 && bestScore >= 0.6 && second < 0.3 {
				give(cands[best], m, " (by its callers and what it calls)")
				resolved[m.Key] = true
			}
		}
	}
	sort.Strings(p.Renamed)
}

// ---------- unexported types that were renamed ----------
//
// Same idea as for helpers: types_ref.json lists the unexported named types of the reference tree with a fingerprint (the
// shape of the underlying type with module types blanked, the exported methods). A reference name that no type of the
// package carries any more is given to the one new type of that package with the same fingerprint; typeShort — and with
// it every function key of a method — answers with the reference name.

//go:embed types_ref.json
var typesRefJSON []byte

type declType struct {
	Pkg   string `json:"pkg"`
	Name  string `json:"name"`
	Shape string `json:"shape"`
	Order int    `json:"order"`
}

var renamedType = map[*types.TypeName]string{}

func typeShape(tn *types.TypeName) string {
	blank := func(t types.Type) string {
		return types.TypeString(t, func(p *types.Package) string {
			if p.Path() == modPath || strings.HasPrefix(p.Path(), modPath+"/") {
				return "~"
			}
			return p.Path()
		})
	}
	// module type names are blanked entirely (they may be renamed as well)
	strip := func(s string) string {
		var b strings.Builder
		for i := 0; i < len(s); i++ {
			if s[i] == '~' && i+1 < len(s) && s[i+1] == '.' {
				b.WriteString("M")
				i += 2
				for i < len(s) && (s[i] == '_' || s[i] >= '0' && s[i] <= '9' || s[i] >= 'a' && s[i] <= 'z' || s[i] >= 'A' && s[i] <= 'Z') {
					i++
				}
				i--
				continue
			}
			b.WriteByte(s[i])
		}
		return b.String()
	}
	var parts []string
	switch u := tn.Type().Underlying().(type) {
	case *types.Struct:
		for i := 0; i < u.NumFields(); i++ {
			parts = append(parts, strip(blank(u.Field(i).Type())))
		}
		parts = []string{"struct{" + strings.Join(parts, ";") + "}"}
	default:
		parts = []string{strip(blank(u))}
	}
	ms := types.NewMethodSet(types.NewPointer(tn.Type()))
	var names []string
	for i := 0; i < ms.Len(); i++ {
		if ms.At(i).Obj().Exported() {
			names = append(names, ms.At(i).Obj().Name())
		}
	}
	sort.Strings(names)
	return parts[0] + " methods:" + strings.Join(names, ",")
}

// declaredTypes: the unexported named types declared at package level in the module.
func (p *Prog) declaredTypes() []declType {
	var out []declType
	var paths []string
	for path := range p.All {
		if path == modPath || strings.HasPrefix(path, modPath+"/") {
			paths = append(paths, path)
		}
	}
	sort.Strings(paths)
	for _, path := range paths {
		pk := p.All[path]
		if pk.Types == nil {
			continue
		}
		var tns []*types.TypeName
		sc := pk.Types.Scope()
		for _, name := range sc.Names() {
			if tn, ok := sc.Lookup(name).(*types.TypeName); ok && !tn.Exported() && !tn.IsAlias() {
				tns = append(tns, tn)
			}
		}
		sort.Slice(tns, func(i, j int) bool { return tns[i].Pos() < tns[j].Pos() })
		for i, tn := range tns {
			out = append(out, declType{Pkg: shortPkg(path), Name: tn.Name(), Shape: typeShape(tn), Order: i})
		}
	}
	return out
}

func (p *Prog) resolveRenamedTypes() {
	var ref []declType
	if err := json.Unmarshal(typesRefJSON, &ref); err != nil || len(ref) == 0 {
		return
	}
	cur := p.declaredTypes()
	have := map[string]bool{}
	for _, d := range cur {
		have[d.Pkg+"."+d.Name] = true
	}
	inRef := map[string]bool{}
	for _, d := range ref {
		inRef[d.Pkg+"."+d.Name] = true
	}
	type group struct{ pkg, shape string }
	missing, fresh := map[group][]declType{}, map[group][]declType{}
	for _, d := range ref {
		if !have[d.Pkg+"."+d.Name] {
			missing[group{d.Pkg, d.Shape}] = append(missing[group{d.Pkg, d.Shape}], d)
		}
	}
	for _, d := range cur {
		if !inRef[d.Pkg+"."+d.Name] {
			fresh[group{d.Pkg, d.Shape}] = append(fresh[group{d.Pkg, d.Shape}], d)
		}
	}
	for g, ms := range missing {
		fs := fresh[g]
		if len(fs) != len(ms) {
			continue
		}
		sort.Slice(ms, func(i, j int) bool { return ms[i].Order < ms[j].Order })
		sort.Slice(fs, func(i, j int) bool { return fs[i].Order < fs[j].Order })
		for i := range ms {
			for path, pk := range p.All {
				if shortPkg(path) != g.pkg || pk.Types == nil || !(path == modPath || strings.HasPrefix(path, modPath+"/")) {
					continue
				}
				if tn, ok := pk.Types.Scope().Lookup(fs[i].Name).(*types.TypeName); ok {
					renamedType[tn] = ms[i].Name
					p.Renamed = append(p.Renamed, "type "+g.pkg+"."+fs[i].Name+" is "+ms[i].Name)
				}
			}
		}
	}
}
