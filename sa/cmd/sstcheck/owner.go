package main

// E-OWNER / E-JOIN: resources (closable handles, goroutines, tickers) are released by their owner.

import (
	"fmt"
	"go/token"
	"go/types"
	"strings"

	"golang.org/x/tools/go/ssa"
)

// hasClose: type t (or *t) has a method Close() error.
func hasClose(t types.Type) bool {
	if t == nil {
		return false
	}
	for _, tt := range []types.Type{t, types.NewPointer(t)} {
		if _, isP := t.(*types.Pointer); isP && tt != t {
			continue
		}
		ms := types.NewMethodSet(tt)
		for i := 0; i < ms.Len(); i++ {
			f, ok := ms.At(i).Obj().(*types.Func)
			if !ok || f.Name() != "Close" {
				continue
			}
			sig := f.Type().(*types.Signature)
			if sig.Params().Len() == 0 && sig.Results().Len() == 1 && isErrorType(sig.Results().At(0).Type()) {
				return true
			}
		}
	}
	return false
}

func closableFieldType(t types.Type) (elem bool, ok bool) {
	if sl, isS := t.Underlying().(*types.Slice); isS {
		return true, hasClose(sl.Elem())
	}
	if _, isB := t.Underlying().(*types.Basic); isB {
		return false, false
	}
	return false, hasClose(t)
}

// named exceptions for OWNER-fields: owner type . field → reason
var ownerFieldExempt = map[string]string{
	"recordio.FileWriter.bufWriter":          "the buffered writer is flushed and the underlying *os.File is closed directly; closing both would close the descriptor twice",
	"recordio.FileReader.reader":             "wraps FileReader.file, which is closed directly",
	"simpledb.DB.sstableManager":             "the manager has no Close; its merged reader is closed by DB.Close through currentSSTable().Close()",
	"sstables.SSTableStreamWriter.opts":      "options, not a resource",
	"sstables.SSTableIterator.reader":        "the iterator borrows the reader, it does not own it",
	"wal/proto.WriteAheadLog.WriteAheadLogI": "embedded interface: Close delegates through the embedded value",
}

// R-owner-fields
func ruleOwnerFields(r *Report) {
	const rule = "owner-fields"
	r.Rule(rule, 10, "for every struct type of the module that has a Close method, every field of a closable type (or slice of closables) is closed in that Close on its non-panicking paths; exceptions are single named fields with a reason")
	p := r.P
	for _, fn := range p.ModuleFuncs() {
		if fnName(fn) != "Close" || fn.Signature.Recv() == nil || fn.Parent() != nil || fn.Synthetic != "" {
			continue
		}
		rt := fn.Signature.Recv().Type()
		st := derefStruct(rt)
		if st == nil {
			continue
		}
		owner := typeShort(rt)
		r.Saw(fn)
		scope := closuresOf(fn)
		for i := 0; i < st.NumFields(); i++ {
			f := st.Field(i)
			fname := refField(rt, i)
			isSlice, ok := closableFieldType(f.Type())
			if !ok {
				continue
			}
			key := fmt.Sprintf("%s/%s.%s", rule, owner, fname)
			if why, ex := ownerFieldExempt[owner+"."+fname]; ex {
				r.OK(rule, key, fn.Pos(), "exempt (named): "+why)
				continue
			}
			closed := false
			var closeSites []Site
			for _, g := range scope {
				eachInstr(g, func(s Site) {
					c, ok := s.Instr.(ssa.CallInstruction)
					if !ok {
						return
					}
					cc := c.Common()
					var recv ssa.Value
					name := ""
					if cc.IsInvoke() {
						recv, name = cc.Value, cc.Method.Name()
					} else if sc := cc.StaticCallee(); sc != nil && sc.Signature.Recv() != nil && len(cc.Args) > 0 {
						recv, name = cc.Args[0], fnName(sc)
					}
					if name != "Close" || recv == nil {
						return
					}
					if _, fld, _, ok := loadOfField(recv); ok && fld == fname {
						closed = true
						closeSites = append(closeSites, s)
					}
					if isSlice {
						// element of the field slice (range loop)
						if u, ok := recv.(*ssa.UnOp); ok && u.Op == token.MUL {
							if ia, ok := u.X.(*ssa.IndexAddr); ok {
								if _, fld, _, ok := loadOfField(ia.X); ok && fld == fname {
									closed = true
								}
							}
						}
					}
				})
			}
			if closed && !isSlice && closedOnAllPaths(r.P, fn, closeSites, fname) && !closedOnPaths(r.P, fn, closeSites, fname, true) {
				r.Bad(rule, key, fn.Pos(), fmt.Sprintf("%s.Close returns an error of one of its own steps (a failed flush, truncate or close of another handle) without closing its field %s: the descriptor stays open although Close was called — and a second Close is refused (exit at %s)", owner, fname, lastOpenExit))
			} else if closed && !isSlice && !closedOnAllPaths(r.P, fn, closeSites, fname) {
				r.Bad(rule, key, fn.Pos(), fmt.Sprintf("%s.Close can return without closing its field %s on some path (an early return that is not a nil test of one of the owner's own handles)", owner, fname))
			} else if closed {
				r.OK(rule, key, fn.Pos(), "closed by the owner's Close")
			} else {
				r.Bad(rule, key, fn.Pos(), fmt.Sprintf("%s.Close never closes its field %s (%s): the handle it owns stays open", owner, fname, f.Type()))
			}
		}
	}
}

// ownership-taking callees: passing a closable to them transfers the duty to close
var ownershipTaking = Keys(
	"simpledb.SSTableManager.addReader", "sstables.NewSuperSSTableReader", "recordio.File", "recordio.ReaderFile", "recordio/proto.File",
	"recordio.NewFileReaderWithFile", "recordio.newCompressedFileWriterWithFile", "recordio.NewCountingByteReader", "recordio.NewReaderBuf", "recordio.NewWriterBuf", "recordio.NewAlignedWriterBuf",
	"sstables.NewMergeIteratorContext",
)

// R-owner-locals: a closable obtained from a call is closed, returned, stored into an owner, or handed to an ownership-taking callee.
func ruleOwnerLocals(r *Report, pkgs []string) {
	const rule = "owner-locals"
	r.Rule(rule, 15, "every closable value a function obtains from a call is, on the success path, closed (directly, deferred, or in a deferred loop over a slice it was appended to), returned, stored into an owning struct/slice, or passed to an ownership-taking callee")
	p := r.P
	for _, pk := range pkgs {
		for _, fn := range p.FuncsOfPkg(pk) {
			if fn.Synthetic != "" {
				continue
			}
			eachInstr(fn, func(s Site) {
				c, ok := s.Instr.(*ssa.Call)
				if !ok {
					return
				}
				// results that are closable
				var vals []ssa.Value
				if tup, ok := c.Type().(*types.Tuple); ok {
					for _, rf := range *c.Referrers() {
						if ex, ok := rf.(*ssa.Extract); ok && hasClose(tup.At(ex.Index).Type()) && !isErrorType(ex.Type()) {
							vals = append(vals, ex)
						}
					}
				} else if hasClose(c.Type()) && !isErrorType(c.Type()) {
					vals = append(vals, c)
				}
				if len(vals) == 0 {
					return
				}
				ck := CalleeKey(c)
				if ck == "" {
					// dynamic call through a factory field (walOptions.readerFactory / writerFactory)
					if _, f, _, ok := loadOfField(c.Call.Value); ok && strings.Contains(strings.ToLower(f), "factory") {
						ck = "factory:" + f
					} else {
						return
					}
				} else if strings.HasSuffix(ck, ".currentSSTable") || strings.HasPrefix(ck, "builtin.") {
					return // accessor of an owned value, not a creation
				} else if !creates(p, c) {
					return
				}
				r.Saw(fn)
				for _, v := range vals {
					key := ef0uniq(fmt.Sprintf("%s/%s/%s", rule, FuncKey(fn), ck))
					how := releasedHow(p, fn, v)
					if how != "" {
						r.OK(rule, key, c.Pos(), how)
					} else {
						r.Bad(rule, key, c.Pos(), fmt.Sprintf("the %s obtained from %s is never closed, returned, stored into an owner or handed over: the descriptor / mapping leaks", typeShort(v.Type()), ck))
					}
				}
			})
		}
	}
}

// creates: the call constructs or opens a resource (module constructors New*/Open*/Create*, os.Open*, os.Create, mmap.Open, factory fields).
func creates(p *Prog, c *ssa.Call) bool {
	ck := CalleeKey(c)
	base := ck[strings.LastIndex(ck, ".")+1:]
	for _, pre := range []string{"New", "Open", "Create", "newS", "newV", "newC"} {
		if strings.HasPrefix(base, pre) {
			return true
		}
	}
	switch base {
	case "Scan", "ScanStartingAt", "ScanRange", "Load", "MkdirTemp":
		return base != "MkdirTemp" && base != "ScanStartingAt" && base != "ScanRange"
	}
	return false
}

// releasedHow follows v through the function (phis, cells, appends, interface conversions) looking for a release.
func releasedHow(p *Prog, fn *ssa.Function, v ssa.Value) string {
	seen := map[ssa.Value]bool{}
	work := []ssa.Value{v}
	res := ""
	for len(work) > 0 && res == "" {
		x := work[len(work)-1]
		work = work[:len(work)-1]
		if seen[x] {
			continue
		}
		seen[x] = true
		refs := x.Referrers()
		if refs == nil {
			continue
		}
		for _, rf := range *refs {
			switch y := rf.(type) {
			case *ssa.Return:
				res = "returned to the caller"
			case *ssa.Phi, *ssa.ChangeInterface, *ssa.MakeInterface, *ssa.ChangeType, *ssa.TypeAssert:
				work = append(work, y.(ssa.Value))
			case *ssa.Extract:
				work = append(work, y)
			case *ssa.Store:
				if y.Val != x {
					continue
				}
				switch a := y.Addr.(type) {
				case *ssa.FieldAddr:
					res = "stored into field " + refField(a.X.Type(), a.Field) + " of an owner"
				case *ssa.IndexAddr:
					// element of a local array (varargs / slice literal) → follow the array's slices
					if al, ok := a.X.(*ssa.Alloc); ok {
						work = append(work, al)
					} else {
						res = "stored into a slice element"
					}
				case *ssa.Alloc, *ssa.FreeVar:
					// cell: follow loads, in this function and in its closures
					root := rootCell(a)
					for _, g := range closuresOf(outermost(fn)) {
						eachInstr(g, func(s Site) {
							if u, ok := s.Instr.(*ssa.UnOp); ok && u.Op == token.MUL && isCell(u.X) && rootCell(u.X) == root {
								work = append(work, u)
							}
						})
					}
				case *ssa.Global:
					res = "stored into a package variable"
				}
			case *ssa.Slice:
				work = append(work, y)
			case *ssa.MakeClosure:
				// captured by a closure: look inside for a Close on the corresponding free variable
				f := y.Fn.(*ssa.Function)
				for i, b := range y.Bindings {
					if b == x && i < len(f.FreeVars) {
						if h := releasedHow(p, f, f.FreeVars[i]); h != "" {
							res = h + " (in a closure)"
						}
					}
				}
			case ssa.CallInstruction:
				cc := y.Common()
				name := ""
				var recv ssa.Value
				if cc.IsInvoke() {
					recv, name = cc.Value, cc.Method.Name()
				} else if sc := cc.StaticCallee(); sc != nil && sc.Signature.Recv() != nil && len(cc.Args) > 0 {
					recv, name = cc.Args[0], fnName(sc)
				}
				if name == "Close" && recv == x {
					if _, isDefer := y.(*ssa.Defer); isDefer {
						res = "closed by a deferred call"
					} else {
						res = "closed"
					}
					continue
				}
				if recv == x {
					continue // some other method call on it
				}
				ck := CalleeKey(y)
				if ck == "builtin.append" {
					if v2 := y.Value(); v2 != nil {
						work = append(work, v2)
					}
					continue
				}
				if ownershipTaking(ck) {
					res = "handed to " + ck + " (takes ownership)"
					continue
				}
				// a module function that stores the parameter into a returned owner / field
				for _, t := range p.Callees(y) {
					ai := argIndex(y, x)
					if !inModule(t) || ai < 0 {
						continue
					}
					if storesParamIntoOwner(t, ai) {
						res = "handed to " + FuncKey(t) + ", which stores it into an owner"
					} else if t.Parent() != nil && ai < len(t.Params) && t.Blocks != nil {
						// a function literal receiving the value as an argument (defer func(r …){ r.Close() }(r))
						if h := releasedHow(p, t, t.Params[ai]); h != "" {
							res = h + " (in the function literal it is passed to)"
						}
					}
				}
			case *ssa.Range, *ssa.Next, *ssa.Index, *ssa.IndexAddr, *ssa.Lookup:
				if vv, ok := rf.(ssa.Value); ok {
					work = append(work, vv)
				}
			case *ssa.UnOp:
				work = append(work, y)
			}
		}
	}
	return res
}

func outermost(fn *ssa.Function) *ssa.Function {
	for fn.Parent() != nil {
		fn = fn.Parent()
	}
	return fn
}

func argIndex(c ssa.CallInstruction, v ssa.Value) int {
	for i, a := range c.Common().Args {
		if a == v {
			return i
		}
	}
	return -1
}

// storesParamIntoOwner: callee stores its i-th parameter into a struct field or composite literal (one level).
func storesParamIntoOwner(f *ssa.Function, i int) bool {
	if f == nil || f.Blocks == nil || i < 0 || i >= len(f.Params) {
		return false
	}
	pv := f.Params[i]
	res := false
	seen := map[ssa.Value]bool{}
	work := []ssa.Value{pv}
	for len(work) > 0 {
		x := work[len(work)-1]
		work = work[:len(work)-1]
		if seen[x] {
			continue
		}
		seen[x] = true
		if x.Referrers() == nil {
			continue
		}
		for _, rf := range *x.Referrers() {
			switch y := rf.(type) {
			case *ssa.Store:
				if y.Val == x {
					if _, ok := y.Addr.(*ssa.FieldAddr); ok {
						res = true
					}
				}
			case *ssa.ChangeInterface, *ssa.MakeInterface, *ssa.ChangeType, *ssa.Phi:
				work = append(work, y.(ssa.Value))
			}
		}
	}
	return res
}

// ---------- targeted rules for simpledb ----------

// R-evict: a reader leaving the live list is closed before its directory is removed; closing never skipped for an input.
func ruleEvict(r *Report) {
	const rule = "evict-closes"
	r.Rule(rule, 2, "in the compaction swap every input's directory removal is reachable only through the success edge of Close on the live reader of that input, and no reader is overwritten or removed from the list without having passed that Close loop")
	p := r.P
	var fn *ssa.Function
	for _, f := range p.FuncsOfPkg("simpledb") {
		if strings.HasPrefix(FuncKey(f), "simpledb.SSTableManager.reflectCompactionResult") && len(CallsIn(f, Keys("os.Rename"))) > 0 {
			fn = f
		}
	}
	if fn == nil {
		r.Missing(rule, rule+"/reflectCompactionResult", "swap function not found")
		return
	}
	r.Saw(fn)
	o := &order{r, p}
	var closes []Site
	eachInstr(fn, func(s Site) {
		if c, ok := s.Instr.(*ssa.Call); ok && c.Call.IsInvoke() && c.Call.Method.Name() == "Close" && isElemOfField(c.Call.Value, "simpledb.SSTableManager", "allSSTableReaders") {
			closes = append(closes, s)
		}
	})
	rm := CallsIn(fn, Keys("os.RemoveAll", "os.Remove"))
	o.OnlyAfterSuccess(rule, rule+"/"+FuncKey(fn)+"/remove-after-close", fn, "Close of the live reader", closes, "removing the input directory", rm, nil)
	// the Close is control dependent only on "a live reader exists for this path" (i >= 0): no other condition may skip it
	key := rule + "/" + FuncKey(fn) + "/close-unconditional"
	if len(closes) == 0 {
		r.Bad(rule, key, fn.Pos(), "the swap never closes the readers of the inputs")
		return
	}
	bad := false
	for _, c := range closes {
		// Ifs that dominate the close and have an edge that bypasses it while staying in the loop
		for _, b := range liveBlocks(fn) {
			if !dominates(b, c.Block) || b == c.Block || len(b.Instrs) == 0 {
				continue
			}
			iff, ok := b.Instrs[len(b.Instrs)-1].(*ssa.If)
			if !ok {
				continue
			}
			// loop header tests (range) are fine: recognise index-bound comparisons `i < len` by operand kinds
			if bo, ok := iff.Cond.(*ssa.BinOp); ok {
				if isIndexFound(bo) || isRangeHeader(bo) {
					continue
				}
			}
			bad = true
		}
	}
	if bad {
		r.Bad(rule, key, closes[0].Pos(), "closing the live reader of a compaction input is conditional on more than 'a reader for this path exists': some input (e.g. the one at the replacement slot) is overwritten in the list without being closed — its mapping and descriptors leak on every cycle")
	} else {
		r.OK(rule, key, closes[0].Pos(), "every input with a live reader is closed")
	}
}

// isIndexFound: `i >= 0` / `i < 0` / `i != -1` style test of an index lookup result.
func isIndexFound(bo *ssa.BinOp) bool {
	for _, v := range cmpViews(bo) {
		k, ok := constInt(v.Y)
		if !ok {
			continue
		}
		if c, isC := v.X.(*ssa.Call); isC {
			ck := CalleeKey(c)
			if (k == 0 || k == -1) && (strings.Contains(ck, "indexOf") || strings.Contains(ck, "Index")) {
				return true
			}
		}
	}
	return false
}

// isRangeHeader: comparison of a loop counter with len(...) (range loops are lowered to index loops).
func isRangeHeader(bo *ssa.BinOp) bool {
	for _, v := range cmpViews(bo) {
		if v.Op != token.LSS {
			continue
		}
		if c, ok := v.Y.(*ssa.Call); ok {
			if b, ok := c.Call.Value.(*ssa.Builtin); ok && b.Name() == "len" {
				return true
			}
		}
	}
	return false
}

// R-join: goroutines started by Open are joined by Close; tickers stopped; tables closed only after the joins.
func ruleJoin(r *Report) {
	const rule = "join"
	r.Rule(rule, 6, "every goroutine started by Open signals a done channel on exit (deferred send), has a reachable stop signal that Close raises, and Close receives from the done channel; the ticker is stopped; the WAL and the table readers are closed only after both goroutines were joined")
	p := r.P
	open := r.NeedFunc(rule, "simpledb.DB.Open")
	cl := r.NeedFunc(rule, "simpledb.DB.Close")
	if open == nil || cl == nil {
		return
	}
	closeScope := closuresOf(cl)
	// what Close does
	recvs := map[string][]Site{}
	sends := map[string][]Site{}
	closesCh := map[string][]Site{}
	var tableCloses, walCloses []Site
	for _, g := range closeScope {
		eachInstr(g, func(s Site) {
			switch x := s.Instr.(type) {
			case *ssa.UnOp:
				if x.Op == token.ARROW {
					if _, f, _, ok := loadOfField(x.X); ok {
						recvs[f] = append(recvs[f], s)
					}
				}
			case *ssa.Send:
				if _, f, _, ok := loadOfField(x.Chan); ok {
					sends[f] = append(sends[f], s)
				}
			case *ssa.Call:
				if b, ok := x.Call.Value.(*ssa.Builtin); ok && b.Name() == "close" {
					if _, f, _, ok := loadOfField(x.Call.Args[0]); ok {
						closesCh[f] = append(closesCh[f], s)
					}
				}
				if x.Call.IsInvoke() && x.Call.Method.Name() == "Close" {
					if c, ok := x.Call.Value.(*ssa.Call); ok && CalleeKey(c) == "simpledb.SSTableManager.currentSSTable" {
						tableCloses = append(tableCloses, s)
					}
					if _, f, _, ok := loadOfField(x.Call.Value); ok && f == "wal" {
						walCloses = append(walCloses, s)
					}
				}
			}
		})
	}
	var gos []Site
	eachInstr(open, func(s Site) {
		if _, ok := s.Instr.(*ssa.Go); ok {
			gos = append(gos, s)
		}
	})
	if len(gos) == 0 {
		r.Missing(rule, rule+"/go-statements", "Open starts no goroutine")
	}
	var doneFields []string
	for _, g := range gos {
		for _, f := range p.Callees(g.Instr.(*ssa.Go)) {
			r.Saw(f)
			fk := FuncKey(f)
			// the done signal: a send on a channel field, made on the regular way out of the goroutine only. A deferred send
			// also runs while a panic unwinds (log.Panicf after a failed flush / compaction): Close, which waits for exactly
			// that signal, is released, returns nil, and the caller races the dying process — a failed last flush is
			// reported as a successful Close (exit code 0 in half of the runs on a multi-core machine)
			done, deferredDone := "", ""
			var sendSites []Site
			for _, a := range f.AnonFuncs {
				if !deferredOnly(a) {
					continue
				}
				eachInstr(a, func(s Site) {
					if sd, ok := s.Instr.(*ssa.Send); ok {
						if _, fld, _, ok := loadOfField(sd.Chan); ok {
							deferredDone = fld
						}
					}
				})
			}
			eachInstr(f, func(s Site) {
				if sd, ok := s.Instr.(*ssa.Send); ok {
					if _, fld, _, ok := loadOfField(sd.Chan); ok {
						done = fld
						sendSites = append(sendSites, s)
					}
				}
			})
			key := rule + "/" + fk + "/signals-done"
			if deferredDone != "" {
				r.Bad(rule, key, f.Pos(), "the goroutine signals its exit on "+deferredDone+" from a deferred call, which also runs while it panics: after a failed flush or compaction Close is released by the dying goroutine and reports success for an output that is missing")
				done = deferredDone
				doneFields = append(doneFields, done)
				continue
			}
			if done == "" {
				r.Bad(rule, key, f.Pos(), "the goroutine does not signal its exit on a done channel")
				continue
			}
			// every regular exit passes the send (calls that do not return — log.Panicf, log.Fatalf, panic — end their path)
			removed := map[Edge]bool{}
			for _, sd := range sendSites {
				for _, su := range sd.Block.Succs {
					removed[Edge{sd.Block, su}] = true
				}
			}
			eachInstr(f, func(s Site) {
				if c, ok := s.Instr.(*ssa.Call); ok {
					switch CalleeKey(c) {
					case "log.Panicf", "log.Panic", "log.Panicln", "log.Fatalf", "log.Fatal", "log.Fatalln", "os.Exit":
						for _, su := range s.Block.Succs {
							removed[Edge{s.Block, su}] = true
						}
					}
				}
			})
			silent := ""
			reach := reachFrom(f.Blocks[0], removed)
			for _, rs := range returnsOf(f) {
				inSend := false
				for _, sd := range sendSites {
					if sd.Block == rs.Block {
						inSend = true
					}
				}
				if reach[rs.Block] && !inSend {
					silent = p.Pos(rs.Pos())
				}
			}
			if silent != "" {
				r.Bad(rule, key, f.Pos(), "the goroutine can end ("+silent+") without signalling on "+done+": Close waits for ever")
				doneFields = append(doneFields, done)
				continue
			}
			r.OK(rule, key, f.Pos(), "send on "+done+" on every regular exit, none deferred")
			doneFields = append(doneFields, done)
			key = rule + "/" + fk + "/joined-by-Close"
			if len(recvs[done]) > 0 {
				r.OK(rule, key, recvs[done][0].Pos(), "Close receives from "+done)
			} else {
				r.Bad(rule, key, cl.Pos(), "Close never waits for "+done+": the goroutine may still run (and hold descriptors) after Close returned")
			}
			// stop signal: range over a channel Close closes, or a select/recv on a channel Close sends to
			key = rule + "/" + fk + "/stop-signal"
			stop := ""
			for _, g2 := range closuresOf(f) {
				eachInstr(g2, func(s Site) {
					switch x := s.Instr.(type) {
					case *ssa.UnOp:
						if x.Op == token.ARROW {
							if _, fld, _, ok := loadOfField(x.X); ok && (len(closesCh[fld]) > 0 || len(sends[fld]) > 0) {
								stop = fld
							}
						}
					case *ssa.Select:
						for _, st := range x.States {
							if st.Dir == types.RecvOnly {
								if _, fld, _, ok := loadOfField(st.Chan); ok && (len(closesCh[fld]) > 0 || len(sends[fld]) > 0) {
									stop = fld
								}
							}
						}
					}
				})
			}
			if stop != "" {
				r.OK(rule, key, f.Pos(), "exits on "+stop+", which Close closes / sends to")
			} else {
				r.Bad(rule, key, f.Pos(), "the goroutine's loop has no exit that Close can trigger")
			}
		}
	}
	// ticker
	key := rule + "/ticker-stopped"
	tickerStored := false
	eachInstr(open, func(s Site) {
		if st, ok := s.Instr.(*ssa.Store); ok {
			if c, ok := st.Val.(*ssa.Call); ok && CalleeKey(c) == "time.NewTicker" {
				tickerStored = true
			}
		}
	})
	stopped := false
	for _, g := range closeScope {
		if len(CallsIn(g, Keys("time.Ticker.Stop"))) > 0 {
			stopped = true
		}
	}
	if !tickerStored {
		r.OK(rule, key, open.Pos(), "no ticker created")
	} else if stopped {
		r.OK(rule, key, cl.Pos(), "Close stops the ticker")
	} else {
		r.Bad(rule, key, cl.Pos(), "the compaction ticker created by Open is never stopped")
	}
	// resources closed only after the joins: no receive from a done channel is reachable after the table / WAL close
	key = rule + "/close-after-joins"
	if len(tableCloses) == 0 || len(walCloses) == 0 {
		r.Bad(rule, key, cl.Pos(), "Close does not close the WAL and the merged table reader")
		return
	}
	bad := ""
	isWal := map[ssa.Instruction]bool{}
	for _, c := range walCloses {
		isWal[c.Instr] = true
	}
	for _, c := range append(append([]Site{}, tableCloses...), walCloses...) {
		lc := liftSites([]Site{c}, cl)
		if lc == nil {
			// released in a deferred function literal: it runs when Close returns; its registration stands in for it
			// (conservative: a join behind the registration is reported although the release comes later still)
			if ds, ok := deferSiteOf(c.Fn); ok && ds.Fn == cl {
				lc = []Site{ds}
			}
		}
		for _, d := range doneFields {
			// the log is the flusher's business (it removes flushed log files): closing it has to wait for the flusher
			// only — the compactor touches tables, not the log
			if isWal[c.Instr] && !strings.Contains(strings.ToLower(d), "flush") {
				continue
			}
			for _, rv := range recvs[d] {
				lr := liftSites([]Site{rv}, cl)
				if lc == nil || lr == nil {
					bad = "unliftable site"
					continue
				}
				if lc[0].Instr == lr[0].Instr {
					// both inside the same closure: compare there
					if reachableFromSite(c, rv) {
						bad = "the join on " + d + " comes after closing the resources"
					}
				} else if reachableFromSite(lc[0], lr[0]) {
					bad = "the join on " + d + " comes after closing the resources"
				}
			}
		}
	}
	if bad != "" {
		r.Bad(rule, key, tableCloses[0].Pos(), "Close releases the WAL / table readers before both goroutines were joined ("+bad+"): an in-flight compaction installs a reader that nobody closes")
	} else {
		r.OK(rule, key, tableCloses[0].Pos(), "WAL and table readers are closed after both joins")
	}
}

// closedOnAllPaths: every return of the owner's Close is reached through a close of the field (direct, or the
// registration of a deferred closure / call that closes it), except along nil-test edges of the owner's own fields
// ("nothing to close") and error exits of an earlier fallible step.
func closedOnAllPaths(p *Prog, fn *ssa.Function, sites []Site, field string) bool {
	return closedOnPaths(p, fn, sites, field, false)
}

var lastOpenExit string

// closedOnPaths: strict also demands the close on error exits that lie behind a fallible step of this Close (an exit
// before any fallible call is a state guard: not opened / already closed).
func closedOnPaths(p *Prog, fn *ssa.Function, sites []Site, field string, strict bool) bool {
	if len(sites) == 0 {
		return false
	}
	removed := map[Edge]bool{}
	inClose := map[*ssa.BasicBlock]bool{}
	for _, s := range sites {
		cur := s
		// lift sites inside (deferred) closures to the instruction in fn that registers / calls the closure
		for cur.Fn != fn {
			par := cur.Fn.Parent()
			if par == nil {
				return true // cannot lift: do not guess
			}
			var reg *Site
			eachInstr(par, func(x Site) {
				switch y := x.Instr.(type) {
				case *ssa.Defer:
					if mc, ok := y.Call.Value.(*ssa.MakeClosure); ok && mc.Fn == cur.Fn {
						xx := x
						reg = &xx
					} else if y.Call.Value == ssa.Value(cur.Fn) {
						xx := x
						reg = &xx
					}
				case *ssa.Call:
					if mc, ok := y.Call.Value.(*ssa.MakeClosure); ok && mc.Fn == cur.Fn {
						xx := x
						reg = &xx
					}
				}
			})
			if reg == nil {
				return true
			}
			cur = *reg
		}
		inClose[cur.Block] = true
		for _, su := range cur.Block.Succs {
			removed[Edge{cur.Block, su}] = true
		}
	}
	// allowed bypasses: nil edges of tests of receiver fields holding handles (pointer / interface typed)
	for _, b := range liveBlocks(fn) {
		if v, nilS, _, ok := nilTest(b); ok {
			if t, g, base, isF := loadOfField(v); isF && len(fn.Params) > 0 && (base == ssa.Value(fn.Params[0]) || paramOrigin(base) == fn.Params[0]) {
				if _, isSl := v.Type().Underlying().(*types.Slice); isSl {
					continue
				}
				// "nothing to close": the handle itself is nil, another handle is nil, or a field that is always
				// initialised together with the handle (stored in the same function) is nil
				if g == field || hasClose(v.Type()) || coInitialised(p, t, field, g) {
					removed[Edge{b, nilS}] = true
				}
			}
		}
	}
	reach := reachFrom(fn.Blocks[0], removed)
	idx := errorResultIndex(fn)
	for _, rs := range returnsOf(fn) {
		if !reach[rs.Block] || inClose[rs.Block] {
			continue
		}
		// error exits of earlier fallible steps are not "successful closes"
		if k, _ := returnErrOperand(rs.Instr.(*ssa.Return), idx); k != "nil" {
			if !strict && !guardAfterStateChange(fn, rs) {
				continue
			}
			behindFallible := false
			eachInstr(fn, func(c Site) {
				ci, ok := c.Instr.(ssa.CallInstruction)
				if !ok {
					return
				}
				if _, hasErr, _ := errResults(ci); hasErr && !errConstructors(CalleeKey(ci)) && reachableFromSite(c, rs) {
					if sc := ci.Common().StaticCallee(); sc != nil && inModule(sc) && sc != fn && pureGuard(sc, 0) {
						return
					}
					// an immediately called function literal that fails only through its state guards (every error
					// return lies before its first fallible step) is itself a guard
					if mc, isMC := ci.Common().Value.(*ssa.MakeClosure); isMC {
						if lit, isF := mc.Fn.(*ssa.Function); isF && failsOnlyAsGuard(lit) {
							return
						}
					}
					behindFallible = true
				}
			})
			if !behindFallible && !guardAfterStateChange(fn, rs) {
				continue
			}
			if !strict && behindFallible {
				continue
			}
		}
		lastOpenExit = p.Pos(rs.Pos())
		return false
	}
	return true
}

// guardAfterStateChange: the exit rs of a Close lies behind a store into a flag of the receiver (closed = true, open =
// false): the owner then counts as closed although this exit left the handle open, and a later Close takes the same exit.
func guardAfterStateChange(fn *ssa.Function, rs Site) bool {
	if len(fn.Params) == 0 {
		return false
	}
	hit := false
	eachInstr(fn, func(s Site) {
		st, ok := s.Instr.(*ssa.Store)
		if !ok || hit {
			return
		}
		fa, ok := st.Addr.(*ssa.FieldAddr)
		if !ok || paramOrigin(fa.X) != fn.Params[0] && fa.X != ssa.Value(fn.Params[0]) {
			return
		}
		if b, isB := st.Val.Type().Underlying().(*types.Basic); !isB || b.Kind() != types.Bool {
			return
		}
		if reachableFromSite(s, rs) {
			hit = true
		}
	})
	return hit
}

// coInitialised: fields f and g of owner type t are stored by one and the same function (e.g. both set up in Open).
func coInitialised(p *Prog, t, f, g string) bool {
	for _, fn := range p.modFns {
		sf, sg := false, false
		eachInstr(fn, func(s Site) {
			if st, ok := s.Instr.(*ssa.Store); ok {
				if tt, name, _, ok := fieldAddrName(st.Addr); ok && tt == t {
					if name == f {
						sf = true
					}
					if name == g {
						sg = true
					}
				}
			}
		})
		if sf && sg {
			return true
		}
	}
	return false
}

// R-owner-overwrite: a handle an owner holds is not replaced while it is open. Every store of a new value into an
// owner field (outside the construction of a fresh owner) is preceded by a Close of the old value — in the storing
// function or, when the function is a helper, at every one of its call sites.
func ruleOwnerOverwrite(r *Report) {
	const rule = "owner-overwrite"
	r.Rule(rule, 3, "for every closable field of a type with a Close method: a store that replaces the field's value happens on a freshly allocated owner, or after the old value was closed (in the same function or at each call site of the helper that stores), or the field is assigned exactly once in the owner's Open")
	p := r.P
	type fieldKey struct{ owner, field string }
	owners := map[fieldKey]bool{}
	for _, fn := range p.ModuleFuncs() {
		if fnName(fn) != "Close" || fn.Signature.Recv() == nil || fn.Parent() != nil || fn.Synthetic != "" {
			continue
		}
		rt := fn.Signature.Recv().Type()
		st := derefStruct(rt)
		if st == nil {
			continue
		}
		for i := 0; i < st.NumFields(); i++ {
			f := st.Field(i)
			fname := refField(rt, i)
			if isSlice, ok := closableFieldType(f.Type()); !ok || isSlice {
				continue
			}
			if _, ex := ownerFieldExempt[typeShort(rt)+"."+fname]; ex {
				continue
			}
			owners[fieldKey{typeShort(rt), fname}] = true
		}
	}
	closesFieldBefore := func(fn *ssa.Function, field string, at Site) bool {
		ok := false
		eachInstr(fn, func(s Site) {
			c, isC := s.Instr.(ssa.CallInstruction)
			if !isC {
				return
			}
			cc := c.Common()
			var recv ssa.Value
			name := ""
			if cc.IsInvoke() {
				recv, name = cc.Value, cc.Method.Name()
			} else if sc := cc.StaticCallee(); sc != nil && sc.Signature.Recv() != nil && len(cc.Args) > 0 {
				recv, name = cc.Args[0], fnName(sc)
			}
			if name != "Close" || recv == nil {
				return
			}
			if _, fld, _, isF := loadOfField(recv); isF && fld == field && precedes(s, at) {
				ok = true
			}
		})
		return ok
	}
	isFresh := func(v ssa.Value) bool {
		_, ok := v.(*ssa.Alloc)
		return ok
	}
	for _, fn := range p.ModuleFuncs() {
		if fn.Blocks == nil {
			continue
		}
		eachInstr(fn, func(s Site) {
			st, ok := s.Instr.(*ssa.Store)
			if !ok || isNilConst(st.Val) {
				return
			}
			typ, fld, base, ok := fieldAddrName(st.Addr)
			if !ok || !owners[fieldKey{"*" + typ, fld}] && !owners[fieldKey{typ, fld}] {
				return
			}
			key := uniqKey(r, fmt.Sprintf("%s/%s.%s/%s", rule, typ, fld, FuncKey(fn)))
			r.Saw(fn)
			switch {
			case isFresh(base):
				r.OK(rule, key, st.Pos(), "construction of a fresh owner")
				return
			case closesFieldBefore(fn, fld, s):
				r.OK(rule, key, st.Pos(), "old value closed before it is replaced")
				return
			}
			// helper: the owner comes in as a parameter; look at the call sites
			par := paramOrigin(base)
			if par != nil && len(fn.Params) > 0 && par == fn.Params[0] && fn.Signature.Recv() != nil && fnName(fn) == "Open" {
				r.OK(rule, key, st.Pos(), "assigned in the owner's own Open")
				return
			}
			if par == nil {
				r.Unk(rule, key, st.Pos(), "owner of the replaced field is neither fresh nor a parameter")
				return
			}
			pi := -1
			for i, q := range fn.Params {
				if q == par {
					pi = i
				}
			}
			sites := p.CallSitesOf(fn)
			if len(sites) == 0 {
				if fnName(fn) == "Open" {
					r.OK(rule, key, st.Pos(), "assigned in the owner's Open (guarded by its open flag)")
				} else {
					r.Unk(rule, key, st.Pos(), "no call site of the storing helper found")
				}
				return
			}
			var bad []string
			for _, cs := range sites {
				args := cs.Call().Common().Args
				if cs.Call().Common().IsInvoke() || pi >= len(args) {
					continue
				}
				a := args[pi]
				if isFresh(a) || closesFieldBefore(cs.Fn, fld, cs) {
					continue
				}
				if fnName(cs.Fn) == "Open" || onlyFromOpen(p, cs.Fn, 3) {
					continue
				}
				bad = append(bad, fmt.Sprintf("%s (%s)", FuncKey(cs.Fn), p.Pos(cs.Pos())))
			}
			if len(bad) == 0 {
				r.OK(rule, key, st.Pos(), fmt.Sprintf("every call site (%d) constructs the owner or closes the old value first", len(sites)))
			} else {
				r.Bad(rule, key, st.Pos(), fmt.Sprintf("%s.%s is replaced without closing the old value when reached from %s: the old handle (descriptor) stays open for good — one leak per replacement", typ, fld, strings.Join(bad, ", ")))
			}
		})
	}
}

// failsOnlyAsGuard: no error return of fn is reachable from a fallible call inside fn (its error returns are state
// guards such as "not opened yet" / "already closed").
func failsOnlyAsGuard(fn *ssa.Function) bool {
	idx := errorResultIndex(fn)
	if idx < 0 {
		return true
	}
	ok := true
	for _, rs := range returnsOf(fn) {
		if k, _ := returnErrOperand(rs.Instr.(*ssa.Return), idx); k == "nil" {
			continue
		}
		eachInstr(fn, func(c Site) {
			ci, isC := c.Instr.(ssa.CallInstruction)
			if !isC {
				return
			}
			if _, hasErr, _ := errResults(ci); hasErr && !errConstructors(CalleeKey(ci)) && reachableFromSite(c, rs) {
				// a helper of the module that is itself nothing but a state guard (no fallible step of its own)
				if sc := ci.Common().StaticCallee(); sc != nil && inModule(sc) && sc != fn && pureGuard(sc, 0) {
					return
				}
				ok = false
			}
		})
	}
	return ok
}

// pureGuard: the module function makes no call that can fail (nor any call into the module that does): its error results
// are verdicts about state it reads.
func pureGuard(fn *ssa.Function, depth int) bool {
	if fn == nil || fn.Blocks == nil || depth > 2 {
		return false
	}
	ok := true
	eachInstr(fn, func(c Site) {
		ci, isC := c.Instr.(ssa.CallInstruction)
		if !isC || !ok {
			return
		}
		if _, hasErr, _ := errResults(ci); hasErr && !errConstructors(CalleeKey(ci)) {
			if sc := ci.Common().StaticCallee(); sc != nil && inModule(sc) && sc != fn && pureGuard(sc, depth+1) {
				return
			}
			ok = false
		}
	})
	return ok
}

// R-replay-closes-per-file: WAL replay opens one reader per log file. Readers that are collected and closed when Replay
// returns hold one descriptor (and one read buffer) per file all at once; the number of WAL files is not bounded by
// anything the flusher does (deletes never rotate the memstore, the appender rotates by size on its own), so a log
// with more files than the descriptor limit can be written but never replayed: every Open fails from then on.
func ruleReplayClosesPerFile(r *Report) {
	const rule = "replay-closes-per-file"
	r.Rule(rule, 1, "wal.Replayer.Replay closes the reader of each WAL file before it opens the next one (a Close of the reader inside the per-file loop, directly or through a per-file function with a deferred Close), instead of collecting the readers and closing them when Replay returns")
	p := r.P
	fn := r.NeedFunc(rule, "wal.Replayer.Replay")
	if fn == nil {
		return
	}
	key := rule + "/wal.Replayer.Replay"
	// the reader creation: a dynamic call of the reader factory (field readerFactory) — in Replay itself or in a helper
	inLoop := func(s Site) bool {
		for _, su := range s.Block.Succs {
			if reachFrom(su, nil)[s.Block] {
				return true
			}
		}
		return reachFrom(s.Block, nil)[s.Block] && len(s.Block.Succs) > 0 && func() bool {
			for _, su := range s.Block.Succs {
				if reachFrom(su, nil)[s.Block] {
					return true
				}
			}
			return false
		}()
	}
	isFactoryCall := func(c *ssa.Call) bool {
		if c.Call.IsInvoke() || c.Call.StaticCallee() != nil {
			return false
		}
		_, f, _, ok := loadOfField(c.Call.Value)
		return ok && f == "readerFactory"
	}
	var create *Site
	var holder *ssa.Function
	for _, g := range moduleReach(p, []*ssa.Function{fn}) {
		eachInstr(g, func(s Site) {
			if c, ok := s.Instr.(*ssa.Call); ok && isFactoryCall(c) {
				ss := s
				create, holder = &ss, g
			}
		})
	}
	if create == nil {
		r.Missing(rule, key, "no reader factory call found in Replay")
		return
	}
	// is there a Close of the created reader that belongs to the same iteration?
	closed := false
	for _, f := range closuresOf(holder) {
		eachInstr(f, func(s Site) {
			c, ok := s.Instr.(ssa.CallInstruction)
			if !ok || !c.Common().IsInvoke() || c.Common().Method.Name() != "Close" {
				return
			}
			fromCreate := valueDependsOn(c.Common().Value, func(x ssa.Value) bool {
				ex, isEx := x.(*ssa.Extract)
				return isEx && ex.Tuple == create.Instr.(ssa.Value) && ex.Index == 0
			})
			if !fromCreate {
				return
			}
			if holder != fn {
				closed = true // a per-file helper closes what it opened (directly or deferred)
				return
			}
			if f == fn && inLoop(s) {
				closed = true
			}
		})
	}
	// a per-file helper that registers the Close of what the factory handed out (defer func() { … reader.Close() }()): the
	// reader is owned from the defer statement on, and it is closed when the helper returns, that is once per file
	deferOwned := map[*ssa.BasicBlock]bool{}
	if holder != fn {
		var rd0 ssa.Value
		for _, rf := range *create.Instr.(ssa.Value).Referrers() {
			if ex, ok := rf.(*ssa.Extract); ok && ex.Index == 0 {
				rd0 = ex
			}
		}
		eachInstr(holder, func(s Site) {
			d, ok := s.Instr.(*ssa.Defer)
			if !ok || rd0 == nil {
				return
			}
			mc, isMC := d.Call.Value.(*ssa.MakeClosure)
			if !isMC {
				// defer reader.Close() directly
				if d.Call.IsInvoke() && d.Call.Method.Name() == "Close" && valueDependsOn(d.Call.Value, func(x ssa.Value) bool { return x == rd0 }) {
					deferOwned[s.Block] = true
				}
				return
			}
			g, isF := mc.Fn.(*ssa.Function)
			if !isF {
				return
			}
			eachInstr(g, func(t Site) {
				c, isC := t.Instr.(ssa.CallInstruction)
				if !isC || !c.Common().IsInvoke() || c.Common().Method.Name() != "Close" {
					return
				}
				u, isU := c.Common().Value.(*ssa.UnOp)
				if !isU || u.Op != token.MUL {
					return
				}
				fv, isFV := u.X.(*ssa.FreeVar)
				if !isFV {
					return
				}
				for i, f := range g.FreeVars {
					if f != fv || i >= len(mc.Bindings) {
						continue
					}
					cell := mc.Bindings[i]
					if refs := cell.Referrers(); refs != nil {
						for _, rf := range *refs {
							if st, isSt := rf.(*ssa.Store); isSt && st.Addr == cell && st.Val == rd0 {
								deferOwned[s.Block] = true
							}
						}
					}
				}
			})
		})
		if len(deferOwned) > 0 {
			closed = true
		}
	}
	// from the moment the factory handed the reader out, somebody owns it on every way out of the function: it is stored
	// into the variable the closing code reads, or closed, before anything can leave (the reader's file is open since the
	// factory call, not since Open — a break for a header-less last file leaves too)
	{
		okey := key + "/owned-on-every-exit"
		var rd ssa.Value
		for _, rf := range *create.Instr.(ssa.Value).Referrers() {
			if ex, ok := rf.(*ssa.Extract); ok && ex.Index == 0 {
				rd = ex
			}
		}
		owned := map[*ssa.BasicBlock]bool{}
		if rd != nil {
			// cells that some closing code reads
			closedCells := map[ssa.Value]bool{}
			for _, f := range closuresOf(holder) {
				eachInstr(f, func(s Site) {
					c, ok := s.Instr.(ssa.CallInstruction)
					if !ok || !c.Common().IsInvoke() || c.Common().Method.Name() != "Close" {
						return
					}
					if u, isU := c.Common().Value.(*ssa.UnOp); isU && u.Op == token.MUL && isCell(u.X) {
						closedCells[rootCell(u.X)] = true
					}
				})
			}
			eachInstr(holder, func(s Site) {
				switch x := s.Instr.(type) {
				case *ssa.Store:
					if x.Val == rd && isCell(x.Addr) && closedCells[rootCell(x.Addr)] {
						owned[s.Block] = true
					}
				case ssa.CallInstruction:
					if x.Common().IsInvoke() && x.Common().Method.Name() == "Close" {
						v := x.Common().Value
						if v == rd {
							owned[s.Block] = true
						}
						// … or what is read from the variable the reader was put into (a captured variable is a cell)
						if u, isU := v.(*ssa.UnOp); isU && u.Op == token.MUL && isCell(u.X) {
							if refs := u.X.Referrers(); refs != nil {
								for _, rf := range *refs {
									if st, isSt := rf.(*ssa.Store); isSt && st.Addr == u.X && st.Val == rd {
										owned[s.Block] = true
									}
								}
							}
						}
					}
				}
			})
		}
		for b := range deferOwned {
			owned[b] = true
		}
		removed := map[Edge]bool{}
		for b := range owned {
			for _, su := range b.Succs {
				removed[Edge{b, su}] = true
			}
		}
		succ, _ := errorEdges(*create)
		leak := ""
		for _, e := range succ {
			if owned[e.To] {
				continue
			}
			reach := reachFrom(e.To, removed)
			for _, rs := range returnsOf(holder) {
				if reach[rs.Block] && !owned[rs.Block] {
					leak = r.P.Pos(rs.Pos())
				}
			}
		}
		if rd == nil || len(succ) == 0 {
			r.Unk(rule, okey, create.Pos(), "the reader value or the test of the factory's error was not recognised")
		} else if leak != "" {
			r.Bad(rule, okey, create.Pos(), "the function can be left ("+leak+") after the factory handed out a reader without that reader having been closed or stored where the closing code finds it: a newest WAL file without header (killed mid-rotation) stays open for the life of the database — one more per Open of such a directory")
		} else {
			r.OK(rule, okey, create.Pos(), "the reader is owned before anything can leave")
		}
	}
	if closed {
		r.OK(rule, key, create.Pos(), "each file's reader is closed within its own iteration")
	} else {
		r.Bad(rule, key, create.Pos(), "the readers of all WAL files are kept open until Replay returns (collected in a slice, closed in a deferred loop): a log with more files than the descriptor limit cannot be replayed and every later Open fails with \"too many open files\" (MemstoreSizeBytes(1), one Put and 4496 Deletes leave 1499 WAL files; RLIMIT_NOFILE 1024)")
	}
}

// R-no-acquire-after-close: Close releases the scanners a table reader handed out by walking the list they were
// registered in. A Scan after Close registers (and opens) a new one that nothing will ever close: the reader must
// remember that it was closed and refuse.
func ruleNoAcquireAfterClose(r *Report) {
	const rule = "no-acquire-after-close"
	r.Rule(rule, 1, "every method of sstables.SSTableReader that registers a new handle in miscClosers first tests a flag that Close sets, and fails when it is set")
	p := r.P
	cl := r.NeedFunc(rule, "sstables.SSTableReader.Close")
	if cl == nil {
		return
	}
	// flags Close sets to true
	flags := map[string]bool{}
	eachInstr(cl, func(s Site) {
		if st, ok := s.Instr.(*ssa.Store); ok {
			if c, isC := constBool(st.Val); isC && c {
				if t, f, _, isF := fieldAddrName(st.Addr); isF && t == "sstables.SSTableReader" {
					flags[f] = true
				}
			}
		}
	})
	n := 0
	for _, fn := range p.FuncsOfPkg("sstables") {
		if fn.Signature.Recv() == nil || fnName(fn) == "Close" || typeShort(fn.Signature.Recv().Type()) != "*sstables.SSTableReader" && typeShort(fn.Signature.Recv().Type()) != "sstables.SSTableReader" {
			continue
		}
		var regs []Site
		eachInstr(fn, func(s Site) {
			if st, ok := s.Instr.(*ssa.Store); ok {
				if _, f, _, isF := fieldAddrName(st.Addr); isF && f == "miscClosers" {
					regs = append(regs, s)
				}
			}
		})
		if len(regs) == 0 {
			continue
		}
		n++
		key := rule + "/" + FuncKey(fn)
		r.Saw(fn)
		// edges on which a Close-flag is known to be false; with only the "closed" sides left no registration may be reachable
		removed := map[Edge]bool{}
		tested := false
		for _, b := range liveBlocks(fn) {
			cnd, tS, fS, tE, fE, ok := effCond(b)
			if !ok {
				continue
			}
			if _, f, _, isF := loadOfField(cnd); isF && flags[f] {
				tested = true
				_ = tS
				_ = tE
				if fE {
					removed[Edge{b, fS}] = true
				}
			}
		}
		// … or asks a helper of the reader that makes this test (ensureOpen() error, isClosed() bool)
		for _, b := range liveBlocks(fn) {
			inner, call, _, hF, _, hFE, ok := condThroughHelper(b)
			if !ok {
				continue
			}
			t, f, base, isF := loadOfField(inner)
			if !isF || !flags[f] || t != "sstables.SSTableReader" {
				continue
			}
			// the helper looks at its own receiver, and is called on ours
			callee := genericBody(call.Call.StaticCallee())
			if po := paramOrigin(base); po == nil || len(callee.Params) == 0 || po != callee.Params[0] {
				continue
			}
			if len(call.Call.Args) == 0 || len(fn.Params) == 0 || paramOrigin(call.Call.Args[0]) != fn.Params[0] {
				continue
			}
			tested = true
			if hFE {
				removed[Edge{b, hF}] = true
			}
		}
		bad := !tested
		for _, s := range regs {
			if tested && siteReachable(s, removed) {
				bad = true
			}
		}
		if bad {
			r.Bad(rule, key, regs[0].Pos(), "a new scanner is opened and registered without asking whether the reader was closed: create, Scan, Close, Scan returns nil, opens data.rio again and leaves the descriptor with a reader whose Close already ran (through a stacked reader: one per table)")
		} else {
			r.OK(rule, key, regs[0].Pos(), "refuses after Close")
		}
	}
	if n == 0 {
		r.OK(rule, rule+"/none", cl.Pos(), "no method registers handles after construction")
	}
}

// R-acquire-failure-closes: a function that obtains a closable and then fails must not drop it: on every path from the
// successful acquisition to an error return there is a Close (direct or deferred) of the value or of the owner it was
// put into. The success path is owner-locals' business; this rule is about the error exits, where the value (or the
// half-built owner) is simply forgotten and the descriptor / mapping is left to the finalizers.
func ruleAcquireFailureCloses(r *Report, pkgs []string) {
	const rule = "acquire-failure-closes"
	r.Rule(rule, 10, "for every closable a function obtains from a creating call: every error return that is reachable after the successful acquisition passes a Close (direct, deferred, or of the struct the value was stored into) — a failed constructor / loader / rotation leaves nothing open")
	p := r.P
	for _, pk := range pkgs {
		for _, fn := range p.FuncsOfPkg(pk) {
			if fn.Synthetic != "" || fn.Parent() != nil {
				continue
			}
			idx := errorResultIndex(fn)
			if idx < 0 {
				continue
			}
			eachInstr(fn, func(s Site) {
				c, ok := s.Instr.(*ssa.Call)
				if !ok {
					return
				}
				var vals []ssa.Value
				if tup, ok := c.Type().(*types.Tuple); ok {
					for _, rf := range *c.Referrers() {
						if ex, ok := rf.(*ssa.Extract); ok && hasClose(tup.At(ex.Index).Type()) && !isErrorType(ex.Type()) {
							vals = append(vals, ex)
						}
					}
				} else if hasClose(c.Type()) && !isErrorType(c.Type()) {
					vals = append(vals, c)
				}
				if len(vals) == 0 {
					return
				}
				ck := CalleeKey(c)
				if ck == "" {
					if _, f, _, ok := loadOfField(c.Call.Value); ok && strings.Contains(strings.ToLower(f), "factory") {
						ck = "factory:" + f
					} else {
						return
					}
				} else if strings.HasSuffix(ck, ".currentSSTable") || strings.HasPrefix(ck, "builtin.") || !creates(p, c) {
					return
				} else if !acquiresHandle(p, c) {
					return // a constructor that opens nothing (the handle comes with Open): nothing to leak yet
				}
				for _, v := range vals {
					key := uniqKey(r, fmt.Sprintf("%s/%s/%s", rule, FuncKey(fn), ck))
					r.Saw(fn)
					// everything the value flows into: itself, cells, phis, interface conversions, and allocated structs it is stored in
					holders := map[ssa.Value]bool{v: true}
					changed := true
					for changed {
						changed = false
						for _, f := range closuresOf(fn) {
							eachInstr(f, func(t Site) {
								mark := func(x ssa.Value) {
									if x != nil && !holders[x] {
										holders[x] = true
										changed = true
									}
								}
								switch y := t.Instr.(type) {
								case *ssa.Phi:
									for _, e := range y.Edges {
										if holders[e] {
											mark(y)
										}
									}
								case *ssa.MakeInterface:
									if holders[y.X] {
										mark(y)
									}
								case *ssa.ChangeInterface:
									if holders[y.X] {
										mark(y)
									}
								case *ssa.ChangeType:
									if holders[y.X] {
										mark(y)
									}
								case *ssa.UnOp:
									if y.Op == token.MUL && holders[y.X] {
										mark(y)
									}
								case *ssa.Store:
									if holders[y.Val] {
										switch a := y.Addr.(type) {
										case *ssa.Alloc:
											mark(a)
										case *ssa.FreeVar:
											mark(a)
										case *ssa.FieldAddr:
											mark(a.X) // the struct now owns it
										case *ssa.IndexAddr:
											mark(a.X) // element of a (varargs) array or slice
										}
									}
								case *ssa.FieldAddr:
									if holders[y.X] {
										mark(y)
									}
								case *ssa.Slice:
									if holders[y.X] {
										mark(y)
									}
								case *ssa.MakeClosure:
									if cf, ok := y.Fn.(*ssa.Function); ok {
										for i, b := range y.Bindings {
											if i < len(cf.FreeVars) && holders[b] {
												mark(cf.FreeVars[i])
											}
										}
									}
								case *ssa.Call:
									if bi, isB := y.Call.Value.(*ssa.Builtin); isB && bi.Name() == "append" {
										for _, a := range y.Call.Args {
											if holders[a] {
												mark(y)
											}
										}
									}
									// a module constructor that stores the argument into what it returns
									if sc := y.Call.StaticCallee(); sc != nil && inModule(sc) {
										for i, a := range y.Call.Args {
											if holders[a] && storesParamIntoOwner(sc, i) {
												mark(y)
											}
										}
									}
								case *ssa.Extract:
									if holders[y.Tuple] && hasClose(y.Type()) {
										mark(y)
									}
								}
							})
						}
					}
					// release sites in fn: Close calls / defers on a holder, handing over to an ownership-taking callee
					releaseBlocks := map[*ssa.BasicBlock]int{} // block → smallest instruction index of a release
					note := func(t Site) {
						if cur, ok := releaseBlocks[t.Block]; !ok || t.Idx < cur {
							releaseBlocks[t.Block] = t.Idx
						}
					}
					covered := false // a defer registered before the acquisition closes whatever the holder cell contains
					eachInstr(fn, func(t Site) {
						// stored into a struct the caller holds (receiver / parameter): the caller's Close is responsible
						if st, isSt := t.Instr.(*ssa.Store); isSt && holders[st.Val] {
							if fa, isFA := st.Addr.(*ssa.FieldAddr); isFA && paramOrigin(fa.X) != nil {
								note(t)
							}
						}
						ci, ok := t.Instr.(ssa.CallInstruction)
						if !ok {
							return
						}
						cc := ci.Common()
						name := ""
						var recv ssa.Value
						if cc.IsInvoke() {
							recv, name = cc.Value, cc.Method.Name()
						} else if sc := cc.StaticCallee(); sc != nil && sc.Signature.Recv() != nil && len(cc.Args) > 0 {
							recv, name = cc.Args[0], fnName(sc)
						}
						if name == "Close" && holders[recv] {
							note(t)
							return
						}
						// deferred / called function literal that closes a holder
						if mc, ok := cc.Value.(*ssa.MakeClosure); ok {
							if lit, ok := mc.Fn.(*ssa.Function); ok {
								closes := false
								eachInstr(lit, func(u Site) {
									if c2, ok := u.Instr.(ssa.CallInstruction); ok {
										cc2 := c2.Common()
										var rv ssa.Value
										nm := ""
										if cc2.IsInvoke() {
											rv, nm = cc2.Value, cc2.Method.Name()
										} else if sc := cc2.StaticCallee(); sc != nil && sc.Signature.Recv() != nil && len(cc2.Args) > 0 {
											rv, nm = cc2.Args[0], fnName(sc)
										}
										if nm == "Close" && rv != nil && (holders[rv] || valueDependsOn(rv, func(x ssa.Value) bool { return holders[x] })) {
											closes = true
										}
									}
								})
								// arguments passed to the literal
								for i, a := range cc.Args {
									if holders[a] && i < len(lit.Params) {
										if releasedHow(p, lit, lit.Params[i]) != "" {
											closes = true
										}
									}
								}
								if closes {
									note(t)
									if _, isDefer := t.Instr.(*ssa.Defer); isDefer && precedes(t, s) {
										covered = true
									}
								}
							}
							return
						}
						if ownershipTaking(CalleeKey(ci)) {
							for _, a := range cc.Args {
								if holders[a] {
									note(t)
								}
							}
						}
					})
					// returns that hand the value (or its owner) to the caller are releases too
					// explore from the success edge of the acquisition
					var starts []*ssa.BasicBlock
					if succ, _ := errorEdges(s); len(succ) > 0 {
						for _, e := range succ {
							starts = append(starts, e.To)
						}
					} else {
						starts = append(starts, s.Block) // infallible creation: continue in the same block
					}
					bad := ""
					seen := map[*ssa.BasicBlock]bool{}
					var walk func(b *ssa.BasicBlock, from int)
					walk = func(b *ssa.BasicBlock, from int) {
						if bad != "" {
							return
						}
						if ri, ok := releaseBlocks[b]; ok && ri >= from {
							return // released on this path
						}
						last := b.Instrs[len(b.Instrs)-1]
						if ret, ok := last.(*ssa.Return); ok {
							for _, res := range ret.Results {
								if holders[res] {
									return // handed to the caller
								}
							}
							if k, _ := returnErrOperand(ret, idx); k != "nil" {
								bad = p.Pos(ret.Pos())
							}
							return
						}
						for _, su := range b.Succs {
							if !seen[su] {
								seen[su] = true
								walk(su, 0)
							}
						}
					}
					if covered {
						r.OK(rule, key, c.Pos(), "a deferred function registered before the acquisition closes what the variable holds")
						continue
					}
					for _, st := range starts {
						from := 0
						if st == s.Block {
							from = s.Idx + 1
						}
						// the error of the acquisition may be looked at a second time further down (it travels in a
						// variable): where a release lies in front of that place on every path, there is nothing left
						released := false
						for rb := range releaseBlocks {
							if rb != st && rb != s.Block && dominates(rb, st) && blockReaches(s.Block, rb) {
								released = true
							}
						}
						if released {
							continue
						}
						seen[st] = true
						walk(st, from)
					}
					if bad != "" {
						r.Bad(rule, key, c.Pos(), fmt.Sprintf("the %s obtained from %s is dropped on the error return at %s: nothing closes it (or the half-built owner it was put into) on that path, the descriptor / mapping stays until a finalizer runs", typeShort(v.Type()), ck, bad))
					} else {
						r.OK(rule, key, c.Pos(), "closed or handed on along every error exit")
					}
				}
			})
		}
	}
}

// acquiresHandle: the call opens an OS handle before it returns — it is a library open call, or a module function from
// which one is reachable (through resolved callees; a dynamic factory call counts as "may open").
func acquiresHandle(p *Prog, c *ssa.Call) bool {
	opens := Keys("os.Open", "os.OpenFile", "os.Create", "os.CreateTemp", "github.com/ncw/directio.OpenFile", "golang.org/x/exp/mmap.Open")
	if opens(CalleeKey(c)) {
		return true
	}
	var roots []*ssa.Function
	for _, cal := range p.Callees(c) {
		roots = append(roots, cal)
	}
	if len(roots) == 0 {
		return true
	}
	found := false
	for _, g := range moduleReach(p, roots) {
		eachInstr(g, func(s Site) {
			cc, ok := s.Instr.(*ssa.Call)
			if !ok {
				return
			}
			if opens(CalleeKey(cc)) {
				found = true
			}
			if cc.Call.StaticCallee() == nil && !cc.Call.IsInvoke() {
				if _, f, _, isF := loadOfField(cc.Call.Value); isF && strings.Contains(strings.ToLower(f), "factory") {
					found = true
				}
			}
		})
	}
	return found
}

// R-close-releases-all (C19): DB.Close gives back two kinds of handles — the log and the table readers. The table readers
// are not a field of a closable type (the manager hands out the current stack), so owner-fields does not see them. Once
// one of the releases has run, every way out of Close must run the other one too: the database is marked closed and a
// second Close is refused, so whatever is skipped stays for the life of the process.
func ruleCloseReleasesAll(r *Report) {
	const rule = "close-releases-all"
	r.Rule(rule, 1, "in simpledb.DB.Close the release of the WAL and the release of the table readers are all-or-nothing: no return is reachable after one of them that has not passed the other (a failing wal.Close must not skip the tables)")
	fn := r.NeedFunc(rule, "simpledb.DB.Close")
	if fn == nil {
		return
	}
	key := rule + "/simpledb.DB.Close"
	var rel []Site
	var names []string
	var deferred []bool
	inner := map[int]Site{} // releases inside a literal that is called on the spot: the release itself
	var collect func(g *ssa.Function, at *Site)
	inlineLit := false
	collect = func(g *ssa.Function, at *Site) {
		eachInstr(g, func(s Site) {
			c, ok := s.Instr.(ssa.CallInstruction)
			if !ok {
				return
			}
			cc := c.Common()
			var recv ssa.Value
			name := ""
			if cc.IsInvoke() {
				recv, name = cc.Value, cc.Method.Name()
			} else if sc := cc.StaticCallee(); sc != nil && sc.Signature.Recv() != nil && len(cc.Args) > 0 {
				recv, name = cc.Args[0], fnName(sc)
			}
			if name != "Close" || recv == nil {
				return
			}
			site, isDef := s, false
			if _, d := s.Instr.(*ssa.Defer); d {
				isDef = true
			}
			if at != nil {
				site, isDef = *at, !inlineLit
				if inlineLit {
					inner[len(rel)] = s
				}
			}
			if _, f, _, isF := loadOfField(recv); isF && f == "wal" {
				rel, names, deferred = append(rel, site), append(names, "the WAL"), append(deferred, isDef)
				return
			}
			if valueDependsOn(recv, func(x ssa.Value) bool {
				cl, isC := x.(*ssa.Call)
				return isC && cl.Call.StaticCallee() != nil && strings.HasSuffix(FuncKey(cl.Call.StaticCallee()), "SSTableManager.currentSSTable")
			}) {
				rel, names, deferred = append(rel, site), append(names, "the table readers"), append(deferred, isDef)
			}
		})
	}
	collect(fn, nil)
	// releases inside a deferred function literal take effect at every return after the defer statement
	eachInstr(fn, func(s Site) {
		d, ok := s.Instr.(*ssa.Defer)
		if !ok {
			return
		}
		if mc, isMC := d.Call.Value.(*ssa.MakeClosure); isMC {
			if g, isF := mc.Fn.(*ssa.Function); isF {
				ss := s
				collect(g, &ss)
			}
		}
	})
	// releases inside a function literal that is called on the spot happen where that call stands
	eachInstr(fn, func(s Site) {
		c, ok := s.Instr.(*ssa.Call)
		if !ok {
			return
		}
		if mc, isMC := c.Call.Value.(*ssa.MakeClosure); isMC {
			if g, isF := mc.Fn.(*ssa.Function); isF {
				ss := s
				inlineLit = true
				collect(g, &ss)
				inlineLit = false
			}
		}
	})
	if len(rel) < 2 {
		r.Bad(rule, key, fn.Pos(), "DB.Close does not release both the WAL and the table readers")
		return
	}
	bad := ""
	for i, a := range rel {
		for j, b := range rel {
			if i == j || a.Block == b.Block || names[i] == names[j] {
				continue
			}
			if dominates(b.Block, a.Block) {
				continue // b already ran (or is registered to run at every return)
			}
			if deferred[j] {
				if !deferred[i] {
					bad = fmt.Sprintf("%s is released at %s before the deferred release of %s is registered", names[i], r.P.Pos(a.Pos()), names[j])
				}
				continue
			}
			removed := map[Edge]bool{}
			for _, su := range b.Block.Succs {
				removed[Edge{b.Block, su}] = true
			}
			// a release inside a literal called on the spot: when every way out of the literal behind the release returns
			// nil, the failure edge of the literal's result lies in front of the release, not behind it
			if in, ok := inner[i]; ok {
				g := in.Fn
				gi := errorResultIndex(g)
				allNil := gi >= 0
				for _, rs := range returnsOf(g) {
					if reachableFromSite(in, rs) {
						if k, _ := returnErrOperand(rs.Instr.(*ssa.Return), gi); k != "nil" {
							allNil = false
						}
					}
				}
				if allNil {
					if cv, isV := a.Instr.(ssa.Value); isV {
						al := map[ssa.Value]bool{cv: true}
						for _, blk := range liveBlocks(fn) {
							if v, _, nonNil, isT := nilTest(blk); isT && (al[v] || al[stripIface(v)]) {
								removed[Edge{blk, nonNil}] = true
							}
						}
					}
				}
			}
			for _, su := range a.Block.Succs {
				if removed[Edge{a.Block, su}] {
					continue
				}
				reach := reachFrom(su, removed)
				for _, rs := range returnsOf(fn) {
					if reach[rs.Block] && rs.Block != b.Block {
						bad = fmt.Sprintf("after releasing %s (%s) the return at %s is reachable without releasing %s", names[i], r.P.Pos(a.Pos()), r.P.Pos(rs.Pos()), names[j])
					}
				}
			}
		}
	}
	if bad != "" {
		r.Bad(rule, key, rel[0].Pos(), bad+": the database is closed for good (a second Close is refused) and the mappings / descriptors stay — e.g. when the last rotation failed and left the appender with a closed writer, wal.Close always fails")
	} else {
		r.OK(rule, key, rel[0].Pos(), "both releases run on every way out")
	}
}

// onlyFromOpen: every call path to fn (up to the given depth) starts in a method called Open — a recovery helper that
// Open delegates to runs under Open's guard ("already open") like Open itself.
func onlyFromOpen(p *Prog, fn *ssa.Function, depth int) bool {
	if fnName(fn) == "Open" && fn.Signature.Recv() != nil {
		return true
	}
	if depth == 0 {
		return false
	}
	sites := p.CallSitesOf(fn)
	if len(sites) == 0 {
		return false
	}
	for _, cs := range sites {
		if cs.Fn == fn || !onlyFromOpen(p, cs.Fn, depth-1) {
			return false
		}
	}
	return true
}

// R-open-failure-releases (C19): an Open method that acquires handles into the fields of its receiver and then fails must
// not leave them to nobody. Either Open releases what it acquired so far on every failing way out (directly, through a
// helper of the receiver, or in a deferred call that looks at the error), or every caller of that Open closes the
// receiver when Open fails. (acquire-failure-closes takes "stored into the receiver" for a hand-over to the caller — this
// rule is where that hand-over is checked.)
func ruleOpenFailureReleases(r *Report) {
	const rule = "open-failure-releases"
	r.Rule(rule, 1, "every Open method that stores freshly acquired closables into its receiver either releases them itself on each error return that follows, or all of its call sites in the module close the receiver on Open's failure edge")
	p := r.P
	n := 0
	for _, fn := range p.ModuleFuncs() {
		if fnName(fn) != "Open" || fn.Signature.Recv() == nil || fn.Parent() != nil || fn.Synthetic != "" || len(fn.Params) == 0 || errorResultIndex(fn) < 0 {
			continue
		}
		if !hasClose(fn.Signature.Recv().Type()) {
			continue
		}
		recv := fn.Params[0]
		// acquisitions stored into receiver fields
		type acq struct {
			store Site
			field string
		}
		var acqs []acq
		eachInstr(fn, func(s Site) {
			st, ok := s.Instr.(*ssa.Store)
			if !ok {
				return
			}
			fa, isFA := st.Addr.(*ssa.FieldAddr)
			if !isFA || paramOrigin(fa.X) != recv || !hasClose(st.Val.Type()) || isErrorType(st.Val.Type()) {
				return
			}
			// the stored value comes from a creating call in this function
			created := valueDependsOn(st.Val, func(x ssa.Value) bool {
				c, isC := x.(*ssa.Call)
				if !isC {
					return false
				}
				if ck := CalleeKey(c); ck != "" {
					return creates(p, c)
				}
				return false
			})
			if !created {
				return
			}
			_, f, _, _ := fieldAddrName(fa)
			acqs = append(acqs, acq{s, f})
		})
		if len(acqs) == 0 {
			continue
		}
		n++
		r.Saw(fn)
		key := rule + "/" + FuncKey(fn)
		// (a) self-cleaning: release blocks = calls of Close on a receiver field, or of a receiver method that does so; a
		// deferred literal that does one of these covers every return behind its registration
		closesFields := func(g *ssa.Function, rcv ssa.Value) bool {
			res := false
			for _, h := range append([]*ssa.Function{g}, moduleReach(p, []*ssa.Function{g})...) {
				if pk := fnPkg(h); pk == nil || fnPkg(fn) == nil || pk != fnPkg(fn) {
					continue
				}
				eachInstr(h, func(s Site) {
					c, ok := s.Instr.(ssa.CallInstruction)
					if !ok {
						return
					}
					cc := c.Common()
					var rv ssa.Value
					nm := ""
					if cc.IsInvoke() {
						rv, nm = cc.Value, cc.Method.Name()
					} else if sc := cc.StaticCallee(); sc != nil && sc.Signature.Recv() != nil && len(cc.Args) > 0 {
						rv, nm = cc.Args[0], fnName(sc)
					}
					if nm != "Close" || rv == nil {
						return
					}
					if _, _, base, isF := loadOfField(rv); isF && base != nil {
						res = true
					}
				})
			}
			return res
		}
		release := map[*ssa.BasicBlock]bool{}
		coveredFrom := map[*ssa.BasicBlock]bool{} // blocks where a cleaning defer was registered
		eachInstr(fn, func(s Site) {
			switch x := s.Instr.(type) {
			case *ssa.Defer:
				if mc, isMC := x.Call.Value.(*ssa.MakeClosure); isMC {
					if lit, isF := mc.Fn.(*ssa.Function); isF && closesFields(lit, nil) {
						coveredFrom[s.Block] = true
					}
				}
			case *ssa.Call:
				cc := x.Common()
				if cc.IsInvoke() && cc.Method.Name() == "Close" {
					if _, _, base, isF := loadOfField(cc.Value); isF && paramOrigin(base) == recv {
						release[s.Block] = true
					}
				} else if sc := cc.StaticCallee(); sc != nil && sc.Signature.Recv() != nil && len(cc.Args) > 0 && paramOrigin(cc.Args[0]) == recv && sc != fn && closesFields(sc, nil) {
					release[s.Block] = true
				}
			}
		})
		selfCleaning := true
		idx := errorResultIndex(fn)
		for _, a := range acqs {
			// a cleaning defer registered in a block that dominates the acquisition covers everything behind it
			cov := false
			for b := range coveredFrom {
				if dominates(b, a.store.Block) {
					cov = true
				}
			}
			if cov {
				continue
			}
			removed := map[Edge]bool{}
			for b := range release {
				for _, su := range b.Succs {
					removed[Edge{b, su}] = true
				}
			}
			for _, su := range a.store.Block.Succs {
				reach := reachFrom(su, removed)
				for _, rs := range returnsOf(fn) {
					if k, _ := returnErrOperand(rs.Instr.(*ssa.Return), idx); k == "nil" {
						continue
					}
					if reach[rs.Block] && !release[rs.Block] {
						selfCleaning = false
					}
				}
			}
		}
		if selfCleaning {
			r.OK(rule, key, fn.Pos(), fmt.Sprintf("%d acquisition(s) into the receiver, released by Open itself when it fails", len(acqs)))
			continue
		}
		// (b) every caller closes the receiver on the failure edge
		var bad []string
		sites := 0
		for _, g := range p.ModuleFuncs() {
			eachInstr(g, func(s Site) {
				c, ok := s.Instr.(*ssa.Call)
				if !ok {
					return
				}
				isThis := false
				for _, t := range p.Callees(c) {
					if t == fn || genericBody(t) == fn {
						isThis = true
					}
				}
				if !isThis {
					return
				}
				sites++
				var rv ssa.Value
				if c.Call.IsInvoke() {
					rv = c.Call.Value
				} else if len(c.Call.Args) > 0 {
					rv = c.Call.Args[0]
				}
				_, fail := errorEdges(s)
				if len(fail) == 0 {
					bad = append(bad, FuncKey(g)+" ("+p.Pos(s.Pos())+", error not tested)")
					return
				}
				// Close on the same receiver value, or the receiver is a field/param the caller's caller owns
				closeBlocks := map[*ssa.BasicBlock]bool{}
				deferredClose := false
				for _, h := range closuresOf(g) {
					eachInstr(h, func(t Site) {
						ci, isC := t.Instr.(ssa.CallInstruction)
						if !isC {
							return
						}
						cc := ci.Common()
						var r2 ssa.Value
						nm := ""
						if cc.IsInvoke() {
							r2, nm = cc.Value, cc.Method.Name()
						} else if sc := cc.StaticCallee(); sc != nil && sc.Signature.Recv() != nil && len(cc.Args) > 0 {
							r2, nm = cc.Args[0], fnName(sc)
						}
						if nm != "Close" || r2 == nil {
							return
						}
						same := stripIface(r2) == stripIface(rv) || valueDependsOn(r2, func(x ssa.Value) bool { return x == rv || x == stripIface(rv) }) || valueDependsOn(rv, func(x ssa.Value) bool { return x == stripIface(r2) })
						if !same {
							return
						}
						if h != g {
							if ds, isD := deferSiteOf(h); isD && ds.Fn == g && precedes(ds, s) {
								deferredClose = true
							}
							return
						}
						if _, isDefer := t.Instr.(*ssa.Defer); isDefer && precedes(t, s) {
							deferredClose = true
							return
						}
						closeBlocks[t.Block] = true
					})
				}
				if deferredClose {
					return
				}
				// the receiver is owned by somebody else (a field of the caller's receiver or a parameter): their Close
				if po := paramOrigin(rv); po != nil {
					return
				}
				if _, _, base, isF := loadOfField(rv); isF && paramOrigin(base) != nil {
					return
				}
				removed := map[Edge]bool{}
				for b := range closeBlocks {
					for _, su := range b.Succs {
						removed[Edge{b, su}] = true
					}
				}
				for _, e := range fail {
					reach := reachFrom(e.To, removed)
					for _, rs := range returnsOf(g) {
						if reach[rs.Block] && !closeBlocks[rs.Block] {
							bad = append(bad, FuncKey(g)+" ("+p.Pos(s.Pos())+")")
							return
						}
					}
				}
			})
		}
		bad = uniqStrings(bad)
		if len(bad) == 0 && sites > 0 {
			r.OK(rule, key, fn.Pos(), fmt.Sprintf("%d acquisition(s) into the receiver; all %d call site(s) close the receiver when Open fails", len(acqs), sites))
		} else if sites == 0 {
			r.OK(rule, key, fn.Pos(), "no call site in the module (library entry point: the caller's Close is documented)")
		} else {
			r.Bad(rule, key, fn.Pos(), fmt.Sprintf("Open stores %d freshly opened handle(s) into its receiver, does not release them when a later step fails, and these callers do not close the receiver on Open's failure either: %s — the files stay open with nobody left to close them (and Close after such an Open may find half of the fields nil)", len(acqs), strings.Join(bad, ", ")))
		}
	}
	if n == 0 {
		r.Missing(rule, rule+"/none", "no Open method acquires handles into its receiver")
	}
}

// blockReaches: b is reachable from a along at least one edge.
func blockReaches(a, b *ssa.BasicBlock) bool {
	seen := map[*ssa.BasicBlock]bool{}
	work := append([]*ssa.BasicBlock(nil), a.Succs...)
	for len(work) > 0 {
		x := work[len(work)-1]
		work = work[:len(work)-1]
		if seen[x] {
			continue
		}
		seen[x] = true
		if x == b {
			return true
		}
		work = append(work, x.Succs...)
	}
	return false
}
