package main

// "Extract function" moves statements out of the functions the rules look at. Where the helper is new — not in the table
// of the reference tree's functions and not one of them under a new name — the loader undoes the extraction before the
// analysis: a scratch copy of the module is made (under TMPDIR, removed again), every call of a new helper is replaced by
// the helper's body with the inliner of golang.org/x/tools (internal/refactor/inline, copied into third_party/ because
// internal packages cannot be imported; it guarantees a behaviour-preserving rewrite and refuses where it cannot), and
// the result is what gets analysed. The evidence names the helpers and the number of calls that were inlined. On the
// reference tree there are no new helpers and nothing is copied.

import (
	"bytes"
	"fmt"
	"go/ast"
	"go/format"
	"go/parser"
	"go/token"
	"go/types"
	"io/fs"
	"os"
	"path/filepath"
	"sort"
	"strconv"
	"strings"

	"golang.org/x/tools/go/ast/astutil"
	"golang.org/x/tools/go/packages"

	"verif/sa/third_party/xtools/inline"
)

// inlineFresh writes a copy of the module at repo in which the calls of the functions named by freshKeys (ObjKey form)
// are inlined, and returns its directory, the number of inlined calls and a description.
var blockSerial int

func inlineFresh(repo string, env []string, freshKeys map[string]bool) (dir string, done int, notes []string, err error) {
	dir, err = os.MkdirTemp("", "sstnorm.")
	if err != nil {
		return "", 0, nil, err
	}
	// copy the module (sources only; no VCS data, no build output)
	err = filepath.WalkDir(repo, func(path string, d fs.DirEntry, werr error) error {
		if werr != nil {
			return werr
		}
		rel, _ := filepath.Rel(repo, path)
		if d.IsDir() {
			if d.Name() == ".git" {
				return filepath.SkipDir
			}
			return os.MkdirAll(filepath.Join(dir, rel), 0o755)
		}
		if !d.Type().IsRegular() {
			return nil
		}
		b, rerr := os.ReadFile(path)
		if rerr != nil {
			return rerr
		}
		return os.WriteFile(filepath.Join(dir, rel), b, 0o644)
	})
	if err != nil {
		os.RemoveAll(dir)
		return "", 0, nil, err
	}
	refused := map[string]bool{}
	// what the last round wrote with the second way (blockInline): taken back when the package does not compile with it
	type written struct {
		file, key string
		prev      []byte
		xt        bool
	}
	forceBlock := map[string]bool{}
	var pending []written
	for round := 0; round <= 24; round++ {
		cfg := &packages.Config{Mode: packages.LoadSyntax, Dir: dir, Tests: false, Env: append(os.Environ(), env...)}
		pkgs, lerr := packages.Load(cfg, "./...")
		if lerr != nil {
			break
		}
		reverted := false
		for _, pk := range pkgs {
			if len(pk.Errors) == 0 {
				continue
			}
			for _, w := range pending {
				for _, gf := range pk.GoFiles {
					if gf == w.file {
						_ = os.WriteFile(w.file, w.prev, 0o644)
						if w.xt {
							forceBlock[w.key] = true // the inliner's result does not compile (v0.29.0 puts an untyped nil where the parameter was): the second way binds the arguments to typed variables
						} else {
							refused[w.key] = true
						}
						done--
						reverted = true
						notes = append(notes, "taken back: "+w.key+" ("+pk.Errors[0].Msg+")")
					}
				}
			}
		}
		pending = nil
		if reverted {
			continue
		}
		if round == 24 {
			break
		}
		progress := false
		// files written in this round: their syntax trees are stale, calls into and out of them wait for the next round
		dirty := map[string]bool{}
		for _, pk := range pkgs {
			if len(pk.Errors) > 0 || pk.TypesInfo == nil {
				continue
			}
			// declarations of the fresh helpers of this package
			decls := map[*types.Func]*ast.FuncDecl{}
			declFile := map[*types.Func]string{}
			for i, f := range pk.Syntax {
				for _, d := range f.Decls {
					fd, ok := d.(*ast.FuncDecl)
					if !ok || fd.Body == nil {
						continue
					}
					if o, ok := pk.TypesInfo.Defs[fd.Name].(*types.Func); ok && freshKeys[ObjKey(o)] {
						decls[o] = fd
						declFile[o] = pk.CompiledGoFiles[i]
					}
				}
			}
			if len(decls) == 0 {
				continue
			}
			for i, f := range pk.Syntax {
				name := pk.CompiledGoFiles[i]
				if strings.HasSuffix(name, "_test.go") {
					continue
				}
				// one call per file and round: the file is re-parsed before the next one
				var call *ast.CallExpr
				var callee *types.Func
				ast.Inspect(f, func(n ast.Node) bool {
					if call != nil {
						return false
					}
					ce, ok := n.(*ast.CallExpr)
					if !ok {
						return true
					}
					var id *ast.Ident
					switch x := ce.Fun.(type) {
					case *ast.Ident:
						id = x
					case *ast.SelectorExpr:
						id = x.Sel
					}
					if id == nil {
						return true
					}
					o, ok := pk.TypesInfo.Uses[id].(*types.Func)
					if !ok || decls[o] == nil {
						return true
					}
					key := fmt.Sprintf("%s@%s:%d", ObjKey(o), name, pk.Fset.Position(ce.Pos()).Line)
					if refused[key] {
						return true
					}
					// not inside the helper itself (recursion)
					if fd := decls[o]; fd.Pos() <= ce.Pos() && ce.End() <= fd.End() && declFile[o] == name {
						return true
					}
					call, callee = ce, o
					return false
				})
				if call == nil {
					continue
				}
				key := fmt.Sprintf("%s@%s:%d", ObjKey(callee), name, pk.Fset.Position(call.Pos()).Line)
				if dirty[name] || dirty[declFile[callee]] {
					progress = true
					continue
				}
				content, rerr := os.ReadFile(name)
				calleeContent, rerr2 := os.ReadFile(declFile[callee])
				if rerr != nil || rerr2 != nil {
					refused[key] = true
					continue
				}
				var res *inline.Result
				if !forceBlock[key] {
					ce, aerr := inline.AnalyzeCallee(func(string, ...any) {}, pk.Fset, pk.Types, pk.TypesInfo, decls[callee], calleeContent)
					if aerr != nil {
						refused[key] = true
						notes = append(notes, "not inlined: "+ObjKey(callee)+": "+aerr.Error())
						continue
					}
					var ierr error
					res, ierr = inline.Inline(&inline.Caller{Fset: pk.Fset, Types: pk.Types, Info: pk.TypesInfo, File: f, Call: call, Content: content}, ce, &inline.Options{})
					if ierr != nil {
						refused[key] = true
						notes = append(notes, "not inlined: "+ObjKey(callee)+": "+ierr.Error())
						continue
					}
				}
				if res == nil || res.Literalized {
					// the helper's body could only be put there as a function literal that is called on the spot: that is
					// no closer to the shape before the extraction than the call itself. The second way (blockInline)
					// evaluates the helper's body in front of the statement.
					blockSerial++
					out, berr := blockInline(pk, f, content, call, callee, decls[callee], nil, calleeContent, blockSerial)
					if berr != nil {
						refused[key] = true
						notes = append(notes, "left as a call: "+ObjKey(callee)+" at "+strings.TrimPrefix(name, dir+"/")+" ("+berr.Error()+")")
						continue
					}
					if werr := os.WriteFile(name, out, 0o644); werr != nil {
						refused[key] = true
						continue
					}
					pending = append(pending, written{name, key, content, false})
					dirty[name] = true
					notes = append(notes, "inlined "+ObjKey(callee)+" at "+strings.TrimPrefix(name, dir+"/")+" (body evaluated in front of the statement)")
					done++
					progress = true
					continue
				}
				if werr := os.WriteFile(name, res.Content, 0o644); werr != nil {
					refused[key] = true
					continue
				}
				notes = append(notes, "inlined "+ObjKey(callee)+" at "+strings.TrimPrefix(name, dir+"/"))
				pending = append(pending, written{name, key, content, true})
				dirty[name] = true
				done++
				progress = true
			}
		}
		if !progress {
			break
		}
	}
	// helpers that no call is left of are taken out of the copy: rules that look at every function of a package would
	// judge a body that nothing runs any more
	if done > 0 {
		cfg := &packages.Config{Mode: packages.LoadSyntax, Dir: dir, Tests: false, Env: append(os.Environ(), env...)}
		if pkgs, lerr := packages.Load(cfg, "./..."); lerr == nil {
			used := map[types.Object]bool{}
			for _, pk := range pkgs {
				if pk.TypesInfo == nil {
					continue
				}
				for _, o := range pk.TypesInfo.Uses {
					used[o] = true
				}
			}
			type cut struct{ from, to int }
			cuts := map[string][]cut{}
			for _, pk := range pkgs {
				if len(pk.Errors) > 0 || pk.TypesInfo == nil {
					continue
				}
				for i, f := range pk.Syntax {
					for _, d := range f.Decls {
						fd, ok := d.(*ast.FuncDecl)
						if !ok {
							continue
						}
						o, ok := pk.TypesInfo.Defs[fd.Name].(*types.Func)
						if !ok || !freshKeys[ObjKey(o)] || used[o] {
							continue
						}
						from := fd.Pos()
						if fd.Doc != nil {
							from = fd.Doc.Pos()
						}
						cuts[pk.CompiledGoFiles[i]] = append(cuts[pk.CompiledGoFiles[i]], cut{pk.Fset.Position(from).Offset, pk.Fset.Position(fd.End()).Offset})
						notes = append(notes, "removed "+ObjKey(o)+" (no call left)")
					}
				}
			}
			backup := map[string][]byte{}
			for name, cs := range cuts {
				b, rerr := os.ReadFile(name)
				if rerr != nil {
					continue
				}
				backup[name] = append([]byte(nil), b...)
				sort.Slice(cs, func(i, j int) bool { return cs[i].from > cs[j].from })
				for _, c := range cs {
					if c.from >= 0 && c.to <= len(b) && c.from < c.to {
						b = append(b[:c.from:c.from], b[c.to:]...)
					}
				}
				// an import that only the removed helpers used goes with them
				fs2 := token.NewFileSet()
				if af, perr := parser.ParseFile(fs2, name, b, parser.ParseComments); perr == nil {
					dropped := false
					for _, im := range af.Imports {
						path, _ := strconv.Unquote(im.Path.Value)
						if im.Name != nil && (im.Name.Name == "_" || im.Name.Name == ".") {
							continue
						}
						if !astutil.UsesImport(af, path) {
							nm := ""
							if im.Name != nil {
								nm = im.Name.Name
							}
							if astutil.DeleteNamedImport(fs2, af, nm, path) {
								dropped = true
							}
						}
					}
					if dropped {
						var buf bytes.Buffer
						if format.Node(&buf, fs2, af) == nil {
							b = buf.Bytes()
						}
					}
				}
				_ = os.WriteFile(name, b, 0o644)
			}
			// a removed method may have been what made its type implement an interface (no use of the method itself is
			// recorded for that): when the copy does not compile without the helpers, they stay
			if len(backup) > 0 {
				broken := false
				if pkgs2, lerr2 := packages.Load(cfg, "./..."); lerr2 != nil {
					broken = true
				} else {
					for _, pk := range pkgs2 {
						if len(pk.Errors) > 0 {
							broken = true
						}
					}
				}
				if broken {
					for name, b := range backup {
						_ = os.WriteFile(name, b, 0o644)
					}
					var kept []string
					for _, n := range notes {
						if !strings.HasPrefix(n, "removed ") {
							kept = append(kept, n)
						}
					}
					notes = append(kept, "the helpers without a call left stay in the copy (it does not compile without them)")
				}
			}
		}
	}
	sort.Strings(notes)
	_ = token.NoPos
	return dir, done, notes, nil
}

// blockInline is the second way of undoing an extraction, for the calls the inliner above could only replace by a function
// literal (a helper with more than one return in a place where a value is needed). The call is evaluated in front of the
// statement it is part of: the arguments are bound to the helper's parameters in a block of their own, the helper's body
// follows inside a labelled `switch { default: … }` in which every return assigns the results and leaves the switch, and the
// call in the statement is replaced by the results. That is behaviour preserving under the conditions tested here (Go
// evaluates the calls of a statement in lexical order, so a call can be taken out of a statement when nothing that calls,
// receives or can fail is evaluated in front of it; names mean the same at both places; no defer, recover or recursion).
// It returns the new content of the caller's file.
func blockInline(pk *packages.Package, f *ast.File, content []byte, call *ast.CallExpr, callee *types.Func, fd *ast.FuncDecl, calleeFile *ast.File, calleeContent []byte, serial int) ([]byte, error) {
	fset := pk.Fset
	info := pk.TypesInfo
	off := func(p token.Pos) int { return fset.Position(p).Offset }
	sig := callee.Type().(*types.Signature)
	if sig.TypeParams() != nil || sig.RecvTypeParams() != nil || sig.Variadic() {
		return nil, fmt.Errorf("generic or variadic helper")
	}
	// the path from the file to the call
	var path []ast.Node
	var stack []ast.Node
	ast.Inspect(f, func(n ast.Node) bool {
		if n == nil {
			stack = stack[:len(stack)-1]
			return true
		}
		stack = append(stack, n)
		if n == ast.Node(call) {
			path = append([]ast.Node(nil), stack...)
		}
		return true
	})
	if path == nil {
		return nil, fmt.Errorf("call not found")
	}
	// the statement of a statement list that the call belongs to
	si := -1
	for i := len(path) - 2; i >= 1; i-- {
		if _, isStmt := path[i].(ast.Stmt); !isStmt {
			continue
		}
		switch path[i-1].(type) {
		case *ast.BlockStmt, *ast.CaseClause, *ast.CommClause:
			si = i
		}
		if si >= 0 {
			break
		}
		if _, isLit := path[i].(*ast.BlockStmt); isLit {
			break
		}
	}
	if si < 0 {
		return nil, fmt.Errorf("call is not part of a statement of a block")
	}
	for i := si; i < len(path); i++ {
		if _, isLit := path[i].(*ast.FuncLit); isLit {
			return nil, fmt.Errorf("call sits in a function literal inside the statement")
		}
	}
	if _, isLabeled := path[si-1].(*ast.LabeledStmt); isLabeled {
		return nil, fmt.Errorf("labelled statement")
	}
	stmt := path[si].(ast.Stmt)
	// nothing that calls, receives or can fail is evaluated in front of the call, and the call is evaluated on every path
	quiet := func(n ast.Node) bool {
		if n == nil {
			return true
		}
		ok := true
		ast.Inspect(n, func(m ast.Node) bool {
			switch x := m.(type) {
			case *ast.CallExpr, *ast.IndexExpr, *ast.SliceExpr, *ast.StarExpr, *ast.TypeAssertExpr, *ast.FuncLit:
				ok = false
			case *ast.UnaryExpr:
				if x.Op == token.ARROW {
					ok = false
				}
			case *ast.BinaryExpr:
				if x.Op == token.QUO || x.Op == token.REM || x.Op == token.SHL || x.Op == token.SHR {
					ok = false
				}
			}
			return ok
		})
		return ok
	}
	for i := si; i < len(path)-1; i++ {
		child := path[i+1]
		switch x := path[i].(type) {
		case *ast.ExprStmt, *ast.ParenExpr:
		case *ast.AssignStmt:
			for _, l := range x.Lhs {
				if !quiet(l) {
					return nil, fmt.Errorf("left side is evaluated first")
				}
			}
			for _, r := range x.Rhs {
				if ast.Node(r) == child {
					break
				}
				if !quiet(r) {
					return nil, fmt.Errorf("an operand in front of the call")
				}
			}
			if x.Tok != token.ASSIGN && x.Tok != token.DEFINE {
				return nil, fmt.Errorf("compound assignment")
			}
		case *ast.ReturnStmt:
			for _, r := range x.Results {
				if ast.Node(r) == child {
					break
				}
				if !quiet(r) {
					return nil, fmt.Errorf("an operand in front of the call")
				}
			}
		case *ast.IfStmt:
			if !(ast.Node(x.Init) == child || (x.Init == nil && ast.Node(x.Cond) == child)) {
				return nil, fmt.Errorf("call is not the first thing the if statement evaluates")
			}
		case *ast.DeclStmt:
			gd, ok := x.Decl.(*ast.GenDecl)
			if !ok || gd.Tok != token.VAR || len(gd.Specs) != 1 {
				return nil, fmt.Errorf("declaration")
			}
		case *ast.GenDecl:
		case *ast.ValueSpec:
			for _, r := range x.Values {
				if ast.Node(r) == child {
					break
				}
				if !quiet(r) {
					return nil, fmt.Errorf("an operand in front of the call")
				}
			}
		case *ast.CallExpr:
			if ast.Node(x.Fun) == child {
				return nil, fmt.Errorf("call is the function of another call")
			}
			if !quiet(x.Fun) {
				return nil, fmt.Errorf("an operand in front of the call")
			}
			for _, a := range x.Args {
				if ast.Node(a) == child {
					break
				}
				if !quiet(a) {
					return nil, fmt.Errorf("an operand in front of the call")
				}
			}
		case *ast.BinaryExpr:
			if x.Op == token.LAND || x.Op == token.LOR {
				if ast.Node(x.X) != child {
					return nil, fmt.Errorf("call is evaluated conditionally")
				}
			} else if ast.Node(x.Y) == child && !quiet(x.X) {
				return nil, fmt.Errorf("an operand in front of the call")
			}
		case *ast.UnaryExpr:
			if x.Op == token.ARROW {
				return nil, fmt.Errorf("receive")
			}
		case *ast.SelectorExpr:
		case *ast.KeyValueExpr:
			if ast.Node(x.Value) == child && !quiet(x.Key) {
				return nil, fmt.Errorf("an operand in front of the call")
			}
		case *ast.CompositeLit:
			for _, e := range x.Elts {
				if ast.Node(e) == child {
					break
				}
				if !quiet(e) {
					return nil, fmt.Errorf("an operand in front of the call")
				}
			}
		default:
			return nil, fmt.Errorf("call sits in a %T", x)
		}
	}
	// the helper: no defer, recover, labels, goto; its package-level names mean the same at the call
	if fd.Body == nil {
		return nil, fmt.Errorf("no body")
	}
	bad := ""
	var returns []*ast.ReturnStmt
	var visit func(n ast.Node, inLit bool)
	visit = func(n ast.Node, inLit bool) {
		ast.Inspect(n, func(m ast.Node) bool {
			switch x := m.(type) {
			case *ast.FuncLit:
				if !inLit {
					visit(x.Body, true)
					return false
				}
			case *ast.DeferStmt:
				if !inLit {
					bad = "defer"
				}
			case *ast.LabeledStmt:
				bad = "label"
			case *ast.BranchStmt:
				if x.Tok == token.GOTO {
					bad = "goto"
				}
			case *ast.ReturnStmt:
				if !inLit {
					returns = append(returns, x)
				}
			case *ast.Ident:
				if x.Name == "recover" {
					if _, isB := info.Uses[x].(*types.Builtin); isB {
						bad = "recover"
					}
				}
			}
			return true
		})
	}
	visit(fd.Body, false)
	if bad != "" {
		return nil, fmt.Errorf("helper uses %s", bad)
	}
	inner := pk.Types.Scope().Innermost(call.Pos())
	if inner == nil {
		return nil, fmt.Errorf("no scope at the call")
	}
	capture := ""
	ast.Inspect(fd, func(m ast.Node) bool {
		id, ok := m.(*ast.Ident)
		if !ok {
			return true
		}
		o := info.Uses[id]
		if o == nil {
			return true
		}
		if pn, isPkg := o.(*types.PkgName); isPkg {
			_, at := inner.LookupParent(id.Name, call.Pos())
			if apn, same := at.(*types.PkgName); !same || apn.Imported() != pn.Imported() {
				capture = id.Name
			}
			return true
		}
		if o.Parent() == pk.Types.Scope() || o.Parent() == types.Universe {
			if _, at := inner.LookupParent(id.Name, call.Pos()); at != o {
				capture = id.Name
			}
		}
		return true
	})
	if capture != "" {
		return nil, fmt.Errorf("the name %s means something else at the call", capture)
	}
	src := func(c []byte, n ast.Node) string { return string(c[off(n.Pos()):off(n.End())]) }
	pfx := fmt.Sprintf("_i%d_", serial)
	var pre, blk strings.Builder
	// receiver and parameters
	type bind struct{ name, typ, arg string }
	var binds []bind
	if fd.Recv != nil && len(fd.Recv.List) == 1 {
		sel, ok := call.Fun.(*ast.SelectorExpr)
		if !ok {
			return nil, fmt.Errorf("method called without a receiver expression")
		}
		if s := info.Selections[sel]; s == nil || s.Kind() != types.MethodVal || len(s.Index()) != 1 {
			return nil, fmt.Errorf("method expression or promoted method")
		}
		if !quiet(sel.X) {
			return nil, fmt.Errorf("receiver expression calls")
		}
		rt := sig.Recv().Type()
		at := info.TypeOf(sel.X)
		arg := "(" + src(content, sel.X) + ")"
		_, rp := rt.(*types.Pointer)
		_, ap := at.(*types.Pointer)
		switch {
		case rp && !ap:
			arg = "&" + arg
		case !rp && ap:
			arg = "*" + arg
		}
		name := "_"
		if ns := fd.Recv.List[0].Names; len(ns) == 1 {
			name = ns[0].Name
		}
		binds = append(binds, bind{name, src(calleeContent, fd.Recv.List[0].Type), arg})
	} else if _, ok := call.Fun.(*ast.Ident); !ok {
		return nil, fmt.Errorf("function called through a selector")
	}
	ai := 0
	for _, fl := range fd.Type.Params.List {
		names := fl.Names
		if len(names) == 0 {
			names = []*ast.Ident{{Name: "_"}}
		}
		for _, nm := range names {
			if ai >= len(call.Args) {
				return nil, fmt.Errorf("argument count (a call that spreads a tuple)")
			}
			binds = append(binds, bind{nm.Name, src(calleeContent, fl.Type), src(content, call.Args[ai])})
			ai++
		}
	}
	if ai != len(call.Args) {
		return nil, fmt.Errorf("argument count")
	}
	for i := range call.Args {
		if i > 0 && !quiet(call.Args[i-1]) && !quiet(call.Args[i]) {
			// more than one argument that calls: they stay in order below anyway
			continue
		}
	}
	// results
	type res struct{ name, typ string }
	var results []res
	if fd.Type.Results != nil {
		for _, fl := range fd.Type.Results.List {
			if len(fl.Names) == 0 {
				results = append(results, res{"", src(calleeContent, fl.Type)})
			}
			for _, nm := range fl.Names {
				results = append(results, res{nm.Name, src(calleeContent, fl.Type)})
			}
		}
	}
	var outs []string
	for i, r := range results {
		o := fmt.Sprintf("%sr%d", pfx, i)
		outs = append(outs, o)
		fmt.Fprintf(&pre, "var %s %s\n", o, r.typ)
	}
	for i, b := range binds {
		fmt.Fprintf(&pre, "var %sp%d %s = %s\n", pfx, i, b.typ, b.arg)
	}
	blk.WriteString("{\n")
	for i, b := range binds {
		if b.name == "_" {
			fmt.Fprintf(&blk, "_ = %sp%d\n", pfx, i)
			continue
		}
		fmt.Fprintf(&blk, "%s := %sp%d\n_ = %s\n", b.name, pfx, i, b.name)
	}
	for _, r := range results {
		if r.name != "" && r.name != "_" {
			fmt.Fprintf(&blk, "var %s %s\n_ = %s\n", r.name, r.typ, r.name)
		}
	}
	label := pfx + "done"
	errLast := false
	if n := sig.Results().Len(); n > 0 {
		errLast = types.Identical(sig.Results().At(n-1).Type(), types.Universe.Lookup("error").Type())
	}
	// the body with its returns rewritten (from the last to the first, by offset in the helper's file)
	body := calleeContent[off(fd.Body.Lbrace)+1 : off(fd.Body.Rbrace)]
	base := off(fd.Body.Lbrace) + 1
	sort.Slice(returns, func(i, j int) bool { return returns[i].Pos() > returns[j].Pos() })
	for _, rs := range returns {
		var rep strings.Builder
		rep.WriteString("{ ")
		switch {
		case len(results) == 0:
		case len(rs.Results) == 0:
			var named []string
			for _, r := range results {
				if r.name == "" || r.name == "_" {
					return nil, fmt.Errorf("bare return with unnamed results")
				}
				named = append(named, r.name)
			}
			fmt.Fprintf(&rep, "%s = %s; ", strings.Join(outs, ", "), strings.Join(named, ", "))
		default:
			var vals []string
			for _, e := range rs.Results {
				vals = append(vals, src(calleeContent, e))
			}
			fmt.Fprintf(&rep, "%s = %s; ", strings.Join(outs, ", "), strings.Join(vals, ", "))
		}
		// the error result: leave on two ways, one for "failed" and one for "succeeded" (assigning nil where it is nil
		// changes nothing). The loader tells the two apart where they meet again (normphi.go); a returned `g()` or
		// `err` would otherwise be a value it knows nothing about.
		if k := len(results) - 1; k >= 0 && errLast {
			plainNil := false
			if len(rs.Results) == len(results) {
				if id, isId := rs.Results[k].(*ast.Ident); isId && id.Name == "nil" {
					plainNil = true
				}
			}
			if !plainNil {
				fmt.Fprintf(&rep, "if %s != nil { break %s }; %s = nil; ", outs[k], label, outs[k])
			}
		}
		fmt.Fprintf(&rep, "break %s }", label)
		from, to := off(rs.Pos())-base, off(rs.End())-base
		body = append(append(append([]byte(nil), body[:from]...), rep.String()...), body[to:]...)
	}
	if len(returns) > 0 {
		fmt.Fprintf(&blk, "%s:\nswitch {\ndefault:\n%s\n}\n", label, body)
	} else {
		fmt.Fprintf(&blk, "{\n%s\n}\n", body)
	}
	blk.WriteString("}\n")
	// the statement with the call replaced by the results
	st := content[off(stmt.Pos()):off(stmt.End())]
	cf, ct := off(call.Pos())-off(stmt.Pos()), off(call.End())-off(stmt.Pos())
	var stmtText string
	if _, isExpr := stmt.(*ast.ExprStmt); isExpr && ast.Node(stmt.(*ast.ExprStmt).X) == ast.Node(call) {
		stmtText = ""
		for _, o := range outs {
			stmtText += "_ = " + o + "\n"
		}
	} else {
		if len(outs) == 0 {
			return nil, fmt.Errorf("a helper without results in a place where a value is needed")
		}
		stmtText = string(st[:cf]) + strings.Join(outs, ", ") + string(st[ct:])
	}
	var out []byte
	out = append(out, content[:off(stmt.Pos())]...)
	out = append(out, pre.String()...)
	out = append(out, blk.String()...)
	out = append(out, stmtText...)
	out = append(out, content[off(stmt.End()):]...)
	return out, nil
}
