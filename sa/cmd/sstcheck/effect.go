package main

// E-EFFECT: read-only API call graphs perform no store to state that is shared between concurrent callers.
// "Shared" is an interprocedural, context-insensitive points-to-free approximation: the receiver of an entry
// method is shared; pointer-like values loaded from / derived from shared values are shared; a callee
// parameter is shared when some call site in scope passes a shared argument; a struct field "holds shared" when
// a shared value is stored into it anywhere in scope (so loads of that field from a private object are shared).
// Objects created during the call (allocations, pool buffers until they are put back, iterators returned to the
// caller) are private and may be written.

import (
	"fmt"
	"go/token"
	"go/types"
	"sort"
	"strings"

	"golang.org/x/tools/go/ssa"
)

type effect struct {
	p        *Prog
	shared   map[ssa.Value]bool
	fieldSh  map[string]bool // "type.field" holds a shared value
	scope    map[*ssa.Function]bool
	order    []*ssa.Function
	entryRcv map[*ssa.Function]bool // entry methods whose receiver is shared
	private  map[*ssa.Function]bool // entry methods whose receiver is private (iterators)
}

func pointerLike(t types.Type) bool {
	switch t.Underlying().(type) {
	case *types.Pointer, *types.Slice, *types.Map, *types.Chan, *types.Interface, *types.Signature:
		return true
	}
	return false
}

// reviewed external callees that are safe to call with shared arguments (read-only on them or internally synchronised)
var threadSafeExternal = map[string]string{
	"golang.org/x/exp/mmap.ReaderAt.ReadAt":             "reads the mapping; documented safe for concurrent use",
	"golang.org/x/exp/mmap.ReaderAt.Len":                "read-only",
	"github.com/steakknife/bloomfilter.Filter.Contains": "takes the filter's RWMutex in read mode",
	"capnproto.org/go/capnp/v3/exp/bufferpool.Pool.Get": "sync.Pool buckets",
	"capnproto.org/go/capnp/v3/exp/bufferpool.Pool.Put": "sync.Pool buckets",
	"bytes.Compare":                       "read-only",
	"bytes.Equal":                         "read-only",
	"bytes.NewReader":                     "wraps the slice read-only",
	"errors.Is":                           "read-only",
	"errors.As":                           "read-only",
	"errors.Join":                         "read-only",
	"fmt.Errorf":                          "formats its arguments",
	"fmt.Sprintf":                         "formats its arguments",
	"encoding/binary.littleEndian.Uint32": "read-only",
	"encoding/binary.littleEndian.Uint64": "read-only",
	"io.Writer.Write":                     "hash writers created in the call are private; the argument is only read",
	"hash.Hash.Write":                     "argument is only read",
	"golang.org/x/exp/slices.BinarySearchFunc":                    "read-only search",
	"slices.BinarySearchFunc":                                     "read-only search",
	"golang.org/x/exp/slices.IndexFunc":                           "read-only search",
	"github.com/golang/snappy.Decode":                             "reads src, writes the private dst",
	"github.com/golang/snappy.DecodedLen":                         "read-only",
	"google.golang.org/protobuf/proto.Unmarshal":                  "reads the bytes, writes the caller-supplied message",
	"google.golang.org/protobuf/proto.UnmarshalOptions.Unmarshal": "reads the options and bytes, writes the caller-supplied message",
}

func newEffect(p *Prog) *effect {
	return &effect{p: p, shared: map[ssa.Value]bool{}, fieldSh: map[string]bool{}, scope: map[*ssa.Function]bool{}, entryRcv: map[*ssa.Function]bool{}, private: map[*ssa.Function]bool{}}
}

func (e *effect) addEntry(fn *ssa.Function, receiverShared bool) {
	if fn == nil || fn.Blocks == nil {
		return
	}
	if receiverShared {
		e.entryRcv[fn] = true
		if len(fn.Params) > 0 {
			e.shared[fn.Params[0]] = true
		}
	} else {
		e.private[fn] = true
	}
	e.visit(fn)
}

// outside the statement: the property speaks about the default (in-memory) index loaders
func outsideStatement(fn *ssa.Function) bool {
	if rc := fn.Signature.Recv(); rc != nil {
		switch typeShort(rc.Type()) {
		case "sstables.DiskKeyIndex", "sstables.DiskKeyIndexIterator":
			return true
		}
	}
	return false
}

func (e *effect) visit(fn *ssa.Function) {
	if fn == nil || fn.Blocks == nil || e.scope[fn] || !inModule(fn) || outsideStatement(fn) {
		return
	}
	e.scope[fn] = true
	e.order = append(e.order, fn)
	for _, a := range fn.AnonFuncs {
		e.visit(a)
	}
	eachInstr(fn, func(s Site) {
		if c, ok := s.Instr.(ssa.CallInstruction); ok {
			for _, t := range e.p.Callees(c) {
				e.visit(t)
			}
		}
	})
}

func fieldKeyOf(v ssa.Value) (string, ssa.Value, bool) {
	t, f, base, ok := fieldAddrName(v)
	if !ok {
		return "", nil, false
	}
	return t + "." + f, base, true
}

// solve propagates sharedness to a fix point.
func (e *effect) solve() {
	changed := true
	mark := func(v ssa.Value) {
		if v != nil && !e.shared[v] && pointerLike(v.Type()) {
			e.shared[v] = true
			changed = true
		}
	}
	for iter := 0; changed && iter < 100; iter++ {
		changed = false
		for _, fn := range e.order {
			// free variables bound to shared values
			if fn.Parent() != nil {
				eachInstr(fn.Parent(), func(s Site) {
					if mc, ok := s.Instr.(*ssa.MakeClosure); ok && mc.Fn == fn {
						for i, b := range mc.Bindings {
							if e.shared[b] && i < len(fn.FreeVars) {
								mark(fn.FreeVars[i])
							}
						}
					}
				})
			}
			eachInstr(fn, func(s Site) {
				switch x := s.Instr.(type) {
				case *ssa.FieldAddr:
					if e.shared[x.X] {
						mark(x)
					}
				case *ssa.Field:
					if k, _, ok := fieldKeyOf(x); ok && e.fieldSh[k] {
						mark(x)
					}
				case *ssa.IndexAddr:
					if e.shared[x.X] {
						mark(x)
					}
				case *ssa.Index:
					if e.shared[x.X] {
						mark(x)
					}
				case *ssa.Lookup:
					if e.shared[x.X] {
						mark(x)
					}
				case *ssa.Slice:
					if e.shared[x.X] {
						mark(x)
					}
				case *ssa.UnOp:
					if x.Op == token.MUL {
						if e.shared[x.X] {
							mark(x)
						}
						if k, _, ok := fieldKeyOf(x.X); ok && e.fieldSh[k] {
							mark(x)
						}
						// load from a cell that was stored a shared value
						if isCell(x.X) {
							vals, _ := reachingStores(x)
							for _, v := range vals {
								if e.shared[v] {
									mark(x)
								}
							}
						}
					}
				case *ssa.Phi:
					for _, ed := range x.Edges {
						if e.shared[ed] {
							mark(x)
						}
					}
				case *ssa.ChangeInterface, *ssa.MakeInterface, *ssa.ChangeType, *ssa.TypeAssert, *ssa.Convert:
					ops := s.Instr.Operands(nil)
					if len(ops) > 0 && *ops[0] != nil && e.shared[*ops[0]] {
						mark(s.Instr.(ssa.Value))
					}
				case *ssa.Extract:
					if e.shared[x.Tuple] {
						mark(x)
					}
				case *ssa.Store:
					if e.shared[x.Val] {
						if k, _, ok := fieldKeyOf(x.Addr); ok && !e.fieldSh[k] {
							e.fieldSh[k] = true
							changed = true
						}
					}
				case ssa.CallInstruction:
					cc := x.Common()
					callees := e.p.Callees(x)
					for _, t := range callees {
						if !e.scope[t] {
							continue
						}
						args := cc.Args
						params := t.Params
						if cc.IsInvoke() {
							// receiver first
							if e.shared[cc.Value] && len(params) > 0 {
								mark(params[0])
							}
							for i, a := range args {
								if e.shared[a] && i+1 < len(params) {
									mark(params[i+1])
								}
							}
						} else {
							for i, a := range args {
								if e.shared[a] && i < len(params) {
									mark(params[i])
								}
							}
						}
						// results
						for _, rs := range returnsOf(t) {
							for _, op := range rs.Instr.(*ssa.Return).Results {
								if e.shared[op] {
									if v := x.Value(); v != nil {
										if _, isTuple := v.Type().(*types.Tuple); isTuple {
											if !e.shared[v] {
												e.shared[v] = true
												changed = true
											}
										} else {
											mark(v)
										}
									}
								}
							}
						}
					}
				}
			})
		}
	}
}

type effViolation struct {
	fn   *ssa.Function
	pos  token.Pos
	what string
}

func (e *effect) violations() []effViolation {
	var out []effViolation
	for _, fn := range e.order {
		eachInstr(fn, func(s Site) {
			switch x := s.Instr.(type) {
			case *ssa.Store:
				if e.shared[x.Addr] {
					what := "store through a shared pointer"
					if k, _, ok := fieldKeyOf(x.Addr); ok {
						what = "store to field " + k + " of a shared object"
					} else if _, ok := x.Addr.(*ssa.IndexAddr); ok {
						what = "store into an element of a shared slice/array"
					}
					out = append(out, effViolation{fn, x.Pos(), what})
				}
			case *ssa.MapUpdate:
				if e.shared[x.Map] {
					out = append(out, effViolation{fn, x.Pos(), "update of a shared map"})
				}
			case ssa.CallInstruction:
				cc := x.Common()
				if b, ok := cc.Value.(*ssa.Builtin); ok {
					if (b.Name() == "copy" || b.Name() == "clear") && len(cc.Args) > 0 && e.shared[cc.Args[0]] {
						out = append(out, effViolation{fn, x.Pos(), b.Name() + " into shared memory"})
					}
					return
				}
				callees := e.p.Callees(x)
				inScope := false
				for _, t := range callees {
					if e.scope[t] {
						inScope = true
					}
				}
				if inScope {
					return
				}
				// leaves the module: any shared argument / receiver must be on the reviewed list
				ck := CalleeKey(x)
				sharedArg := false
				if cc.IsInvoke() && e.shared[cc.Value] {
					sharedArg = true
				}
				for _, a := range cc.Args {
					if e.shared[a] {
						sharedArg = true
					}
				}
				if !sharedArg {
					return
				}
				if _, ok := threadSafeExternal[ck]; ok {
					return
				}
				// comparator / mapper interfaces supplied by the user: pure by contract
				if strings.HasSuffix(ck, "Comparator.Compare") || strings.HasSuffix(ck, "ByteKeyMapper.MapBytes") {
					return
				}
				out = append(out, effViolation{fn, x.Pos(), "shared state is passed to " + ck + ", which is not on the reviewed thread-safe list"})
			}
		})
	}
	sort.Slice(out, func(i, j int) bool { return out[i].pos < out[j].pos })
	return out
}

func ruleEffect(r *Report) {
	const rule = "effect"
	r.Rule(rule, 7, "the documented concurrent read APIs (table reader Contains/Get/ScanStartingAt/ScanRange with the default index, the range iterator's Next, the memory-mapped reader's ReadNextAt/SeekNext/Size, the stacked reader's Get/Contains) perform no store into state reachable from the shared handle and pass shared state only to reviewed thread-safe callees")
	p := r.P
	type entry struct {
		key    string
		shared bool
	}
	groups := map[string][]entry{
		"table-reader": {
			{"sstables.SSTableReader.Contains", true}, {"sstables.SSTableReader.Get", true},
			{"sstables.SSTableReader.ScanStartingAt", true}, {"sstables.SSTableReader.ScanRange", true},
			{"sstables.SSTableIterator.Next", false},
			{"sstables.SliceKeyIndex.Get", true}, {"sstables.SliceKeyIndex.Contains", true},
			{"sstables.SliceKeyIndex.IteratorStartingAt", true}, {"sstables.SliceKeyIndex.IteratorBetween", true},
			{"sstables.SliceKeyIndexIterator.Next", false},
		},
		"mmap-reader": {
			{"recordio.MMapReader.ReadNextAt", true}, {"recordio.MMapReader.SeekNext", true}, {"recordio.MMapReader.Size", true},
		},
		"stacked-reader": {
			{"sstables.SuperSSTableReader.Get", true}, {"sstables.SuperSSTableReader.Contains", true},
		},
	}
	var names []string
	for g := range groups {
		names = append(names, g)
	}
	sort.Strings(names)
	for _, g := range names {
		e := newEffect(p)
		for _, en := range groups[g] {
			fn := r.NeedFunc(rule, en.key)
			if fn == nil {
				continue
			}
			e.addEntry(fn, en.shared)
		}
		// iterators hold the shared reader/index in fields: seed the "holds shared" facts that construction establishes
		e.solve()
		vs := e.violations()
		byFn := map[string][]effViolation{}
		for _, v := range vs {
			byFn[FuncKey(v.fn)] = append(byFn[FuncKey(v.fn)], v)
		}
		for _, fn := range e.order {
			r.Saw(fn)
		}
		for _, en := range groups[g] {
			// report per entry: violations in functions reachable from it
			fn := p.Func(en.key)
			if fn == nil {
				continue
			}
			reach := map[string]bool{}
			for _, f := range moduleReach(p, []*ssa.Function{fn}) {
				reach[FuncKey(f)] = true
			}
			key := rule + "/" + en.key
			var msgs []string
			var pos token.Pos
			for fk, list := range byFn {
				if !reach[fk] {
					continue
				}
				for _, v := range list {
					msgs = append(msgs, fmt.Sprintf("%s in %s at %s", v.what, fk, p.Pos(v.pos)))
					pos = v.pos
				}
			}
			sort.Strings(msgs)
			if len(msgs) == 0 {
				r.OK(rule, key, fn.Pos(), fmt.Sprintf("no store to shared state in %d reachable function(s)", len(reach)))
			} else {
				if len(msgs) > 4 {
					msgs = msgs[:4]
				}
				r.Bad(rule, key, pos, "concurrent callers race: "+strings.Join(msgs, "; "))
			}
		}
	}
	// notes (outside the statement)
	if fn := p.Func("sstables.SSTableReader.Scan"); fn != nil {
		r.Note("SSTableReader.Scan() appends to miscClosers without synchronisation; full scans are not among the documented concurrent operations (Get/Contains/range scans), so this is a note, not a violation")
	}
	if fn := p.Func("sstables.DiskKeyIndex.findAt"); fn != nil {
		r.Note("DiskKeyIndex.findAt writes offsetCache unsynchronised; the property covers the default index loaders only")
	}
}

// R-db-index-thread-safe (C18, C05, C01): GetBytes reads the tables under the *shared* database lock, so several Gets are
// inside one table reader at a time. That is sound for the in-memory index kinds, whose lookups write nothing (E-EFFECT
// above); the disk index keeps an unsynchronised offset cache (a plain map). So the table readers SimpleDB opens must
// not be configured with it.
func ruleDBIndexThreadSafe(r *Report) {
	const rule = "db-index-thread-safe"
	r.Rule(rule, 1, "every table reader package simpledb opens uses an index kind whose lookups are free of writes (the default slice index, the skip list or the map index): no ReadIndexLoader option with the disk loader")
	p := r.P
	key := rule + "/simpledb"
	bad := ""
	var pos Site
	n := 0
	for _, fn := range p.FuncsOfPkg("simpledb") {
		for _, s := range CallsIn(fn, Keys("sstables.ReadIndexLoader")) {
			n++
			pos = s
			a := s.Call().Common().Args[0]
			t := ""
			if mi, ok := a.(*ssa.MakeInterface); ok {
				t = typeShort(mi.X.Type())
			}
			tt := strings.TrimPrefix(t, "*")
			switch {
			case tt == "sstables.SliceKeyIndexLoader", tt == "sstables.SkipListIndexLoader", strings.HasPrefix(tt, "sstables.MapKeyIndexLoader"):
			default:
				if t == "" {
					t = "a loader that is not known statically"
				}
				bad = fmt.Sprintf("%s configures its table readers with %s (%s)", FuncKey(fn), t, r.P.Pos(s.Pos()))
			}
		}
	}
	if bad != "" {
		r.Bad(rule, key, pos.Pos(), bad+": concurrent Gets (shared lock) race on the disk index' offset cache — under load the process dies with \"concurrent map read and map write\"")
	} else {
		r.OK(rule, key, 0, fmt.Sprintf("%d index loader option(s) in simpledb, all of a write-free kind", n))
	}
}
