package main

import (
	"fmt"
	"go/token"
	"sort"
	"strings"

	"golang.org/x/tools/go/ssa"
)

func init() {
	register("C14",
		"Static rules on the memstore: nil-key / nil-value guards dominate every mutation of upsert; (E-AFFINE) every store to the unsigned size estimate is an exact affine update paired, on every path, with exactly one mutation of a stored value (+len(new) − len(old read before the store) for in-place updates, +len(key) [+len(value)] for inserts), every mutation site has such an update, and nothing else writes the estimate — the inductive step of 'estimate = Σ len(key)+len(value) ≥ 0'; every inserted entry gets a fresh value cell (no two keys alias one cell); plain Flush writes a record only behind the 'value != nil' test while FlushWithTombstones writes every entry; the memstore iterator yields the stored value; no error is dropped on the flush path. Decides these shapes; equivalence with a reference map over all call sequences is not decided.",
		[]string{"the skip list stores the ValueStruct it is given (C16 is not claimed)", "len() of a nil slice is 0"},
		runC14)
}

type atom struct {
	kind string // "old" | "len"
	of   ssa.Value
	sign int
}

func sizeAtoms(v ssa.Value, sign int, out *[]atom) bool {
	switch x := v.(type) {
	case *ssa.BinOp:
		switch x.Op {
		case token.ADD:
			return sizeAtoms(x.X, sign, out) && sizeAtoms(x.Y, sign, out)
		case token.SUB:
			return sizeAtoms(x.X, sign, out) && sizeAtoms(x.Y, -sign, out)
		}
		return false
	case *ssa.Convert:
		return sizeAtoms(x.X, sign, out)
	case *ssa.Call:
		if b, ok := x.Call.Value.(*ssa.Builtin); ok && b.Name() == "len" {
			*out = append(*out, atom{"len", x.Call.Args[0], sign})
			return true
		}
		return false
	case *ssa.UnOp:
		if _, f, _, ok := loadOfField(x); ok && f == "estimatedSize" {
			*out = append(*out, atom{"old", nil, sign})
			return true
		}
		return false
	}
	return false
}

// valueCellAddr: v is the pointer held in field `value` of a ValueStruct (load of FieldAddr / Field).
func valueCellOf(v ssa.Value) (base ssa.Value, ok bool) {
	if f, isF := v.(*ssa.Field); isF {
		if _, n, _, ok2 := fieldAddrName(f); ok2 && n == "value" {
			return f.X, true
		}
	}
	if _, n, b, ok2 := loadOfField(v); ok2 && n == "value" {
		return b, true
	}
	return nil, false
}

func runC14(r *Report) {
	p := r.P
	const rg = "nil-guards"
	r.Rule(rg, 7, "for every mutating entry point of the memstore (Add, Upsert, Delete, DeleteIfExists, Tombstone) the nil test of the key (and of the value, where there is one) returns KeyNil / ValueNil, and neither a mutation nor a lookup is reachable without having passed its non-nil edge — in the entry point itself or in the helper the argument is handed to: a nil key compares equal to the empty key, so an unchecked Delete(nil) acts on the empty key's entry and Tombstone(nil) stores an entry under a nil key")
	isMut := func(s Site) bool {
		switch x := s.Instr.(type) {
		case *ssa.Store:
			if _, ok := valueCellOf(x.Addr); ok {
				return true
			}
			if _, f, _, ok := fieldAddrName(x.Addr); ok && f == "estimatedSize" {
				return true
			}
		case *ssa.Call:
			if strings.HasSuffix(CalleeKey(x), "MapI.Insert") || strings.HasSuffix(CalleeKey(x), "MapI.Get") {
				return true
			}
		}
		return false
	}
	// guarded: every lookup / mutation reachable in fn (and in the module callees that are handed the parameter) lies
	// behind the non-nil edge of a nil test of the parameter whose nil edge returns the sentinel
	var guarded func(fn *ssa.Function, par *ssa.Parameter, want string, depth int) (bool, string)
	guarded = func(fn *ssa.Function, par *ssa.Parameter, want string, depth int) (bool, string) {
		if fn == nil || fn.Blocks == nil || depth > 3 {
			return false, "helper chain too deep"
		}
		removed := map[Edge]bool{}
		for _, b := range liveBlocks(fn) {
			if v, nilS, nn, ok := nilTest(b); ok {
				if po := paramOrigin(v); po == par {
					removed[Edge{b, nn}] = true
					if returnedSentinel(nilS) != want {
						return false, "the rejection does not return " + want
					}
				}
			}
		}
		why := ""
		ok := true
		eachInstr(fn, func(s Site) {
			if !ok || !siteReachable(s, removed) {
				return
			}
			if isMut(s) {
				ok, why = false, "a lookup or mutation is reachable with a nil "+par.Name()+" ("+p.Pos(s.Pos())+")"
				return
			}
			c, isC := s.Instr.(*ssa.Call)
			if !isC {
				return
			}
			sc := c.Call.StaticCallee()
			if sc == nil || !inModule(sc) {
				return
			}
			for i, a := range c.Call.Args {
				if paramOrigin(a) == par && i < len(sc.Params) {
					if g, w := guarded(genericBody(sc), genericBody(sc).Params[i], want, depth+1); !g {
						ok, why = false, w
					}
				}
			}
		})
		return ok, why
	}
	for _, spec := range []struct {
		fn     string
		params []string
	}{
		{"memstore.MemStore.Add", []string{"key", "value"}},
		{"memstore.MemStore.Upsert", []string{"key", "value"}},
		{"memstore.MemStore.Delete", []string{"key"}},
		{"memstore.MemStore.DeleteIfExists", []string{"key"}},
		{"memstore.MemStore.Tombstone", []string{"key"}},
	} {
		fn := r.NeedFunc(rg, spec.fn)
		if fn == nil {
			continue
		}
		for _, pname := range spec.params {
			key := rg + "/" + spec.fn + "/" + pname
			var par *ssa.Parameter
			for _, q := range fn.Params {
				if refName(q) == pname {
					par = q
				}
			}
			if par == nil {
				r.Unk(rg, key, fn.Pos(), "parameter "+pname+" not found")
				continue
			}
			want := map[string]string{"key": "memstore.KeyNil", "value": "memstore.ValueNil"}[pname]
			if g, why := guarded(fn, par, want, 0); g {
				r.OK(rg, key, fn.Pos(), "nil "+pname+" → "+want+" before any lookup or mutation")
			} else {
				r.Bad(rg, key, fn.Pos(), "a nil "+pname+" is not rejected before the memstore is consulted or mutated: "+why)
			}
		}
	}

	ruleDeleteIgnoresTombstoneState(r)
	const ra = "accounting"
	r.Rule(ra, 5, "every store to MemStore.estimatedSize is an exact affine update paired on all paths with one mutation of a stored value; every mutation site has one; nothing else writes the estimate")
	type mut struct {
		s      Site
		kind   string    // "update" | "insert"
		newVal ssa.Value // update: stored value (nil const = tombstone)
		cell   ssa.Value // update: address written (load of element.value)
		key    ssa.Value // insert: key argument
		valLen ssa.Value // insert: the value whose length counts (nil for a tombstone insert)
		paired bool
	}
	for _, fn := range p.FuncsOfPkg("memstore") {
		var sizeStores []Site
		var muts []*mut
		eachInstr(fn, func(s Site) {
			switch x := s.Instr.(type) {
			case *ssa.Store:
				if _, f, _, ok := fieldAddrName(x.Addr); ok && f == "estimatedSize" {
					sizeStores = append(sizeStores, s)
				}
				if _, ok := valueCellOf(x.Addr); ok {
					muts = append(muts, &mut{s: s, kind: "update", newVal: x.Val, cell: x.Addr})
				}
			case *ssa.Call:
				if strings.HasSuffix(CalleeKey(x), "MapI.Insert") {
					a := argsOf(x)
					m := &mut{s: s, kind: "insert", key: a[0]}
					// the ValueStruct literal: value field = &cell; what was stored into the cell?
					m.valLen = insertedValue(fn, a[1])
					muts = append(muts, m)
				}
			}
		})
		if len(sizeStores) == 0 && len(muts) == 0 {
			continue
		}
		r.Saw(fn)
		for _, ss := range sizeStores {
			key := ef0uniq(ra + "/" + FuncKey(fn) + "/estimatedSize")
			var at []atom
			if !sizeAtoms(ss.Instr.(*ssa.Store).Val, 1, &at) {
				r.Bad(ra, key, ss.Pos(), "the size estimate is assigned an expression that is not a sum/difference of the old estimate and len() terms")
				continue
			}
			// find the mutation this store pairs with: the nearest one in the same block, else dominance-related
			var m *mut
			for _, c := range muts {
				if c.paired {
					continue
				}
				if c.s.Block == ss.Block || dominates(c.s.Block, ss.Block) || dominates(ss.Block, c.s.Block) {
					if m == nil || absInt(c.s.Block.Index-ss.Block.Index) < absInt(m.s.Block.Index-ss.Block.Index) {
						m = c
					}
				}
			}
			if m == nil {
				r.Bad(ra, key, ss.Pos(), "the size estimate changes without a mutation of a stored value on this path")
				continue
			}
			// all-paths pairing: from the earlier of the two, no return is reachable without passing the later
			first, second := ss, m.s
			if precedes(m.s, ss) {
				first, second = m.s, ss
			}
			if first.Block != second.Block {
				removed := map[Edge]bool{}
				for _, su := range second.Block.Succs {
					removed[Edge{second.Block, su}] = true
				}
				escaped := false
				for _, su := range first.Block.Succs {
					reach := reachFrom(su, removed)
					for _, rs := range returnsOf(fn) {
						if reach[rs.Block] && rs.Block != second.Block {
							escaped = true
						}
					}
				}
				if escaped {
					r.Bad(ra, key, ss.Pos(), "the size update and the value mutation are not executed together on every path: a return lies between them (e.g. a rejected Add still re-books the estimate → the unsigned estimate can wrap below zero later)")
					continue
				}
			}
			// expected atoms
			okA, why := checkAtoms(at, m.kind, m.newVal, m.cell, m.key, m.valLen, m.s)
			if okA {
				m.paired = true
				r.OK(ra, key, ss.Pos(), why)
			} else {
				r.Bad(ra, key, ss.Pos(), why)
			}
		}
		for _, m := range muts {
			if !m.paired {
				key := ef0uniq(ra + "/" + FuncKey(fn) + "/mutation-without-update")
				// was it reported as part of a failed store above? only report if no size store relates
				rel := false
				for _, ss := range sizeStores {
					if ss.Block == m.s.Block || dominates(ss.Block, m.s.Block) || dominates(m.s.Block, ss.Block) {
						rel = true
					}
				}
				if !rel {
					r.Bad(ra, key, m.s.Pos(), "a stored value is mutated without updating the size estimate")
				}
			}
		}
	}
	// who may write
	for _, fn := range p.ModuleFuncs() {
		pk := fnPkg(fn)
		if pk != nil && shortPkg(pk.Path()) == "memstore" {
			continue
		}
		eachInstr(fn, func(s Site) {
			if st, ok := s.Instr.(*ssa.Store); ok {
				if t, f, _, ok := fieldAddrName(st.Addr); ok && f == "estimatedSize" && strings.HasPrefix(t, "memstore.") {
					r.Bad(ra, ra+"/foreign-writer/"+FuncKey(fn), st.Pos(), "the size estimate is written outside package memstore")
				}
			}
		})
	}

	// fresh value cell per inserted entry
	const rf = "fresh-cell"
	r.Rule(rf, 2, "every entry inserted into the skip list carries a value cell allocated by that call (two keys never share one cell, so overwriting or deleting one key cannot change another)")
	for _, fn := range p.FuncsOfPkg("memstore") {
		for _, s := range CallsIn(fn, Suffix("MapI.Insert")) {
			key := ef0uniq(rf + "/" + FuncKey(fn))
			r.Saw(fn)
			if cellIsFresh(fn, argsOf(s.Call())[1]) {
				r.OK(rf, key, s.Pos(), "ValueStruct{value: &local}")
			} else {
				r.Bad(rf, key, s.Pos(), "the inserted ValueStruct does not point to a cell allocated by this call: several keys alias one value cell, and an in-place update of one rewrites the others")
			}
		}
	}

	// tombstone filter in flush
	const rt = "tombstone-filter"
	r.Rule(rt, 3, "plain Flush writes an entry only on the non-nil edge of a test of its stored value; FlushWithTombstones writes every entry; both pass the stored value itself; the memstore iterator yields the stored value")
	if fn := r.NeedFunc(rt, "memstore.flushMemstore"); fn != nil {
		wr := CallsIn(fn, Suffix("SSTableStreamWriter.WriteNext", "SSTableStreamWriterI.WriteNext"))
		inclT, inclF := condEdges(fn, func(c ssa.Value) bool {
			pr, ok := c.(*ssa.Parameter)
			return ok && refName(pr) == "includeTombstones"
		})
		var nonNil []Edge
		for _, b := range liveBlocks(fn) {
			if v, _, nn, ok := nilTest(b); ok {
				if u, ok := v.(*ssa.UnOp); ok && u.Op == token.MUL {
					if _, ok := valueCellOf(u.X); ok {
						nonNil = append(nonNil, Edge{b, nn})
					}
				}
			}
		}
		key := rt + "/memstore.flushMemstore/plain-flush-skips-tombstones"
		removed := map[Edge]bool{}
		for _, e := range append(inclT, nonNil...) {
			removed[e] = true
		}
		bad := len(inclT) == 0 || len(nonNil) == 0
		for _, w := range wr {
			if siteReachable(w, removed) {
				bad = true
			}
		}
		if bad {
			r.Bad(rt, key, fn.Pos(), "with includeTombstones == false a record can be written without passing the 'stored value != nil' test: Flush writes tombstoned keys")
		} else {
			r.OK(rt, key, fn.Pos(), "Flush writes only entries with a non-nil value")
		}
		key = rt + "/memstore.flushMemstore/with-tombstones-writes-all"
		// on the includeTombstones==true edge a WriteNext is reached without any further condition on the value
		okAll := false
		for _, e := range inclT {
			for _, w := range wr {
				if e.To == w.Block {
					okAll = true
				}
			}
		}
		_ = inclF
		if okAll {
			r.OK(rt, key, fn.Pos(), "FlushWithTombstones writes every entry unconditionally")
		} else {
			r.Bad(rt, key, fn.Pos(), "FlushWithTombstones does not write every entry (tombstones must be written as nil values)")
		}
		key = rt + "/memstore.flushMemstore/writes-stored-value"
		okV := len(wr) > 0
		for _, w := range wr {
			a := argsOf(w.Call())
			u, ok := a[1].(*ssa.UnOp)
			if !ok || u.Op != token.MUL {
				okV = false
				continue
			}
			if _, ok := valueCellOf(u.X); !ok {
				okV = false
			}
		}
		if okV {
			r.OK(rt, key, fn.Pos(), "WriteNext(k, *v.value)")
		} else {
			r.Bad(rt, key, fn.Pos(), "the flushed value is not the stored value")
		}
	}
	if fn := r.NeedFunc(rt, "memstore.SkipListSStableIterator.Next"); fn != nil {
		key := rt + "/memstore.SkipListSStableIterator.Next/yields-stored-value"
		ok := false
		for _, nr := range nilReturns(fn) {
			v := nr.Instr.(*ssa.Return).Results[1]
			if u, isU := v.(*ssa.UnOp); isU && u.Op == token.MUL {
				if _, isV := valueCellOf(u.X); isV {
					ok = true
				}
			}
		}
		if ok {
			r.OK(rt, key, fn.Pos(), "returns *val.value")
		} else {
			r.Bad(rt, key, fn.Pos(), "the iterator does not yield the stored value (nil for tombstones)")
		}
	}
	// flush error discipline
	r.Rule("flush-errflow", 5, "no error is dropped or turned into success while flushing the memstore")
	ef := newErrflow(r, "flush-errflow")
	if fn := p.Func("memstore.flushMemstore"); fn != nil {
		for _, f := range closuresOf(fn) {
			ef.Check(f)
			ef.CheckDeferPreserve(f)
		}
	}
	ruleTombstoneSemantics(r)
	ruleValueBuffersImmutable(r)
	ruleSentinelProducible(r, "memstore", "simpledb")
	ruleCreateTruncates(r)
	// (the flushed table is written through the buffered writer: bytes must reach the file in the order they were written)
	ruleBufferedOrder(r)
	for _, k := range []string{"memstore.MemStore.Get", "memstore.MemStore.Contains", "memstore.MemStore.IsTombstoned", "memstore.deleteInternal", "memstore.upsertInternal", "memstore.MemStore.Tombstone"} {
		if fn := p.Func(k); fn != nil {
			ruleMemLookup(r, fn)
		}
	}
}

func absInt(x int) int {
	if x < 0 {
		return -x
	}
	return x
}

// insertedValue: for `Insert(key, ValueStruct{value: &cell})`, the value stored into cell before the call (nil if the cell is left zero).
func insertedValue(fn *ssa.Function, vs ssa.Value) ssa.Value {
	cell := structFieldValue(vs, "value")
	al, ok := cell.(*ssa.Alloc)
	if !ok {
		return nil
	}
	var out ssa.Value
	for _, rf := range *al.Referrers() {
		if st, ok := rf.(*ssa.Store); ok && st.Addr == ssa.Value(al) {
			out = st.Val
		}
	}
	return out
}

// structFieldValue: the value assigned to field `name` of a struct value built in this function
// (composite literal lowered to Alloc + FieldAddr stores + load).
func structFieldValue(v ssa.Value, name string) ssa.Value {
	u, ok := v.(*ssa.UnOp)
	if !ok || u.Op != token.MUL {
		return nil
	}
	al, ok := u.X.(*ssa.Alloc)
	if !ok {
		return nil
	}
	st := derefStruct(al.Type())
	if st == nil {
		return nil
	}
	var out ssa.Value
	for _, rf := range *al.Referrers() {
		if fa, ok := rf.(*ssa.FieldAddr); ok && refField(fa.X.Type(), fa.Field) == name {
			for _, rr := range *fa.Referrers() {
				if s, ok := rr.(*ssa.Store); ok {
					out = s.Val
				}
			}
		}
	}
	return out
}

func cellIsFresh(fn *ssa.Function, vs ssa.Value) bool {
	c := structFieldValue(vs, "value")
	al, ok := c.(*ssa.Alloc)
	return ok && al.Parent() == fn
}

func checkAtoms(at []atom, kind string, newVal, cell, keyV, valLen ssa.Value, m Site) (bool, string) {
	var olds, plus, minus []ssa.Value
	nOld := 0
	for _, a := range at {
		switch {
		case a.kind == "old" && a.sign > 0:
			nOld++
		case a.kind == "old":
			return false, "the old estimate is subtracted"
		case zeroLength(a.of):
			// len(nil), len of a variable that is never assigned: adds or subtracts nothing
		case a.sign > 0:
			plus = append(plus, a.of)
		default:
			minus = append(minus, a.of)
		}
	}
	_ = olds
	if nOld != 1 {
		return false, "the update does not start from the old estimate exactly once"
	}
	sameParam := func(a, b ssa.Value) bool {
		if a == b {
			return true
		}
		pa, pb := paramOrigin(a), paramOrigin(b)
		return pa != nil && pa == pb
	}
	switch kind {
	case "update":
		// minus: exactly len(old value) where old value = load of the same cell address, taken before the mutation
		if len(minus) != 1 {
			return false, fmt.Sprintf("an in-place update must subtract exactly the old value's length (found %d subtracted terms)", len(minus))
		}
		u, ok := minus[0].(*ssa.UnOp)
		if !ok || u.Op != token.MUL || !sameCell(u.X, cell) {
			return false, "the subtracted term is not the length of the value being replaced"
		}
		// the load of the old value precedes the store
		var ls Site
		eachInstr(m.Fn, func(s Site) {
			if s.Instr == ssa.Instruction(u) {
				ls = s
			}
		})
		if ls.Instr == nil || !precedes(ls, m) {
			return false, "the old value's length is read after the value was replaced"
		}
		if isNilConst(newVal) {
			if len(plus) != 0 {
				return false, "a tombstone adds no bytes"
			}
			return true, "estimate −= len(old value) (value replaced by nil)"
		}
		if len(plus) != 1 || !sameParam(plus[0], newVal) {
			return false, "the added term is not the length of the new value"
		}
		return true, "estimate += len(new) − len(old)"
	case "insert":
		if len(minus) != 0 {
			return false, "an insert must not subtract"
		}
		want := []ssa.Value{keyV}
		if valLen != nil && !isNilConst(valLen) {
			want = append(want, valLen)
		}
		if len(plus) != len(want) {
			return false, fmt.Sprintf("an insert must add len(key)%s, found %d added terms", map[bool]string{true: " + len(value)", false: ""}[len(want) == 2], len(plus))
		}
		used := make([]bool, len(want))
		for _, pv := range plus {
			f := false
			for i, w := range want {
				if !used[i] && sameParam(pv, w) {
					used[i], f = true, true
					break
				}
			}
			if !f {
				return false, "an added term is neither the key's nor the inserted value's length"
			}
		}
		return true, "estimate += len(key)" + map[bool]string{true: " + len(value)", false: ""}[len(want) == 2]
	}
	return false, "unknown mutation kind"
}

// sameCell: two addresses denote the same value cell (loads of the `value` field of the same element).
func sameCell(a, b ssa.Value) bool {
	if a == b {
		return true
	}
	ba, ok1 := valueCellOf(a)
	bb, ok2 := valueCellOf(b)
	return ok1 && ok2 && ba == bb
}

// ruleMemLookup: lookups classify the skip list's NotFound sentinel and nothing else as "absent".
func ruleMemLookup(r *Report, fn *ssa.Function) {
	const rule = "lookup-classification"
	r.Rule(rule, 4, "memstore operations branch on the skip list's NotFound sentinel (and only on it) to decide between 'absent' and 'present'")
	gets := CallsIn(fn, Suffix("MapI.Get"))
	if len(gets) == 0 {
		return
	}
	r.Saw(fn)
	for _, g := range gets {
		key := ef0uniq(rule + "/" + FuncKey(fn))
		al := errAliases(g)
		var sents []string
		for _, b := range liveBlocks(fn) {
			if v, s, _, _, ok := sentinelTest(b); ok && al[v] {
				sents = append(sents, s)
			}
		}
		sort.Strings(sents)
		if len(sents) == 1 && sents[0] == "skiplist.NotFound" {
			r.OK(rule, key, g.Pos(), "branches on skiplist.NotFound")
		} else {
			r.Bad(rule, key, g.Pos(), fmt.Sprintf("the lookup result is classified by %v instead of exactly skiplist.NotFound", sents))
		}
	}
}

// zeroLength: v is a slice whose length is zero whatever the input — the nil constant, or the content of a local variable
// that nothing is ever stored into (`var tombstone []byte`).
func zeroLength(v ssa.Value) bool {
	if v == nil {
		return false
	}
	if isNilConst(v) {
		return true
	}
	u, ok := v.(*ssa.UnOp)
	if !ok || u.Op != token.MUL {
		return false
	}
	al, ok := u.X.(*ssa.Alloc)
	if !ok {
		if ph, isPhi := u.X.(*ssa.Phi); isPhi && len(ph.Edges) == 1 {
			al, ok = ph.Edges[0].(*ssa.Alloc)
		}
		if !ok {
			return false
		}
	}
	rr := al.Referrers()
	if rr == nil {
		return false
	}
	for _, rf := range *rr {
		switch x := rf.(type) {
		case *ssa.UnOp:
			if x.Op != token.MUL {
				return false
			}
		case *ssa.Store:
			if x.Addr == ssa.Value(al) {
				return false
			}
			// the address is stored somewhere (into the inserted struct): writes through that alias come later
		case *ssa.DebugRef, *ssa.Phi:
		default:
			return false
		}
	}
	return true
}
