package main

// Rules added after seeding round 10.

import (
	"fmt"
	"go/token"
	"go/types"
	"strings"

	"golang.org/x/tools/go/ssa"
)

// builtFrom: v is constructed from seed inside fn — the seed itself, a conversion of it, an object that has the seed stored
// in one of its fields (directly or through a composite literal), an interface made of such an object, or the result of a
// call that was handed one of these.
func builtFrom(fn *ssa.Function, seed ssa.Value) map[ssa.Value]bool {
	t := map[ssa.Value]bool{}
	var work []ssa.Value
	add := func(v ssa.Value) {
		if v != nil && !t[v] {
			t[v] = true
			work = append(work, v)
		}
	}
	add(seed)
	for len(work) > 0 {
		v := work[len(work)-1]
		work = work[:len(work)-1]
		refs := v.Referrers()
		if refs == nil {
			continue
		}
		for _, rf := range *refs {
			switch x := rf.(type) {
			case *ssa.Phi:
				add(x)
			case *ssa.ChangeType:
				add(x)
			case *ssa.ChangeInterface:
				add(x)
			case *ssa.MakeInterface:
				add(x)
			case *ssa.MakeClosure:
				add(x)
			case *ssa.Store:
				if x.Val != v {
					continue
				}
				addr := x.Addr
				for {
					if fa, ok := addr.(*ssa.FieldAddr); ok {
						addr = fa.X
						continue
					}
					break
				}
				add(addr)
				if isCell(addr) {
					if cr := addr.Referrers(); cr != nil {
						for _, lr := range *cr {
							if u, ok := lr.(*ssa.UnOp); ok && u.Op == token.MUL {
								add(u)
							}
						}
					}
				}
			case *ssa.Call:
				for _, a := range x.Call.Args {
					if a == v {
						add(x)
					}
				}
			case *ssa.Extract:
				add(x)
			}
		}
	}
	return t
}

// ruleMergeAlwaysReduces: the compaction merge has no way around the reduce function.
func ruleMergeAlwaysReduces(r *Report) {
	const rule = "merge-always-reduces"
	r.Rule(rule, 4, "every iterator that MergeCompactIterator hands out on success is built from the caller's reduce function: dropping tombstones and choosing the newest value of a key is the reducer's decision for every number of inputs, one input included (a stack of one table, a compaction of one table)")
	fn := r.NeedFunc(rule, "sstables.SSTableMerger.MergeCompactIterator")
	if fn == nil {
		return
	}
	var reduce *ssa.Parameter
	for _, p := range fn.Params {
		if _, ok := p.Type().Underlying().(*types.Signature); ok {
			reduce = p
		}
	}
	key := rule + "/" + FuncKey(fn)
	if reduce == nil {
		r.Missing(rule, key, "MergeCompactIterator has no function-typed parameter")
		return
	}
	from := builtFrom(fn, reduce)
	n := 0
	for _, rs := range returnsOf(fn) {
		ret := rs.Instr.(*ssa.Return)
		// every exit that hands out an iterator at all (failure exits return nil in its place)
		if len(ret.Results) != 2 || isNilConst(ret.Results[0]) {
			continue
		}
		n++
		if !from[ret.Results[0]] {
			r.Bad(rule, key, ret.Pos(), fmt.Sprintf("a success exit returns an iterator that is not built from the reduce function (%s): what it yields was never shown to the reducer — with ScanReduceLatestWinsSkipTombstones a table of {a -> v, b -> tombstone} scanned through a one-table stack, or compacted on its own, yields b as a live key", ret.Results[0].Name()))
			return
		}
	}
	if n == 0 {
		r.Unk(rule, key, fn.Pos(), "no exit that returns an iterator found")
		return
	}
	r.OK(rule, key, fn.Pos(), fmt.Sprintf("%d success exit(s), each returns an object that holds the reduce function", n))
	// the stacked scans have no way around the merge either
	for _, name := range []string{"sstables.SuperSSTableReader.Scan", "sstables.SuperSSTableReader.ScanStartingAt", "sstables.SuperSSTableReader.ScanRange"} {
		sf := r.NeedFunc(rule, name)
		if sf == nil {
			continue
		}
		k2 := rule + "/" + name + "/through-the-merge"
		merged := map[ssa.Value]bool{}
		for _, c := range CallsIn(sf, Keys("sstables.SSTableMerger.MergeCompactIterator")) {
			if v, ok := c.Instr.(ssa.Value); ok {
				for x := range builtFrom(sf, v) {
					merged[x] = true
				}
			}
		}
		if len(merged) == 0 {
			r.Bad(rule, k2, sf.Pos(), "the stacked scan does not go through MergeCompactIterator")
			continue
		}
		bad := false
		m := 0
		for _, rs := range returnsOf(sf) {
			ret := rs.Instr.(*ssa.Return)
			if len(ret.Results) != 2 || isNilConst(ret.Results[0]) {
				continue
			}
			m++
			if !merged[ret.Results[0]] {
				bad = true
				r.Bad(rule, k2, ret.Pos(), "a success exit of the stacked scan returns an iterator that did not come out of MergeCompactIterator: a stack of one table then lists what the merge would have dropped (keys whose newest value is nil), a stack of two does not")
				break
			}
		}
		if !bad {
			r.OK(rule, k2, sf.Pos(), fmt.Sprintf("%d success exit(s) return the merge's iterator", m))
		}
	}
}

// dependsOnValue: v is computed from want (operands followed backwards through every instruction, call arguments included).
func dependsOnValue(v, want ssa.Value, seen map[ssa.Value]bool) bool {
	if v == want {
		return true
	}
	if v == nil || seen[v] {
		return false
	}
	seen[v] = true
	in, ok := v.(ssa.Instruction)
	if !ok {
		return false
	}
	for _, op := range in.Operands(nil) {
		if *op != nil && dependsOnValue(*op, want, seen) {
			return true
		}
	}
	// a cell that was handed to a call together with want (errors.As(target, &cell))
	if u, isU := v.(*ssa.UnOp); isU && u.Op == token.MUL {
		if refs := u.X.Referrers(); refs != nil {
			for _, rf := range *refs {
				if c, isC := rf.(*ssa.Call); isC {
					for _, a := range c.Call.Args {
						if a != u.X && dependsOnValue(a, want, seen) {
							return true
						}
					}
				}
			}
		}
	}
	return false
}

// ruleErrorIsLooksAtTarget: an `Is(error) bool` method answers about its argument.
func ruleErrorIsLooksAtTarget(r *Report) {
	const rule = "error-is-looks-at-target"
	r.Rule(rule, 1, "an error type's Is method can answer true only from its argument: an Is that is true for every target makes errors.Is(err, NotFound) and errors.Is(err, Done) true for a checksum failure, and the stacked reader then answers from an older table / ends a scan early instead of reporting the damage")
	n := 0
	for _, fn := range r.P.ModuleFuncs() {
		if fnName(fn) != "Is" || fn.Signature.Recv() == nil || fn.Parent() != nil || fn.Synthetic != "" {
			continue
		}
		sig := fn.Signature
		if sig.Params().Len() != 1 || sig.Results().Len() != 1 || !isErrorType(sig.Params().At(0).Type()) {
			continue
		}
		if b, ok := sig.Results().At(0).Type().Underlying().(*types.Basic); !ok || b.Kind() != types.Bool {
			continue
		}
		n++
		r.Saw(fn)
		key := rule + "/" + FuncKey(fn)
		target := fn.Params[len(fn.Params)-1]
		bad := ""
		var check func(v ssa.Value, depth int)
		check = func(v ssa.Value, depth int) {
			if bad != "" || depth > 6 {
				return
			}
			if c, ok := v.(*ssa.Const); ok {
				if c.Value != nil && c.Value.String() == "true" {
					bad = "returns the constant true"
				}
				return
			}
			if ph, ok := v.(*ssa.Phi); ok {
				for _, e := range ph.Edges {
					check(e, depth+1)
				}
				return
			}
			if !dependsOnValue(v, target, map[ssa.Value]bool{}) {
				bad = "returns " + v.Name() + ", which is not computed from the target"
			}
		}
		for _, rs := range returnsOf(fn) {
			check(rs.Instr.(*ssa.Return).Results[0], 0)
		}
		if bad != "" {
			r.Bad(rule, key, fn.Pos(), fmt.Sprintf("%s.Is %s: it can be true whatever error it is compared with — errors.Is(checksumErr, NotFound) and errors.Is(checksumErr, Done) hold, so a Get on a stack whose newest table is damaged is answered from the older table and a merge treats the damaged table as exhausted", typeShort(fn.Signature.Recv().Type()), bad))
		} else {
			r.OK(rule, key, fn.Pos(), "every result is computed from the target (or is the constant false)")
		}
	}
	if n == 0 {
		r.Missing(rule, rule+"/sites", "no Is(error) bool method in the module")
	}
}

// ruleMapFallbackScope: where MapKeyIndex.Get looks when the slot of the probe holds another key.
func ruleMapFallbackScope(r *Report) {
	const rule = "map-lookup-verified"
	fn := r.P.Func("sstables.MapKeyIndex.Get")
	if fn == nil || fn.Blocks == nil {
		return
	}
	fn = genericBody(fn)
	key := rule + "/sstables.MapKeyIndex.Get/fallback-covers-the-slot"
	// the search of the slice: the slice index' Get, or its binary search used directly
	calls := CallsIn(fn, Suffix("SliceKeyIndex.Get", "SliceKeyIndex.search"))
	if len(calls) == 0 {
		return // no fallback: the verified-hit clause above decides
	}
	recv := fn.Params[0]
	// a slot that is taken — by whatever key — never answers "absent" by itself: the keys that share it are in the slice
	{
		k3 := rule + "/sstables.MapKeyIndex.Get/taken-slot-is-searched"
		var takenEdges []Edge
		var notTaken []Edge // the other side of every test of the same flag: not on a path where the slot is taken
		for _, b := range liveBlocks(fn) {
			cnd, tS, fS, tE, _, ok := effCond(b)
			if !ok {
				continue
			}
			if ex, isE := cnd.(*ssa.Extract); isE && ex.Index == 1 {
				if lk, isL := ex.Tuple.(*ssa.Lookup); isL && lk.CommaOk {
					if _, isMap := lk.X.Type().Underlying().(*types.Map); isMap {
						if tE {
							takenEdges = append(takenEdges, Edge{b, tS})
						}
						notTaken = append(notTaken, Edge{b, fS})
					}
				}
			}
		}
		if len(takenEdges) > 0 {
			removed := map[Edge]bool{}
			for _, e := range notTaken {
				removed[e] = true
			}
			for _, c := range calls {
				for _, su := range c.Block.Succs {
					removed[Edge{c.Block, su}] = true
				}
			}
			bad := ""
			for _, e := range takenEdges {
				reach := reachFrom(e.To, removed)
				for _, rs := range returnsOf(fn) {
					if !reach[rs.Block] {
						continue
					}
					inCall := false
					for _, c := range calls {
						if c.Block == rs.Block {
							inCall = true
						}
					}
					if !inCall && returnedSentinel(rs.Block) == "skiplist.NotFound" {
						bad = r.P.Pos(rs.Pos())
					}
				}
			}
			if bad != "" {
				r.Bad(rule, k3, fn.Pos(), "a slot that another key holds answers \"absent\" ("+bad+") without a search of the slice: keys that differ only in trailing zero bytes share a slot, all but its owner are reported absent although they were written (the bloom filter and Scan still show them)")
			} else {
				r.OK(rule, k3, fn.Pos(), "from a taken slot \"absent\" is only reached through the slice search")
			}
		}
	}
	// does the loader leave a slot to the last key that maps to it? (a plain store per record, no test of the map)
	lastWins, loaderSeen := false, false
	if ld := r.P.Func("sstables.MapKeyIndexLoader.Load"); ld != nil && ld.Blocks != nil {
		ld = genericBody(ld)
		updates, probes := 0, 0
		eachInstr(ld, func(s Site) {
			switch x := s.Instr.(type) {
			case *ssa.MapUpdate:
				updates++
			case *ssa.Lookup:
				if _, isMap := x.X.Type().Underlying().(*types.Map); isMap {
					probes++
				}
			}
		})
		loaderSeen = updates > 0
		lastWins = updates > 0 && probes == 0
	}
	for _, c := range calls {
		args := c.Call().Common().Args
		if len(args) == 0 {
			continue
		}
		rv := args[0]
		// the embedded slice index of the receiver itself: the whole index is searched
		whole := false
		x := rv
		if u, ok := x.(*ssa.UnOp); ok && u.Op == token.MUL {
			x = u.X
		}
		if fa, ok := x.(*ssa.FieldAddr); ok && paramOrigin(fa.X) == recv {
			whole = true
		}
		// the slice itself, as it is (handed to the binary search directly)
		if _, f, _, ok := loadOfField(rv); ok && f == "index" {
			if _, isSl := rv.Type().Underlying().(*types.Slice); isSl {
				whole = true
			}
		}
		if whole {
			r.OK(rule, key, c.Pos(), "the fallback searches the whole slice index")
			continue
		}
		// a part of the index: fine only in front of the slot's position and only if the slot belongs to the last key
		prefix := false
		eachInstr(fn, func(s Site) {
			sl, ok := s.Instr.(*ssa.Slice)
			if !ok || sl.Low != nil || sl.High == nil {
				return
			}
			if _, f, _, ok := loadOfField(sl.X); ok && f == "index" {
				prefix = true
			}
		})
		switch {
		case prefix && lastWins:
			r.OK(rule, key, c.Pos(), "the fallback searches the entries in front of the slot's position, and the loader leaves a slot to the last key that maps to it")
		case prefix && loaderSeen:
			r.Bad(rule, key, c.Pos(), "the fallback searches only the entries in front of the slot's position, but the loader does not leave a slot to the last of its keys (it tests the map before storing): keys that share a slot and sort behind its owner are never found — of \"\", {0}, {0,0} or \"a\", \"a\\x00\" only the first is, Get and Contains report the others absent")
		default:
			r.Unk(rule, key, c.Pos(), "the fallback searches something else than the receiver's slice index (or a prefix of it): not recognised")
		}
	}
}

// zeroSizeRuleReached: on the paths of fn on which the file has no compressor, a test "compressed size != 0 → error" of
// the parameter at position pi is reached — in fn itself or in a module callee that is handed that parameter.
func zeroSizeRuleReached(p *Prog, fn *ssa.Function, pi int, depth int) bool {
	if fn == nil || fn.Blocks == nil || depth > 3 || pi >= len(fn.Params) {
		return false
	}
	par := fn.Params[pi]
	removed := map[Edge]bool{}
	for _, b := range liveBlocks(fn) {
		x, _, nonNil, ok := nilTest(b)
		if !ok {
			continue
		}
		if _, f, _, isF := loadOfField(x); isF && f == "compressor" {
			removed[Edge{b, nonNil}] = true
		}
	}
	reach := reachFrom(fn.Blocks[0], removed)
	for _, b := range liveBlocks(fn) {
		if !reach[b] {
			continue
		}
		for _, f := range ifCmpForms(b) {
			if f.Op != token.NEQ && f.Op != token.GTR {
				continue
			}
			if z, isZ := constInt(f.Y); !isZ || z != 0 {
				continue
			}
			if po := paramOrigin(stripConvert(f.X)); po == par && endsInFailingReturn(f.T) {
				return true
			}
		}
		for _, in := range b.Instrs {
			c, ok := in.(*ssa.Call)
			if !ok {
				continue
			}
			sc := c.Call.StaticCallee()
			if sc == nil || !inModule(sc) {
				continue
			}
			for i, a := range c.Call.Args {
				if paramOrigin(stripConvert(a)) == par && zeroSizeRuleReached(p, genericBody(sc), i, depth+1) {
					return true
				}
			}
		}
	}
	return false
}

// ruleUncompressedSizeRule: the "no compressed size in a file without compression" half of the size check is not optional.
func ruleUncompressedSizeRule(r *Report) {
	const rule = "header-sizes-checked"
	for _, k := range []string{"recordio.FileReader.ReadNext", "recordio.FileReader.SkipNext", "recordio.MMapReader.ReadNextAt"} {
		fn := r.P.Func(k)
		if fn == nil {
			continue
		}
		hdr := CallsIn(fn, Keys("recordio.readRecordHeaderV4"))
		if len(hdr) == 0 {
			continue
		}
		key := rule + "/" + k + "/zero-without-compression"
		found := false
		var pos = hdr[0].Pos()
		eachInstr(fn, func(s Site) {
			c, ok := s.Instr.(*ssa.Call)
			if !ok || found {
				return
			}
			sc := c.Call.StaticCallee()
			if sc == nil || !inModule(sc) {
				return
			}
			if _, hasErr, _ := errResults(c); !hasErr {
				return
			}
			for i, a := range c.Call.Args {
				isComp := valueDependsOn(a, func(x ssa.Value) bool {
					ex, ok := x.(*ssa.Extract)
					return ok && ex.Tuple == hdr[0].Instr.(ssa.Value) && ex.Index == 1
				})
				if isComp && zeroSizeRuleReached(r.P, genericBody(sc), i, 0) {
					found = true
					pos = s.Pos()
				}
			}
		})
		if found {
			r.OK(rule, key, pos, "the check rejects a compressed size other than 0 on the paths without a compressor")
		} else {
			r.Bad(rule, key, pos, "for a file without compression nothing rejects a compressed size other than 0: the altered size byte 0x00 → 0x80|x stays a shortest-form varint and swallows the stored checksum, the checksum is then read from the payload, and a payload that starts with the matching varint makes this reader return bytes that begin 5 bytes into the payload and end inside the next record — where the other reader reports the damage")
		}
	}
}

// ruleMergeAcceptsAnyCount: a merge of zero inputs is an empty merge, not an error.
func ruleMergeAcceptsAnyCount(r *Report) {
	const rule = "merge-accepts-any-count"
	fns := []string{"pq.NewPriorityQueue", "pq.PriorityQueue.init", "sstables.SSTableMerger.Merge", "sstables.SSTableMerger.MergeCompact", "sstables.SSTableMerger.MergeCompactIterator"}
	r.Rule(rule, len(fns), "neither the queue's constructor nor the mergers fail because of the number of inputs: no failing exit depends on a comparison of len(iterators) with a constant (zero inputs give a merge that is exhausted at once, one input gives that input)")
	for _, k := range fns {
		fn := r.NeedFunc(rule, k)
		if fn == nil {
			continue
		}
		fn = genericBody(fn)
		key := rule + "/" + k
		bad := ""
		var pos = fn.Pos()
		for _, b := range liveBlocks(fn) {
			for _, f := range ifCmpForms(b) {
				if _, isK := constInt(f.Y); !isK {
					continue
				}
				c, ok := stripConvert(f.X).(*ssa.Call)
				if !ok {
					continue
				}
				bi, isB := c.Call.Value.(*ssa.Builtin)
				if !isB || bi.Name() != "len" {
					continue
				}
				po := paramOrigin(c.Call.Args[0])
				if po == nil || po.Parent() != fn {
					continue
				}
				if _, isSl := po.Type().Underlying().(*types.Slice); !isSl {
					continue
				}
				if endsInFailingReturn(f.T) && !endsInFailingReturn(f.F) {
					bad = fmt.Sprintf("len(%s) %s %s leads to an error", po.Name(), f.Op, strings.TrimSuffix(f.Y.Name(), ":int"))
					pos = c.Pos()
				}
			}
		}
		if bad != "" {
			r.Bad(rule, key, pos, bad+": the number of inputs is not a reason to fail — a merge of no inputs is empty (a stack of no tables, a compaction whose inputs were all removed), with this test it is an error")
		} else {
			r.OK(rule, key, fn.Pos(), "no failing exit depends on the number of inputs")
		}
	}
}

// ruleShortFileIsTruncation: what the sequential reader says about a file that is shorter than its last record.
func ruleShortFileIsTruncation(r *Report) {
	const rule = "short-file-is-truncation"
	r.Rule(rule, 1, "on the sequential read path (FileReader.ReadNext and what it calls in recordio) a failure that is decided by comparing an offset with the size of the file (os.FileInfo.Size) is reported as io.ErrUnexpectedEOF or io.EOF: that is how the WAL replay recognises the torn tail of the newest log file — any other error there makes Open fail after a kill inside a large record")
	root := r.NeedFunc(rule, "recordio.FileReader.ReadNext")
	if root == nil {
		return
	}
	fns := []*ssa.Function{root}
	for _, g := range moduleReach(r.P, []*ssa.Function{root}) {
		if pk := fnPkg(g); pk != nil && shortPkg(pk.Path()) == "recordio" && g != root {
			fns = append(fns, g)
		}
	}
	isSize := func(x ssa.Value) bool {
		c, ok := x.(*ssa.Call)
		if !ok {
			return false
		}
		if c.Call.IsInvoke() && c.Call.Method.Name() == "Size" {
			return typeShort(c.Call.Value.Type()) == "io/fs.FileInfo" || typeShort(c.Call.Value.Type()) == "os.FileInfo"
		}
		return false
	}
	n := 0
	for _, fn := range fns {
		set := map[ssa.Value]bool{}
		eachInstr(fn, func(s Site) {
			if u, ok := s.Instr.(*ssa.UnOp); ok {
				if g := globalLoad(u); g == "io.ErrUnexpectedEOF" || g == "io.EOF" {
					set[u] = true
				}
			}
		})
		car := errCarriers(fn, func(v ssa.Value) bool { return set[v] })
		idx := errorResultIndex(fn)
		for _, b := range liveBlocks(fn) {
			cnd, tS, fS, _, _, ok := effCond(b)
			if !ok || !valueDependsOn(cnd, isSize) {
				continue
			}
			for _, side := range []*ssa.BasicBlock{tS, fS} {
				if side == nil || !endsInFailingReturn(side) {
					continue
				}
				// the return behind the jumps
				x := side
				seen := map[*ssa.BasicBlock]bool{}
				var ret *ssa.Return
				for x != nil && !seen[x] {
					seen[x] = true
					if rr, isR := x.Instrs[len(x.Instrs)-1].(*ssa.Return); isR {
						ret = rr
						break
					}
					if _, isJ := x.Instrs[len(x.Instrs)-1].(*ssa.Jump); isJ {
						x = x.Succs[0]
					} else {
						break
					}
				}
				n++
				key := uniqKey(r, rule+"/"+FuncKey(fn))
				r.Saw(fn)
				if ret == nil || idx < 0 || idx >= len(ret.Results) {
					r.Unk(rule, key, b.Instrs[len(b.Instrs)-1].Pos(), "the failing exit behind the size comparison was not recognised")
					continue
				}
				v := ret.Results[idx]
				if set[v] || car[v] || set[stripIface(v)] || car[stripIface(v)] {
					r.OK(rule, key, ret.Pos(), "a file that is too short is reported as an unexpected end of file")
				} else {
					r.Bad(rule, key, ret.Pos(), "a record that ends behind the end of the file is reported with an error that is neither io.ErrUnexpectedEOF nor io.EOF: the WAL replay takes only those for the torn tail of the newest log file — a kill between the two write calls of a record larger than the write buffer (an incompressible value over 4 MiB) leaves such a tail, and every later Open fails on it although all acknowledged writes are in the log")
				}
			}
		}
	}
	if n == 0 {
		r.OK(rule, rule+"/recordio.FileReader.ReadNext", root.Pos(), "the sequential read path does not compare offsets with the file size: a short file surfaces as the EOF of the read itself (see torn-record-is-not-eof)")
	}
}

// zeroMappedSum recognises the index' "0 means nothing to verify" mapping applied to a CRC: the call of the shared helper
// nonZeroChecksum(sum, value), or its inline form `if sum == 0 && len(value) > 0 { sum = 1 }` (a phi of the sum and a
// non-zero constant, the constant chosen behind the true edge of `sum == 0`, the raw sum only over the false edges of
// `sum == 0` / `len(value) > 0`). It returns the raw sum and the value whose length is tested.
func zeroMappedSum(v ssa.Value) (sum ssa.Value, value ssa.Value, ok bool) {
	if hc, isC := v.(*ssa.Call); isC && CalleeKey(hc) == "sstables.nonZeroChecksum" && len(hc.Call.Args) == 2 {
		return hc.Call.Args[0], hc.Call.Args[1], true
	}
	ph, isPhi := v.(*ssa.Phi)
	if !isPhi {
		return nil, nil, false
	}
	for _, e := range ph.Edges {
		if k, isK := constInt(e); isK {
			if k == 0 {
				return nil, nil, false
			}
			continue
		}
		if sum != nil && sum != e {
			return nil, nil, false
		}
		sum = e
	}
	if sum == nil {
		return nil, nil, false
	}
	join := ph.Block()
	sawConst := false
	for i, e := range ph.Edges {
		pred := join.Preds[i]
		if _, isK := constInt(e); isK {
			// reached only through the true edge of `sum == 0`
			guarded := false
			for _, b := range liveBlocks(join.Parent()) {
				for _, f := range ifCmpForms(b) {
					if z, isZ := constInt(f.Y); isZ && z == 0 && f.Op == token.EQL && f.X == sum && f.T != join && dominates(f.T, pred) {
						guarded = true
					}
				}
			}
			if !guarded {
				return nil, nil, false
			}
			sawConst = true
			continue
		}
		// the raw sum: over the false edge of `sum == 0` or of `len(value) > 0`
		okEdge := false
		for _, f := range ifCmpForms(pred) {
			z, isZ := constInt(f.Y)
			if !isZ || z != 0 || f.F != join {
				continue
			}
			if f.Op == token.EQL && f.X == sum {
				okEdge = true
			}
			if f.Op == token.GTR || f.Op == token.NEQ {
				if c, isC := stripConvert(f.X).(*ssa.Call); isC {
					if bi, isB := c.Call.Value.(*ssa.Builtin); isB && bi.Name() == "len" {
						okEdge = true
						value = c.Call.Args[0]
					}
				}
			}
		}
		if !okEdge {
			return nil, nil, false
		}
	}
	if !sawConst || value == nil {
		return nil, nil, false
	}
	return sum, value, true
}

// ruleQueueFailureIsFinal: a queue whose refill failed does not hand out what the failed read left behind.
func ruleQueueFailureIsFinal(r *Report, rh string) {
	if _, done := r.RuleText[rh]; !done {
		r.Rule(rh, 1, "after a refill of the merge heap has failed, PriorityQueue.Next keeps returning that error: the element a failed read left at the root is never handed out as a regular element")
	}
	fn := r.P.Func("pq.PriorityQueue.Next")
	if fn == nil || fn.Blocks == nil {
		return
	}
	fn = genericBody(fn)
	key := rh + "/pq.PriorityQueue.Next/failure-is-final"
	var refill []Site
	eachInstr(fn, func(s Site) {
		if c, ok := s.Instr.(*ssa.Call); ok {
			if sc := c.Call.StaticCallee(); sc != nil && strings.HasSuffix(FuncKey(genericBody(sc)), "PriorityQueue.fillNext") {
				refill = append(refill, s)
			}
		}
	})
	if len(refill) == 0 || len(fn.Params) == 0 {
		r.Unk(rh, key, fn.Pos(), "the refill of the root was not recognised")
		return
	}
	recv := fn.Params[0]
	// (1) the failing exit of the refill parks the error in a field of the queue
	field := ""
	for _, rf := range refill {
		al := errAliases(rf)
		car := errCarriers(fn, func(v ssa.Value) bool { return al[v] })
		eachInstr(fn, func(s Site) {
			st, ok := s.Instr.(*ssa.Store)
			if !ok {
				return
			}
			// the refill's error itself, something made of it (also by a helper of the module), or any error stored on the
			// way to the failing exit behind the refill
			carried := al[st.Val] || car[st.Val] || al[stripIface(st.Val)] || car[stripIface(st.Val)]
			if !carried && isErrorType(st.Val.Type()) && reachableFromSite(rf, s) && endsInFailingReturn(s.Block) {
				carried = valueDependsOn(st.Val, func(x ssa.Value) bool { return al[x] || car[x] })
			}
			if !carried {
				return
			}
			if fa, isF := st.Addr.(*ssa.FieldAddr); isF && paramOrigin(fa.X) == recv && isErrorType(st.Val.Type()) {
				field = refField(fa.X.Type(), fa.Field)
			}
		})
	}
	// (2) and Next tests that field before it touches the heap, returning it
	tested := false
	if field != "" {
		for _, b := range liveBlocks(fn) {
			v, _, nonNil, ok := nilTest(b)
			if !ok {
				continue
			}
			if _, f, base, isF := loadOfField(v); !isF || f != field || paramOrigin(base) != recv {
				continue
			}
			if endsInFailingReturn(nonNil) && dominates(b, refill[0].Block) {
				tested = true
			}
		}
	}
	switch {
	case field == "":
		r.Bad(rh, key, refill[0].Pos(), "when the refill of the root fails, Next returns the error but keeps no record of it: the element that was taken is lost and the root holds whatever the failed read returned — the next call hands that out as a regular element (a table with a damaged value under verify-on-read, scanned through the stacked reader: the checksum error once, then the damaged value with a nil error, and the key in front of it is missing)")
	case !tested:
		r.Bad(rh, key, refill[0].Pos(), "the refill's failure is stored in "+field+" but Next does not return it before it reads the heap again")
	default:
		r.OK(rh, key, refill[0].Pos(), "a failed refill is remembered in "+field+" and every later Next returns it")
	}
}

// ruleMapLoaderLongKeys: keys longer than the mapper's width, stored and probed.
func ruleMapLoaderLongKeys(r *Report) {
	const rule = "map-lookup-verified"
	ld := r.P.Func("sstables.MapKeyIndexLoader.Load")
	get := r.P.Func("sstables.MapKeyIndex.Get")
	if ld == nil || get == nil || ld.Blocks == nil || get.Blocks == nil {
		return
	}
	ld, get = genericBody(ld), genericBody(get)
	isMaxLen := func(x ssa.Value) bool {
		c, ok := x.(*ssa.Call)
		if !ok {
			return false
		}
		if c.Call.IsInvoke() && c.Call.Method.Name() == "MaxKeyLength" {
			return true
		}
		// the comparison with the mapper's width in a bool helper of the package
		if sc := c.Call.StaticCallee(); sc != nil && (inModule(sc) || inModule(genericBody(sc))) {
			hit := false
			eachInstr(genericBody(sc), func(t Site) {
				if d, isC := t.Instr.(*ssa.Call); isC && d.Call.IsInvoke() && d.Call.Method.Name() == "MaxKeyLength" {
					hit = true
				}
			})
			return hit
		}
		return false
	}
	// lenGuarded: the site is reached only over the "fits" edge of a comparison with MaxKeyLength (or over the "not a
	// bounded mapper" edge of the type assertion in front of it); skip is the other side of that comparison
	lenGuarded := func(fn *ssa.Function, site Site) (guard *ssa.BasicBlock, skip *ssa.BasicBlock) {
		back := map[Edge]bool{}
		for _, b := range liveBlocks(fn) {
			for _, su := range b.Succs {
				if dominates(su, b) {
					back[Edge{b, su}] = true
				}
			}
		}
		removed := map[Edge]bool{}
		for e := range back {
			removed[e] = true
		}
		for _, b := range liveBlocks(fn) {
			cnd, tS, fS, _, _, ok := effCond(b)
			if !ok {
				continue
			}
			if valueDependsOn(cnd, isMaxLen) {
				// within one round of the enclosing loop: a later round passes this test again
				into := map[Edge]bool{}
				for e := range back {
					into[e] = true
				}
				for _, pr := range b.Preds {
					into[Edge{pr, b}] = true
				}
				rt, rf := reachFrom(tS, into)[site.Block], reachFrom(fS, into)[site.Block]
				if rt != rf {
					guard = b
					if rt {
						removed[Edge{b, tS}] = true
						skip = fS
					} else {
						removed[Edge{b, fS}] = true
						skip = tS
					}
				}
				continue
			}
			// `m, ok := mapper.(boundedKeyMapper)`: without a bound there is nothing to test
			if ex, isE := cnd.(*ssa.Extract); isE && ex.Index == 1 {
				if ta, isT := ex.Tuple.(*ssa.TypeAssert); isT && ta.CommaOk {
					removed[Edge{b, fS}] = true
				}
			}
		}
		if guard == nil || reachFrom(fn.Blocks[0], removed)[site.Block] {
			return nil, nil
		}
		return guard, skip
	}
	key := rule + "/sstables.MapKeyIndexLoader.Load/stored-key-length-guarded"
	var maps []Site
	eachInstr(ld, func(s Site) {
		if c, ok := s.Instr.(*ssa.Call); ok && c.Call.IsInvoke() && c.Call.Method.Name() == "MapBytes" {
			maps = append(maps, s)
		}
	})
	if len(maps) == 0 {
		r.Unk(rule, key, ld.Pos(), "the loader does not map keys")
		return
	}
	guarded := true
	for _, m := range maps {
		if g, _ := lenGuarded(ld, m); g == nil {
			guarded = false
		}
	}
	if guarded {
		r.OK(rule, key, maps[0].Pos(), "a stored key is mapped only behind a test of its length against the mapper's width")
	} else {
		r.Bad(rule, key, maps[0].Pos(), "every stored key is handed to the mapper, which panics on a key longer than its width: a table with one 21 byte key cannot be opened with MapKeyIndexLoader[[20]byte] (NewSSTableReader panics), while every other loader reads it")
	}
	// keys that are too long for the map live in the slice only: a probe of that length has to be searched there
	k2 := rule + "/sstables.MapKeyIndex.Get/long-probe-searched"
	var probes []Site
	eachInstr(get, func(s Site) {
		if c, ok := s.Instr.(*ssa.Call); ok && c.Call.IsInvoke() && c.Call.Method.Name() == "MapBytes" {
			probes = append(probes, s)
		}
	})
	if len(probes) == 0 || !guarded {
		return
	}
	_, skip := lenGuarded(get, probes[0])
	if skip == nil {
		return // probe-length-guarded reports the missing test
	}
	searched := false
	for b := range reachFrom(skip, map[Edge]bool{}) {
		if reachFrom(b, map[Edge]bool{})[probes[0].Block] {
			continue
		}
		for _, in := range b.Instrs {
			if c, ok := in.(*ssa.Call); ok && c.Call.StaticCallee() != nil && strings.HasSuffix(FuncKey(c.Call.StaticCallee()), "SliceKeyIndex.Get") {
				searched = true
			}
		}
	}
	if searched {
		r.OK(rule, k2, probes[0].Pos(), "a probe that is too long for the mapper is searched in the slice index")
	} else {
		r.Bad(rule, k2, probes[0].Pos(), "the loader keeps keys that are longer than the mapper's width in the slice only, but Get answers \"absent\" for every probe of that length without searching the slice: a written key is reported absent")
	}
}

// reachesWithout: from b a return is reachable without passing through blk.
func reachesWithout(b, blk *ssa.BasicBlock) bool {
	removed := map[Edge]bool{}
	for _, p := range blk.Preds {
		removed[Edge{p, blk}] = true
	}
	for x := range reachFrom(b, removed) {
		if len(x.Instrs) > 0 {
			if _, isR := x.Instrs[len(x.Instrs)-1].(*ssa.Return); isR && x != blk {
				return true
			}
		}
	}
	return false
}

// ruleCloseKeepsAcknowledged (known finding F-CLOSE-1): when the last rotation fails, Close still holds every acknowledged
// write in the memstore; the log may not (asynchronous WAL: the records were in the writer's buffer, and a buffered writer
// that failed once drops it), or may hold more than it should (a rejected record that could not be taken back).
func ruleCloseKeepsAcknowledged(r *Report) {
	const rule = "close-keeps-acknowledged"
	r.Rule(rule, 1, "in DB.Close the write store reaches the flusher also when the final rotation fails: behind the failure of rotateWalAndFlushMemstore and before the hand-off channel is closed, the memstore is handed over (a send on storeFlushChannel, or the swap that feeds it)")
	cl := r.NeedFunc(rule, "simpledb.DB.Close")
	if cl == nil {
		return
	}
	for _, fn := range closuresOf(cl) {
		rot := CallsIn(fn, Keys("simpledb.DB.rotateWalAndFlushMemstore"))
		var closes []Site
		eachInstr(fn, func(s Site) {
			if c, ok := s.Instr.(*ssa.Call); ok {
				if b, ok := c.Call.Value.(*ssa.Builtin); ok && b.Name() == "close" {
					if _, f, _, ok := loadOfField(c.Call.Args[0]); ok && f == "storeFlushChannel" {
						closes = append(closes, s)
					}
				}
			}
		})
		if len(rot) == 0 || len(closes) == 0 {
			continue
		}
		key := rule + "/" + FuncKey(fn)
		handed := false
		eachInstr(fn, func(s Site) {
			isHandOver := false
			switch x := s.Instr.(type) {
			case *ssa.Send:
				if _, f, _, ok := loadOfField(x.Chan); ok && f == "storeFlushChannel" {
					isHandOver = true
				}
			case *ssa.Call:
				if sc := x.Call.StaticCallee(); sc != nil && inModule(sc) && s != rot[0] {
					for _, g := range append([]*ssa.Function{sc}, moduleReach(r.P, []*ssa.Function{sc})...) {
						eachInstr(g, func(t Site) {
							if sd, ok := t.Instr.(*ssa.Send); ok {
								if _, f, _, ok := loadOfField(sd.Chan); ok && f == "storeFlushChannel" {
									isHandOver = true
								}
							}
						})
					}
				}
			}
			if isHandOver && reachableFromSite(rot[0], s) && reachableFromSite(s, closes[0]) {
				handed = true
			}
		})
		if handed {
			r.OK(rule, key, rot[0].Pos(), "the memstore is handed to the flusher behind a failed rotation as well")
		} else {
			r.Bad(rule, key, rot[0].Pos(), "when the final rotation fails, Close closes the hand-off channel without giving the memstore to the flusher: what the log does not hold is dropped although Close still has it")
		}
		return
	}
	r.Missing(rule, rule+"/simpledb.DB.Close", "the final rotation or the closing of the hand-off channel was not found in Close")
}

// remainingInputTest: fn tests the unread length of the byte source src (bytes.Buffer.Len / bytes.Reader.Len > 0) and
// fails when something is left; returns the testing block.
func remainingInputTest(fn *ssa.Function, src ssa.Value) *ssa.BasicBlock {
	for _, b := range liveBlocks(fn) {
		for _, f := range ifCmpForms(b) {
			if f.Op != token.GTR && f.Op != token.NEQ {
				continue
			}
			if z, isZ := constInt(f.Y); !isZ || z != 0 {
				continue
			}
			c, ok := stripConvert(f.X).(*ssa.Call)
			if !ok || c.Call.StaticCallee() == nil {
				continue
			}
			k := FuncKey(c.Call.StaticCallee())
			if k != "bytes.Buffer.Len" && k != "bytes.Reader.Len" {
				continue
			}
			if len(c.Call.Args) == 1 && (c.Call.Args[0] == src || paramOrigin(c.Call.Args[0]) != nil && paramOrigin(c.Call.Args[0]) == paramOrigin(src)) && endsInFailingReturn(f.T) {
				return b
			}
		}
	}
	return nil
}

// ruleLzwWholeStream: LZW has no framing — the decoder stops at the first end-of-stream code and ignores the rest.
func ruleLzwWholeStream(r *Report, rule string) {
	if _, done := r.RuleText[rule]; !done {
		r.Rule(rule, 2, "the LZW decompressors return their result only after they have checked that the decoder read its whole input: LZW has no framing, bytes behind the first end-of-stream code are silently ignored otherwise")
	}
	o := &order{r, r.P}
	n := 0
	for _, fn := range r.P.FuncsOfPkg("recordio/compressor") {
		if fn.Signature.Recv() == nil || !strings.HasPrefix(fnName(fn), "Decompress") || fn.Parent() != nil {
			continue
		}
		for _, s := range CallsIn(fn, Keys("compress/lzw.NewReader")) {
			n++
			key := uniqKey(r, rule+"/"+FuncKey(fn)+"/whole-stream-consumed")
			src := stripIface(s.Call().Common().Args[0])
			if b := remainingInputTest(fn, src); b != nil {
				dom := true
				for _, nr := range nilReturns(fn) {
					if !dominates(b, nr.Block) {
						dom = false
					}
				}
				if dom {
					r.OK(rule, key, s.Pos(), "the decoder's source is tested for unread bytes before the result is returned")
					continue
				}
			}
			// through a helper that is handed the source
			var checks []Site
			eachInstr(fn, func(t Site) {
				c, ok := t.Instr.(*ssa.Call)
				if !ok || c.Call.StaticCallee() == nil || !inModule(c.Call.StaticCallee()) {
					return
				}
				g := c.Call.StaticCallee()
				for i, a := range c.Call.Args {
					if (a == src || stripIface(a) == src) && i < len(g.Params) && remainingInputTest(g, g.Params[i]) != nil {
						checks = append(checks, t)
					}
				}
			})
			if len(checks) == 0 {
				r.Bad(rule, key, s.Pos(), "the LZW decoder's result is returned without a look at what it left unread: the decoder stops at the first end-of-stream code, so bytes that are not the record's stream (a record header with one flipped continuation bit that still passes its checks shifts the payload) decode to a short plausible result — both readers return 105 bytes that were never written for a 128105 byte record whose compressed length equals the CRC of the re-partitioned header")
				continue
			}
			o.OnlyAfterSuccess(rule, key, fn, "the check for unread input", checks, "returning the decoded bytes", nilReturns(fn), nil)
		}
	}
	if n == 0 {
		r.Missing(rule, rule+"/lzw/whole-stream-consumed", "no LZW decoder found")
	}
}

// ruleLastGroupEmitted: the group that is buffered when the queue runs dry is reduced — whatever its key is.
func ruleLastGroupEmitted(r *Report) {
	const rule = "last-group-emitted"
	r.Rule(rule, 1, "in MergeCompactionIterator.Next, once the queue reports exhaustion the end marker is returned only behind the reduction of the buffered group, or over the \"nothing is buffered\" edge — not depending on a comparison of keys (an exhausted queue hands out a nil key, which compares equal to the empty key)")
	fn := r.NeedFunc(rule, "sstables.MergeCompactionIterator.Next")
	if fn == nil {
		return
	}
	key := rule + "/sstables.MergeCompactionIterator.Next"
	next := CallsIn(fn, Suffix("PriorityQueueI.Next", "PriorityQueue.Next"))
	if len(next) == 0 {
		r.Unk(rule, key, fn.Pos(), "the queue's Next call was not found")
		return
	}
	al := errAliases(next[0])
	removed := map[Edge]bool{}
	var starts []*ssa.BasicBlock
	for _, b := range liveBlocks(fn) {
		if v, g, isS, _, ok := sentinelTest(b); ok && (al[v] || al[stripIface(v)]) && g == "pq.Done" {
			starts = append(starts, isS)
		}
		// on those paths the error is not nil
		if v, nilS, _, ok := nilTest(b); ok && (al[v] || al[stripIface(v)]) {
			removed[Edge{b, nilS}] = true
		}
		// "nothing is buffered"
		for _, f := range ifCmpForms(b) {
			z, isZ := constInt(f.Y)
			if !isZ || z != 0 {
				continue
			}
			c, isC := stripConvert(f.X).(*ssa.Call)
			if !isC {
				continue
			}
			if bi, isB := c.Call.Value.(*ssa.Builtin); !isB || bi.Name() != "len" {
				continue
			}
			if _, fld, _, isF := loadOfField(c.Call.Args[0]); !isF || fld != "valBuf" {
				continue
			}
			switch f.Op {
			case token.EQL, token.LEQ:
				removed[Edge{b, f.T}] = true
			case token.GTR, token.NEQ:
				removed[Edge{b, f.F}] = true
			}
		}
	}
	if len(starts) == 0 {
		r.Unk(rule, key, next[0].Pos(), "no test of the queue's error against pq.Done found")
		return
	}
	// the reduction: the dynamic call of the reduce field, or a helper that makes it
	isReduce := func(c *ssa.Call) bool {
		if _, fld, _, ok := loadOfField(c.Call.Value); ok && fld == "reduce" {
			return true
		}
		return false
	}
	eachInstr(fn, func(s Site) {
		c, ok := s.Instr.(*ssa.Call)
		if !ok {
			return
		}
		hit := isReduce(c)
		if sc := c.Call.StaticCallee(); !hit && sc != nil && inModule(sc) {
			eachInstr(sc, func(t Site) {
				if d, isC := t.Instr.(*ssa.Call); isC && isReduce(d) {
					hit = true
				}
			})
		}
		if hit {
			for _, su := range s.Block.Succs {
				removed[Edge{s.Block, su}] = true
			}
		}
	})
	bad := ""
	for _, st := range starts {
		reach := reachFrom(st, removed)
		for _, rs := range returnsOf(fn) {
			if reach[rs.Block] && returnedSentinel(rs.Block) == "sstables.Done" {
				// a return in a block that holds the reduction itself is behind it
				holds := false
				for _, in := range rs.Block.Instrs {
					if c, ok := in.(*ssa.Call); ok && isReduce(c) {
						holds = true
					}
				}
				if !holds {
					bad = r.P.Pos(rs.Pos())
				}
			}
		}
	}
	if bad != "" {
		r.Bad(rule, key, next[0].Pos(), "with values still buffered the end marker can be returned ("+bad+") without the buffered group having been reduced: whether the last group is emitted depends on something else than \"is anything buffered\" — when it is a comparison of the exhausted queue's nil key with the group's key, a last group with the empty key is dropped (ScanRange(\"\", \"a\") on a stack, a merge of tables that hold only the empty key)")
	} else {
		r.OK(rule, key, next[0].Pos(), "exhaustion reaches the end marker only behind the reduction or over the empty-buffer edge")
	}
}

// ruleDeleteIgnoresTombstoneState: deleting looks at whether the key is in the map, not at what it is mapped to.
func ruleDeleteIgnoresTombstoneState(r *Report) {
	const rule = "delete-ignores-tombstone-state"
	r.Rule(rule, 2, "Delete and DeleteIfExists (with the helpers they call in package memstore) do not branch on whether the stored value is nil: a key that is tombstoned already is present in the map, deleting it again succeeds like the reference map's delete — KeyNotFound is for keys the skip list does not hold")
	for _, k := range []string{"memstore.MemStore.Delete", "memstore.MemStore.DeleteIfExists"} {
		fn := r.NeedFunc(rule, k)
		if fn == nil {
			continue
		}
		key := rule + "/" + k
		bad := ""
		fns := []*ssa.Function{fn}
		for _, g := range moduleReach(r.P, []*ssa.Function{fn}) {
			if pk := fnPkg(g); pk != nil && shortPkg(pk.Path()) == "memstore" && g != fn {
				fns = append(fns, g)
			}
		}
		for _, g := range fns {
			for _, b := range liveBlocks(g) {
				v, _, _, ok := nilTest(b)
				if !ok {
					continue
				}
				if u, isU := v.(*ssa.UnOp); isU && u.Op == token.MUL {
					if _, isCell := valueCellOf(u.X); isCell {
						bad = r.P.Pos(b.Instrs[len(b.Instrs)-1].Pos()) + " in " + FuncKey(g)
						if bad[0] == '-' {
							bad = FuncKey(g)
						}
					}
				}
			}
		}
		if bad != "" {
			r.Bad(rule, key, fn.Pos(), "the delete path tests whether the stored value is nil ("+bad+"): what Delete answers for a key then depends on it being tombstoned already — Delete twice, or Tombstone then Delete, reports KeyNotFound for a key that is in the map")
		} else {
			r.OK(rule, key, fn.Pos(), "no branch on the stored value's nil-ness on the delete path")
		}
	}
}
