package main

import "golang.org/x/tools/go/ssa"

var durAssume = []string{
	"kill -9 model: every completed system call is retained by the file system",
	"the orderings decided here are necessary conditions of the recovery argument; their sufficiency and the enumeration of crash points are not decided",
	"truncation error set of the RecordIO reader = {io.EOF, io.ErrUnexpectedEOF} (io.ReadFull / binary.ReadUvarint contracts)",
}

func init() {
	register("C02",
		"Static must-pass-through analysis (E-ORDER on the SSA control-flow graph, success edge = nil-error successor of the branch testing a call's error) of every ordering the crash-recovery argument rests on: log-before-apply, sync variant by default, write→flush→fsync, header flushed at open, table complete before WAL removal, compaction flag only after the merged table's writer was closed, inputs deleted only after the flag and never after the rename, plus E-TORN (recovery classifies every truncation-class error of the WAL reader as end of log) and the partial-table rule. Decides these orderings on all paths; does not enumerate crash points and does not model the file system.",
		durAssume, func(r *Report) {
			ruleLogBeforeApply(r)
			ruleSyncDefault(r)
			ruleWriteFlushFsync(r)
			ruleHeaderAtOpen(r)
			ruleTableBeforeWalRemove(r)
			ruleFlagAfterClose(r)
			ruleDeleteAfterFlag(r)
			ruleTorn(r)
			ruleShortFileIsTruncation(r)
			rulePartialTable(r)
			ruleNames(r, []string{"sstable-format", "wal-format", "sorted-recovery", "sorted-replay"})
			ruleFlushErrflow(r)
			ruleApplyBeforeRotate(r)
			ruleSwapAfterRotate(r)
			ruleFinishOnlyVerified(r)
			ruleIdempotent(r)
			ruleStagingNameRecognised(r)
			ruleOpenRunsRecovery(r)
			ruleReplayCountsEveryMutation(r)
			c11FlagRules(r)
			ruleRotate(r)
			ruleWalDirAfterFlush(r)
			ruleReaderErrflow(r)
			ruleFreshWalDir(r)
			ruleWalReclaim(r)
			ruleWalkComplete(r)
			ruleWalRemovalOrder(r)
			ruleFinishRenameLast(r)
			ruleWalkSkipsRoot(r)
			ruleByteAPICopies(r)
			ruleSyncFailureRollsBack(r)
			ruleStickyWriteError(r)
			ruleBufferedOrder(r)
		})
	register("C07",
		"Static ordering rules for the WAL: sync append = write + flush + fsync before a nil return (must-pass-through on the CFG), AppendSync uses the fsyncing writer call, rotation closes the old file before creating the next, size check precedes each write, replay sorts the fixed-width file names before reading, and replay classifies every truncation-class reader error as end of log (E-TORN). Decides the orderings on all paths; sequence equality and crash-point enumeration are not decided.",
		durAssume, func(r *Report) {
			ruleWriteFlushFsync(r)
			ruleTornRecordIsNotEOF(r)
			ruleShortFileIsTruncation(r)
			ruleNoMergeDecode(r)
			ruleStickyWriteError(r)
			ruleSyncFailureRollsBack(r)
			ruleBufferedOrder(r)
			ruleSyncDefault(r)
			ruleHeaderAtOpen(r)
			ruleRotate(r)
			ruleTorn(r)
			ruleNames(r, []string{"wal-format", "sorted-replay"})
			ruleWalErrflow(r)
			ruleReaderErrflow(r)
			ruleNoGlob(r)
		})
	register("C10",
		"Static rules for recovery: the WAL directory is removed only after the replayed memstore's table was flushed (or nothing was replayed); every destructive primitive on the path from Open is idempotent or constant-guarded off that path; the rename target is cleared first and later removals exclude it; a second Open accepts what a killed first Open can leave (E-TORN, partial-table). Decides these shapes on all paths; equality of outcomes over nested crash points is not decided.",
		durAssume, func(r *Report) {
			ruleWalDirAfterFlush(r)
			ruleIdempotent(r)
			ruleStagingNameRecognised(r)
			ruleOpenRunsRecovery(r)
			ruleReplayCountsEveryMutation(r)
			ruleDeleteAfterFlag(r)
			ruleTorn(r)
			ruleShortFileIsTruncation(r)
			rulePartialTable(r)
			ruleNames(r, []string{"sorted-recovery", "sorted-replay"})
			ruleFinishOnlyVerified(r)
			ruleTableBeforeWalRemove(r)
			ruleRotate(r)
			ruleReaderErrflow(r)
			ruleFreshWalDir(r)
			ruleNoGlob(r)
			ruleWalkComplete(r)
			ruleWalRemovalOrder(r)
			ruleFinishRenameLast(r)
			ruleWalkSkipsRoot(r)
		})
	register("C13",
		"Static rules for the asynchronous WAL: the buffered append exists only under the option (control dependence), rotation closes (flushes) the old WAL file before the memstore is handed to the flusher, FileWriter.Close flushes before closing, and replay treats an incomplete final record as end of log (E-TORN). Decides these shapes; the prefix property over crash points is not decided.",
		durAssume, func(r *Report) {
			ruleSyncDefault(r)
			ruleRotate(r)
			ruleTorn(r)
			ruleTableBeforeWalRemove(r)
			ruleLogBeforeApply(r)
			ruleApplyBeforeRotate(r)
			ruleReaderErrflow(r)
			ruleHeaderAtOpen(r)
			ruleFreshWalDir(r)
			ruleWalReclaim(r)
			ruleTornRecordIsNotEOF(r)
			ruleShortFileIsTruncation(r)
			ruleReplayCountsEveryMutation(r)
			ruleReplayClosesPerFile(r)
			ruleStagingNameRecognised(r)
			// (what is left of the log after a kill in the middle of its removal must be a suffix, never a prefix)
			ruleWalRemovalOrder(r)
		})
}

// the flush path's error discipline (shared with C11): "returned nil" implies "files flushed, metadata written"
func ruleFlushErrflow(r *Report) {
	if _, done := r.RuleText["write-count"]; !done {
		ruleWriteCount(r)
	}
	r.Rule("flush-errflow", 10, "on the flush path (flushMemstore, stream writer Open/WriteNext/Close, FileWriter Write/Close) no error is dropped or turned into success, so a nil result implies a complete table")
	ef := newErrflow(r, "flush-errflow")
	for _, k := range []string{"memstore.flushMemstore", "sstables.SSTableStreamWriter.Close", "sstables.SSTableStreamWriter.WriteNext", "sstables.SSTableStreamWriter.Open",
		"recordio.FileWriter.Close", "recordio.FileWriter.Write", "recordio.FileWriter.WriteSync", "recordio.Writer.Flush", "recordio.Writer.Write", "simpledb.executeFlush", "simpledb.saveCompactionMetadata"} {
		if fn := r.NeedFunc("flush-errflow", k); fn != nil {
			for _, f := range closuresOf(fn) {
				ef.Check(f)
				ef.CheckDeferPreserve(f)
			}
		}
	}
}

func ruleWalErrflow(r *Report) {
	r.Rule("wal-errflow", 10, "in the WAL appender and replayer no error is dropped or turned into success")
	ef := newErrflow(r, "wal-errflow")
	var fns []*ssa.Function
	for _, fn := range r.P.FuncsOfPkg("wal") {
		fns = append(fns, fn)
	}
	for _, f := range fns {
		ef.Check(f)
		ef.CheckDeferPreserve(f)
	}
}
