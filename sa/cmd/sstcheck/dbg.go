package main

import (
	"fmt"
	"os"

	"golang.org/x/tools/go/ssa"
)

func init() {
	register("DBG", "", nil, func(r *Report) {
		fn := r.P.Func(os.Getenv("DBG_FN"))
		if fn == nil {
			fmt.Println("no such fn")
			return
		}
		fn.WriteTo(os.Stdout)
		eachInstr(fn, func(s Site) {
			if c, ok := s.Instr.(ssa.CallInstruction); ok {
				fmt.Printf("CALL %s -> key=%q callees=", c, CalleeKey(c))
				for _, t := range r.P.Callees(c) {
					fmt.Printf("%s[%s inMod=%v] ", t, FuncKey(t), inModule(t))
				}
				fmt.Println()
			}
		})
	})
}

func init() {
	register("SENT", "debug: sentinel-producible over all packages", nil, func(r *Report) {
		ruleSentinelProducible(r, "simpledb", "sstables", "memstore", "pq", "skiplist", "recordio", "recordio/proto", "wal", "wal/proto")
	})
}

func init() {
	register("ACQ", "debug: acquire-failure-closes over all packages", nil, func(r *Report) {
		ruleAcquireFailureCloses(r, []string{"simpledb", "sstables", "memstore", "recordio", "recordio/proto", "wal", "wal/proto"})
	})
}
