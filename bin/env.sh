# sourced by every script in /verif/bin: offline Go tool chain that accepts /repo's `go 1.25` directive
export GOFLAGS=-mod=mod GOPROXY=off GOSUMDB=off GOTOOLCHAIN=local GOWORK=off CGO_ENABLED=0
for d in /root/go/pkg/mod/golang.org/toolchain@v0.0.1-go1.25.0.linux-amd64/bin /opt/veriftools/go1.26.8/bin; do
  if [ -x "$d/go" ]; then PATH="$d:$PATH"; break; fi
done
export PATH
VERIF_ROOT="$(cd "$(dirname "${BASH_SOURCE[0]}")/.." && pwd)"
export VERIF_ROOT
