// rewriter applies behaviour-preserving source transformations to every non-test Go file of the module in the current
// directory (a scratch worktree of /repo). The self-test uses the results as neutral variants: none of them may change a
// verdict of the checker.
//
//	rewriter renameparams   every parameter and named result p of every function becomes pRn (with all its uses)
//	rewriter renamelocals   every local variable v (:=, var) becomes vLc
//	rewriter swapifelse     if c {A} else {B}  ->  if !(c) {B} else {A}   (plain else blocks only)
//	rewriter hoistcond      if c {…}           ->  cond7 := c; if cond7 {…}   (statements without init, c not an identifier)
//	rewriter earlyelse      if c { return … }; rest…  ->  unchanged order, but with an explicit else around nothing (no-op guard)
package main

import (
	"bytes"
	"fmt"
	"go/ast"
	"go/format"
	"go/token"
	"go/types"
	"os"
	"strings"

	"golang.org/x/tools/go/packages"
)

func main() {
	if len(os.Args) < 2 {
		fmt.Fprintln(os.Stderr, "usage: rewriter <mode>")
		os.Exit(2)
	}
	mode := os.Args[1]
	cfg := &packages.Config{Mode: packages.LoadSyntax, Tests: false}
	pkgs, err := packages.Load(cfg, "./...")
	if err != nil {
		fmt.Fprintln(os.Stderr, err)
		os.Exit(1)
	}
	changed := 0
	for _, pk := range pkgs {
		if len(pk.Errors) > 0 {
			fmt.Fprintln(os.Stderr, pk.Errors[0])
			os.Exit(1)
		}
		for i, f := range pk.Syntax {
			name := pk.CompiledGoFiles[i]
			if strings.HasSuffix(name, "_test.go") || strings.HasSuffix(name, ".pb.go") || strings.Contains(name, "_examples") || strings.Contains(name, "kaitai/gokaitai") {
				continue
			}
			n := 0
			switch mode {
			case "renameparams":
				n = renameObjs(pk, f, true)
			case "renamelocals":
				n = renameObjs(pk, f, false)
			case "swapifelse":
				n = swapIfElse(f)
			case "hoistcond":
				n = hoistCond(pk, f)
			default:
				fmt.Fprintln(os.Stderr, "unknown mode", mode)
				os.Exit(2)
			}
			if n == 0 {
				continue
			}
			var buf bytes.Buffer
			if err := format.Node(&buf, pk.Fset, f); err != nil {
				fmt.Fprintln(os.Stderr, name, err)
				os.Exit(1)
			}
			if err := os.WriteFile(name, buf.Bytes(), 0644); err != nil {
				fmt.Fprintln(os.Stderr, err)
				os.Exit(1)
			}
			changed += n
		}
	}
	fmt.Println("rewrites:", changed)
}

// renameObjs renames parameters / named results (params=true) or other local variables (params=false) of all functions.
func renameObjs(pk *packages.Package, f *ast.File, params bool) int {
	isParam := map[types.Object]bool{}
	ast.Inspect(f, func(n ast.Node) bool {
		var ft *ast.FuncType
		switch x := n.(type) {
		case *ast.FuncDecl:
			ft = x.Type
		case *ast.FuncLit:
			ft = x.Type
		}
		if ft == nil {
			return true
		}
		for _, fl := range []*ast.FieldList{ft.Params, ft.Results} {
			if fl == nil {
				continue
			}
			for _, fld := range fl.List {
				for _, id := range fld.Names {
					if o := pk.TypesInfo.Defs[id]; o != nil {
						isParam[o] = true
					}
				}
			}
		}
		return true
	})
	suffix := "Lc"
	if params {
		suffix = "Rn"
	}
	implicit := map[types.Object]bool{}
	for _, o := range pk.TypesInfo.Implicits {
		implicit[o] = true // the per-clause variables of `switch u := x.(type)`: their declaring identifier has no object
	}
	want := func(o types.Object) bool {
		if implicit[o] {
			return false
		}
		v, ok := o.(*types.Var)
		if !ok || v.IsField() || o.Name() == "_" || o.Parent() == nil || o.Parent() == pk.Types.Scope() || o.Pkg() != pk.Types {
			return false
		}
		// the receiver keeps its name (it is part of how the code reads, and not what is being probed)
		return isParam[o] == params
	}
	recv := map[types.Object]bool{}
	ast.Inspect(f, func(n ast.Node) bool {
		if fd, ok := n.(*ast.FuncDecl); ok && fd.Recv != nil {
			for _, fld := range fd.Recv.List {
				for _, id := range fld.Names {
					if o := pk.TypesInfo.Defs[id]; o != nil {
						recv[o] = true
					}
				}
			}
		}
		return true
	})
	n := 0
	ast.Inspect(f, func(nd ast.Node) bool {
		id, ok := nd.(*ast.Ident)
		if !ok {
			return true
		}
		o := pk.TypesInfo.Defs[id]
		if o == nil {
			o = pk.TypesInfo.Uses[id]
		}
		if o == nil || recv[o] || !want(o) {
			return true
		}
		id.Name = id.Name + suffix
		n++
		return true
	})
	return n
}

func swapIfElse(f *ast.File) int {
	n := 0
	ast.Inspect(f, func(nd ast.Node) bool {
		is, ok := nd.(*ast.IfStmt)
		if !ok || is.Else == nil {
			return true
		}
		eb, ok := is.Else.(*ast.BlockStmt)
		if !ok {
			return true // else-if chains stay
		}
		is.Cond = &ast.UnaryExpr{Op: token.NOT, X: &ast.ParenExpr{X: is.Cond}}
		is.Body, is.Else = eb, is.Body
		n++
		return true
	})
	return n
}

func hoistCond(pk *packages.Package, f *ast.File) int {
	n := 0
	var rewriteList func(list []ast.Stmt) []ast.Stmt
	rewriteList = func(list []ast.Stmt) []ast.Stmt {
		var out []ast.Stmt
		for _, st := range list {
			if is, ok := st.(*ast.IfStmt); ok && is.Init == nil {
				if _, isIdent := is.Cond.(*ast.Ident); !isIdent {
					n++
					name := fmt.Sprintf("cond%d", n)
					out = append(out, &ast.AssignStmt{Lhs: []ast.Expr{ast.NewIdent(name)}, Tok: token.DEFINE, Rhs: []ast.Expr{is.Cond}})
					is.Cond = ast.NewIdent(name)
				}
			}
			out = append(out, st)
		}
		return out
	}
	ast.Inspect(f, func(nd ast.Node) bool {
		switch x := nd.(type) {
		case *ast.BlockStmt:
			x.List = rewriteList(x.List)
		case *ast.CaseClause:
			x.Body = rewriteList(x.Body)
		case *ast.CommClause:
			x.Body = rewriteList(x.Body)
		}
		return true
	})
	_ = pk
	return n
}
