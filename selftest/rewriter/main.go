// rewriter applies behaviour-preserving source transformations to every non-test Go file of the module in the current
// directory (a scratch worktree of /repo). The self-test uses the results as neutral variants: none of them may change a
// verdict of the checker.
//
//	rewriter renameparams   every parameter and named result p of every function becomes pRn (with all its uses)
//	rewriter renamelocals   every local variable v (:=, var) becomes vLc
//	rewriter swapifelse     if c {A} else {B}  ->  if !(c) {B} else {A}   (plain else blocks only)
//	rewriter hoistcond      if c {…}           ->  cond7 := c; if cond7 {…}   (statements without init, c not an identifier)
//	rewriter delegate       func (r T) M(a A) R {body}  ->  func (r T) M(a A) R { return r.MImpl(a) } + func (r T) MImpl(a A) R {body}
//	rewriter rangeindex     for i, v := range xs {…}  ->  for i := 0; i < len(xs); i++ { v := xs[i]; … }   (slices the body does not assign)
//	rewriter tailerr        if err != nil { return err }; return nil  ->  return err      (functions whose only result is the error)
//	rewriter expanderr      return f(x)  ->  errX := f(x); if errX != nil { return errX }; return nil   (same functions)
//	rewriter renamefuncs    every unexported function and method f becomes fHlp (not those that implement an interface method)
//	rewriter renamefields   every unexported, not embedded struct field f becomes fFld
//	rewriter renametypes    every unexported named type t becomes tTyp
//	rewriter earlyelse      if c { return … }; rest…  ->  unchanged order, but with an explicit else around nothing (no-op guard)
package main

import (
	"bytes"
	"fmt"
	"go/ast"
	"go/format"
	"go/token"
	"go/types"
	"os"
	"strings"

	"golang.org/x/tools/go/packages"
)

func main() {
	if len(os.Args) < 2 {
		fmt.Fprintln(os.Stderr, "usage: rewriter <mode>")
		os.Exit(2)
	}
	mode := os.Args[1]
	cfg := &packages.Config{Mode: packages.LoadSyntax, Tests: false}
	pkgs, err := packages.Load(cfg, "./...")
	if err != nil {
		fmt.Fprintln(os.Stderr, err)
		os.Exit(1)
	}
	changed := 0
	for _, pk := range pkgs {
		if len(pk.Errors) > 0 {
			fmt.Fprintln(os.Stderr, pk.Errors[0])
			os.Exit(1)
		}
		for i, f := range pk.Syntax {
			name := pk.CompiledGoFiles[i]
			if strings.HasSuffix(name, "_test.go") || strings.HasSuffix(name, ".pb.go") || strings.Contains(name, "_examples") || strings.Contains(name, "kaitai/gokaitai") {
				continue
			}
			n := 0
			switch mode {
			case "renameparams":
				n = renameObjs(pk, f, true)
			case "renamelocals":
				n = renameObjs(pk, f, false)
			case "swapifelse":
				n = swapIfElse(f)
			case "hoistcond":
				n = hoistCond(pk, f)
			case "delegate":
				n = delegate(pk, f)
			case "rangeindex":
				n = rangeIndex(pk, f)
			case "renamefuncs":
				n = renameFuncs(pkgs, pk, f)
			case "renamefields":
				n = renameFields(pk, f)
			case "renametypes":
				n = renameTypes(pk, f)
			case "tailerr":
				n = tailErr(pk, f, false)
			case "expanderr":
				n = tailErr(pk, f, true)
			default:
				fmt.Fprintln(os.Stderr, "unknown mode", mode)
				os.Exit(2)
			}
			if n == 0 {
				continue
			}
			var buf bytes.Buffer
			if err := format.Node(&buf, pk.Fset, f); err != nil {
				fmt.Fprintln(os.Stderr, name, err)
				os.Exit(1)
			}
			if err := os.WriteFile(name, buf.Bytes(), 0644); err != nil {
				fmt.Fprintln(os.Stderr, err)
				os.Exit(1)
			}
			changed += n
		}
	}
	fmt.Println("rewrites:", changed)
}

// renameObjs renames parameters / named results (params=true) or other local variables (params=false) of all functions.
func renameObjs(pk *packages.Package, f *ast.File, params bool) int {
	isParam := map[types.Object]bool{}
	ast.Inspect(f, func(n ast.Node) bool {
		var ft *ast.FuncType
		switch x := n.(type) {
		case *ast.FuncDecl:
			ft = x.Type
		case *ast.FuncLit:
			ft = x.Type
		}
		if ft == nil {
			return true
		}
		for _, fl := range []*ast.FieldList{ft.Params, ft.Results} {
			if fl == nil {
				continue
			}
			for _, fld := range fl.List {
				for _, id := range fld.Names {
					if o := pk.TypesInfo.Defs[id]; o != nil {
						isParam[o] = true
					}
				}
			}
		}
		return true
	})
	suffix := "Lc"
	if params {
		suffix = "Rn"
	}
	implicit := map[types.Object]bool{}
	for _, o := range pk.TypesInfo.Implicits {
		implicit[o] = true // the per-clause variables of `switch u := x.(type)`: their declaring identifier has no object
	}
	want := func(o types.Object) bool {
		if implicit[o] {
			return false
		}
		v, ok := o.(*types.Var)
		if !ok || v.IsField() || o.Name() == "_" || o.Parent() == nil || o.Parent() == pk.Types.Scope() || o.Pkg() != pk.Types {
			return false
		}
		// the receiver keeps its name (it is part of how the code reads, and not what is being probed)
		return isParam[o] == params
	}
	recv := map[types.Object]bool{}
	ast.Inspect(f, func(n ast.Node) bool {
		if fd, ok := n.(*ast.FuncDecl); ok && fd.Recv != nil {
			for _, fld := range fd.Recv.List {
				for _, id := range fld.Names {
					if o := pk.TypesInfo.Defs[id]; o != nil {
						recv[o] = true
					}
				}
			}
		}
		return true
	})
	n := 0
	ast.Inspect(f, func(nd ast.Node) bool {
		id, ok := nd.(*ast.Ident)
		if !ok {
			return true
		}
		o := pk.TypesInfo.Defs[id]
		if o == nil {
			o = pk.TypesInfo.Uses[id]
		}
		if o == nil || recv[o] || !want(o) {
			return true
		}
		id.Name = id.Name + suffix
		n++
		return true
	})
	return n
}

func swapIfElse(f *ast.File) int {
	n := 0
	ast.Inspect(f, func(nd ast.Node) bool {
		is, ok := nd.(*ast.IfStmt)
		if !ok || is.Else == nil {
			return true
		}
		eb, ok := is.Else.(*ast.BlockStmt)
		if !ok {
			return true // else-if chains stay
		}
		is.Cond = &ast.UnaryExpr{Op: token.NOT, X: &ast.ParenExpr{X: is.Cond}}
		is.Body, is.Else = eb, is.Body
		n++
		return true
	})
	return n
}

func hoistCond(pk *packages.Package, f *ast.File) int {
	n := 0
	var rewriteList func(list []ast.Stmt) []ast.Stmt
	rewriteList = func(list []ast.Stmt) []ast.Stmt {
		var out []ast.Stmt
		for _, st := range list {
			if is, ok := st.(*ast.IfStmt); ok && is.Init == nil {
				if _, isIdent := is.Cond.(*ast.Ident); !isIdent {
					n++
					name := fmt.Sprintf("cond%d", n)
					out = append(out, &ast.AssignStmt{Lhs: []ast.Expr{ast.NewIdent(name)}, Tok: token.DEFINE, Rhs: []ast.Expr{is.Cond}})
					is.Cond = ast.NewIdent(name)
				}
			}
			out = append(out, st)
		}
		return out
	}
	ast.Inspect(f, func(nd ast.Node) bool {
		switch x := nd.(type) {
		case *ast.BlockStmt:
			x.List = rewriteList(x.List)
		case *ast.CaseClause:
			x.Body = rewriteList(x.Body)
		case *ast.CommClause:
			x.Body = rewriteList(x.Body)
		}
		return true
	})
	_ = pk
	return n
}

// delegate outlines every function body into a sibling <name>Impl and leaves a pure forwarder under the old name.
func delegate(pk *packages.Package, f *ast.File) int {
	n := 0
	var add []ast.Decl
	for _, d := range f.Decls {
		fd, ok := d.(*ast.FuncDecl)
		if !ok || fd.Body == nil || fd.Name.Name == "init" || fd.Name.Name == "main" || fd.Type.TypeParams != nil {
			continue
		}
		okParams := true
		var args []ast.Expr
		variadic := false
		for _, fld := range fd.Type.Params.List {
			if len(fld.Names) == 0 {
				okParams = false
			}
			for _, id := range fld.Names {
				if id.Name == "_" {
					okParams = false
				}
				args = append(args, ast.NewIdent(id.Name))
			}
			if _, ok := fld.Type.(*ast.Ellipsis); ok {
				variadic = true
			}
		}
		if !okParams {
			continue
		}
		var fun ast.Expr
		implName := fd.Name.Name + "Impl"
		if fd.Recv != nil {
			if len(fd.Recv.List) != 1 || len(fd.Recv.List[0].Names) != 1 || fd.Recv.List[0].Names[0].Name == "_" {
				continue
			}
			// methods of generic types keep their shape
			generic := false
			ast.Inspect(fd.Recv.List[0].Type, func(x ast.Node) bool {
				switch x.(type) {
				case *ast.IndexExpr, *ast.IndexListExpr:
					generic = true
				}
				return true
			})
			if generic {
				continue
			}
			fun = &ast.SelectorExpr{X: ast.NewIdent(fd.Recv.List[0].Names[0].Name), Sel: ast.NewIdent(implName)}
		} else {
			if pk.Types.Scope().Lookup(implName) != nil {
				continue
			}
			fun = ast.NewIdent(implName)
		}
		call := &ast.CallExpr{Fun: fun, Args: args}
		if variadic {
			call.Ellipsis = 1
		}
		impl := &ast.FuncDecl{Recv: fd.Recv, Name: ast.NewIdent(implName), Type: fd.Type, Body: fd.Body}
		var st ast.Stmt = &ast.ExprStmt{X: call}
		if fd.Type.Results != nil && len(fd.Type.Results.List) > 0 {
			st = &ast.ReturnStmt{Results: []ast.Expr{call}}
		}
		fd.Body = &ast.BlockStmt{List: []ast.Stmt{st}}
		fd.Doc = nil
		add = append(add, impl)
		n++
	}
	f.Decls = append(f.Decls, add...)
	return n
}

// rangeIndex turns range loops over slices into index loops.
func rangeIndex(pk *packages.Package, f *ast.File) int {
	n := 0
	exprStr := func(e ast.Expr) string {
		var b bytes.Buffer
		_ = format.Node(&b, pk.Fset, e)
		return b.String()
	}
	pure := func(e ast.Expr) bool {
		for {
			switch x := e.(type) {
			case *ast.Ident:
				_, isVar := pk.TypesInfo.Uses[x].(*types.Var)
				return isVar
			case *ast.SelectorExpr:
				if sel := pk.TypesInfo.Selections[x]; sel == nil || sel.Kind() != types.FieldVal {
					return false
				}
				e = x.X
			default:
				return false
			}
		}
	}
	var rewrite func(st ast.Stmt) ast.Stmt
	rewrite = func(st ast.Stmt) ast.Stmt {
		rs, ok := st.(*ast.RangeStmt)
		if !ok || (rs.Key != nil && rs.Tok != token.DEFINE) || !pure(rs.X) {
			return st
		}
		tv, ok := pk.TypesInfo.Types[rs.X]
		if !ok {
			return st
		}
		if _, isSlice := tv.Type.Underlying().(*types.Slice); !isSlice {
			return st
		}
		xs := exprStr(rs.X)
		root := xs
		if i := strings.Index(root, "."); i >= 0 {
			root = root[:i]
		}
		keyName := ""
		if id, ok := rs.Key.(*ast.Ident); ok && id.Name != "_" {
			keyName = id.Name
		}
		bad := false
		ast.Inspect(rs.Body, func(x ast.Node) bool {
			switch y := x.(type) {
			case *ast.AssignStmt:
				for _, l := range y.Lhs {
					ls := exprStr(l)
					if ls == xs || ls == root || ls == keyName || strings.HasPrefix(xs, ls+".") {
						bad = true
					}
				}
			case *ast.IncDecStmt:
				if exprStr(y.X) == keyName {
					bad = true
				}
			case *ast.UnaryExpr:
				if y.Op == token.AND && (exprStr(y.X) == keyName || exprStr(y.X) == xs) {
					bad = true
				}
			case *ast.FuncLit:
				bad = true // captured loop variables: leave alone
			}
			return true
		})
		if bad {
			return st
		}
		n++
		idx := keyName
		if idx == "" {
			idx = fmt.Sprintf("ri%d", n)
		}
		body := rs.Body
		if id, ok := rs.Value.(*ast.Ident); ok && id.Name != "_" {
			decl := &ast.AssignStmt{Lhs: []ast.Expr{ast.NewIdent(id.Name)}, Tok: token.DEFINE, Rhs: []ast.Expr{&ast.IndexExpr{X: rs.X, Index: ast.NewIdent(idx)}}}
			body = &ast.BlockStmt{List: append([]ast.Stmt{decl}, rs.Body.List...)}
		} else if rs.Value != nil {
			if _, isId := rs.Value.(*ast.Ident); !isId {
				n--
				return st
			}
		}
		return &ast.ForStmt{
			Init: &ast.AssignStmt{Lhs: []ast.Expr{ast.NewIdent(idx)}, Tok: token.DEFINE, Rhs: []ast.Expr{&ast.BasicLit{Kind: token.INT, Value: "0"}}},
			Cond: &ast.BinaryExpr{X: ast.NewIdent(idx), Op: token.LSS, Y: &ast.CallExpr{Fun: ast.NewIdent("len"), Args: []ast.Expr{rs.X}}},
			Post: &ast.IncDecStmt{X: ast.NewIdent(idx), Tok: token.INC},
			Body: body,
		}
	}
	rewriteList := func(list []ast.Stmt) {
		for i, st := range list {
			if ls, ok := st.(*ast.LabeledStmt); ok {
				_ = ls // labelled loops stay: break/continue targets
				continue
			}
			list[i] = rewrite(st)
		}
	}
	ast.Inspect(f, func(nd ast.Node) bool {
		switch x := nd.(type) {
		case *ast.BlockStmt:
			rewriteList(x.List)
		case *ast.CaseClause:
			rewriteList(x.Body)
		case *ast.CommClause:
			rewriteList(x.Body)
		}
		return true
	})
	return n
}

// tailErr rewrites the tail of functions with a single error result between `return err` and the spelled-out test.
func tailErr(pk *packages.Package, f *ast.File, expand bool) int {
	n := 0
	isErrFunc := func(ft *ast.FuncType) bool {
		if ft.Results == nil || len(ft.Results.List) != 1 || len(ft.Results.List[0].Names) > 1 {
			return false
		}
		id, ok := ft.Results.List[0].Type.(*ast.Ident)
		return ok && id.Name == "error"
	}
	isNil := func(e ast.Expr) bool {
		id, ok := e.(*ast.Ident)
		return ok && id.Name == "nil"
	}
	var doBody func(body *ast.BlockStmt)
	doBody = func(body *ast.BlockStmt) {
		l := body.List
		if expand {
			if len(l) == 0 {
				return
			}
			ret, ok := l[len(l)-1].(*ast.ReturnStmt)
			if !ok || len(ret.Results) != 1 {
				return
			}
			call, ok := ret.Results[0].(*ast.CallExpr)
			if !ok {
				return
			}
			if tv, ok := pk.TypesInfo.Types[call]; !ok || tv.Type.String() != "error" {
				return
			}
			n++
			name := fmt.Sprintf("errT%d", n)
			body.List = append(l[:len(l)-1:len(l)-1],
				&ast.AssignStmt{Lhs: []ast.Expr{ast.NewIdent(name)}, Tok: token.DEFINE, Rhs: []ast.Expr{call}},
				&ast.IfStmt{Cond: &ast.BinaryExpr{X: ast.NewIdent(name), Op: token.NEQ, Y: ast.NewIdent("nil")}, Body: &ast.BlockStmt{List: []ast.Stmt{&ast.ReturnStmt{Results: []ast.Expr{ast.NewIdent(name)}}}}},
				&ast.ReturnStmt{Results: []ast.Expr{ast.NewIdent("nil")}})
			return
		}
		if len(l) < 2 {
			return
		}
		ret, ok := l[len(l)-1].(*ast.ReturnStmt)
		if !ok || len(ret.Results) != 1 || !isNil(ret.Results[0]) {
			return
		}
		is, ok := l[len(l)-2].(*ast.IfStmt)
		if !ok || is.Init != nil || is.Else != nil || len(is.Body.List) != 1 {
			return
		}
		be, ok := is.Cond.(*ast.BinaryExpr)
		if !ok || be.Op != token.NEQ || !isNil(be.Y) {
			return
		}
		eid, ok := be.X.(*ast.Ident)
		if !ok {
			return
		}
		r2, ok := is.Body.List[0].(*ast.ReturnStmt)
		if !ok || len(r2.Results) != 1 {
			return
		}
		rid, ok := r2.Results[0].(*ast.Ident)
		if !ok || rid.Name != eid.Name {
			return
		}
		if tv, ok := pk.TypesInfo.Types[be.X]; !ok || tv.Type.String() != "error" {
			return
		}
		n++
		body.List = append(l[:len(l)-2:len(l)-2], &ast.ReturnStmt{Results: []ast.Expr{ast.NewIdent(eid.Name)}})
	}
	ast.Inspect(f, func(nd ast.Node) bool {
		switch x := nd.(type) {
		case *ast.FuncDecl:
			if x.Body != nil && isErrFunc(x.Type) {
				doBody(x.Body)
			}
		case *ast.FuncLit:
			if isErrFunc(x.Type) {
				doBody(x.Body)
			}
		}
		return true
	})
	return n
}

var ifaceMethodNames map[string]bool

// renameFuncs renames the unexported functions and methods of the module.
func renameFuncs(pkgs []*packages.Package, pk *packages.Package, f *ast.File) int {
	if ifaceMethodNames == nil {
		ifaceMethodNames = map[string]bool{}
		for _, q := range pkgs {
			for _, o := range q.TypesInfo.Defs {
				tn, ok := o.(*types.TypeName)
				if !ok {
					continue
				}
				if it, ok := tn.Type().Underlying().(*types.Interface); ok {
					for i := 0; i < it.NumMethods(); i++ {
						ifaceMethodNames[it.Method(i).Name()] = true
					}
				}
			}
		}
	}
	n := 0
	ast.Inspect(f, func(nd ast.Node) bool {
		id, ok := nd.(*ast.Ident)
		if !ok {
			return true
		}
		o := pk.TypesInfo.Defs[id]
		if o == nil {
			o = pk.TypesInfo.Uses[id]
		}
		fn, ok := o.(*types.Func)
		if !ok || fn.Pkg() == nil || fn.Exported() || fn.Name() == "init" || fn.Name() == "main" || fn.Name() == "_" {
			return true
		}
		if !strings.HasPrefix(fn.Pkg().Path(), "github.com/thomasjungblut/go-sstables") {
			return true
		}
		if ifaceMethodNames[fn.Name()] {
			return true
		}
		// generated code keeps its names
		if pos := pk.Fset.Position(fn.Pos()); strings.HasSuffix(pos.Filename, ".pb.go") || strings.Contains(pos.Filename, "kaitai/gokaitai") || strings.Contains(pos.Filename, "_examples") {
			return true
		}
		id.Name = id.Name + "Hlp"
		n++
		return true
	})
	return n
}

// renameFields renames the unexported struct fields of the module (embedded fields keep the name of their type).
func renameFields(pk *packages.Package, f *ast.File) int {
	n := 0
	ast.Inspect(f, func(nd ast.Node) bool {
		id, ok := nd.(*ast.Ident)
		if !ok {
			return true
		}
		o := pk.TypesInfo.Defs[id]
		if o == nil {
			o = pk.TypesInfo.Uses[id]
		}
		v, ok := o.(*types.Var)
		if !ok || !v.IsField() || v.Embedded() || v.Exported() || v.Pkg() == nil || v.Name() == "_" {
			return true
		}
		if !strings.HasPrefix(v.Pkg().Path(), "github.com/thomasjungblut/go-sstables") {
			return true
		}
		if pos := pk.Fset.Position(v.Pos()); strings.HasSuffix(pos.Filename, ".pb.go") || strings.Contains(pos.Filename, "kaitai/gokaitai") || strings.Contains(pos.Filename, "_examples") {
			return true
		}
		id.Name = id.Name + "Fld"
		n++
		return true
	})
	return n
}

// renameTypes renames the unexported named types of the module.
func renameTypes(pk *packages.Package, f *ast.File) int {
	n := 0
	ast.Inspect(f, func(nd ast.Node) bool {
		id, ok := nd.(*ast.Ident)
		if !ok {
			return true
		}
		o := pk.TypesInfo.Defs[id]
		if o == nil {
			o = pk.TypesInfo.Uses[id]
		}
		tn, ok := o.(*types.TypeName)
		if !ok || tn.Exported() || tn.Pkg() == nil || tn.Parent() != tn.Pkg().Scope() {
			return true
		}
		if !strings.HasPrefix(tn.Pkg().Path(), "github.com/thomasjungblut/go-sstables") {
			return true
		}
		if pos := pk.Fset.Position(tn.Pos()); strings.HasSuffix(pos.Filename, ".pb.go") || strings.Contains(pos.Filename, "kaitai/gokaitai") || strings.Contains(pos.Filename, "_examples") {
			return true
		}
		id.Name = id.Name + "Typ"
		n++
		return true
	})
	return n
}
