#!/usr/bin/env python3
"""Writes selftest/revert/<defect>.diff = the patch that re-introduces each repaired defect on today's HEAD of /repo
(git revert --no-commit of its `fix:` commit(s) in a scratch worktree outside /repo and /verif, then git diff), with the
properties whose checks must report the re-introduced defect."""
import subprocess, json, os, tempfile, shutil
commits = subprocess.run(["git","-C","/repo","log","--format=%h %s"],capture_output=True,text=True).stdout.splitlines()
m = {"merge iterator adapter":("D5",["C11","C08"]), "MergeCompact returns":("D6",["C11","C08"]), "WAL replay treats":("D4-D14",["C02","C07","C10","C13"]),
 "close the merged table":("D8",["C02","C06"]), "SkipNext honours":("D2",["C04"]), "SeekNext advances":("D1",["C04"]), "DiskKeyIndex.IteratorBetween":("D12b",["C03"]),
 "stream writer commits":("D11",["C15"]), "merge iterator no longer":("D7",["C08","C06"]), "PutBytes/DeleteBytes validate":("D10",["C17"]),
 "compaction keeps tombstones":("D9",["C06","C01"]), "Kaitai v4 schema":("D3",["C20"]),
 "removes every WAL file":("D15",["C01","C02","C13","C17"]), "compacting tables without records":("D16",["C01","C06"]),
 "flushed into a temporary directory":("D13",["C02","C10"]),
 "over-long varint":("D17",["C12","C04","C09"]),
 "disk index binary search no longer":("D18",["C03"]), "SeekNext skips a marker":("D19",["C04","C03"]),
 "removes the WAL files oldest first":("D20",["C10","C02"]),
 "memstore rejects a nil key":("D21",["C14"]), "checks the compression type before":("D22",["C20"]),
 "releases the descriptor even when":("D23",["C19"]), "really stops the process":("D24",["C11"]),
 "finishes the shutdown when":("D25",["C19"]), "renames the merged table last":("D26",["C02","C10","C06"]),
 "take the database folder itself":("D27",["C01","C02","C10","C17"]), "a Put that returns an error":("D28",["C17"]),
 "writers truncate the files":("D29",["C15","C14"]), "any over-long varint":("D30",["C12"]),
 "payload was cut off":("D31",["C04","C12"]), "zero-padded end":("D32",["C04"]), "never hands the caller":("D33",["C04"]),
 "length of a decompressed record":("D34",["C09","C04"]), "checksum that means":("D35",["C09","C03"]),
 "only trusts a hit":("D36",["C03"]), "truncates its zero padding":("D37",["C20","C04"]),
 "cannot make progress with":("D38",["C01"]), "does not share its slices":("D39",["C17","C02","C05","C18"]),
 "keeps only the file it is replaying":("D40",["C19","C13"]),
 "without a buffer reports an error":("D33a",["C04"]), "closed table reader refuses":("D41",["C19"]), "checked for plausibility":("D42",["C04","C12","C18"]),
 "cannot be created leaves nothing open":("D43a",["C19"]), "closes the writer it opened":("D43b",["C19"]), "release their handles when they fail":("D43c",["C19"]), "without a selected table does nothing":("D44",["C01","C06"]),
 "could not read its flag":("D45",["C02","C10"]), "cannot map":("D46",["C03"]), "because the data file ends is an error":("D47",["C11"]), "fsync failed is taken back":("D48",["C17","C02"]),
 "does not signal that it is done":("D49",["C11","C01","C19"]), "whose Open fails releases":("D50",["C19"]), "no slice can have are rejected":("D51",["C01"]),
 "gets a buffer of whole blocks":("D52",["C04"]), "cut off is not the end of the records":("D53",["C20","C12","C07","C13"]),
 "legacy random-access readers check":("D54",["C04","C18","C03"]), "could not be taken back stops the log":("D55",["C07","C17","C02"]),
 "keeps returning that error":("D56",["C09","C11","C08","C16"]),
 "too long for its mapper in the slice":("D57",["C03"]),
 "goes on behind the end of its stream":("D58",["C12","C04","C03"])}
# a later fix: commit that refines an earlier one has to be reverted together with it (newest first)
also = {"D24": ["no slice can have are rejected", "does not signal that it is done"], "D48": ["could not be taken back stops the log"], "D36": ["too long for its mapper in the slice", "cannot map"], "D46": ["too long for its mapper in the slice"], "D20": ["could not read its flag"], "D15": ["WAL sweep after a flush stays inside"], "D17": ["any over-long varint"], "D31": ["zero-padded end"], "D13": ["take the database folder itself"], "D10": ["does not share its slices", "a Put that returns an error"], "D4-D14": ["keeps only the file it is replaying"], "D19": ["checked for plausibility"], "D34": ["legacy random-access readers check", "checks older formats", "checked for plausibility"], "D42": ["legacy random-access readers check", "checks older formats"], "D9": ["release their handles when they fail"], "D19": ["legacy random-access readers check", "checks older formats", "checked for plausibility"]}
out = os.path.join(os.path.dirname(os.path.abspath(__file__)), "revert")
os.makedirs(out, exist_ok=True)
for f in os.listdir(out):
    if f.endswith(".diff"): os.remove(os.path.join(out, f))
idx = []
def find(sub):
    for c in commits:
        h, s = c.split(" ", 1)
        if s.startswith("fix:") and sub in s: return h
    return None
for k, (name, props) in m.items():
    h = find(k)
    if not h: continue
    chain = [find(x) for x in also.get(name, [])] + [h]
    chain = [c for c in chain if c]
    wt = tempfile.mkdtemp(prefix="revwt.", dir="/tmp"); os.rmdir(wt)
    subprocess.run(["git","-C","/repo","worktree","add","-q","--detach",wt,"HEAD"],check=True)
    try:
        ok = True
        for c in chain:
            r = subprocess.run(["git","-C",wt,"revert","--no-commit",c],capture_output=True,text=True)
            if r.returncode != 0:
                ok = False; print("cannot revert", name, c, r.stderr[:200]); break
        if ok:
            d = subprocess.run(["git","-C",wt,"diff","HEAD"],capture_output=True,text=True).stdout
            open(os.path.join(out, name+".diff"), "w").write(d)
            idx.append({"name": name, "properties": props, "reverts": chain})
    finally:
        subprocess.run(["git","-C","/repo","worktree","remove","--force",wt],capture_output=True)
json.dump({"patches": idx}, open(os.path.join(out, "INDEX.json"), "w"), indent=1)
print(len(idx), "revert patches")
