#!/usr/bin/env python3
"""Writes selftest/revert/<defect>.diff = reverse of each `fix:` commit of /repo, with the properties whose checks
must report the re-introduced defect."""
import subprocess, json, os
commits = subprocess.run(["git","-C","/repo","log","--format=%h %s"],capture_output=True,text=True).stdout.splitlines()
m = {"merge iterator adapter":("D5",["C11","C08"]), "MergeCompact returns":("D6",["C11","C08"]), "WAL replay treats":("D4-D14",["C02","C07","C10","C13"]),
 "close the merged table":("D8",["C02","C06"]), "SkipNext honours":("D2",["C04"]), "SeekNext advances":("D1",["C04"]), "DiskKeyIndex.IteratorBetween":("D12b",["C03"]),
 "stream writer commits":("D11",["C15"]), "merge iterator no longer":("D7",["C08","C06"]), "PutBytes/DeleteBytes validate":("D10",["C17"]),
 "compaction keeps tombstones":("D9",["C06","C01"]), "Kaitai v4 schema":("D3",["C20"]),
 "removes every WAL file":("D15",["C01","C02","C13","C17"]), "compacting tables without records":("D16",["C01","C06"]),
 "flushed into a temporary directory":("D13",["C02","C10"])}
out = os.path.join(os.path.dirname(os.path.abspath(__file__)), "revert")
os.makedirs(out, exist_ok=True)
idx = []
for c in commits:
    h, s = c.split(" ", 1)
    if not s.startswith("fix:"): continue
    for k, (name, props) in m.items():
        if k in s:
            d = subprocess.run(["git","-C","/repo","diff",h,h+"^"],capture_output=True,text=True).stdout
            open(os.path.join(out, name+".diff"), "w").write(d)
            idx.append({"name": name, "properties": props, "reverts": h})
json.dump({"patches": idx}, open(os.path.join(out, "INDEX.json"), "w"), indent=1)
print(len(idx), "revert patches")
